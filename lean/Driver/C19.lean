import BufModel.Token
import Driver.Util
/-
  Line protocol for C19 (credentials only reach their registry).  Fields are TAB-separated,
  arbitrary strings hex-encoded ("-" = empty), lists are ","-joined hex items.

    tok   <flag 0|1> <hex BUF_TOKEN> <hosts>           -> err <tag> | ok <nop|single|multi> <fromEnv> <tok,tok,...>
    netrc <toks|absent|empty> <hosts>                  -> panic | ok <pw,pw,...>
    auth  <hex host> <src> <src> ...                   -> bad-src | panic | hdr <hex|none> <hasToken> <usingEnv>
          src = s:<flag>:<hex token string> | n:<toks|absent|empty>
    chain <hex BUF_TOKEN> <toks|absent|empty> <hex host> -> cfgerr <tag> | panic | hdr <hex|none> <hasToken> <usingEnv>
    chaintok <hex token> <hex host>                    -> same outputs (NewConnectClientConfigWithToken)
    hops  <hex first token|none> <hex registry host> <hop hosts> -> <hex|none>,<hex|none>,... (Authorization token per redirect hop)
-/
namespace Driver.C19
open BufModel.Token Driver

def s2l (s : String) : List Char := s.toList
def l2s (l : List Char) : String := String.ofList l

def decList (s : String) : Option (List Str) :=
  if s = "empty" then some [] else
  (s.splitOn ",").mapM fun x => (hexDecode x).map s2l

/-- some none = file absent -/
def decFile (s : String) : Option (Option (List Str)) :=
  if s = "absent" then some none else (decList s).map some

def encList (xs : List Str) : String := ",".intercalate (xs.map fun x => enc (l2s x))

def b2s (b : Bool) : String := if b then "1" else "0"

def showAuth (r : AuthResult) : String :=
  "hdr " ++ (match r.header with | some t => enc (l2s t) | none => "none") ++ " " ++ b2s r.hasToken ++ " " ++ b2s r.usingEnv

def kind : Provider → String
  | .nop => "nop" | .single _ => "single" | .multi _ => "multi"

def decSrc (s : String) : Option (Option Source) :=
  match s.splitOn ":" with
  | ["s", f, h] =>
    match hexDecode h with
    | some str => match newTokenProvider (s2l str) with
        | .ok p => some (some (staticSource p (f = "1")))
        | .error _ => some none
    | none => none
  | ["n", t] => (decFile t).map fun file => some (netrcSource file)
  | _ => none

def handle : List String → String
  | ["tok", flag, s, hosts] =>
    match hexDecode s, decList hosts with
    | some str, some hs =>
      (match newTokenProvider (s2l str) with
       | .error e => "err " ++ e.tag
       | .ok p => "ok " ++ kind p ++ " " ++ b2s (isFromEnvVar (flag = "1") p) ++ " " ++ encList (hs.map (remoteToken p)))
    | _, _ => "bad-op"
  | ["netrc", toks, hosts] =>
    match decFile toks, decList hosts with
    | some file, some hs =>
      (match hs.mapM (fun h => netrcRemoteToken file h) with
       | .error _ => "panic"
       | .ok pws => "ok " ++ encList pws)
    | _, _ => "bad-op"
  | "auth" :: host :: srcs =>
    match hexDecode host, srcs.mapM decSrc with
    | some h, some ss =>
      (match ss.mapM id with
       | none => "bad-src"
       | some sources =>
         match authorize sources (s2l h) with
         | .error _ => "panic"
         | .ok r => showAuth r)
    | _, _ => "bad-op"
  | ["chain", tok, toks, host] =>
    match hexDecode tok, decFile toks, hexDecode host with
    | some t, some file, some h =>
      (match chainAuth (s2l t) file (s2l h) with
       | .error (.config e) => "cfgerr " ++ e.tag
       | .error .panic => "panic"
       | .ok r => showAuth r)
    | _, _, _ => "bad-op"
  | ["chaintok", tok, host] =>
    match hexDecode tok, hexDecode host with
    | some t, some h =>
      (match chainAuthWithToken (s2l t) (s2l h) with
       | .error (.config e) => "cfgerr " ++ e.tag
       | .error .panic => "panic"
       | .ok r => showAuth r)
    | _, _ => "bad-op"
  | ["hops", first, orig, hosts] =>
    let f : Option (Option Str) := if first = "none" then some none else (hexDecode first).map fun x => some (s2l x)
    match f, hexDecode orig, decList hosts with
    | some fst, some o, some hs =>
      ",".intercalate ((hopHeaders fst (s2l o) hs false).map fun
        | some t => enc (l2s t)
        | none => "none")
    | _, _, _ => "bad-op"
  | _ => "bad-op"

def run : IO Unit := runLines handle

end Driver.C19
