import BufModel.Parallel
import BufModel.Filter
import BufModel.Targeting
import BufModel.MultiFail
import BufModel.MultiClient
import Driver.Util
/-
  Line protocol for C02:
    par <cancelOnFailure 0|1> <fails bits|-> <seesCancel bits|->   -> 1 (error) | 0 (nil)
    perr <fails bits|-> <completed job indices csv|-> <stopAt|->   -> the combined error's items, e.g. j0,j2,ctx | -
    pwait <parallelism> <events csv|->    events: d<i> (job i started)  f<i> (job i finished)  r (Parallelize returned)
        -> ret=<0|1>|running=<csv|->|finished=<sorted csv|->      (the machine `prun`: `r` is enabled only when nothing runs)
    rdep <file id> <old dependency ids csv|-> <required import ids csv|->  (filter family)
         ids = rank of the path in Go string order; `required` = closure.imports[file], a Go MAP:
         the harness hands its keys over in a scrambled order
         -> the new dependency list (remapDependencies as coded: kept entries in their old order,
            then the ones gained through public imports ascending), csv | -
    twalk <module files, hex paths csv> <target paths hex csv|-> <exclude paths hex csv|->  (overlap family)
         -> walk=<files in the order moduleReadBucket.WalkFileInfos(only target files) reports them>|ls=<sorted target list | err/class>
    mfail <modules> <root>     (multi-failure family)  -> ok:<dep rank>/<direct 0|1>,… | ok:- | err:<id>
    mfdag <modules>            -> ok | err:<id>      (ModuleSetToDAG; all modules are targets)
         <modules> = the modules in OpaqueID order joined by `;`, a module = its files in the order the
         walk of THIS run reported them joined by `,` (`-` = no file), a file = <hex path>:<p|x|d>:<hex imports joined by + | ->
         (p = .proto, x = .proto the import scan cannot parse, d = documentation file)
         <id> = cycle:<rank>rank>…  noimport:<hex file>:<hex import>  noproto:<rank>  parse:<hex file>  dup:<hex path>  fuel
    mcheck <parallelism> <outcome per client in config order: f|s|n> <clients in the order they finished csv|->  (multi-client family)
         -> err=<the clients whose errors the combined error lists, in order; csv | ->|ran=<clients that run, sorted csv | ->
-/
namespace Driver.C02
open BufModel.Parallel Driver

def natCsv (s : String) : Option (List Nat) :=
  if s = "-" then some [] else (s.splitOn ",").mapM String.toNat?

def showNats (l : List Nat) : String :=
  if l.isEmpty then "-" else ",".intercalate (l.map toString)

def hexCsv (s : String) : Option (List BufModel.Path.Str) :=
  if s = "-" then some [] else (s.splitOn ",").mapM fun h => (hexDecode h).map String.toList

def showPaths (l : List BufModel.Path.Str) : String :=
  if l.isEmpty then "-" else ",".intercalate (l.map fun p => enc (String.ofList p))

/-- `remapDependencies` of one file: the closure state holds exactly the import edges of `f`. -/
def rdep (f : Nat) (deps req : List Nat) : List Nat :=
  let st : BufModel.Filter.St := { edges := req.map fun r => (f, r) }
  let file : BufModel.Filter.File :=
    { id := f, pkg := 0, isImport := false, deps := deps.map fun d => ⟨d, false⟩, types := [], msgs := [], enums := [],
      svcs := [], exts := [], opts := [], locs := [] }
  (BufModel.Filter.remapDeps st file).1.map (·.file)

/-- one targeted local module with the given files, --path and --exclude-path lists. -/
def twalkWs (files paths excludes : List BufModel.Path.Str) : BufModel.Targeting.TWS :=
  { ws := { mods := [{ files := files.map fun p => { path := p, imports := [] }, isTarget := true, isLocal := true }], wkt := [] },
    cfgs := [{ paths := paths, excludes := excludes }] }

/-- `<hex path>:<p|x|d>:<imports>` -/
def mfFile (s : String) : Option (BufModel.Path.Str × Char × List BufModel.Path.Str) :=
  match s.splitOn ":" with
  | [p, k, is] =>
    match hexDecode p, k.toList, (if is = "-" then some [] else (is.splitOn "+").mapM fun h => (hexDecode h).map String.toList) with
    | some p, [c], some is => some (p.toList, c, is)
    | _, _, _ => none
  | _ => none

def mfWs (s : String) : Option BufModel.MultiFail.MFWS :=
  let mods := (s.splitOn ";").mapM fun ms =>
    if ms = "-" then some [] else (ms.splitOn ",").mapM mfFile
  mods.map fun mods =>
    let idx := (List.range mods.length).zip mods
    { ws := { mods := mods.map fun fs =>
                { files := (fs.filter fun f => f.2.1 != 'd').map fun f => { path := f.1, imports := f.2.2 },
                  isTarget := true, isLocal := true },
              wkt := [] },
      broken := idx.flatMap fun (m, fs) => (fs.filter fun f => f.2.1 == 'x').map fun f => (m, f.1),
      docs := idx.flatMap fun (m, fs) => (fs.filter fun f => f.2.1 == 'd').map fun f => (m, f.1) }

def showMFErr : BufModel.MultiFail.MFErr → String
  | .cycle p => "cycle:" ++ ">".intercalate (p.map toString)
  | .importNotExist f i => "noimport:" ++ enc (String.ofList f) ++ ":" ++ enc (String.ofList i)
  | .dupPath p => "dup:" ++ enc (String.ofList p)
  | .noProtoFiles m => "noproto:" ++ toString m
  | .parse f => "parse:" ++ enc (String.ofList f)
  | .fuel => "fuel"

def mcOutcomes (s : String) : Option (List BufModel.MultiClient.Outcome) :=
  s.toList.mapM fun
    | 'f' => some .fails
    | 's' => some .ok
    | 'n' => some .noRule
    | _ => none

def bits (s : String) : List Bool := if s = "-" then [] else s.toList.map (· == '1')

def handle : List String → String
  | ["par", c, fs, ss] =>
    let f := bits fs
    let s := bits ss
    if f.length != s.length then "bad-op" else
    let jobs := (f.zip s).map fun (a, b) => ({ fails := a, seesCancel := b } : JobSlot)
    if verdict (c = "1") jobs then "1" else "0"
  | ["perr", fs, cs, st] =>
    let f := bits fs
    let comp := if cs = "-" then some [] else (cs.splitOn ",").mapM String.toNat?
    match comp with
    | none => "bad-op"
    | some c =>
      let stop := if st = "-" then none else st.toNat?
      let items := joinedErrors f c stop
      if items.isEmpty then "-" else
      ",".intercalate (items.map fun
        | .job i => "j" ++ toString i
        | .ctx => "ctx")
  | ["pwait", ps, es] =>
    let evs : Option (List PEv) :=
      if es = "-" then some [] else
      (es.splitOn ",").mapM fun t =>
        match t.toList with
        | ['r'] => some .ret
        | 'd' :: rest => (String.ofList rest).toNat?.map .start
        | 'f' :: rest => (String.ofList rest).toNat?.map .finish
        | _ => none
    match ps.toNat?, evs with
    | some par, some evs =>
      let st := prun par PSt.init evs
      let csv (l : List Nat) : String := if l.isEmpty then "-" else ",".intercalate (l.map toString)
      "ret=" ++ (if st.returned then "1" else "0") ++ "|running=" ++ csv (st.running.mergeSort (fun a b => decide (a ≤ b))) ++
        "|finished=" ++ csv (st.finished.mergeSort (fun a b => decide (a ≤ b)))
    | _, _ => "bad-op"
  | ["rdep", f, ds, rs] =>
    match f.toNat?, natCsv ds, natCsv rs with
    | some f, some ds, some rs => showNats (rdep f ds rs)
    | _, _, _ => "bad-op"
  | ["twalk", fs, ps, es] =>
    match hexCsv fs, hexCsv ps, hexCsv es with
    | some fs, some ps, some es =>
      let t := twalkWs fs ps es
      let walk := (BufModel.Targeting.moduleTargetFiles t 0).1.map (·.path)
      let ls := match BufModel.Targeting.targetList t with
        | .ok l => showPaths l
        | .error e => "err/" ++ e.tag
      "walk=" ++ showPaths walk ++ "|ls=" ++ ls
    | _, _, _ => "bad-op"
  | ["mfail", ms, r] =>
    match mfWs ms, r.toNat? with
    | some t, some r =>
      match BufModel.MultiFail.moduleDepsE t r with
      | .ok ds => "ok:" ++ (if ds.isEmpty then "-" else ",".intercalate (ds.map fun d => toString d.1 ++ "/" ++ (if d.2 then "1" else "0")))
      | .error e => "err:" ++ showMFErr e
    | _, _ => "bad-op"
  | ["mfdag", ms] =>
    match mfWs ms with
    | some t =>
      match BufModel.MultiFail.toDAGE t with
      | .ok _ => "ok"
      | .error e => "err:" ++ showMFErr e
    | none => "bad-op"
  | ["mcheck", ps, os, fs] =>
    match ps.toNat?, mcOutcomes os, natCsv fs with
    | some _, some os, some fin =>
      let items := BufModel.MultiClient.checkErr os fin
      let showItem : BufModel.MultiClient.MCItem → String
        | .client i => toString i
        | .ctx => "ctx"
        | .cancelled i => "x" ++ toString i
      "err=" ++ (if items.isEmpty then "-" else ",".intercalate (items.map showItem)) ++
        "|ran=" ++ showNats (BufModel.MultiClient.mustRun os)
    | _, _, _ => "bad-op"
  | _ => "bad-op"

def run : IO Unit := runLines handle

end Driver.C02
