import BufModel.Parallel
import Driver.Util
/-
  Line protocol for C02:
    par <cancelOnFailure 0|1> <fails bits|-> <seesCancel bits|->   -> 1 (error) | 0 (nil)
    perr <fails bits|-> <completed job indices csv|-> <stopAt|->   -> the combined error's items, e.g. j0,j2,ctx | -
-/
namespace Driver.C02
open BufModel.Parallel Driver

def bits (s : String) : List Bool := if s = "-" then [] else s.toList.map (· == '1')

def handle : List String → String
  | ["par", c, fs, ss] =>
    let f := bits fs
    let s := bits ss
    if f.length != s.length then "bad-op" else
    let jobs := (f.zip s).map fun (a, b) => ({ fails := a, seesCancel := b } : JobSlot)
    if verdict (c = "1") jobs then "1" else "0"
  | ["perr", fs, cs, st] =>
    let f := bits fs
    let comp := if cs = "-" then some [] else (cs.splitOn ",").mapM String.toNat?
    match comp with
    | none => "bad-op"
    | some c =>
      let stop := if st = "-" then none else st.toNat?
      let items := joinedErrors f c stop
      if items.isEmpty then "-" else
      ",".intercalate (items.map fun
        | .job i => "j" ++ toString i
        | .ctx => "ctx")
  | _ => "bad-op"

def run : IO Unit := runLines handle

end Driver.C02
