import BufModel.Parallel
import Driver.Util
/-
  Line protocol for C02:
    par <cancelOnFailure 0|1> <fails bits|-> <seesCancel bits|->   -> 1 (error) | 0 (nil)
-/
namespace Driver.C02
open BufModel.Parallel Driver

def bits (s : String) : List Bool := if s = "-" then [] else s.toList.map (· == '1')

def handle : List String → String
  | ["par", c, fs, ss] =>
    let f := bits fs
    let s := bits ss
    if f.length != s.length then "bad-op" else
    let jobs := (f.zip s).map fun (a, b) => ({ fails := a, seesCancel := b } : JobSlot)
    if verdict (c = "1") jobs then "1" else "0"
  | _ => "bad-op"

def run : IO Unit := runLines handle

end Driver.C02
