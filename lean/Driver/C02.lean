import BufModel.Parallel
import BufModel.Filter
import BufModel.Targeting
import Driver.Util
/-
  Line protocol for C02:
    par <cancelOnFailure 0|1> <fails bits|-> <seesCancel bits|->   -> 1 (error) | 0 (nil)
    perr <fails bits|-> <completed job indices csv|-> <stopAt|->   -> the combined error's items, e.g. j0,j2,ctx | -
    pwait <parallelism> <events csv|->    events: d<i> (job i started)  f<i> (job i finished)  r (Parallelize returned)
        -> ret=<0|1>|running=<csv|->|finished=<sorted csv|->      (the machine `prun`: `r` is enabled only when nothing runs)
    rdep <file id> <old dependency ids csv|-> <required import ids csv|->  (filter family)
         ids = rank of the path in Go string order; `required` = closure.imports[file], a Go MAP:
         the harness hands its keys over in a scrambled order
         -> the new dependency list (remapDependencies as coded: kept entries in their old order,
            then the ones gained through public imports ascending), csv | -
    twalk <module files, hex paths csv> <target paths hex csv|-> <exclude paths hex csv|->  (overlap family)
         -> walk=<files in the order moduleReadBucket.WalkFileInfos(only target files) reports them>|ls=<sorted target list | err/class>
-/
namespace Driver.C02
open BufModel.Parallel Driver

def natCsv (s : String) : Option (List Nat) :=
  if s = "-" then some [] else (s.splitOn ",").mapM String.toNat?

def showNats (l : List Nat) : String :=
  if l.isEmpty then "-" else ",".intercalate (l.map toString)

def hexCsv (s : String) : Option (List BufModel.Path.Str) :=
  if s = "-" then some [] else (s.splitOn ",").mapM fun h => (hexDecode h).map String.toList

def showPaths (l : List BufModel.Path.Str) : String :=
  if l.isEmpty then "-" else ",".intercalate (l.map fun p => enc (String.ofList p))

/-- `remapDependencies` of one file: the closure state holds exactly the import edges of `f`. -/
def rdep (f : Nat) (deps req : List Nat) : List Nat :=
  let st : BufModel.Filter.St := { edges := req.map fun r => (f, r) }
  let file : BufModel.Filter.File :=
    { id := f, pkg := 0, isImport := false, deps := deps.map fun d => ⟨d, false⟩, types := [], msgs := [], enums := [],
      svcs := [], exts := [], opts := [], locs := [] }
  (BufModel.Filter.remapDeps st file).1.map (·.file)

/-- one targeted local module with the given files, --path and --exclude-path lists. -/
def twalkWs (files paths excludes : List BufModel.Path.Str) : BufModel.Targeting.TWS :=
  { ws := { mods := [{ files := files.map fun p => { path := p, imports := [] }, isTarget := true, isLocal := true }], wkt := [] },
    cfgs := [{ paths := paths, excludes := excludes }] }

def bits (s : String) : List Bool := if s = "-" then [] else s.toList.map (· == '1')

def handle : List String → String
  | ["par", c, fs, ss] =>
    let f := bits fs
    let s := bits ss
    if f.length != s.length then "bad-op" else
    let jobs := (f.zip s).map fun (a, b) => ({ fails := a, seesCancel := b } : JobSlot)
    if verdict (c = "1") jobs then "1" else "0"
  | ["perr", fs, cs, st] =>
    let f := bits fs
    let comp := if cs = "-" then some [] else (cs.splitOn ",").mapM String.toNat?
    match comp with
    | none => "bad-op"
    | some c =>
      let stop := if st = "-" then none else st.toNat?
      let items := joinedErrors f c stop
      if items.isEmpty then "-" else
      ",".intercalate (items.map fun
        | .job i => "j" ++ toString i
        | .ctx => "ctx")
  | ["pwait", ps, es] =>
    let evs : Option (List PEv) :=
      if es = "-" then some [] else
      (es.splitOn ",").mapM fun t =>
        match t.toList with
        | ['r'] => some .ret
        | 'd' :: rest => (String.ofList rest).toNat?.map .start
        | 'f' :: rest => (String.ofList rest).toNat?.map .finish
        | _ => none
    match ps.toNat?, evs with
    | some par, some evs =>
      let st := prun par PSt.init evs
      let csv (l : List Nat) : String := if l.isEmpty then "-" else ",".intercalate (l.map toString)
      "ret=" ++ (if st.returned then "1" else "0") ++ "|running=" ++ csv (st.running.mergeSort (fun a b => decide (a ≤ b))) ++
        "|finished=" ++ csv (st.finished.mergeSort (fun a b => decide (a ≤ b)))
    | _, _ => "bad-op"
  | ["rdep", f, ds, rs] =>
    match f.toNat?, natCsv ds, natCsv rs with
    | some f, some ds, some rs => showNats (rdep f ds rs)
    | _, _, _ => "bad-op"
  | ["twalk", fs, ps, es] =>
    match hexCsv fs, hexCsv ps, hexCsv es with
    | some fs, some ps, some es =>
      let t := twalkWs fs ps es
      let walk := (BufModel.Targeting.moduleTargetFiles t 0).1.map (·.path)
      let ls := match BufModel.Targeting.targetList t with
        | .ok l => showPaths l
        | .error e => "err/" ++ e.tag
      "walk=" ++ showPaths walk ++ "|ls=" ++ ls
    | _, _, _ => "bad-op"
  | _ => "bad-op"

def run : IO Unit := runLines handle

end Driver.C02
