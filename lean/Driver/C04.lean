import Driver.Breaking
/- Line protocol of property C04 (shared schema encoding, see Driver/Breaking.lean). -/
namespace Driver.C04
def run : IO Unit := Driver.runLines Driver.Breaking.handle
end Driver.C04
