import BufModel.Filter
import BufModel.GenBatch
import BufProofs.Lemmas.FilterClosureLemmas
import Driver.Util
/-
  Line protocol for C12 (type filtering).  One case per line, TAB-separated:
     f <image-sexp> <opts-sexp> [old]
  S-expressions over natural numbers: `(` `)` and decimal atoms separated by blanks.
     image  = ((file...) (pkg...))
     file   = (id pkg isImport (dep...) (typeId...) (msg...) (enum...) (svc...) (ext...) (opt...) (loc...))
     dep    = (fileId public)
     msg    = (id (field...) (oneof...) (ext...) (msg...) (enum...) (rangeOpts...) reserved mapEntry (opt...))
     field  = (id ty+1|0 oneof+1|0 extendee+1|0 (opt...))
     oneof  = ((opt...))           enum = (id ((opt...)...) (opt...))
     svc    = (id (method...) (opt...))     method = (id in out (opt...))
     opt    = (ext+1|0 (anyMsgId...))       loc = ((path...) tag)
     opts   = ((include...) (exclude...) customOpts knownExts allowImported)
  Answer:  ok <links 0|1> <files-sexp>   |   err <class,class…>
     out file = (id (dep...) (omsg...) (enumId...) ((svcId (methodId...))...) (extId...) (loc...))
     omsg     = (id ((fieldId oneof+1|0)...) nOneofs (extId...) (omsg...) (enumId...))
  For an error the classes are those of the single-include runs that fail (the Go code visits the
  includes in map order, so only the set is deterministic), or the class of the run itself.

     g <plugin>;<plugin>;…      one `buf generate` run with per-plugin type filters
     plugin = <types>|<exclude_types>|a/d|<class>      names hex-encoded, `,`-separated ("-" = the
              empty name, nothing = no names); a/d = strategy all / directory; class = class of the
              plugin's OWN filter result (plugins whose filtered images are equal share a class)
  Answer: the class of the image that reaches each plugin, `,`-separated (BufModel.GenBatch).
-/
namespace Driver.C12
open BufModel.Filter

inductive Sexp | atom (n : Nat) | list (xs : List Sexp)
deriving Inhabited

partial def parseList : List String → List Sexp → Option (List Sexp × List String)
  | [], _ => none
  | ")" :: rest, acc => some (acc.reverse, rest)
  | "(" :: rest, acc => match parseList rest [] with
    | some (xs, rest') => parseList rest' (Sexp.list xs :: acc)
    | none => none
  | tok :: rest, acc => match tok.toNat? with
    | some n => parseList rest (Sexp.atom n :: acc)
    | none => none

def tokenize (s : String) : List String :=
  let spaced := s.toList.flatMap fun c => if c = '(' || c = ')' then [' ', c, ' '] else [c]
  ((String.ofList spaced).splitOn " ").filter (fun t => !t.isEmpty)

def parseSexp (s : String) : Option Sexp :=
  match tokenize s with
  | "(" :: rest => match parseList rest [] with
    | some (xs, []) => some (.list xs)
    | _ => none
  | _ => none

def nat? : Sexp → Option Nat | .atom n => some n | _ => none
def list? : Sexp → Option (List Sexp) | .list xs => some xs | _ => none
def optNat (n : Nat) : Option Nat := if n = 0 then none else some (n - 1)
def nats? (s : Sexp) : Option (List Nat) := do (← list? s).mapM nat?

def optUse? : Sexp → Option OptUse
  | .list [e, anys] => do some ⟨optNat (← nat? e), ← nats? anys⟩
  | _ => none
def optUses? (s : Sexp) : Option (List OptUse) := do (← list? s).mapM optUse?

def field? : Sexp → Option Field
  | .list [i, ty, oo, ex, os] => do
    some ⟨← nat? i, optNat (← nat? ty), optNat (← nat? oo), optNat (← nat? ex), ← optUses? os⟩
  | _ => none
def oneof? : Sexp → Option Oneof
  | .list [os] => do some ⟨← optUses? os⟩
  | _ => none
def enum? : Sexp → Option Enum
  | .list [i, vs, os] => do some ⟨← nat? i, ← (← list? vs).mapM optUses?, ← optUses? os⟩
  | _ => none
def method? : Sexp → Option Method
  | .list [i, a, b, os] => do some ⟨← nat? i, ← nat? a, ← nat? b, ← optUses? os⟩
  | _ => none
def svc? : Sexp → Option Service
  | .list [i, ms, os] => do some ⟨← nat? i, ← (← list? ms).mapM method?, ← optUses? os⟩
  | _ => none

partial def msg? : Sexp → Option Msg
  | .list [i, fs, oos, xs, ns, es, rs, res, me, os] => do
    some (.mk (← nat? i) (← (← list? fs).mapM field?) (← (← list? oos).mapM oneof?) (← (← list? xs).mapM field?)
      (← (← list? ns).mapM msg?) (← (← list? es).mapM enum?) (← (← list? rs).mapM optUses?)
      ((← nat? res) != 0) ((← nat? me) != 0) (← optUses? os))
  | _ => none

def dep? : Sexp → Option Dep
  | .list [f, p] => do some ⟨← nat? f, (← nat? p) != 0⟩
  | _ => none
def loc? : Sexp → Option Loc
  | .list [p, t] => do some ⟨← nats? p, ← nat? t⟩
  | _ => none

def file? : Sexp → Option File
  | .list [i, pkg, imp, deps, tys, ms, es, ss, xs, os, ls] => do
    some { id := ← nat? i, pkg := ← nat? pkg, isImport := (← nat? imp) != 0, deps := ← (← list? deps).mapM dep?,
           types := ← nats? tys, msgs := ← (← list? ms).mapM msg?, enums := ← (← list? es).mapM enum?,
           svcs := ← (← list? ss).mapM svc?, exts := ← (← list? xs).mapM field?, opts := ← optUses? os,
           locs := ← (← list? ls).mapM loc? }
  | _ => none

def image? : Sexp → Option Image
  | .list [fs, ps] => do some ⟨← (← list? fs).mapM file?, ← nats? ps⟩
  | _ => none

def opts? : Sexp → Option Opts
  | .list [inc, exc, co, ke, ai] => do
    some { includes := ← nats? inc, excludes := ← nats? exc, customOpts := (← nat? co) != 0,
           knownExts := (← nat? ke) != 0, allowImported := (← nat? ai) != 0 }
  | _ => none

/-! rendering -/
def par (xs : List String) : String := "(" ++ " ".intercalate xs ++ ")"
def rNats (xs : List Nat) : String := par (xs.map toString)
def rOpt : Option Nat → String | none => "0" | some n => toString (n + 1)

partial def rMsg : Msg → String
  | .mk id fields oneofs exts nested enums _ _ _ _ =>
    par [toString id, par (fields.map fun f => par [toString f.id, rOpt f.oneof]), toString oneofs.length,
         rNats (exts.map (·.id)), par (nested.map rMsg), rNats (enums.map (·.id))]

def rFile (f : OFile) : String :=
  par [toString f.id, rNats f.deps, par (f.msgs.map rMsg), rNats (f.enums.map (·.id)),
       par (f.svcs.map fun s => par [toString s.id, rNats (s.methods.map (·.id))]), rNats (f.exts.map (·.id)),
       par (f.locs.map fun l => par [rNats l.path, toString l.tag])]

def dedupSorted (l : List String) : List String :=
  (l.toArray.qsort (· < ·)).toList.eraseDups

def answer (cfg : Cfg) (img : Image) (o : Opts) : String :=
  -- defaultFuel ignores option lists (finding of the proof agent: a 300-value enum exhausts it);
  -- the driver therefore runs with the proved-sufficient bound as well
  let fuel := max (defaultFuel img) (BufProofs.FilterClosure.fuelBound img)
  match filterWith cfg img o fuel with
  | .ok out => "ok\t" ++ (if linksB out then "1" else "0") ++ "\t" ++ par (out.map rFile)
  | .error e =>
    let singles := o.includes.filterMap fun i =>
      match filterWith cfg img { o with includes := [i] } fuel with
      | .error e => some e.tag
      | .ok _ => none
    let cs := if singles.isEmpty then [e.tag] else dedupSorted singles
    "err\t" ++ ",".intercalate cs

def names? (s : String) : Option (List BufModel.Path.Str) :=
  if s.isEmpty then some [] else (s.splitOn ",").mapM fun h => (Driver.hexDecode h).map String.toList

def plugin? (s : String) : Option (BufModel.GenBatch.PCfg × Nat) :=
  match s.splitOn "|" with
  | [ts, es, st, c] => do
    let strat ← if st = "a" then some true else if st = "d" then some false else none
    some (⟨← names? ts, ← names? es, strat, []⟩, ← c.toNat?)
  | _ => none

def handle : List String → String
  | ["g", ps] =>
    match (ps.splitOn ";").mapM plugin? with
    | some l => ",".intercalate ((BufModel.GenBatch.observedClasses l).map toString)
    | none => "bad-op"
  | "f" :: i :: o :: rest =>
    match parseSexp i, parseSexp o with
    | some si, some so =>
      (match image? si, opts? so with
       | some img, some opts => answer (if rest = ["old"] then cfgOld else cfgFixed) img opts
       | _, _ => "bad-op")
    | _, _ => "bad-op"
  | _ => "bad-op"

def run : IO Unit := Driver.runLines handle

end Driver.C12
