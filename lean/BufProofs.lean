import BufProofs.Props.C13
