import BufProofs.Props.C13
import BufProofs.Props.C14
