import BufProofs.Props.C13
import BufProofs.Props.C14
import BufProofs.Props.C15
import BufProofs.Props.C19
import BufProofs.Props.C09
import BufProofs.Props.C02
import BufProofs.Props.C18
