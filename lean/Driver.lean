import Driver.Main
