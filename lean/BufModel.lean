import BufModel.Path
import BufModel.Bucket
