import BufModel.Path
import BufModel.Bucket
import BufModel.Faults
import BufModel.Cache
import BufModel.Token
import BufModel.Parallel
import BufModel.Managed
