import BufGen.AstFacts
import BufGen.ConstsC08
import BufGen.RuleTables
import BufGen.Wkt
import BufGen.BreakingTables
