import BufGen.AstFacts
