import BufModel.Path
/-
  BufModel.Graph — the shared graph core of C10 / C01 (and C11 / C17 later).

  * `dfs`             generic post-order DFS with a visited set and fuel
                      (getImageFilesRec, imageFileInfosWithOnlyTargetsAndTargetImportsRec,
                      orderImageFilesRec all have this shape)
  * `Reach`           reflexive-transitive reachability over a successor function
  * module sets       `WS` = modules (index = rank of the OpaqueID; ModuleSet.Modules() is sorted
                      by OpaqueID) each with its files in walk order and their scanned imports
  * `owner`           moduleSet.getModuleForFilePathUncached
  * `depsRec`/`moduleDeps`   bufmodule.getModuleDepsRec / getModuleDeps exactly as coded
  * `selectAdded`/`buildModuleSet`   added_module.go selection (target > local > newest commit)
  * `v1Adds`/`v2Adds`  bufworkspace: the pins of which buf.lock files are added (v1: the lock of
                      EVERY module directory of the workspace, targeted or not; v2: the one
                      top-level lock) and in which order
  * `toDAG`           ModuleSetToDAG / moduleSetToDAGRec (no visited set, as coded)
  * `lsFiles`         controller.getImageFileInfosForModuleSet + AppendWellKnownTypeImageFileInfos
                      + bufimage.ImageFileInfosWithOnlyTargetsAndTargetImports

  Core Lean only.  OpaqueIDs are compared by the code with `==` and `<` only, so the model uses
  their rank (a `Nat`); paths stay strings.
-/
namespace BufModel.Graph
open BufModel.Path

/-! ## 0. small list utilities (structural, so that `decide` evaluates them) -/

/-- `foldlM` for `Except`, written out so that proofs can case on it. -/
def foldE {σ ε β : Type} (f : β → σ → Except ε σ) : List β → σ → Except ε σ
  | [], s => .ok s
  | c :: cs, s =>
    match f c s with
    | .error e => .error e
    | .ok s' => foldE f cs s'

/-- insertion into a list sorted by `le` (stable: after the last element `≤` it). -/
def insertBy {β : Type} (le : β → β → Bool) (x : β) : List β → List β
  | [] => [x]
  | y :: ys => if le y x then y :: insertBy le x ys else x :: y :: ys

/-- stable insertion sort (`sort.Slice` on keys that are unique in every use here). -/
def sortBy {β : Type} (le : β → β → Bool) : List β → List β
  | [] => []
  | x :: xs => insertBy le x (sortBy le xs)

/-- byte-wise string order (`<=` of Go strings restricted to valid UTF-8). -/
def strLe : Str → Str → Bool
  | [], _ => true
  | _ :: _, [] => false
  | a :: as, b :: bs => if a.toNat < b.toNat then true else if b.toNat < a.toNat then false else strLe as bs

def sortPaths (l : List Str) : List Str := sortBy strLe l

def dedup {β : Type} [DecidableEq β] : List β → List β
  | [] => []
  | x :: xs => if x ∈ xs then dedup xs else x :: dedup xs

/-! ## 1. generic post-order DFS -/
section DFS
variable {α : Type} [DecidableEq α]

inductive DfsErr (α : Type) where
  | fuel
  | missing (a : α)
  deriving DecidableEq, Repr

/-- Post-order DFS from `n`.  State = (visited, output).  `succ n = none` means the node does not
    exist (an import nobody provides).  Exactly the shape of `getImageFilesRec`:
    seen? return; mark seen; recurse into the imports in order; append self. -/
def dfs (succ : α → Option (List α)) : Nat → α → List α × List α → Except (DfsErr α) (List α × List α)
  | 0, _, _ => .error .fuel
  | fuel + 1, n, (vis, out) =>
    if n ∈ vis then .ok (vis, out) else
    match succ n with
    | none => .error (.missing n)
    | some cs =>
      match foldE (dfs succ fuel) cs (n :: vis, out) with
      | .error e => .error e
      | .ok (vis', out') => .ok (vis', out' ++ [n])

/-- DFS from several roots in order, sharing the visited set (the `for _, f := range sortedFiles`
    loop of `getImage`). -/
def dfsRoots (succ : α → Option (List α)) (fuel : Nat) (roots : List α) :
    Except (DfsErr α) (List α × List α) :=
  foldE (dfs succ fuel) roots ([], [])

/-- reflexive-transitive reachability along `succ`. -/
inductive Reach (succ : α → Option (List α)) : α → α → Prop where
  | refl (a : α) : Reach succ a a
  | step {a b c : α} {cs : List α} : Reach succ a b → succ b = some cs → c ∈ cs → Reach succ a c

/-- `c ∈ reach⁺ a`: at least one edge. -/
def ReachPlus (succ : α → Option (List α)) (a c : α) : Prop :=
  ∃ b cs, Reach succ a b ∧ succ b = some cs ∧ c ∈ cs

/-- number of nodes of the universe not yet visited: the fuel measure. -/
def unvisited (nodes vis : List α) : Nat := (nodes.filter (fun x => decide (x ∉ vis))).length

/-- `out` is a topological order: every successor of a listed node is listed strictly earlier. -/
def isTopo (succ : α → Option (List α)) : List α → List α → Bool
  | _, [] => true
  | pre, x :: rest =>
    (match succ x with
     | none => false
     | some cs => cs.all (fun c => decide (c ∈ pre))) && isTopo succ (pre ++ [x]) rest

end DFS

/-! ## 2. module sets -/

/-- A .proto file as the module layer sees it: path, the imports fastscan found (source order)
    and the package (only used by the proto-file-ref targeting).  `imports` lists the path of
    EVERY import statement, whatever its modifier (`KFile.scan`, section 2b). -/
structure PFile where
  path : Str
  imports : List Str
  pkg : Str := []
  deriving DecidableEq, Repr

/-- A module of a built ModuleSet. `name`/`commit` are opaque labels carried into images. -/
structure Mod where
  files : List PFile          -- in bucket walk order (sorted by path)
  isTarget : Bool
  isLocal : Bool
  name : Option Nat := none   -- FullName (as a label); none = unnamed
  commit : Nat := 0           -- commit label; 0 = uuid.Nil
  deriving DecidableEq, Repr

/-- The module set (index = rank of the OpaqueID) and the built-in well-known types. -/
structure WS where
  mods : List Mod
  wkt : List PFile
  deriving Repr

def modFiles (ws : WS) (m : Nat) : List PFile := (ws.mods[m]?.map (·.files)).getD []

def hasPath (ws : WS) (m : Nat) (p : Str) : Bool := (modFiles ws m).any (fun f => f.path == p)

/-- modules whose bucket has `p` (`module.StatFileInfo` succeeds). -/
def providers (ws : WS) (p : Str) : List Nat := (List.range ws.mods.length).filter (fun m => hasPath ws m p)

inductive Owner where
  | none
  | one (m : Nat)
  | dup
  deriving DecidableEq, Repr

/-- `getModuleForFilePathUncached`: fs.ErrNotExist | the module | DuplicateProtoPathError. -/
def owner (ws : WS) (p : Str) : Owner :=
  match providers ws p with
  | [] => .none
  | [m] => .one m
  | _ => .dup

def isWkt (ws : WS) (p : Str) : Bool := ws.wkt.any (fun f => f.path == p)

inductive DErr where
  | cycle
  | importNotExist
  | dupPath
  | noProtoFiles
  | fuel
  deriving DecidableEq, Repr

def DErr.tag : DErr → String
  | .cycle => "cycle" | .importNotExist => "noimport" | .dupPath => "dup"
  | .noProtoFiles => "noproto" | .fuel => "fuel"

abbrev DepMap := List (Nat × Bool)

def DepMap.keys (d : DepMap) : List Nat := d.map (·.1)

/-- The body of the `WalkFileInfos` callback of `getModuleDepsRec`, over the imports of all files
    of the module in walk order: resolve the import to its owning module; not found → skip if it
    is a WKT else ImportNotExistError; a different module not yet in the dep map → add it with
    the current `isDirect` and remember it as new. -/
def scanImports (ws : WS) (self : Nat) (isDirect : Bool) :
    List Str → DepMap → List Nat → Except DErr (DepMap × List Nat)
  | [], d, nw => .ok (d, nw)
  | p :: ps, d, nw =>
    match owner ws p with
    | .none => if isWkt ws p then scanImports ws self isDirect ps d nw else .error .importNotExist
    | .dup => .error .dupPath
    | .one m =>
      if m = self then scanImports ws self isDirect ps d nw
      else if m ∈ d.keys then scanImports ws self isDirect ps d nw
      else scanImports ws self isDirect ps (d ++ [(m, isDirect)]) (nw ++ [m])

def allImports (ws : WS) (m : Nat) : List Str := (modFiles ws m).flatMap (·.imports)

def natLe (a b : Nat) : Bool := decide (a ≤ b)

/-- `getModuleDepsRec`.  State = (visited, depMap); `parents` is the cycle stack. -/
def depsRec (ws : WS) : Nat → Nat → Bool → List Nat → List Nat × DepMap → Except DErr (List Nat × DepMap)
  | 0, _, _, _, _ => .error .fuel
  | fuel + 1, m, isDirect, parents, (vis, d) =>
    if m ∈ parents then .error .cycle
    else if m ∈ vis then .ok (vis, d)
    else
      match scanImports ws m isDirect (allImports ws m) d [] with
      | .error e => .error e
      | .ok (d', nw) =>
        -- WalkFileInfos ends with protoFileTracker.validate(): a module without .proto files
        if (modFiles ws m).isEmpty then .error .noProtoFiles
        else foldE (fun c s => depsRec ws fuel c false (m :: parents) s) (sortBy natLe nw) (m :: vis, d')

/-- the final `protoFileTracker.validate()` of `getModuleDeps`: a path tracked for two of the
    visited modules. -/
def dupAmong (ws : WS) (vis : List Nat) : Bool :=
  vis.any (fun m => vis.any (fun m' => m' != m && (modFiles ws m).any (fun f => hasPath ws m' f.path)))

def depLe (a b : Nat × Bool) : Bool := natLe a.1 b.1

/-- `getModuleDeps` = `Module.ModuleDeps()`: (dep id, isDirect) sorted by id. -/
def moduleDeps (ws : WS) (r : Nat) : Except DErr DepMap :=
  match depsRec ws (ws.mods.length + 1) r true [] ([], []) with
  | .error e => .error e
  | .ok (vis, d) => if dupAmong ws vis then .error .dupPath else .ok (sortBy depLe d)

/-- the module graph the property talks about: owners of the imports, other than the module. -/
def msucc (ws : WS) (m : Nat) : List Nat :=
  (allImports ws m).filterMap (fun p => match owner ws p with
    | .one d => if d = m then none else some d
    | _ => none)

def msuccO (ws : WS) (m : Nat) : Option (List Nat) := some (msucc ws m)

/-! ## 2b. import modifiers

  `fastscan.Result.Imports` is a list of `{Path, IsPublic, IsWeak}`, one per import statement
  (`import "x";` / `import public "x";` / `import weak "x";`).  `getModuleDepsRec`, the
  `FileInfo.Imports()` closure behind ls-files and the image builder read `.Path` only: a `weak` or
  `public` import resolves to its module, is an edge of the module graph, may be an
  ImportNotExistError and may close a module cycle exactly like a plain one.  `KFile` is the file
  with its import STATEMENTS; `KFile.scan` is what the code makes of it (every statement counts)
  and is what Driver/C10 runs on every protocol line; `KFile.scanSkipWeak` is the COUNTER-MODEL of
  a `getModuleDepsRec` that `continue`s on `imp.IsWeak` (seeds C10-m10 / C08-m9), kept for the
  `ik_skip_weak_*_counterexample` theorems of `BufProofs.C10`. -/

/-- The modifier of one import statement as `fastscan.Import` reports it. -/
inductive ImpKind where
  | plain
  | pub
  | weak
  deriving DecidableEq, Repr

/-- A .proto file with its import statements (path + modifier) in source order. -/
structure KFile where
  path : Str
  stmts : List (Str × ImpKind)
  pkg : Str := []
  deriving DecidableEq, Repr

/-- `for _, imp := range fastscanResult.Imports { … imp.Path … }`: every statement counts. -/
def KFile.scan (f : KFile) : PFile := { path := f.path, imports := f.stmts.map (·.1), pkg := f.pkg }

/-- COUNTER-MODEL (not the code): `if imp.IsWeak { continue }` in front of the loop body. -/
def KFile.scanSkipWeak (f : KFile) : PFile :=
  { path := f.path, imports := (f.stmts.filter (fun x => x.2 != .weak)).map (·.1), pkg := f.pkg }

/-- the file with every modifier replaced by `g`'s choice (same statements, other keywords). -/
def KFile.reKind (g : Str → ImpKind → ImpKind) (f : KFile) : KFile :=
  { f with stmts := f.stmts.map (fun x => (x.1, g x.1 x.2)) }

structure KMod where
  files : List KFile
  isTarget : Bool
  isLocal : Bool
  deriving DecidableEq, Repr

/-- a module set whose files carry their import statements. -/
structure KWS where
  mods : List KMod
  wkt : List PFile
  deriving Repr

def KMod.scanWith (sc : KFile → PFile) (m : KMod) : Mod :=
  { files := m.files.map sc, isTarget := m.isTarget, isLocal := m.isLocal }

/-- the module set as the code sees it. -/
def KWS.scan (k : KWS) : WS := { mods := k.mods.map (KMod.scanWith KFile.scan), wkt := k.wkt }

/-- the module set as the counter-model sees it. -/
def KWS.scanSkipWeak (k : KWS) : WS := { mods := k.mods.map (KMod.scanWith KFile.scanSkipWeak), wkt := k.wkt }

def KWS.reKind (g : Str → ImpKind → ImpKind) (k : KWS) : KWS :=
  { k with mods := k.mods.map (fun m => { m with files := m.files.map (KFile.reKind g) }) }

def kmodFiles (k : KWS) (m : Nat) : List KFile := (k.mods[m]?.map (·.files)).getD []

/-- `Module.ModuleDeps()` over import statements. -/
def moduleDepsK (k : KWS) (r : Nat) : Except DErr DepMap := moduleDeps k.scan r

/-- COUNTER-MODEL: `ModuleDeps()` of a `getModuleDepsRec` that ignores weak imports. -/
def moduleDepsSkipWeak (k : KWS) (r : Nat) : Except DErr DepMap := moduleDeps k.scanSkipWeak r

/-! ## 3. added modules: de-duplication by OpaqueID -/

structure Added where
  oid : Nat            -- rank of the OpaqueID
  isLocal : Bool
  isTarget : Bool
  commit : Nat         -- commit label (remote) / 0
  ctime : Nat          -- create time of the commit
  idx : Nat := 0       -- position in the add order (lets a caller find side data)
  files : List PFile
  name : Option Nat := none
  deriving DecidableEq, Repr

/-- one added module per commit id (the first added of each), in first-occurrence order
    (`commitIDToAddedModules[commit][0]`). -/
def firstPerCommit : List Added → List Nat → List Added
  | [], _ => []
  | a :: as, seen => if a.commit ∈ seen then firstPerCommit as seen else a :: firstPerCommit as (a.commit :: seen)

/-- the "latest CreateTime wins, first on ties" loop. -/
def newest : Added → List Added → Added
  | best, [] => best
  | best, x :: xs => if best.ctime < x.ctime then newest x xs else newest best xs

def commitLe (a b : Added) : Bool := natLe a.commit b.commit

/-- `selectRemoteAddedModuleForOpaqueIDIgnoreTargeting` as coded after the `fix:` that sorts the
    per-commit candidates by commit id (commit labels are ranks of the commit ids), so that
    equal create times resolve deterministically (to the smallest commit id). -/
def selectRemote (as : List Added) : Option Added :=
  match as with
  | [] => none
  | [a] => some a
  | _ =>
    match sortBy commitLe (firstPerCommit as []) with
    | [] => none
    | u :: us => some (newest u us)

/-- The pre-fix behaviour: the per-commit candidates were taken in Go map iteration order, i.e.
    in an arbitrary permutation `perm` of them (kept for the recorded finding). -/
def selectRemoteOld (perm : List Added → List Added) (as : List Added) : Option Added :=
  match as with
  | [] => none
  | [a] => some a
  | _ =>
    match perm (firstPerCommit as []) with
    | [] => none
    | u :: us => some (newest u us)

def selectIgnoreTargeting (as : List Added) : Option Added :=
  match as.filter (·.isLocal) with
  | [] => selectRemote as
  | l :: _ => some l

/-- `selectAddedModuleForOpaqueID`. -/
def selectAdded (as : List Added) : Option Added :=
  match as.filter (·.isTarget) with
  | [] => selectIgnoreTargeting as
  | [t] => some t
  | ts => selectIgnoreTargeting ts

def Added.toMod (a : Added) : Mod :=
  { files := a.files, isTarget := a.isTarget, isLocal := a.isLocal, name := a.name, commit := a.commit }

/-- `getUniqueSortedAddedModulesByOpaqueID`: one selected module per OpaqueID, sorted. -/
def uniqueAdded (as : List Added) : List Added :=
  (sortBy natLe (dedup (as.map (·.oid)))).filterMap (fun o => selectAdded (as.filter (fun a => a.oid == o)))

/-! ## 3b. workspaces on disk: which buf.lock pins are added, in which order

  `bufworkspace.workspaceProvider`:
  * `getWorkspaceForBucketAndModuleDirPathsV1Beta1OrV1` (buf.work.yaml + v1 modules) walks ALL
    module directories of the workspace in buf.work.yaml order — targeted by the input or not —
    and for each one first calls `AddRemoteModule(depModuleKey, false)` for every pin of THAT
    directory's buf.lock and then `AddLocalModule` for the directory;
  * `getWorkspaceForBucketBufYAMLV2` adds the pins of the single top-level buf.lock and then the
    local modules.
  Which local modules are targets (and with which paths) is decided by
  workspace_targeting.go / module_targeting.go and arrives here as data (`loc.isTarget`). -/

/-- `AddRemoteModule(depModuleKey, false)`: a pin is remote and never a target. -/
def Added.asPin (a : Added) : Added := { a with isLocal := false, isTarget := false }

/-- One `directories:` entry of a buf.work.yaml: the local module and the pins of its own
    buf.lock (empty when the directory has no buf.lock). -/
structure LockedMod where
  pins : List Added
  loc : Added
  deriving Repr

/-- the AddRemoteModule / AddLocalModule call sequence of a v1 workspace. -/
def v1Adds (ms : List LockedMod) : List Added :=
  ms.flatMap (fun m => m.pins.map Added.asPin ++ [m.loc])

/-- the call sequence of a v2 workspace: the top-level buf.lock, then the modules of buf.yaml. -/
def v2Adds (lock : List Added) (locs : List Added) : List Added :=
  lock.map Added.asPin ++ locs

/-! ## 4. ModuleSetToDAG -/

abbrev Dag := List Nat × List (Nat × Nat)

def addNode (g : Dag) (m : Nat) : Dag := if m ∈ g.1 then g else (g.1 ++ [m], g.2)
def addEdge (g : Dag) (a b : Nat) : Dag :=
  let g1 := addNode (addNode g a) b
  if (a, b) ∈ g1.2 then g1 else (g1.1, g1.2 ++ [(a, b)])

/-- `moduleSetToDAGRec` (remoteOnly = false): add the node, ask the module for its direct deps,
    add an edge and recurse for each.  There is no visited set in the code; fuel bounds the depth. -/
def dagRec (ws : WS) : Nat → Nat → Dag → Except DErr Dag
  | 0, _, _ => .error .fuel
  | fuel + 1, m, g =>
    match moduleDeps ws m with
    | .error e => .error e
    | .ok ds =>
      foldE (fun d g' => dagRec ws fuel d.1 (addEdge g' m d.1)) (ds.filter (·.2)) (addNode g m)

def targetMods (ws : WS) : List Nat := (List.range ws.mods.length).filter (fun m => (ws.mods[m]?.map (·.isTarget)).getD false)

def toDAG (ws : WS) : Except DErr Dag :=
  foldE (fun m g => dagRec ws (ws.mods.length + 1) m g) (targetMods ws) ([], [])

/-! ## 5. ls-files closure -/

inductive LsErr where
  | dupPath
  | noProtoFiles
  | importNotExist
  | fuel
  deriving DecidableEq, Repr

def LsErr.tag : LsErr → String
  | .dupPath => "dup" | .noProtoFiles => "noproto" | .importNotExist => "noimport" | .fuel => "fuel"

/-- `GetFileInfos(ModuleSetToModuleReadBucketWithOnlyProtoFiles(moduleSet))`: walk every module in
    order; a path already seen → DuplicateProtoPathError; a module without .proto files →
    NoProtoFilesError (from that module's own walk). Returns (module, file) pairs. -/
def walkAll (ws : WS) : List Nat → List (Nat × PFile) → Except LsErr (List (Nat × PFile))
  | [], acc => .ok acc
  | m :: ms, acc =>
    let rec go : List PFile → List (Nat × PFile) → Except LsErr (List (Nat × PFile))
      | [], acc => .ok acc
      | f :: fs, acc => if acc.any (fun x => x.2.path == f.path) then .error .dupPath else go fs (acc ++ [(m, f)])
    match go (modFiles ws m) acc with
    | .error e => .error e
    | .ok acc' => if (modFiles ws m).isEmpty then .error .noProtoFiles else walkAll ws ms acc'

/-- imports as `FileInfo.Imports()` reports them: unique and sorted. -/
def infoImports (f : PFile) : List Str := sortPaths (dedup f.imports)

/-- the `pathToImageFileInfo` map after `appendWellKnownTypeImageFileInfos`: workspace files
    first, WKTs only where the workspace has no file with that path. -/
def lsLookup (all : List (Nat × PFile)) (wkt : List PFile) (p : Str) : Option (List Str) :=
  match all.find? (fun x => x.2.path == p) with
  | some x => some (infoImports x.2)
  | none =>
    match wkt.find? (fun f => f.path == p) with
    | some f => some f.imports          -- datawkt.FileImports, as stored
    | none => none

/-- `ls-files --include-imports`: the sorted (path, isImport) list.  `isTargetFile m f` is the
    target-file decision of module `m` (BufModel.Targeting). -/
def lsFiles (ws : WS) (isTargetFile : Nat → PFile → Bool) : Except LsErr (List (Str × Bool)) :=
  match walkAll ws (List.range ws.mods.length) [] with
  | .error e => .error e
  | .ok all =>
    let infos := sortBy (fun a b => strLe a.2.path b.2.path) all
    let roots := (infos.filter (fun x => isTargetFile x.1 x.2)).map (·.2.path)
    match dfsRoots (lsLookup all ws.wkt) (all.length + ws.wkt.length + 1) roots with
    | .error .fuel => .error .fuel
    | .error (.missing _) => .error .importNotExist
    | .ok (vis, _) =>
      .ok ((sortPaths vis).map (fun p => (p, !(all.any (fun x => x.2.path == p && isTargetFile x.1 x.2)))))

end BufModel.Graph
