import BufModel.Filter
import BufModel.Targeting
/-
  BufModel.OrderClauses — C02's order clauses on FILTERED images and on OVERLAPPING target paths.

  The code that exists is already modelled: `BufModel.Filter.remapDeps` (bufimageutil
  `remapDependencies`) and `BufModel.Targeting.moduleTargetFiles` (`moduleReadBucket.WalkFileInfos`
  with only-target-files).  This file adds

  * `keptDeps` / `gainedDeps`: the two halves of `remapDeps`, so that the theorems can speak about
    "the kept imports in their old order, then the imports gained through public imports, ascending";
  * the two regressions the C02 check once missed, as counter-models:
      `remapDepsArrival`   (seed C02-m7) the gained imports in the order Go's map iteration produced them,
      `walkSkipCovered`    (seed C02-m8) "skip a target path that an already walked path covers" in
                           place of the per-file seen-set.
-/
namespace BufModel.OrderClauses
open BufModel.Path BufModel.Graph BufModel.Targeting BufModel.Filter

/-- `closure.imports[file]`: a Go map, listed in whatever order the iteration yields. -/
def requiredOf (st : St) (f : File) : List Id := (st.edges.filter (fun e => e.1 = f.id)).map (·.2)

/-- the old dependency entries that are still required, in their old order. -/
def keptDeps (req : List Id) (f : File) : List Id := (f.deps.map (·.file)).filter (fun d => req.contains d)

/-- the required imports that were not in the old list (reached through `import public`), ascending. -/
def gainedDeps (req : List Id) (f : File) : List Id :=
  sortNat ((req.filter (fun x => !(f.deps.map (·.file)).contains x)).eraseDups)

/-- seed C02-m7: the gained imports are appended in arrival order (the sort acts on a copy). -/
def remapDepsArrival (st : St) (f : File) : List Id :=
  let req := requiredOf st f
  keptDeps req f ++ (req.filter (fun x => !(f.deps.map (·.file)).contains x)).eraseDups

/-- seed C02-m8: a target path is skipped when an ALREADY WALKED target path equals or contains
    it; every other target path is walked in full, without a per-file seen-set. -/
def walkSkipCovered (files : List PFile) : List Str → List Str → List PFile
  | [], _ => []
  | tp :: rest, walked =>
    if walked.any (fun w => equalsOrContainsPath w tp) then walkSkipCovered files rest walked
    else files.filter (fun f => equalsOrContainsPath tp f.path) ++ walkSkipCovered files rest (tp :: walked)

end BufModel.OrderClauses
