import BufModel.Rules
/-
  C06, round 6-G: two parts of the configuration / suppression pipeline that `Rules.lean`
  models only "one module at a time" resp. "inside `commentIgnoresAt`":

  * a v2 buf.yaml with SEVERAL modules (`readBufYAMLFile`, case `FileVersionV2`): every module
    gets its own `LintConfig` / `BreakingConfig`, computed from its own section when that is not
    empty, otherwise from the workspace-level section — a VALUE that is the same for every
    module: converting its paths for one module does not change what the next module (or the
    top-level configuration, which is converted last) reads.  The model is a pure map, so an
    implementation that filters the shared slices in place disagrees on the second module.
  * the DIRECTIVE PARSER of `ignoreFileLocation`: which rule ids a leading comment names
    (`stringutil.SplitTrimLinesNoEmpty` + `checkCommentLineForCheckIgnore`).
-/
namespace BufModel.Rules
open BufModel.Path BufGen.RuleTables

/-! ## several modules in one v2 buf.yaml -/

/-- The module directory as the reader sees it: `path: ""` means ".", then
    `normalpath.NormalizeAndValidate`. -/
def moduleDirOf (p : Str) : Except RErr Str :=
  match normalizeAndValidate (if p = [] then dot else p) with
  | .error _ => .error .config
  | .ok d => .ok d

/-- One iteration of the loop over `externalBufYAMLFile.Modules` (for one rule type): the
    module's directory and its `LintConfig` / `BreakingConfig`.  A function of the workspace-level
    section VALUE and the module's own entry only. -/
def convertModule (lint : Bool) (ws : YSection) (m : Str × YSection) : Except RErr (Str × EffConfig) :=
  match moduleDirOf m.1 with
  | .error e => .error e
  | .ok d =>
    match moduleEff lint true d ws m.2 with
    | .error e => .error e
    | .ok eff => .ok (d, eff)

/-- The loop: in file order, the first failing module fails the read. -/
def readYamlModules (lint : Bool) (ws : YSection) : List (Str × YSection) → Except RErr (List (Str × EffConfig))
  | [] => .ok []
  | m :: rest =>
    match convertModule lint ws m with
    | .error e => .error e
    | .ok o =>
      match readYamlModules lint ws rest with
      | .error e => .error e
      | .ok out => .ok (o :: out)

/-- `sort.SliceStable` of the module configs by `DirPath` in `newBufYAMLFile`. -/
def sortModuleConfigs (l : List (Str × EffConfig)) : List (Str × EffConfig) :=
  sortS (fun a b => strLt a.1 b.1) l

/-- `modules:` absent or empty: the single default module ".". -/
def effectiveModules (mods : List (Str × YSection)) : List (Str × YSection) :=
  if mods.isEmpty then [(dot, {})] else mods

/-- Reading a v2 buf.yaml, for one rule type: the module configs (`BufYAMLFile.ModuleConfigs`
    order) and the top-level config. -/
def readYamlMulti (lint : Bool) (ws : YSection) (mods : List (Str × YSection)) :
    Except RErr (List (Str × EffConfig) × Option EffConfig) :=
  match readYamlModules lint ws (effectiveModules mods), topLevelEff lint true ws with
  | .ok ms, .ok t => .ok (sortModuleConfigs ms, t)
  | .error e, _ => .error e
  | _, .error e => .error e

/-! ## the directive parser -/

/-- Lines joined with '\n' (what a leading comment is made of). -/
def joinLines : List Str → Str
  | [] => []
  | [l] => l
  | l :: rest => l ++ '\n' :: joinLines rest

/-- One comment line: trimmed; when it starts with `pre ++ " "` the directive's text is what
    follows (the rule id is matched as a PREFIX of that text, see `textNames`). -/
def directiveOfLine (pre : Str) (line : Str) : Option Str :=
  let t := trimSpace line
  if (pre ++ [' ']).isPrefixOf t then some (t.drop (pre.length + 1)) else none

/-- The directive texts of a leading comment, in line order: at most one per line. -/
def parseIgnoreDirectives (pre : Str) (comment : Str) : List Str :=
  (splitOnChar '\n' comment).filterMap (directiveOfLine pre)

/-- `checkCommentLineForCheckIgnore` on the directive text: `strings.HasPrefix`. -/
def textNames (ruleId : Id) (text : Str) : Bool := ruleId.toList.isPrefixOf text

/-- Does the leading comment name the rule? -/
def commentNames (pre : Str) (comment : Str) (ruleId : Id) : Bool :=
  (parseIgnoreDirectives pre comment).any (textNames ruleId)

end BufModel.Rules
