import BufModel.Case
import BufModel.Path
/-
  BufModel.Lint — executable model of buf's builtin lint rules AS CODED in
    private/bufpkg/bufcheck/bufcheckserver/internal/bufcheckserverhandle/lint.go, lint_util.go
    private/bufpkg/bufcheck/bufcheckserver/internal/bufcheckserverutil/lint.go   (iteration helpers)
    private/bufpkg/bufprotosource/{file.go,paths.go,bufprotosource.go}          (source paths, ForEach*)

  A schema is what bufprotosource exposes of an image: files (path, package, import flag,
  imports with public/weak/unused flags, the seven file options read by PACKAGE_SAME_*),
  enums with values, messages nested arbitrarily (fields of every kind — plain, oneof member,
  proto3 optional, map, group —, oneofs, extensions, nested enums and messages incl. synthetic map
  entries and group bodies), services with RPCs, file-level extensions; every element carries its
  leading comment text.  An annotation is (rule, file path, source path of the reported location); the
  source path is `[]` when the rule reports without a location (nil Location fallback).

  `lint opts rules w` runs exactly the rules listed in `rules` (rule selection is C06's job;
  the harness passes the IDs that the real client configured).  PROTOVALIDATE (CEL, external
  library) is not modelled; IMPORT_NO_WEAK is the deprecated no-op that the code registers.
-/
namespace BufModel.Lint
open BufModel.Case

/-- A field as the field iterator (`fileFields`, NewLintFieldRuleHandler) hands it to a rule.
    The KINDS of fields the rule code can tell apart, and how the schema carries them:
    * plain field, oneof member (`oneofIndex = some i`), proto3 `optional` (`proto3Optional`, the
      only member of its own synthetic oneof): in `Message.fields`, parent = that message;
    * map field: in `Message.fields`; its synthetic entry message (`mapEntry = true`, fields `key`
      and `value`, no comments, no source location) sits in `Message.msgs` at its descriptor index,
      so `key`/`value` are visited with a map-entry parent (exempt from COMMENT_FIELD and
      FIELD_LOWER_SNAKE_CASE as coded);
    * group field: in `Message.fields` with `group = true`, lower-cased group name and EMPTY
      comment — the declaration's comment belongs to the group's nested message in
      `Message.msgs` (COMMENT_FIELD skips the field, COMMENT_MESSAGE judges the message);
    * extension declared inside a message: `Message.exts` (source path tag 6), parent = that message;
    * FILE-LEVEL extension: `File.exts` (source path `[7, i]`), parent message `none` — every field
      rule must treat `none` as "not a map entry", never as "skip"
      (BufProofs.C05.file_extension_reported). -/
structure Field where
  name : Str
  comment : Str
  required : Bool := false
  group : Bool := false
  proto3Optional : Bool := false
  oneofIndex : Option Nat := none
  deriving Repr, DecidableEq

structure EnumValue where
  name : Str
  comment : Str
  number : Int
  deriving Repr, DecidableEq

structure Enum where
  name : Str
  comment : Str
  allowAlias : Bool := false
  values : List EnumValue
  deriving Repr, DecidableEq

structure Oneof where
  name : Str
  comment : Str
  synthetic : Bool := false
  deriving Repr, DecidableEq

inductive Message where
  | mk (name comment : Str) (mapEntry : Bool) (fields : List Field) (oneofs : List Oneof)
       (exts : List Field) (enums : List Enum) (msgs : List Message)
  deriving Repr

namespace Message
def name : Message → Str | .mk n _ _ _ _ _ _ _ => n
def comment : Message → Str | .mk _ c _ _ _ _ _ _ => c
def mapEntry : Message → Bool | .mk _ _ b _ _ _ _ _ => b
def fields : Message → List Field | .mk _ _ _ f _ _ _ _ => f
def oneofs : Message → List Oneof | .mk _ _ _ _ o _ _ _ => o
def exts : Message → List Field | .mk _ _ _ _ _ x _ _ => x
def enums : Message → List Enum | .mk _ _ _ _ _ _ e _ => e
def msgs : Message → List Message | .mk _ _ _ _ _ _ _ m => m
end Message

structure Rpc where
  name : Str
  comment : Str
  inType : Str          -- fully qualified, no leading dot
  outType : Str
  clientStreaming : Bool := false
  serverStreaming : Bool := false
  deriving Repr, DecidableEq

structure Service where
  name : Str
  comment : Str
  rpcs : List Rpc
  deriving Repr, DecidableEq

structure Import where
  path : Str
  isPublic : Bool := false
  isWeak : Bool := false
  isUnused : Bool := false
  deriving Repr, DecidableEq

structure File where
  path : Str
  pkg : Str
  isImport : Bool := false
  syntaxUnspecified : Bool := false
  imports : List Import := []
  /-- csharp_namespace, go_package, java_multiple_files, java_package, php_namespace,
      ruby_package, swift_prefix — the RAW option statements of the file:
      `none` = the file has no `option <name> = …;` statement (the descriptor field is unset, there
      is no source location); `some v` = the statement is present with value `v`
      (java_multiple_files: "true" / "false"; the string options: the string, possibly EMPTY —
      `option go_package = "";` is `some []`).  What a PACKAGE_SAME_<option> rule compares is
      `optVal` (the per-file value extractor, as coded), where it reports is `optLoc`. -/
  langOpts : List (Option Str) := []
  enums : List Enum := []
  msgs : List Message := []
  svcs : List Service := []
  exts : List Field := []
  deriving Repr

abbrev Schema := List File

structure Options where
  /-- raw option values; "" = not set (bufcheckopt falls back to the defaults) -/
  enumZeroValueSuffix : Str := []
  serviceSuffix : Str := []
  rpcAllowSameRequestResponse : Bool := false
  rpcAllowGoogleProtobufEmptyRequests : Bool := false
  rpcAllowGoogleProtobufEmptyResponses : Bool := false
  commentExcludes : List Str := ["buf:lint:ignore".toList]
  deriving Repr

/-- bufcheckopt.GetEnumZeroValueSuffix -/
def Options.zeroSuffix (o : Options) : Str :=
  if o.enumZeroValueSuffix.isEmpty then "_UNSPECIFIED".toList else o.enumZeroValueSuffix

/-- bufcheckopt.GetServiceSuffix -/
def Options.svcSuffix (o : Options) : Str :=
  if o.serviceSuffix.isEmpty then "Service".toList else o.serviceSuffix

inductive Rule where
  | COMMENT_ENUM | COMMENT_ENUM_VALUE | COMMENT_FIELD | COMMENT_MESSAGE | COMMENT_ONEOF
  | COMMENT_RPC | COMMENT_SERVICE
  | DIRECTORY_SAME_PACKAGE
  | ENUM_FIRST_VALUE_ZERO | ENUM_NO_ALLOW_ALIAS | ENUM_PASCAL_CASE | ENUM_VALUE_PREFIX
  | ENUM_VALUE_UPPER_SNAKE_CASE | ENUM_ZERO_VALUE_SUFFIX
  | FIELD_LOWER_SNAKE_CASE | FIELD_NO_DESCRIPTOR | FIELD_NOT_REQUIRED
  | FILE_LOWER_SNAKE_CASE
  | IMPORT_NO_PUBLIC | IMPORT_NO_WEAK | IMPORT_USED
  | MESSAGE_PASCAL_CASE | ONEOF_LOWER_SNAKE_CASE
  | PACKAGE_DEFINED | PACKAGE_DIRECTORY_MATCH | PACKAGE_LOWER_SNAKE_CASE | PACKAGE_NO_IMPORT_CYCLE
  | PACKAGE_SAME_DIRECTORY
  | PACKAGE_SAME_CSHARP_NAMESPACE | PACKAGE_SAME_GO_PACKAGE | PACKAGE_SAME_JAVA_MULTIPLE_FILES
  | PACKAGE_SAME_JAVA_PACKAGE | PACKAGE_SAME_PHP_NAMESPACE | PACKAGE_SAME_RUBY_PACKAGE
  | PACKAGE_SAME_SWIFT_PREFIX
  | PACKAGE_VERSION_SUFFIX
  | RPC_NO_CLIENT_STREAMING | RPC_NO_SERVER_STREAMING | RPC_PASCAL_CASE
  | RPC_REQUEST_RESPONSE_UNIQUE | RPC_REQUEST_STANDARD_NAME | RPC_RESPONSE_STANDARD_NAME
  | SERVICE_PASCAL_CASE | SERVICE_SUFFIX
  | STABLE_PACKAGE_NO_IMPORT_UNSTABLE | SYNTAX_SPECIFIED
  deriving DecidableEq, Repr

def Rule.all : List Rule :=
  [.COMMENT_ENUM, .COMMENT_ENUM_VALUE, .COMMENT_FIELD, .COMMENT_MESSAGE, .COMMENT_ONEOF,
   .COMMENT_RPC, .COMMENT_SERVICE, .DIRECTORY_SAME_PACKAGE, .ENUM_FIRST_VALUE_ZERO,
   .ENUM_NO_ALLOW_ALIAS, .ENUM_PASCAL_CASE, .ENUM_VALUE_PREFIX, .ENUM_VALUE_UPPER_SNAKE_CASE,
   .ENUM_ZERO_VALUE_SUFFIX, .FIELD_LOWER_SNAKE_CASE, .FIELD_NO_DESCRIPTOR, .FIELD_NOT_REQUIRED,
   .FILE_LOWER_SNAKE_CASE, .IMPORT_NO_PUBLIC, .IMPORT_NO_WEAK, .IMPORT_USED, .MESSAGE_PASCAL_CASE,
   .ONEOF_LOWER_SNAKE_CASE, .PACKAGE_DEFINED, .PACKAGE_DIRECTORY_MATCH, .PACKAGE_LOWER_SNAKE_CASE,
   .PACKAGE_NO_IMPORT_CYCLE, .PACKAGE_SAME_DIRECTORY, .PACKAGE_SAME_CSHARP_NAMESPACE,
   .PACKAGE_SAME_GO_PACKAGE, .PACKAGE_SAME_JAVA_MULTIPLE_FILES, .PACKAGE_SAME_JAVA_PACKAGE,
   .PACKAGE_SAME_PHP_NAMESPACE, .PACKAGE_SAME_RUBY_PACKAGE, .PACKAGE_SAME_SWIFT_PREFIX,
   .PACKAGE_VERSION_SUFFIX, .RPC_NO_CLIENT_STREAMING, .RPC_NO_SERVER_STREAMING, .RPC_PASCAL_CASE,
   .RPC_REQUEST_RESPONSE_UNIQUE, .RPC_REQUEST_STANDARD_NAME, .RPC_RESPONSE_STANDARD_NAME,
   .SERVICE_PASCAL_CASE, .SERVICE_SUFFIX, .STABLE_PACKAGE_NO_IMPORT_UNSTABLE, .SYNTAX_SPECIFIED]

def Rule.id : Rule → String
  | .COMMENT_ENUM => "COMMENT_ENUM" | .COMMENT_ENUM_VALUE => "COMMENT_ENUM_VALUE"
  | .COMMENT_FIELD => "COMMENT_FIELD" | .COMMENT_MESSAGE => "COMMENT_MESSAGE"
  | .COMMENT_ONEOF => "COMMENT_ONEOF" | .COMMENT_RPC => "COMMENT_RPC"
  | .COMMENT_SERVICE => "COMMENT_SERVICE" | .DIRECTORY_SAME_PACKAGE => "DIRECTORY_SAME_PACKAGE"
  | .ENUM_FIRST_VALUE_ZERO => "ENUM_FIRST_VALUE_ZERO" | .ENUM_NO_ALLOW_ALIAS => "ENUM_NO_ALLOW_ALIAS"
  | .ENUM_PASCAL_CASE => "ENUM_PASCAL_CASE" | .ENUM_VALUE_PREFIX => "ENUM_VALUE_PREFIX"
  | .ENUM_VALUE_UPPER_SNAKE_CASE => "ENUM_VALUE_UPPER_SNAKE_CASE"
  | .ENUM_ZERO_VALUE_SUFFIX => "ENUM_ZERO_VALUE_SUFFIX"
  | .FIELD_LOWER_SNAKE_CASE => "FIELD_LOWER_SNAKE_CASE" | .FIELD_NO_DESCRIPTOR => "FIELD_NO_DESCRIPTOR"
  | .FIELD_NOT_REQUIRED => "FIELD_NOT_REQUIRED" | .FILE_LOWER_SNAKE_CASE => "FILE_LOWER_SNAKE_CASE"
  | .IMPORT_NO_PUBLIC => "IMPORT_NO_PUBLIC" | .IMPORT_NO_WEAK => "IMPORT_NO_WEAK"
  | .IMPORT_USED => "IMPORT_USED" | .MESSAGE_PASCAL_CASE => "MESSAGE_PASCAL_CASE"
  | .ONEOF_LOWER_SNAKE_CASE => "ONEOF_LOWER_SNAKE_CASE" | .PACKAGE_DEFINED => "PACKAGE_DEFINED"
  | .PACKAGE_DIRECTORY_MATCH => "PACKAGE_DIRECTORY_MATCH"
  | .PACKAGE_LOWER_SNAKE_CASE => "PACKAGE_LOWER_SNAKE_CASE"
  | .PACKAGE_NO_IMPORT_CYCLE => "PACKAGE_NO_IMPORT_CYCLE"
  | .PACKAGE_SAME_DIRECTORY => "PACKAGE_SAME_DIRECTORY"
  | .PACKAGE_SAME_CSHARP_NAMESPACE => "PACKAGE_SAME_CSHARP_NAMESPACE"
  | .PACKAGE_SAME_GO_PACKAGE => "PACKAGE_SAME_GO_PACKAGE"
  | .PACKAGE_SAME_JAVA_MULTIPLE_FILES => "PACKAGE_SAME_JAVA_MULTIPLE_FILES"
  | .PACKAGE_SAME_JAVA_PACKAGE => "PACKAGE_SAME_JAVA_PACKAGE"
  | .PACKAGE_SAME_PHP_NAMESPACE => "PACKAGE_SAME_PHP_NAMESPACE"
  | .PACKAGE_SAME_RUBY_PACKAGE => "PACKAGE_SAME_RUBY_PACKAGE"
  | .PACKAGE_SAME_SWIFT_PREFIX => "PACKAGE_SAME_SWIFT_PREFIX"
  | .PACKAGE_VERSION_SUFFIX => "PACKAGE_VERSION_SUFFIX"
  | .RPC_NO_CLIENT_STREAMING => "RPC_NO_CLIENT_STREAMING"
  | .RPC_NO_SERVER_STREAMING => "RPC_NO_SERVER_STREAMING" | .RPC_PASCAL_CASE => "RPC_PASCAL_CASE"
  | .RPC_REQUEST_RESPONSE_UNIQUE => "RPC_REQUEST_RESPONSE_UNIQUE"
  | .RPC_REQUEST_STANDARD_NAME => "RPC_REQUEST_STANDARD_NAME"
  | .RPC_RESPONSE_STANDARD_NAME => "RPC_RESPONSE_STANDARD_NAME"
  | .SERVICE_PASCAL_CASE => "SERVICE_PASCAL_CASE" | .SERVICE_SUFFIX => "SERVICE_SUFFIX"
  | .STABLE_PACKAGE_NO_IMPORT_UNSTABLE => "STABLE_PACKAGE_NO_IMPORT_UNSTABLE"
  | .SYNTAX_SPECIFIED => "SYNTAX_SPECIFIED"

def ruleOfString (s : String) : Option Rule := Rule.all.find? (fun r => r.id == s)

structure Annotation where
  rule : Rule
  file : Str
  path : List Nat
  deriving DecidableEq, Repr

/-! ### iteration helpers (bufcheckserverutil/lint.go, bufprotosource.ForEach*) -/

/-- NewLintFilesRuleHandler: files that are imports are skipped. -/
def nonImport (w : Schema) : List File := w.filter (fun f => !f.isImport)

/-- index a list: (i, x) pairs starting at `i`. -/
def indexFrom {α} (i : Nat) : List α → List (Nat × α)
  | [] => []
  | x :: xs => (i, x) :: indexFrom (i + 1) xs

def indexed {α} (xs : List α) : List (Nat × α) := indexFrom 0 xs

mutual
  /-- ForEachMessage on one message at source path `p`: pre-order, with source paths
      (paths.go getMessagePath: nested messages are `p ++ [3, i]`). -/
  def visitMsg (p : List Nat) : Message → List (List Nat × Message)
    | .mk n c me fs os xs es ms => (p, .mk n c me fs os xs es ms) :: visitMsgs p 3 0 ms
  def visitMsgs (p : List Nat) (tag : Nat) (i : Nat) : List Message → List (List Nat × Message)
    | [] => []
    | m :: rest => visitMsg (p ++ [tag, i]) m ++ visitMsgs p tag (i + 1) rest
end

/-- ForEachMessage(file): all messages of a file at every depth, with their source paths. -/
def fileMsgs (f : File) : List (List Nat × Message) := visitMsgs [] 4 0 f.msgs

/-- ForEachEnum(file): top-level enums `[5,i]`, then for each message (pre-order) its nested
    enums `p ++ [4,i]`. -/
def fileEnums (f : File) : List (List Nat × Enum) :=
  (indexed f.enums).map (fun (i, e) => ([5, i], e)) ++
  (fileMsgs f).flatMap (fun (p, m) => (indexed m.enums).map (fun (i, e) => (p ++ [4, i], e)))

/-- NewLintFieldRuleHandler: per message (pre-order) its fields `p++[2,i]` then its extensions
    `p++[6,i]`; finally the file's extensions `[7,i]`.  The parent message (none for file-level
    extensions) is kept because several rules consult `ParentMessage().IsMapEntry()`. -/
def fileFields (f : File) : List (List Nat × Option Message × Field) :=
  (fileMsgs f).flatMap (fun (p, m) =>
    (indexed m.fields).map (fun (i, fd) => (p ++ [2, i], some m, fd)) ++
    (indexed m.exts).map (fun (i, fd) => (p ++ [6, i], some m, fd))) ++
  (indexed f.exts).map (fun (i, fd) => ([7, i], none, fd))

/-- NewLintOneofRuleHandler. -/
def fileOneofs (f : File) : List (List Nat × Message × Nat × Oneof) :=
  (fileMsgs f).flatMap (fun (p, m) => (indexed m.oneofs).map (fun (i, o) => (p ++ [8, i], m, i, o)))

def fileSvcs (f : File) : List (List Nat × Service) :=
  (indexed f.svcs).map (fun (i, s) => ([6, i], s))

def fileRpcs (f : File) : List (List Nat × Service × Rpc) :=
  (fileSvcs f).flatMap (fun (p, s) => (indexed s.rpcs).map (fun (i, r) => (p ++ [2, i], s, r)))

def fileEnumValues (f : File) : List (List Nat × Enum × EnumValue) :=
  (fileEnums f).flatMap (fun (p, e) => (indexed e.values).map (fun (i, v) => (p ++ [2, i], e, v)))

/-! ### small string helpers -/

def hasPrefix (pre s : Str) : Bool := pre.isPrefixOf s
def hasSuffix (suf s : Str) : Bool := suf.reverse.isPrefixOf s.reverse

/-- strings.Join(parts, sep) -/
def joinSep (sep : Str) : List Str → Str
  | [] => []
  | [a] => a
  | a :: rest => a ++ sep ++ joinSep sep rest

/-- the last '.'-separated component (`split[len(split)-1]`). -/
def lastDotComponent (s : Str) : Str := ((splitDots s).getLast?).getD []

/-- normalpath.Ext / filepath.Ext on the (slash-free) base name: from the last '.' on. -/
def extOf (b : Str) : Str :=
  match (b.reverse.span (fun c => c != '.')) with
  | (_, []) => []
  | (revAfter, _dot :: _) => '.' :: revAfter.reverse

def trimSuffix (s suf : Str) : Str :=
  if hasSuffix suf s then s.take (s.length - suf.length) else s

def dedup (xs : List Str) : List Str :=
  xs.foldr (fun x acc => if acc.contains x then acc else x :: acc) []

def emptyType : Str := "google.protobuf.Empty".toList

/-! ### rule predicates -/

/-- lint_util.go validLeadingComment — as coded: with an empty exclude list nothing is valid. -/
def validLeadingComment (excludes : List Str) (comment : Str) : Bool :=
  (splitLines comment).any fun line =>
    let l := trimSpace line
    excludes.any fun ex => !l.isEmpty && !(hasPrefix ex l)

def ann (r : Rule) (f : File) (p : List Nat) : Annotation := ⟨r, f.path, p⟩

/-- `file.PackageLocation()`: nil (no source path) when the file has no package statement. -/
def pkgLoc (f : File) : List Nat := if f.pkg.isEmpty then [] else [2]

def optFieldNumber : Nat → Nat
  | 0 => 37 | 1 => 11 | 2 => 10 | 3 => 1 | 4 => 41 | 5 => 45 | _ => 39

/-- the option statement number `k` of the file (`none` = unset, also beyond the list) -/
def optRaw (f : File) (k : Nat) : Option Str := f.langOpts.getD k none

/-- The per-file VALUE extractor of the PACKAGE_SAME_<option> rules, as coded
    (handleLintPackageSame*): the six string options go through the generated getter
    (`GetGoPackage()` …), which returns "" both for an unset option and for an explicit
    `option go_package = "";` — the two are ONE value; java_multiple_files returns "" only when
    the descriptor field is nil and `strconv.FormatBool` otherwise, so an explicit
    `option java_multiple_files = false;` ("false") is a value DIFFERENT from unset ("").
    With the raw representation both are `getD ""`: "false" is simply not the empty string. -/
def optVal (f : File) (k : Nat) : Str := (optRaw f k).getD []

/-- `file.<Opt>Location()`: nil when there is no option statement — decided by PRESENCE, not by
    the value: a file with `option go_package = "";` in a conflicting package is annotated at
    `[8, 11]`, a file without the statement at the file (no location). -/
def optLoc (f : File) (k : Nat) : List Nat :=
  if (optRaw f k).isSome then [8, optFieldNumber k] else []

def fileDir (f : File) : Str := BufModel.Path.dir f.path

/-- generic "group files by key, flag every file of a group whose `val`s are not all equal". -/
def groupRule (r : Rule) (files : List File) (key : File → Str) (val : File → Str)
    (loc : File → List Nat) : List Annotation :=
  (dedup (files.map key)).flatMap fun k =>
    let grp := files.filter (fun f => key f == k)
    if (dedup (grp.map val)).length > 1 then grp.map (fun f => ann r f (loc f)) else []

def isMapEntryParent : Option Message → Bool
  | some m => m.mapEntry
  | none => false

/-- strings.Trim(name, "_") -/
def trimUnderscores (s : Str) : Str := trimBoth isUnderscore s

def replaceDots (s : Str) : Str := s.map (fun c => if c == '.' then '/' else c)

/-- RPC_REQUEST_STANDARD_NAME / RPC_RESPONSE_STANDARD_NAME on one RPC. -/
def stdNameBad (o : Options) (isReq : Bool) (s : Service) (m : Rpc) : Bool :=
  let full := if isReq then m.inType else m.outType
  let allow := if isReq then o.rpcAllowGoogleProtobufEmptyRequests else o.rpcAllowGoogleProtobufEmptyResponses
  if allow && full == emptyType then false else
  let name := if contains ['.'] full then lastDotComponent full else full
  let suffix := if isReq then "Request".toList else "Response".toList
  let e1 := toPascalCase m.name ++ suffix
  let e2 := toPascalCase s.name ++ e1
  name != e1 && name != e2

/-- One row per method of the non-import files (FullNameToMethod): what RPC_REQUEST_RESPONSE_UNIQUE
    reads of it — the file path and source path it reports at, request and response type. -/
structure RpcRow where
  file : Str
  path : List Nat
  inType : Str
  outType : Str
  deriving Repr, DecidableEq

def rpcTable (w : Schema) : List RpcRow :=
  (nonImport w).flatMap fun f => (fileRpcs f).map fun (p, _, m) => ⟨f.path, p, m.inType, m.outType⟩

def RpcRow.ann (x : RpcRow) : Annotation := ⟨.RPC_REQUEST_RESPONSE_UNIQUE, x.file, x.path⟩

/-- RPC_REQUEST_RESPONSE_UNIQUE on the method table. -/
def rpcUniqueT (o : Options) (ms : List RpcRow) : List Annotation :=
  let aReq := o.rpcAllowGoogleProtobufEmptyRequests
  let aResp := o.rpcAllowGoogleProtobufEmptyResponses
  let same :=
    if o.rpcAllowSameRequestResponse then [] else
    ms.flatMap fun x =>
      if x.inType == x.outType && !(x.inType == emptyType && aReq && aResp) then [x.ann] else []
  let types := dedup (ms.flatMap fun x => [x.inType, x.outType])
  let multi := types.flatMap fun t =>
    let users := ms.filter fun x => x.inType == t || x.outType == t
    if users.length ≤ 1 then [] else
    if t == emptyType && (aReq || aResp) then
      if aReq && aResp then [] else
      let reqs := users.filter fun x => x.inType == emptyType
      let resps := users.filter fun x => x.outType == emptyType
      (if !aReq && reqs.length > 1 then reqs.map RpcRow.ann else []) ++
      (if !aResp && resps.length > 1 then resps.map RpcRow.ann else [])
    else users.map RpcRow.ann
  same ++ multi

/-- RPC_REQUEST_RESPONSE_UNIQUE as DOCUMENTED ("a request / response type may be used by one RPC
    only"): every method of every non-import file is a row of its own, counted over the whole
    module set — whatever the names of the packages, services and RPCs.  This is the Clean
    specification (`globalClean`); what the code computes is `rpcUniqueCoded` below. -/
def rpcUnique (o : Options) (w : Schema) : List Annotation := rpcUniqueT o (rpcTable w)

/-! #### RPC_REQUEST_RESPONSE_UNIQUE as coded: maps keyed by NAMES

  `handleLintRPCRequestResponseUnique` never handles a list of methods: it builds
  `bufprotosource.FullNameToMethod(files...)` — a Go map keyed by `method.FullName()`, the
  FULLY-QUALIFIED name `<package>.<Service>.<Method>`, an error when two methods have the same full
  name — and then, per request / response type, another map from the same key to the method;
  `len` of that map is "how many RPCs use the type".  Which NAME keys the per-type map decides what
  the rule can tell apart: `method.NestedName()` (`<Service>.<Method>`, no package) merges
  `acme.v1.ThingService.GetThing` and `acme.v2.ThingService.GetThing` into one entry.  The model
  keeps both names per row and is parametric in the key (`rpcUniqueBy`), the code's choice being
  `RpcEntry.full` (`rpcUniqueCoded`); BufProofs.C05 proves that with THAT key the maps never merge
  two methods of a linked image (`rpc_unique_keyed_by_full_name`) and shows the v1/v2 witness for
  the nested name (`rpc_unique_nested_key_counterexample`). -/

/-- `<package>.<nested name>`, or the nested name alone in a file without package
    (bufprotosource descriptor.go `FullName`). -/
def qualify (pkg name : Str) : Str := if pkg.isEmpty then name else pkg ++ '.' :: name

/-- `method.NestedName()`: `<Service>.<Method>`. -/
def rpcNestedName (s : Service) (m : Rpc) : Str := s.name ++ '.' :: m.name

/-- `method.FullName()`. -/
def rpcFullName (f : File) (s : Service) (m : Rpc) : Str := qualify f.pkg (rpcNestedName s m)

/-- A Go `map[string]V` as an association list with unique keys: `m[k] = v` overwrites. -/
def goPut {α} (k : Str) (v : α) : List (Str × α) → List (Str × α)
  | [] => [(k, v)]
  | (k', v') :: rest => if k' == k then (k, v) :: rest else (k', v') :: goPut k v rest

/-- the map after the assignments `m[k] = v` for every pair of the list, in order -/
def goMap {α} (kvs : List (Str × α)) : List (Str × α) := kvs.foldl (fun m kv => goPut kv.1 kv.2 m) []

/-- a method as the rule sees it: its two names and the row of the method table -/
structure RpcEntry where
  full : Str
  nested : Str
  row : RpcRow
  deriving Repr, DecidableEq

def fileRpcEntries (f : File) : List RpcEntry :=
  (fileRpcs f).map fun (p, s, m) => ⟨rpcFullName f s m, rpcNestedName s m, ⟨f.path, p, m.inType, m.outType⟩⟩

def rpcEntries (w : Schema) : List RpcEntry := (nonImport w).flatMap fileRpcEntries

/-- no two elements of the list are equal (decidable, structural) -/
def strsDistinct : List Str → Bool
  | [] => true
  | x :: xs => !xs.contains x && strsDistinct xs

/-- The handler as coded, parametric in the name `key` that keys the per-type maps.
    `FullNameToMethod` fails on two methods with one full name ("duplicate method"): the rule then
    reports nothing (the lint call fails; no linked image has such methods).  Otherwise: the
    same-type pass over all methods, then per type the MAP `key ↦ method` of its users and the
    verdicts of `rpcUniqueT` on the values of that map. -/
def rpcUniqueBy (key : RpcEntry → Str) (o : Options) (es : List RpcEntry) : List Annotation :=
  if !strsDistinct (es.map (·.full)) then [] else
  let aReq := o.rpcAllowGoogleProtobufEmptyRequests
  let aResp := o.rpcAllowGoogleProtobufEmptyResponses
  let same :=
    if o.rpcAllowSameRequestResponse then [] else
    es.flatMap fun e =>
      if e.row.inType == e.row.outType && !(e.row.inType == emptyType && aReq && aResp) then [e.row.ann] else []
  let types := dedup (es.flatMap fun e => [e.row.inType, e.row.outType])
  let multi := types.flatMap fun t =>
    let users := (goMap ((es.filter fun e => e.row.inType == t || e.row.outType == t).map fun e => (key e, e.row))).map (·.2)
    if users.length ≤ 1 then [] else
    if t == emptyType && (aReq || aResp) then
      if aReq && aResp then [] else
      let reqs := users.filter fun x => x.inType == emptyType
      let resps := users.filter fun x => x.outType == emptyType
      (if !aReq && reqs.length > 1 then reqs.map RpcRow.ann else []) ++
      (if !aResp && resps.length > 1 then resps.map RpcRow.ann else [])
    else users.map RpcRow.ann
  same ++ multi

/-- RPC_REQUEST_RESPONSE_UNIQUE as coded: keyed by the fully-qualified method name. -/
def rpcUniqueCoded (o : Options) (w : Schema) : List Annotation := rpcUniqueBy RpcEntry.full o (rpcEntries w)

/-- package of a file path among `files` (FilePathToFile lookup). -/
def findFile (files : List File) (path : Str) : Option File := files.find? (fun f => f.path == path)

def isStable (pkg : Str) : Option Bool :=
  match versionForPackage false pkg with
  | some v => some (v.stability == .stable)
  | none => none

def stableNoUnstable (w : Schema) : List Annotation :=
  let files := nonImport w
  files.flatMap fun f =>
    if isStable f.pkg != some true then [] else
    (indexed f.imports).flatMap fun (i, imp) =>
      match findFile files imp.path with
      | none => []
      | some g => if isStable g.pkg == some false then [ann .STABLE_PACKAGE_NO_IMPORT_UNSTABLE f [3, i]] else []

/-! #### PACKAGE_NO_IMPORT_CYCLE (all files, imports included, form the package graph) -/

/-- directly imported packages of `pkg` (≠ pkg, via files present in the request). -/
def pkgEdges (w : Schema) (pkg : Str) : List Str :=
  dedup ((w.filter (fun f => f.pkg == pkg)).flatMap fun f =>
    f.imports.filterMap fun imp =>
      match findFile w imp.path with
      | some g => if g.pkg != pkg then some g.pkg else none
      | none => none)

/-- Is `target` reachable from `from_` through non-empty packages not in `used`?  This is what
    getImportCycleIfExists decides (it backtracks, so it explores every simple path). -/
def reaches (w : Schema) (target : Str) : Nat → List Str → Str → Bool
  | 0, _, _ => false
  | fuel + 1, used, cur =>
    if cur == target then true
    else if used.contains cur then false
    else (pkgEdges w cur).any fun nxt => !nxt.isEmpty && reaches w target fuel (cur :: used) nxt

def importCycle (w : Schema) : List Annotation :=
  (nonImport w).flatMap fun f =>
    if f.pkg.isEmpty then [] else
    (indexed f.imports).flatMap fun (i, imp) =>
      match findFile w imp.path with
      | none => []
      | some g =>
        if g.pkg == f.pkg || g.pkg.isEmpty then [] else
        if reaches w f.pkg (w.length + 1) [f.pkg] g.pkg then [ann .PACKAGE_NO_IMPORT_CYCLE f [3, i]] else []

/-! ### per-element rules as a table

  Most rules have the shape "for every element of a kind in every non-import file: if `bad`
  then report at `loc`".  `ElemRule` packages the element enumeration (the iteration helper),
  the violation predicate AS CODED (`bad`), the reported source path (`loc`) and the SYNTACTIC
  clean condition (`good`, grammar based for the naming rules). -/

structure ElemRule where
  α : Type
  els : File → List α
  bad : Options → α → Bool
  loc : α → List Nat
  good : Options → α → Bool

/-- a comment with a line that has a non-space character and does not start with any exclude -/
def goodComment (o : Options) (c : Str) : Bool := validLeadingComment o.commentExcludes c

def oneofMembers (m : Message) (i : Nat) : List Field :=
  (m.fields ++ m.exts).filter (fun fd => fd.oneofIndex == some i)

/-- the only member is a proto3-optional field (synthetic oneof) -/
def oneofIsP3Optional (m : Message) (i : Nat) : Bool :=
  match oneofMembers m i with
  | [fd] => fd.proto3Optional
  | _ => false

def fileBaseNoExt (f : File) : Str :=
  let b := BufModel.Path.base f.path
  trimSuffix b (extOf b)

def pkgLowerSnake (pkg : Str) : Str := joinSep ['.'] ((splitDots pkg).map (toLowerSnakeCase false))

def elemRule : Rule → Option ElemRule
  | .COMMENT_ENUM => some
      { α := List Nat × Enum, els := fileEnums, loc := (·.1)
        bad := fun o (_, e) => !validLeadingComment o.commentExcludes e.comment
        good := fun o (_, e) => goodComment o e.comment }
  | .COMMENT_ENUM_VALUE => some
      { α := List Nat × Enum × EnumValue, els := fileEnumValues, loc := (·.1)
        bad := fun o (_, _, v) => !validLeadingComment o.commentExcludes v.comment
        good := fun o (_, _, v) => goodComment o v.comment }
  | .COMMENT_FIELD => some
      { α := List Nat × Option Message × Field, els := fileFields, loc := (·.1)
        bad := fun o (_, pm, fd) =>
          if isMapEntryParent pm || fd.group then false
          else !validLeadingComment o.commentExcludes fd.comment
        good := fun o (_, pm, fd) => isMapEntryParent pm || fd.group || goodComment o fd.comment }
  | .COMMENT_MESSAGE => some
      { α := List Nat × Message, els := fileMsgs, loc := (·.1)
        bad := fun o (_, m) => if m.mapEntry then false else !validLeadingComment o.commentExcludes m.comment
        good := fun o (_, m) => m.mapEntry || goodComment o m.comment }
  | .COMMENT_ONEOF => some
      { α := List Nat × Message × Nat × Oneof, els := fileOneofs, loc := (·.1)
        bad := fun o (_, _, _, oo) =>
          if oo.synthetic then false else !validLeadingComment o.commentExcludes oo.comment
        good := fun o (_, _, _, oo) => oo.synthetic || goodComment o oo.comment }
  | .COMMENT_RPC => some
      { α := List Nat × Service × Rpc, els := fileRpcs, loc := (·.1)
        bad := fun o (_, _, m) => !validLeadingComment o.commentExcludes m.comment
        good := fun o (_, _, m) => goodComment o m.comment }
  | .COMMENT_SERVICE => some
      { α := List Nat × Service, els := fileSvcs, loc := (·.1)
        bad := fun o (_, s) => !validLeadingComment o.commentExcludes s.comment
        good := fun o (_, s) => goodComment o s.comment }
  | .ENUM_FIRST_VALUE_ZERO => some
      { α := List Nat × Enum, els := fileEnums, loc := fun (p, _) => p ++ [2, 0, 2]
        bad := fun _ (_, e) => match e.values with | v :: _ => v.number != 0 | [] => false
        good := fun _ (_, e) => match e.values with | v :: _ => v.number == 0 | [] => true }
  | .ENUM_NO_ALLOW_ALIAS => some
      { α := List Nat × Enum, els := fileEnums, loc := fun (p, _) => p ++ [3, 2]
        bad := fun _ (_, e) => e.allowAlias
        good := fun _ (_, e) => !e.allowAlias }
  | .ENUM_PASCAL_CASE => some
      { α := List Nat × Enum, els := fileEnums, loc := fun (p, _) => p ++ [1]
        bad := fun _ (_, e) => e.name != toPascalCase e.name
        good := fun _ (_, e) => isPascalIdent e.name }
  | .ENUM_VALUE_PREFIX => some
      { α := List Nat × Enum × EnumValue, els := fileEnumValues, loc := fun (p, _, _) => p ++ [1]
        bad := fun _ (_, e, v) => !hasPrefix (toUpperSnakeCase false e.name ++ ['_']) v.name
        good := fun _ (_, e, v) => hasPrefix (toUpperSnakeCase false e.name ++ ['_']) v.name }
  | .ENUM_VALUE_UPPER_SNAKE_CASE => some
      { α := List Nat × Enum × EnumValue, els := fileEnumValues, loc := fun (p, _, _) => p ++ [1]
        bad := fun _ (_, _, v) => v.name != toUpperSnakeCase false v.name
        good := fun _ (_, _, v) => isUpperSnakeIdent v.name }
  | .ENUM_ZERO_VALUE_SUFFIX => some
      { α := List Nat × Enum × EnumValue, els := fileEnumValues, loc := fun (p, _, _) => p ++ [1]
        bad := fun o (_, _, v) => v.number == 0 && !hasSuffix o.zeroSuffix v.name
        good := fun o (_, _, v) => v.number != 0 || hasSuffix o.zeroSuffix v.name }
  | .FIELD_LOWER_SNAKE_CASE => some
      { α := List Nat × Option Message × Field, els := fileFields, loc := fun (p, _, _) => p ++ [1]
        bad := fun _ (_, pm, fd) =>
          if isMapEntryParent pm then false else fd.name != toLowerSnakeCase false fd.name
        good := fun _ (_, pm, fd) => isMapEntryParent pm || isLowerSnakeIdent fd.name }
  | .FIELD_NO_DESCRIPTOR => some
      { α := List Nat × Option Message × Field, els := fileFields, loc := fun (p, _, _) => p ++ [1]
        bad := fun _ (_, _, fd) => (trimUnderscores fd.name).map toLower == "descriptor".toList
        good := fun _ (_, _, fd) => (trimUnderscores fd.name).map toLower != "descriptor".toList }
  | .FIELD_NOT_REQUIRED => some
      { α := List Nat × Option Message × Field, els := fileFields, loc := fun (p, _, _) => p ++ [1]
        bad := fun _ (_, _, fd) => fd.required
        good := fun _ (_, _, fd) => !fd.required }
  | .FILE_LOWER_SNAKE_CASE => some
      { α := File, els := fun f => [f], loc := fun _ => []
        bad := fun _ f => fileBaseNoExt f != toLowerSnakeCase false (fileBaseNoExt f)
        good := fun _ f => isLowerSnakeIdent (fileBaseNoExt f) }
  | .IMPORT_NO_PUBLIC => some
      { α := Nat × Import, els := fun f => indexed f.imports, loc := fun (i, _) => [3, i]
        bad := fun _ (_, imp) => imp.isPublic
        good := fun _ (_, imp) => !imp.isPublic }
  | .IMPORT_NO_WEAK => some   -- deprecated: registered with a handler that does nothing
      { α := Nat × Import, els := fun f => indexed f.imports, loc := fun (i, _) => [3, i]
        bad := fun _ _ => false
        good := fun _ _ => true }
  | .IMPORT_USED => some
      { α := Nat × Import, els := fun f => indexed f.imports, loc := fun (i, _) => [3, i]
        bad := fun _ (_, imp) => imp.isUnused
        good := fun _ (_, imp) => !imp.isUnused }
  | .MESSAGE_PASCAL_CASE => some
      { α := List Nat × Message, els := fileMsgs, loc := fun (p, _) => p ++ [1]
        bad := fun _ (_, m) => if m.mapEntry then false else m.name != toPascalCase m.name
        good := fun _ (_, m) => m.mapEntry || isPascalIdent m.name }
  | .ONEOF_LOWER_SNAKE_CASE => some
      { α := List Nat × Message × Nat × Oneof, els := fileOneofs, loc := fun (p, _, _, _) => p ++ [1]
        bad := fun _ (_, m, i, oo) =>
          oo.name != toLowerSnakeCase false oo.name && !oneofIsP3Optional m i
        good := fun _ (_, m, i, oo) => isLowerSnakeIdent oo.name || oneofIsP3Optional m i }
  | .PACKAGE_DEFINED => some
      { α := File, els := fun f => [f], loc := fun _ => []
        bad := fun _ f => f.pkg.isEmpty
        good := fun _ f => !f.pkg.isEmpty }
  | .PACKAGE_DIRECTORY_MATCH => some
      { α := File, els := fun f => [f], loc := fun _ => [2]
        bad := fun _ f => !f.pkg.isEmpty && fileDir f != replaceDots f.pkg
        good := fun _ f => f.pkg.isEmpty || fileDir f == replaceDots f.pkg }
  | .PACKAGE_LOWER_SNAKE_CASE => some
      { α := File, els := fun f => [f], loc := fun _ => [2]
        bad := fun _ f => !f.pkg.isEmpty && f.pkg != pkgLowerSnake f.pkg
        good := fun _ f => f.pkg.isEmpty || (splitDots f.pkg).all isLowerSnakeIdent }
  | .PACKAGE_VERSION_SUFFIX => some
      { α := File, els := fun f => [f], loc := fun _ => [2]
        bad := fun _ f => !f.pkg.isEmpty && (versionForPackage false f.pkg).isNone
        good := fun _ f => f.pkg.isEmpty || (versionForPackage false f.pkg).isSome }
  | .RPC_NO_CLIENT_STREAMING => some
      { α := List Nat × Service × Rpc, els := fileRpcs, loc := (·.1)
        bad := fun _ (_, _, m) => m.clientStreaming
        good := fun _ (_, _, m) => !m.clientStreaming }
  | .RPC_NO_SERVER_STREAMING => some
      { α := List Nat × Service × Rpc, els := fileRpcs, loc := (·.1)
        bad := fun _ (_, _, m) => m.serverStreaming
        good := fun _ (_, _, m) => !m.serverStreaming }
  | .RPC_PASCAL_CASE => some
      { α := List Nat × Service × Rpc, els := fileRpcs, loc := fun (p, _, _) => p ++ [1]
        bad := fun _ (_, _, m) => m.name != toPascalCase m.name
        good := fun _ (_, _, m) => isPascalIdent m.name }
  | .RPC_REQUEST_STANDARD_NAME => some
      { α := List Nat × Service × Rpc, els := fileRpcs, loc := fun (p, _, _) => p ++ [2]
        bad := fun o (_, s, m) => stdNameBad o true s m
        good := fun o (_, s, m) => !stdNameBad o true s m }
  | .RPC_RESPONSE_STANDARD_NAME => some
      { α := List Nat × Service × Rpc, els := fileRpcs, loc := fun (p, _, _) => p ++ [3]
        bad := fun o (_, s, m) => stdNameBad o false s m
        good := fun o (_, s, m) => !stdNameBad o false s m }
  | .SERVICE_PASCAL_CASE => some
      { α := List Nat × Service, els := fileSvcs, loc := fun (p, _) => p ++ [1]
        bad := fun _ (_, s) => s.name != toPascalCase s.name
        good := fun _ (_, s) => isPascalIdent s.name }
  | .SERVICE_SUFFIX => some
      { α := List Nat × Service, els := fileSvcs, loc := fun (p, _) => p ++ [1]
        bad := fun o (_, s) => !hasSuffix o.svcSuffix s.name
        good := fun o (_, s) => hasSuffix o.svcSuffix s.name }
  | .SYNTAX_SPECIFIED => some
      { α := File, els := fun f => [f], loc := fun _ => []
        bad := fun _ f => f.syntaxUnspecified
        good := fun _ f => !f.syntaxUnspecified }
  | _ => none

/-- the source paths a per-element rule flags in one file -/
def ElemRule.flagged (er : ElemRule) (o : Options) (f : File) : List (List Nat) :=
  ((er.els f).filter (er.bad o)).map er.loc

/-- the rules that look at several files at once -/
def globalRule (o : Options) (w : Schema) : Rule → List Annotation
  | .DIRECTORY_SAME_PACKAGE => groupRule .DIRECTORY_SAME_PACKAGE (nonImport w) fileDir (·.pkg) pkgLoc
  | .PACKAGE_NO_IMPORT_CYCLE => importCycle w
  | .PACKAGE_SAME_DIRECTORY => groupRule .PACKAGE_SAME_DIRECTORY (nonImport w) (·.pkg) fileDir pkgLoc
  | .PACKAGE_SAME_CSHARP_NAMESPACE =>
      groupRule .PACKAGE_SAME_CSHARP_NAMESPACE (nonImport w) (·.pkg) (optVal · 0) (optLoc · 0)
  | .PACKAGE_SAME_GO_PACKAGE =>
      groupRule .PACKAGE_SAME_GO_PACKAGE (nonImport w) (·.pkg) (optVal · 1) (optLoc · 1)
  | .PACKAGE_SAME_JAVA_MULTIPLE_FILES =>
      groupRule .PACKAGE_SAME_JAVA_MULTIPLE_FILES (nonImport w) (·.pkg) (optVal · 2) (optLoc · 2)
  | .PACKAGE_SAME_JAVA_PACKAGE =>
      groupRule .PACKAGE_SAME_JAVA_PACKAGE (nonImport w) (·.pkg) (optVal · 3) (optLoc · 3)
  | .PACKAGE_SAME_PHP_NAMESPACE =>
      groupRule .PACKAGE_SAME_PHP_NAMESPACE (nonImport w) (·.pkg) (optVal · 4) (optLoc · 4)
  | .PACKAGE_SAME_RUBY_PACKAGE =>
      groupRule .PACKAGE_SAME_RUBY_PACKAGE (nonImport w) (·.pkg) (optVal · 5) (optLoc · 5)
  | .PACKAGE_SAME_SWIFT_PREFIX =>
      groupRule .PACKAGE_SAME_SWIFT_PREFIX (nonImport w) (·.pkg) (optVal · 6) (optLoc · 6)
  | .RPC_REQUEST_RESPONSE_UNIQUE => rpcUniqueCoded o w
  | .STABLE_PACKAGE_NO_IMPORT_UNSTABLE => stableNoUnstable w
  | _ => []

/-- Run one rule over the whole request (import files are skipped by every iteration helper). -/
def runRule (o : Options) (w : Schema) (r : Rule) : List Annotation :=
  match elemRule r with
  | some er => (nonImport w).flatMap fun f => (er.flagged o f).map (ann r f)
  | none => globalRule o w r

/-- `lint opts rules w`: every annotation of every configured rule. -/
def lint (o : Options) (rules : List Rule) (w : Schema) : List Annotation :=
  rules.flatMap (runRule o w)

/-! ### Clean: a decidable, syntactic "follows the rules by construction"

  The naming conditions are GRAMMARS (no call of the conversion functions); the grammar lemmas
  of BufProofs.Props.C05 connect them to the conversions.  For the grouping rules the condition
  is pairwise ("files with the same package have the same directory / option value"). -/

/-- files with equal `key` have equal `val` (pairwise, syntactic) -/
def groupClean (files : List File) (key val : File → Str) : Bool :=
  files.all fun f => files.all fun g => !(key f == key g) || val f == val g

def globalClean (o : Options) (w : Schema) : Rule → Bool
  | .DIRECTORY_SAME_PACKAGE => groupClean (nonImport w) fileDir (·.pkg)
  | .PACKAGE_NO_IMPORT_CYCLE => (importCycle w).isEmpty
  | .PACKAGE_SAME_DIRECTORY => groupClean (nonImport w) (·.pkg) fileDir
  | .PACKAGE_SAME_CSHARP_NAMESPACE => groupClean (nonImport w) (·.pkg) (optVal · 0)
  | .PACKAGE_SAME_GO_PACKAGE => groupClean (nonImport w) (·.pkg) (optVal · 1)
  | .PACKAGE_SAME_JAVA_MULTIPLE_FILES => groupClean (nonImport w) (·.pkg) (optVal · 2)
  | .PACKAGE_SAME_JAVA_PACKAGE => groupClean (nonImport w) (·.pkg) (optVal · 3)
  | .PACKAGE_SAME_PHP_NAMESPACE => groupClean (nonImport w) (·.pkg) (optVal · 4)
  | .PACKAGE_SAME_RUBY_PACKAGE => groupClean (nonImport w) (·.pkg) (optVal · 5)
  | .PACKAGE_SAME_SWIFT_PREFIX => groupClean (nonImport w) (·.pkg) (optVal · 6)
  | .RPC_REQUEST_RESPONSE_UNIQUE => (rpcUnique o w).isEmpty
  | .STABLE_PACKAGE_NO_IMPORT_UNSTABLE => (stableNoUnstable w).isEmpty
  | _ => true

def cleanRule (o : Options) (w : Schema) (r : Rule) : Bool :=
  match elemRule r with
  | some er => (nonImport w).all fun f => (er.els f).all (er.good o)
  | none => globalClean o w r

/-- Clean for a rule set: every configured rule's syntactic condition holds. -/
def cleanB (o : Options) (rules : List Rule) (w : Schema) : Bool := rules.all (cleanRule o w)

end BufModel.Lint
