import BufModel.Path
import BufModel.Bucket
/-
  BufModel.Generate — executable model of the code-generation plumbing of `buf generate`
  (property C17), as coded in

    private/bufpkg/bufimage/bufimage.go   ImageByDir, ImagesToCodeGeneratorRequests
    private/bufpkg/bufimage/util.go       imageWithOnlyPaths (the branch ImageByDir reaches),
                                          getImageWithImports / addFileWithImports,
                                          imageToCodeGeneratorRequest, isFileToGenerate
    private/buf/bufgen/generator.go       strategy all / directory, validateResponses,
                                          generateCode (responses applied in configuration order)
    private/bufpkg/bufprotoplugin         ValidatePluginResponses, WriteResponse, applyInsertionPoint
    private/bufpkg/bufprotoplugin/bufprotopluginos   response writer: one in-memory bucket per
                                          absolute out directory, flushed only when every response
                                          was applied

  Request side.  An image is the ordered list of its files; a file is (path, isImport, isWKT,
  deps).  `isWKT` stands for `datawkt.Exists(path)`.  Image files are validated by
  `protodescriptor.ValidateProtoPath` when they are constructed (normalised, validated,
  extension ".proto") and `NewImage` rejects duplicate paths, so `ImageByDir` only ever calls
  `imageWithOnlyPaths` with paths that are files of the image: its "potential directory"
  branch and its error exits are unreachable from here and are not modelled.

  Response side.  Contents are strings; file names are arbitrary strings (validated by the
  memory bucket exactly as `storagemem` does, `BufModel.Bucket.memPut/memGet`).  Out
  directories are arbitrary strings, made absolute against a working directory `cwd`
  (`filepath.Abs`).  Disk-level failures of the final flush are not modelled (the flush is
  `storage.Copy` into a `storageos` bucket: C13/C15 territory).

  Archive outs (last section).  An out whose ABSOLUTE path ends in `.jar` / `.zip`
  (`filepath.Ext`) is ONE archive object holding the files of every plugin configured with that
  archive (`responseWriter.writeZip`): the bucket is keyed by the archive's own absolute path,
  starts with `META-INF/MANIFEST.MF` for a `.jar`, and is zipped into that path at the flush.
  `runResponses` (directories only) is kept unchanged; `runResponsesA` is the writer with all
  three kinds of out and coincides with it when no out is an archive
  (`BufProofs.C17.archive_model_conservative`).
-/
namespace BufModel.Generate
open BufModel.Path BufModel.Bucket

/-! ## Images -/

structure File where
  path : Str
  isImport : Bool
  isWKT : Bool
  deps : List Str
  deriving DecidableEq, Repr

abbrev Image := List File

def paths (img : List File) : List Str := img.map (·.path)

/-- `image.GetFile`: the `pathToImageFile` map (paths are unique in an image). -/
def getFile : Image → Str → Option File
  | [], _ => none
  | f :: fs, p => if f.path = p then some f else getFile fs p

def nonImports (img : Image) : List File := img.filter (fun f => !f.isImport)

/-! ### sort.Strings (byte order = code-point order on valid UTF-8) -/

def strLt : Str → Str → Bool
  | [], [] => false
  | [], _ :: _ => true
  | _ :: _, [] => false
  | a :: as, b :: bs => if a < b then true else if b < a then false else strLt as bs

def insertSorted (x : Str) : List Str → List Str
  | [] => [x]
  | y :: ys => if strLt y x then y :: insertSorted x ys else x :: y :: ys

def sortStrs (l : List Str) : List Str := l.foldr insertSorted []

def dedup : List Str → List Str
  | [] => []
  | x :: xs => if x ∈ xs then dedup xs else x :: dedup xs

/-! ### getImageWithImports / addFileWithImports -/

/-- `ImageFileWithIsImport(imageFile, !isNotImport)`. -/
def mark (targets : List Str) (f : File) : File :=
  { f with isImport := !(targets.contains f.path) }

/-- DFS state: `seenPaths` and the accumulator. -/
abbrev DState := List Str × List File

/-- `addFileWithImports`.  The Go recursion is bounded by `seenPaths`; the model takes fuel
    (the depth bound) and `BufProofs` shows `img.length + 1` is never exhausted on an ordered
    image.  With no fuel left the file is skipped (unreachable). -/
def visit (img : Image) (targets : List Str) : Nat → File → DState → DState
  | 0, _, st => st
  | fuel + 1, f, st =>
    if f.path ∈ st.1 then st
    else
      let st1 := f.deps.foldl
        (fun st d => match getFile img d with
          | some g => visit img targets fuel g st
          | none => st)
        (f.path :: st.1, st.2)
      (st1.1, st1.2 ++ [mark targets f])

def visitAll (img : Image) (targets : List Str) (fs : List File) (st : DState) : DState :=
  fs.foldl (fun st f => visit img targets (img.length + 1) f st) st

/-- `imageWithOnlyPaths(image, paths, nil, false)` for paths that are files of the image,
    followed by `getImageWithImports`. -/
def imageWithOnlyPaths (img : Image) (targets : List Str) : Image :=
  (visitAll img targets (targets.filterMap (getFile img)) ([], [])).2

/-- `normalpath.ByDir` keys, sorted (`sort.Strings(dirs)`). -/
def dirsOf (img : Image) : List Str :=
  sortStrs (dedup ((nonImports img).map fun f => dir f.path))

/-- The sorted paths of one directory. -/
def targetsInDir (img : Image) (d : Str) : List Str :=
  sortStrs (((nonImports img).filter fun f => dir f.path = d).map (·.path))

/-- `bufimage.ImageByDir`. -/
def imageByDir (img : Image) : List Image :=
  (dirsOf img).map fun d => imageWithOnlyPaths img (targetsInDir img d)

/-! ### ImagesToCodeGeneratorRequests -/

/-- `isFileToGenerate`, returning the decision and the updated `alreadyUsedPaths`.
    (In Go both maps are nil unless `includeImports`; they are only consulted on the
    `includeImports` path, so threading them unconditionally is the same function.) -/
def isFileToGenerate (f : File) (used nonImp : List Str) (inclImports inclWKT : Bool) :
    Bool × List Str :=
  if !f.isImport then (true, f.path :: used)
  else if !inclImports then (false, used)
  else if !inclWKT && f.isWKT then (false, used)
  else if f.path ∈ used then (false, used)
  else if f.path ∈ nonImp then (false, used)
  else (true, f.path :: used)

/-- A CodeGeneratorRequest: `file_to_generate`, `proto_file` (each with the flag "source
    retention options were stripped"), `source_file_descriptors` (unstripped). -/
structure Request where
  toGenerate : List Str
  protoFiles : List (File × Bool)
  sourceFiles : List Str
  deriving Repr

/-- The loop of `imageToCodeGeneratorRequest`: (file_to_generate, proto_file, used'). -/
def reqFiles (nonImp : List Str) (ii iw : Bool) :
    List File → List Str → List Str × List (File × Bool) × List Str
  | [], used => ([], [], used)
  | f :: fs, used =>
    let r := isFileToGenerate f used nonImp ii iw
    let rest := reqFiles nonImp ii iw fs r.2
    (if r.1 then f.path :: rest.1 else rest.1, (f, r.1) :: rest.2.1, rest.2.2)

def reqs (nonImp : List Str) (ii iw : Bool) : List Image → List Str → List Request
  | [], _ => []
  | img :: rest, used =>
    let r := reqFiles nonImp ii iw img used
    { toGenerate := r.1, protoFiles := r.2.1, sourceFiles := r.1 } :: reqs nonImp ii iw rest r.2.2

/-- `nonImportPaths` of `ImagesToCodeGeneratorRequests`. -/
def allNonImportPaths (imgs : List Image) : List Str :=
  imgs.flatMap fun img => (nonImports img).map (·.path)

/-- `bufimage.ImagesToCodeGeneratorRequests`. -/
def imagesToRequests (imgs : List Image) (ii iw : Bool) : List Request :=
  reqs (allNonImportPaths imgs) ii iw imgs []

structure PluginCfg where
  strategyAll : Bool
  includeImports : Bool
  includeWKT : Bool
  deriving Repr

/-- `execPlugins`/`execLocalPlugin` for one local plugin: the requests it receives. -/
def pluginRequests (img : Image) (cfg : PluginCfg) : List Request :=
  imagesToRequests (if cfg.strategyAll then [img] else imageByDir img)
    cfg.includeImports cfg.includeWKT

/-- All `file_to_generate` entries a plugin receives, over all its requests. -/
def allGenerated (rs : List Request) : List Str := rs.flatMap (·.toGenerate)

/-! ## Responses -/

/-- `CodeGeneratorResponse.File`.  `name`, `insertion_point` and `content` are proto2 `optional
    string`s: a field can be ABSENT (`none`), PRESENT BUT EMPTY (`some []`) or present with a value.
    The code as written never looks at presence: every decision goes through the generated getters
    (`GetName()`, `GetInsertionPoint()`, `GetContent()`), which return "" for an absent field. -/
structure RFile where
  name : Option Str
  insertionPoint : Option Str
  content : Option Str
  deriving DecidableEq, Repr

/-- `file.GetName()`. -/
def RFile.getName (f : RFile) : Str := f.name.getD []
/-- `file.GetInsertionPoint()`. -/
def RFile.getIP (f : RFile) : Str := f.insertionPoint.getD []
/-- `file.GetContent()`. -/
def RFile.getContent (f : RFile) : Str := f.content.getD []

/-- A response file the way `protogen` builds it: name and content present, the insertion point
    present iff it is not empty. -/
def rf (n ip c : Str) : RFile := ⟨some n, if ip = [] then none else some ip, some c⟩

/-- One plugin's response together with its configured out. -/
structure PluginResp where
  out : Str
  files : List RFile
  deriving DecidableEq, Repr

inductive GErr where
  | duplicate                -- ValidatePluginResponses
  | path (e : PErr)          -- bucket path validation / not-exist
  | noInsertionPoint         -- marker not found in the target
  deriving DecidableEq, Repr

def GErr.tag : GErr → String
  | .duplicate => "duplicate"
  | .path e => e.tag
  | .noInsertionPoint => "no-insertion-point"

/-- `ValidatePluginResponses`: the key of every non-insertion-point file of every plugin must
    be unique.  `key out name` is the path the file is identified by.  "Insertion point" is
    decided by VALUE (`file.GetInsertionPoint() != ""`), exactly as `WriteResponse` does: a file
    whose insertion_point is present but empty is a plain file at both sites. -/
def validateFiles (key : Str → Str → Str) (out : Str) : List RFile → List Str → Except GErr (List Str)
  | [], seen => .ok seen
  | f :: fs, seen =>
    if f.getIP ≠ [] then validateFiles key out fs seen
    else
      let k := key out f.getName
      if k ∈ seen then .error .duplicate else validateFiles key out fs (k :: seen)

def validatePluginResponses (key : Str → Str → Str) : List PluginResp → List Str → Except GErr (List Str)
  | [], seen => .ok seen
  | p :: ps, seen =>
    match validateFiles key p.out p.files seen with
    | .error e => .error e
    | .ok seen' => validatePluginResponses key ps seen'

/-! ### writeInsertionPoint -/

def splitOnNL : Str → List Str
  | [] => [[]]
  | c :: cs =>
    if c = '\n' then [] :: splitOnNL cs
    else match splitOnNL cs with
      | [] => [[c]]
      | h :: t => (c :: h) :: t

def dropCR (l : Str) : Str :=
  match l.reverse with
  | '\r' :: r => r.reverse
  | _ => l

/-- `bufio.ScanLines`. -/
def scanLines (s : Str) : List Str :=
  let segs := splitOnNL s
  let segs := if segs.getLast? = some [] then segs.dropLast else segs
  segs.map dropCR

def isInfix (pat : Str) : Str → Bool
  | [] => pat.isEmpty
  | c :: cs => pat.isPrefixOf (c :: cs) || isInfix pat cs

/-- `unicode.IsSpace`. -/
def isSpaceRune (c : Char) : Bool :=
  let n := c.toNat
  (9 ≤ n && n ≤ 13) || n = 32 || n = 0x85 || n = 0xA0 || n = 0x1680 ||
  (0x2000 ≤ n && n ≤ 0x200A) || n = 0x2028 || n = 0x2029 || n = 0x202F || n = 0x205F || n = 0x3000

def leadingWhitespace (l : Str) : Str := l.takeWhile isSpaceRune

def joinNL : List Str → Str
  | [] => []
  | [l] => l
  | l :: ls => l ++ '\n' :: joinNL ls

/-- `writeInsertionPoint`: none = insertion point not found. -/
def insertAt (target point content : Str) : Option Str :=
  let pat := "@@protoc_insertion_point(".toList ++ point ++ [')']
  let lines := scanLines target
  if lines.any (isInfix pat) then
    let ins := scanLines content
    some (joinNL (lines.map fun l =>
      if isInfix pat l then
        (ins.flatMap fun x => leadingWhitespace l ++ x ++ ['\n']) ++ l
      else l))
  else none

/-! ### WriteResponse into the in-memory bucket of one out directory -/

def liftP {α} : Except PErr α → Except GErr α
  | .ok a => .ok a
  | .error e => .error (.path e)

/-- One iteration of `WriteResponse`'s loop; the insertion-point read bucket IS the write
    bucket (`WriteResponseWithInsertionPointReadBucket(readWriteBucket)`). -/
def writeFile (m : Mem) (f : RFile) : Except GErr Mem :=
  if f.getIP ≠ [] then
    match memGet m f.getName with
    | .error e => .error (.path e)
    | .ok target =>
      match insertAt target.toList f.getIP f.getContent with
      | none => .error .noInsertionPoint
      | some c => liftP (memPut m f.getName (String.ofList c))
  else liftP (memPut m f.getName (String.ofList f.getContent))

def writeResponse : Mem → List RFile → Except GErr Mem
  | m, [] => .ok m
  | m, f :: fs =>
    match writeFile m f with
    | .error e => .error e
    | .ok m' => writeResponse m' fs

/-- `filepath.Abs` relative to the working directory `cwd` (absolute and clean). -/
def absPath (cwd out : Str) : Str :=
  if isAbs out then clean out else join [cwd, out]

/-- `readWriteBuckets`: absolute out directory ↦ bucket, in creation order. -/
abbrev Buckets := List (Str × Mem)

def Buckets.find (bs : Buckets) (o : Str) : Option Mem :=
  match bs with
  | [] => none
  | (k, m) :: rest => if k = o then some m else Buckets.find rest o

def Buckets.set (bs : Buckets) (o : Str) (m : Mem) : Buckets :=
  match bs with
  | [] => [(o, m)]
  | (k, v) :: rest => if k = o then (k, m) :: rest else (k, v) :: Buckets.set rest o m

/-- `responseWriter.AddResponse` → `writeDirectory`. -/
def addResponse (cwd : Str) (bs : Buckets) (p : PluginResp) : Except GErr Buckets :=
  let o := absPath cwd p.out
  match writeResponse ((bs.find o).getD []) p.files with
  | .error e => .error e
  | .ok m => .ok (bs.set o m)

def addResponses (cwd : Str) : Buckets → List PluginResp → Except GErr Buckets
  | bs, [] => .ok bs
  | bs, p :: ps =>
    match addResponse cwd bs p with
    | .error e => .error e
    | .ok bs' => addResponses cwd bs' ps

/-- The duplicate key BEFORE fix (kept for the recorded finding): `filepath.Join(out, name)` on
    the out directory as configured.  Two spellings of one directory ("gen", "./x/../gen",
    "$PWD/gen") give different keys although the response writer (`filepath.Abs`) merges them
    into one bucket — see `BufProofs.C17.duplicate_alias_counterexample`. -/
def dupKeyOld (out name : Str) : Str := join [out, name]

/-- The duplicate key as coded (after the fix): `filepath.Abs(filepath.Join(out, name))` — the
    place the file will be written to. -/
def dupKey (cwd out name : Str) : Str := absPath cwd (join [out, name])

/-- `generateCode` after the plugins ran: `validateResponses`, then every response applied in
    configuration order; only when all succeeded are the buckets flushed. -/
def runResponsesWith (key : Str → Str → Str) (cwd : Str) (ps : List PluginResp) : Except GErr Buckets :=
  match validatePluginResponses key ps [] with
  | .error e => .error e
  | .ok _ => addResponses cwd [] ps

def runResponses (cwd : Str) (ps : List PluginResp) : Except GErr Buckets :=
  runResponsesWith (dupKey cwd) cwd ps

/-- The behaviour before the fix. -/
def runResponsesOld (cwd : Str) (ps : List PluginResp) : Except GErr Buckets :=
  runResponsesWith dupKeyOld cwd ps

/-- The files the flush writes: (absolute out directory, bucket key, content). -/
def flushed (bs : Buckets) : List (Str × Str × Content) :=
  bs.flatMap fun (o, m) => m.map fun (k, c) => (o, k, c)

/-- The disk path of a flushed object (`storageos`: `filepath.Join(root, path)`). -/
def diskPath (o k : Str) : Str := join [o, k]

/-! ## Archive outs (`.jar` / `.zip`): `responseWriter.addResponse` / `writeZip` -/

inductive OutKind where
  | dir | zip | jar
  deriving DecidableEq, Repr

/-- `switch filepath.Ext(pluginOut)` on the ABSOLUTE out (case-sensitive; `gen/.zip` is an archive,
    `a.ZIP` and `a.zip.d` are directories). -/
def outKind (o : Str) : OutKind :=
  if extOf o = ".jar".toList then .jar
  else if extOf o = ".zip".toList then .zip
  else .dir

/-- `manifestPath` / `manifestContent` of response_writer.go. -/
def manifestKey : Str := "META-INF/MANIFEST.MF".toList
def manifestContent : Content := "Manifest-Version: 1.0\nCreated-By: 1.6.0 (protoc)\n\n"

/-- What `os.Stat` reports for a path BEFORE the run (nothing is created on disk before the flush,
    so this is fixed during `AddResponse`): `true` = directory, `false` = something else; a path
    that is not listed does not exist. -/
abbrev FS := List (Str × Bool)

def FS.stat (fs : FS) (p : Str) : Option Bool :=
  match fs with
  | [] => none
  | (k, d) :: rest => if k = p then some d else FS.stat rest p

inductive AErr where
  | gen (e : GErr)
  /-- `os.Stat(filepath.Dir(archive))` says "does not exist".  As coded the directory is then
      created (`createOutDirIfNotExists`) and the stat error is returned all the same. -/
  | parentMissing
  /-- "not a directory: %s" -/
  | parentNotDir
  deriving DecidableEq, Repr

def AErr.tag : AErr → String
  | .gen e => e.tag
  | .parentMissing => "archive-parent-missing"
  | .parentNotDir => "archive-parent-not-dir"

def liftG {α} : Except GErr α → Except AErr α
  | .ok a => .ok a
  | .error e => .error (.gen e)

/-- The bucket a plugin writes into when its out has none yet: empty for a directory; for an
    archive the parent directory must exist, and a `.jar` starts with its manifest. -/
def newBucket (fs : FS) (o : Str) : Except AErr Mem :=
  match outKind o with
  | .dir => .ok []
  | k =>
    match fs.stat (dir o) with
    | none => .error .parentMissing
    | some false => .error .parentNotDir
    | some true =>
      if k = .jar then liftG (liftP (memPut [] manifestKey manifestContent)) else .ok []

/-- `responseWriter.AddResponse` → `writeDirectory` / `writeZip`: the bucket is keyed by the
    absolute out itself - for an archive by the ARCHIVE's path, not by its directory. -/
def addResponseA (fs : FS) (cwd : Str) (bs : Buckets) (p : PluginResp) : Except AErr Buckets :=
  let o := absPath cwd p.out
  let start : Except AErr Mem :=
    match bs.find o with
    | some m => .ok m
    | none => newBucket fs o
  match start with
  | .error e => .error e
  | .ok m0 =>
    match writeResponse m0 p.files with
    | .error e => .error (.gen e)
    | .ok m => .ok (bs.set o m)

def addResponsesA (fs : FS) (cwd : Str) : Buckets → List PluginResp → Except AErr Buckets
  | bs, [] => .ok bs
  | bs, p :: ps =>
    match addResponseA fs cwd bs p with
    | .error e => .error e
    | .ok bs' => addResponsesA fs cwd bs' ps

/-- `generateCode` with every kind of out. -/
def runResponsesA (fs : FS) (cwd : Str) (ps : List PluginResp) : Except AErr Buckets :=
  match validatePluginResponses (dupKey cwd) ps [] with
  | .error e => .error (.gen e)
  | .ok _ => addResponsesA fs cwd [] ps

/-- What the flush leaves on disk: a file per object of a directory bucket, ONE archive per
    archive bucket (also when it holds nothing but the manifest, or nothing at all). -/
inductive Obj where
  | file (path : Str) (c : Content)
  | archive (path : Str) (entries : Mem)
  deriving Repr

def flushedA (bs : Buckets) : List Obj :=
  bs.flatMap fun (o, m) =>
    match outKind o with
    | .dir => m.map fun (k, c) => Obj.file (diskPath o k) c
    | _ => [Obj.archive o m]

/-! ## What buf receives from a plugin: `bufprotopluginexec.binaryHandler` + the protoplugin
    response writer with lenient validation + `bufprotoplugin.generator.Generate`

  The plugin's bytes are unmarshalled into a `CodeGeneratorResponse` (field presence survives
  the wire), then handed field by field to a `protoplugin.ResponseWriter`:

    AddCodeGeneratorResponseFiles(response.GetFile()...)     the files as they are
    AddError(response.GetError())                            "" is ignored
    SetSupportedFeatures(response.GetSupportedFeatures())    0 = unset
    SetMinimumEdition / SetMaximumEdition(Get...())          0 = unset

  so of the response-level optional fields only VALUES reach buf: `error: ""` is the same as no
  error field.  `ToCodeGeneratorResponse` then normalises the files
  (`validateAndNormalizeCodeGeneratorResponse`, protoplugin/validate.go):

   1. a file WITHOUT A NAME (`GetName() == ""`: absent or present-empty) continues the previous
      file - its content is appended - unless it is the first file (error) or carries a non-empty
      insertion point (error);
   2. every name is replaced by `ToSlash(Clean(name))`; absolute names and names starting with
      "../" are errors; a file WITHOUT insertion point (`GetInsertionPoint() == ""`) whose
      normalised name an earlier file of the same response already has is DROPPED (lenient mode:
      a warning on stderr); files with a non-empty insertion point are always kept;
   3. supported_features must be a subset of {PROTO3_OPTIONAL = 1, SUPPORTS_EDITIONS = 2}, and with
      SUPPORTS_EDITIONS minimum_edition and maximum_edition must be non-zero and ordered.

  Finally `generator.Generate` turns a non-empty error string into a failure of the plugin. -/

/-- One plugin's `CodeGeneratorResponse` as it is on the wire. -/
structure Resp where
  files : List RFile
  error : Option Str
  features : Option Nat
  minEdition : Option Int
  maxEdition : Option Int
  deriving DecidableEq, Repr

/-- Why running one plugin failed (before any response is applied). -/
inductive XErr where
  | firstNameless        -- "file: first value had no name set"
  | namelessInsertion    -- "file: empty name with non-empty insertion point"
  | pathEmpty            -- "file: path was empty" (unreachable after step 1; kept as coded)
  | pathAbs              -- "should be relative"
  | pathJump             -- "should not jump context"
  | unknownFeatures
  | noMinEdition
  | noMaxEdition
  | minGtMax
  | pluginError          -- the response's own non-empty `error`
  deriving DecidableEq, Repr

def XErr.tag : XErr → String
  | .firstNameless => "first-nameless"
  | .namelessInsertion => "nameless-insertion"
  | .pathEmpty => "path-empty"
  | .pathAbs => "path-abs"
  | .pathJump => "path-jump"
  | .unknownFeatures => "unknown-features"
  | .noMinEdition => "no-min-edition"
  | .noMaxEdition => "no-max-edition"
  | .minGtMax => "min-gt-max"
  | .pluginError => "plugin-error"

/-- Step 1, the body for a nameless file: `if curFile.Content != nil { … }` - here presence of
    `content` is looked at, with no observable difference (appending "" changes nothing, and an
    absent content reads as ""). -/
def appendContent (prev cur : RFile) : RFile :=
  match cur.content with
  | none => prev
  | some c =>
    match prev.content with
    | none => { prev with content := some c }
    | some p => { prev with content := some (p ++ c) }

/-- The loop of `validateAndNormalizeCodeGeneratorResponseFilesWithPotentialEmptyNames`. -/
def mergeLoop : RFile → List RFile → Except XErr (List RFile)
  | prev, [] => .ok [prev]
  | prev, cur :: rest =>
    if cur.getName ≠ [] then
      match mergeLoop cur rest with
      | .error e => .error e
      | .ok l => .ok (prev :: l)
    else if cur.getIP ≠ [] then .error .namelessInsertion
    else mergeLoop (appendContent prev cur) rest

def mergeNameless : List RFile → Except XErr (List RFile)
  | [] => .ok []
  | f :: fs => if f.getName = [] then .error .firstNameless else mergeLoop f fs

/-- `validateAndNormalizePath`. -/
def normalizeName (n : Str) : Except XErr Str :=
  if n = [] then .error .pathEmpty
  else
    let c := clean n
    if isAbs c then .error .pathAbs
    else if jumpPrefix.isPrefixOf c then .error .pathJump
    else .ok c

/-- `validateAndNormalizeCodeGeneratorResponseFilesWithPotentialDuplicates`, lenient. -/
def normLoop : List RFile → List Str → Except XErr (List RFile)
  | [], _ => .ok []
  | f :: fs, seen =>
    match normalizeName f.getName with
    | .error e => .error e
    | .ok n =>
      if n ∈ seen ∧ f.getIP = [] then normLoop fs seen
      else
        match normLoop fs (n :: seen) with
        | .error e => .error e
        | .ok l => .ok ({ f with name := some n } :: l)

def normalizeFiles (fs : List RFile) : Except XErr (List RFile) :=
  match mergeNameless fs with
  | .error e => .error e
  | .ok l => normLoop l []

def Resp.feat (r : Resp) : Nat := r.features.getD 0
def Resp.minEd (r : Resp) : Int := r.minEdition.getD 0
def Resp.maxEd (r : Resp) : Int := r.maxEdition.getD 0

/-- bit test on `supported_features` -/
def hasBit (x bit : Nat) : Bool := (x / bit) % 2 = 1

/-- Running one local plugin whose process answered `r`: the files buf goes on with. -/
def pluginGenerate (r : Resp) : Except XErr (List RFile) :=
  match normalizeFiles r.files with
  | .error e => .error e
  | .ok fs =>
    if r.feat / 4 ≠ 0 then .error .unknownFeatures
    else if hasBit r.feat 2 && r.minEd = 0 then .error .noMinEdition
    else if hasBit r.feat 2 && r.maxEd = 0 then .error .noMaxEdition
    else if hasBit r.feat 2 && r.minEd > r.maxEd then .error .minGtMax
    else if r.error.getD [] ≠ [] then .error .pluginError
    else .ok fs

/-- What the input image demands of every plugin (`computeRequiredFeatures`): a target file uses
    proto3 `optional`; the editions of the target files that are editions files. -/
structure Required where
  optional : Bool
  editions : List Int
  deriving DecidableEq, Repr

/-- `checkRequiredFeatures` for one response: a missing PROTO3_OPTIONAL is only a warning; missing
    SUPPORTS_EDITIONS, or a required edition outside [minimum_edition, maximum_edition], is an error.
    (Its `MinimumEdition == nil` branches are unreachable after `pluginGenerate`.) -/
def featureFails (req : Required) (r : Resp) : Bool :=
  (!req.editions.isEmpty && !hasBit r.feat 2) ||
  (hasBit r.feat 2 && req.editions.any fun e => e < r.minEd || e > r.maxEd)

inductive GenErr where
  | exec (e : XErr)      -- a plugin failed
  | execMulti            -- two or more plugins failed: which errors surface depends on scheduling
  | feature              -- checkRequiredFeatures
  | run (e : AErr)       -- validateResponses / the response writer
  deriving DecidableEq, Repr

def GenErr.tag : GenErr → String
  | .exec e => "exec:" ++ e.tag
  | .execMulti => "exec-multi"
  | .feature => "feature"
  | .run e => e.tag

/-- The plugins run one after the other (in-process driver: the first failure is the result). -/
def execSeq : List (Str × Resp) → Except GenErr (List PluginResp)
  | [] => .ok []
  | (out, r) :: rest =>
    match pluginGenerate r with
    | .error e => .error (.exec e)
    | .ok fs =>
      match execSeq rest with
      | .error e => .error e
      | .ok ps => .ok (⟨out, fs⟩ :: ps)

def execFailures (rs : List (Str × Resp)) : List XErr :=
  rs.filterMap fun x => match pluginGenerate x.2 with | .error e => some e | .ok _ => none

/-- `execPlugins`: all plugins run in parallel with cancel-on-failure and the errors are joined;
    with one failing plugin its error is the result, with several the visible ones depend on
    scheduling and the model only says "several". -/
def execPar (rs : List (Str × Resp)) : Except GenErr (List PluginResp) :=
  match execFailures rs with
  | [] => execSeq rs
  | [e] => .error (.exec e)
  | _ => .error .execMulti

/-- `bufgen.generator.generateCode`: run the plugins, `validateResponses`,
    `checkRequiredFeatures`, then apply every response in configuration order and flush. -/
def runGenerate (par : Bool) (req : Required) (fs : FS) (cwd : Str) (rs : List (Str × Resp)) :
    Except GenErr Buckets :=
  match (if par then execPar rs else execSeq rs) with
  | .error e => .error e
  | .ok ps =>
    match validatePluginResponses (dupKey cwd) ps [] with
    | .error e => .error (.run (.gen e))
    | .ok _ =>
      if rs.any (fun x => featureFails req x.2) then .error .feature
      else
        match addResponsesA fs cwd [] ps with
        | .error e => .error (.run e)
        | .ok bs => .ok bs

end BufModel.Generate
