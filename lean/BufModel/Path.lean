/-
  BufModel.Path — executable model of private/pkg/normalpath (unix flavour) and of the part of
  Go's path/filepath it relies on (Clean, Dir, Join, Rel, Split on '/'-separated paths).

  Paths are `List Char` here (a Go string restricted to valid UTF-8); `String` wrappers at the
  bottom are what the line-protocol driver calls.  Everything is total and computable.
-/
deriving instance DecidableEq for Except

namespace BufModel.Path

abbrev Str := List Char
abbrev Comp := List Char

def dot : Comp := ['.']
def dotdot : Comp := ['.', '.']

/-- Split on '/'.  Always returns a non-empty list; `splitSlash [] = [[]]`. -/
def splitSlash : Str → List Comp
  | [] => [[]]
  | c :: cs =>
    if c = '/' then [] :: splitSlash cs
    else match splitSlash cs with
      | [] => [[c]]
      | h :: t => (c :: h) :: t

/-- Join with '/' (inverse of `splitSlash` on components without '/'). -/
def joinSlash : List Comp → Str
  | [] => []
  | [c] => c
  | c :: cs => c ++ '/' :: joinSlash cs

/-- One step of the lexical `..` elimination of `filepath.Clean`; the stack is kept reversed
    (top of stack = head). -/
def reduceStep (rooted : Bool) (stack : List Comp) (c : Comp) : List Comp :=
  if c = [] then stack
  else if c = dot then stack
  else if c = dotdot then
    match stack with
    | [] => if rooted then [] else [dotdot]
    | top :: rest => if top = dotdot then dotdot :: top :: rest else rest
  else c :: stack

def reduce (rooted : Bool) (comps : List Comp) : List Comp :=
  (comps.foldl (reduceStep rooted) []).reverse

def isAbs (s : Str) : Bool := s.head? = some '/'

def render (rooted : Bool) (out : List Comp) : Str :=
  if rooted then '/' :: joinSlash out
  else if out = [] then dot else joinSlash out

/-- `filepath.Clean` (unix); `Normalize = ToSlash ∘ Clean` is the same function on unix. -/
def clean (s : Str) : Str :=
  render (isAbs s) (reduce (isAbs s) (splitSlash s))

abbrev normalize := clean

inductive PErr where
  | notRelative
  | outsideContext
  | root          -- "cannot use root" / "cannot get root"
  | notExist
  | noMatch
  | multiple      -- storage.ErrExistsMultipleLocations
  | other
  deriving DecidableEq, Repr

def PErr.tag : PErr → String
  | .notRelative => "not-relative"
  | .outsideContext => "outside-context"
  | .root => "root"
  | .notExist => "not-exist"
  | .noMatch => "no-match"
  | .multiple => "multiple"
  | .other => "other"

def jumpPrefix : Str := ['.', '.', '/']

/-- `normalpath.NormalizeAndValidate` (unix), as coded after the `fix:` that also rejects the
    normalised path `".."` itself. -/
def normalizeAndValidate (s : Str) : Except PErr Str :=
  let n := clean s
  if isAbs n then .error .notRelative
  else if n = dotdot || jumpPrefix.isPrefixOf n then .error .outsideContext
  else .ok n

/-- The pre-fix behaviour (kept for the recorded finding): `".."` was accepted. -/
def normalizeAndValidateOld (s : Str) : Except PErr Str :=
  let n := clean s
  if isAbs n then .error .notRelative
  else if jumpPrefix.isPrefixOf n then .error .outsideContext
  else .ok n

/-- Everything up to and including the last '/' (the `dir` half of `filepath.Split`). -/
def splitDir (s : Str) : Str :=
  match splitSlash s with
  | [] => []
  | comps => (joinSlash (comps.dropLast ++ [[]]))

/-- `normalpath.Dir`. `filepath.Dir p = Clean (dir-part of Split p)`. -/
def dir (s : Str) : Str := clean (splitDir s)

/-- `normalpath.Base` = Normalize (filepath.Base p). -/
def base (s : Str) : Str :=
  if s = [] then dot
  else
    -- strip trailing slashes
    let t := (s.reverse.dropWhile (· = '/')).reverse
    if t = [] then ['/']
    else clean ((splitSlash t).getLast?.getD [])

/-- `normalpath.Join`. -/
def join (elems : List Str) : Str :=
  match elems.filter (· ≠ []) with
  | [] => []
  | es => clean (joinSlash es)

/-- components of a cleaned path: "." ↦ [], "/" ↦ [], "a/b" ↦ [a,b], "/a" ↦ [a]. -/
def cleanComps (s : Str) : List Comp :=
  if s = dot then [] else
  (splitSlash (if isAbs s then s.drop 1 else s)).filter (· ≠ [])

def stripCommon : List Comp → List Comp → List Comp × List Comp
  | a :: as, b :: bs => if a = b then stripCommon as bs else (a :: as, b :: bs)
  | as, bs => (as, bs)

/-- `filepath.Rel` on unix, followed by normalpath.Rel's normalisation; error ↦ none. -/
def rel (basep targp : Str) : Option Str :=
  let b := clean basep
  let t := clean targp
  if b = t then some dot
  else if isAbs b != isAbs t then none
  else
    let (rb, rt) := stripCommon (cleanComps b) (cleanComps t)
    if rb.head? = some dotdot then none
    else
      let out := List.replicate rb.length dotdot ++ rt
      some (if out = [] then dot else joinSlash out)

/-- `normalpath.EqualsOrContainsPath value path Relative`, as coded: walk up with `Dir` until
    ".".  Fuel bounds the loop (the real loop does not terminate for absolute `path`; fuel
    exhaustion is reported as `false`). -/
def ecpLoop (value : Str) : Nat → Str → Bool
  | 0, _ => false
  | fuel + 1, cur =>
    if cur = dot then false
    else if value = cur then true
    else ecpLoop value fuel (dir cur)

def equalsOrContainsPath (value path : Str) : Bool :=
  if value = dot then true else ecpLoop value (path.length + 2) path

/-- `normalpath.Components` for a normalized path. -/
def components (s : Str) : List Comp :=
  if s = ['/'] then [['/'], dot]   -- as coded: Split("/") yields an empty file part
  else if isAbs s then ['/'] :: (splitSlash (s.drop 1)).filter (· ≠ [])
  else splitSlash s

/-- `normalpath.StripComponents`. -/
def stripComponents (s : Str) (count : Nat) : Option Str :=
  if count = 0 then some s
  else
    let cs := components s
    if cs.length ≤ count then none else some (join (cs.drop count))

/-- `storageutil.ValidatePath`. -/
def validatePath (s : Str) : Except PErr Str :=
  match normalizeAndValidate s with
  | .error e => .error e
  | .ok p => if p = dot then .error .root else .ok p

/-- `storageutil.ValidatePrefix`. -/
def validatePrefix (s : Str) : Except PErr Str := normalizeAndValidate s

/-- `storagearchive.unmapArchivePath` (matcher passed as a Boolean function):
    `.error` = reject the archive, `.ok none` = skip the entry, `.ok (some p)` = write to `p`. -/
def unmapArchivePath (name : Str) (stripCount : Nat) (matcher : Str → Bool) : Except PErr (Option Str) :=
  if name = [] then .error .other
  else match normalizeAndValidate name with
    | .error e => .error e
    | .ok full =>
      if full = dot then .ok none
      else match stripComponents full stripCount with
        | none => .ok none
        | some p => if matcher p then .ok (some p) else .ok none

/-- A proper name component: non-empty, not "." or "..", no separator. -/
def Proper (c : Comp) : Prop := c ≠ [] ∧ c ≠ dot ∧ c ≠ dotdot ∧ '/' ∉ c

instance (c : Comp) : Decidable (Proper c) := by unfold Proper; infer_instance

/-- A key is a list of proper components; `renderKey` is its canonical path string
    (`"."` for the empty key). -/
abbrev Key := List Comp
def renderKey (k : Key) : Str := render false k

end BufModel.Path
