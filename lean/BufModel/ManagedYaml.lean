import BufModel.Managed
import BufModel.ConfigGen
/-
  BufModel.ManagedYaml — from the `managed:` section of a buf.gen.yaml document to the rule
  records `bufimagemodify` consumes (property C18, "config-key family").

  The reader of the section is already modelled for C16:
    `BufModel.ConfigGen.readManagedV1`  = newGenerateManagedConfigFromExternalV1
    `BufModel.ConfigGen.readManagedV2`  = newGenerateManagedConfigFromExternalV2
  (private/bufpkg/bufconfig/generate_managed_config.go).  This file maps their result into the
  rule records of `BufModel.Managed` (`toConfig`) — the two models use their own `FileOption`
  enumeration and value representation — and states, as a finite table, which governed option
  each key of the v1 form is DOCUMENTED to govern (`V1Section`).  Props/C18 proves that the
  translation produces rules governing exactly the documented option (a `decide` over the
  table plus membership lemmas about `readManagedV1`).

  Also here: `pathKey`, the map key of the mark-sweeper (internal.getPathKey: four little-endian
  bytes per path element).  `BufModel.Managed.sweepLoop` compares location paths with marks as
  `List Nat` (`mk.contains loc.path`): EXACT comparison of whole paths, element by element, no
  bound on the elements.  `pathKey_injective` (Props/C18) is what makes that the right model of
  the Go code on int32 paths; `pathKey16` is the lossy two-byte key of the seeded regression.
-/
namespace BufModel.ManagedYaml
open BufModel.Path

/-! ## rule records: ConfigGen → Managed -/

def foOf : BufModel.ConfigGen.FileOption → BufModel.Managed.FileOption
  | .javaPackage => .javaPackage | .javaPackagePrefix => .javaPackagePrefix
  | .javaPackageSuffix => .javaPackageSuffix | .javaOuterClassname => .javaOuterClassname
  | .javaMultipleFiles => .javaMultipleFiles | .javaStringCheckUtf8 => .javaStringCheckUtf8
  | .optimizeFor => .optimizeFor | .goPackage => .goPackage | .goPackagePrefix => .goPackagePrefix
  | .ccEnableArenas => .ccEnableArenas | .objcClassPrefix => .objcClassPrefix
  | .csharpNamespace => .csharpNamespace | .csharpNamespacePrefix => .csharpNamespacePrefix
  | .phpNamespace => .phpNamespace | .phpMetadataNamespace => .phpMetadataNamespace
  | .phpMetadataNamespaceSuffix => .phpMetadataNamespaceSuffix | .rubyPackage => .rubyPackage
  | .rubyPackageSuffix => .rubyPackageSuffix

def optFoOf : Option BufModel.ConfigGen.FileOption → BufModel.Managed.FileOption
  | none => .unspecified
  | some f => foOf f

/-- descriptorpb.FileOptions_OptimizeMode_value -/
def optModeNumber (name : Str) : Nat :=
  if name = "SPEED".toList then 1 else if name = "CODE_SIZE".toList then 2
  else if name = "LITE_RUNTIME".toList then 3 else 0

/-- descriptorpb.FieldOptions_JSType_value -/
def jsTypeNumber (name : Str) : Nat :=
  if name = "JS_STRING".toList then 1 else if name = "JS_NUMBER".toList then 2 else 0

def disableOf (d : BufModel.ConfigGen.Disable) : BufModel.Managed.Disable :=
  { path := d.path, module := d.module, fieldName := d.field, fileOption := optFoOf d.fileOption,
    jstype := d.fieldOption.isSome }

def overrideOf (o : BufModel.ConfigGen.Override) : BufModel.Managed.Override :=
  let base : BufModel.Managed.Override :=
    { path := o.path, module := o.module, fieldName := o.field, fileOption := optFoOf o.fileOption,
      jstype := o.fieldOption.isSome, sval := [], bval := false, nval := 0 }
  match o.value with
  | .str s => { base with sval := s }
  | .bool b => { base with bval := b }
  | .optMode n => { base with nval := optModeNumber n }
  | .jsType n => { base with nval := jsTypeNumber n }

def toConfig (m : BufModel.ConfigGen.Managed) : BufModel.Managed.Config :=
  { enabled := m.enabled, disables := m.disables.map disableOf, overrides := m.overrides.map overrideOf }

/-- buf.gen.yaml v1 `managed:` → rules (none = the reader rejects the document). -/
def configOfV1 (env : BufModel.ConfigGen.Env) (x : BufModel.ConfigGen.ExtManagedV1) :
    Option BufModel.Managed.Config :=
  (BufModel.ConfigGen.readManagedV1 env x).map toConfig

/-- buf.gen.yaml v2 `managed:` → rules. -/
def configOfV2 (env : BufModel.ConfigGen.Env) (x : BufModel.ConfigGen.ExtManagedV2) :
    Option BufModel.Managed.Config :=
  (BufModel.ConfigGen.readManagedV2 env x).map toConfig

/-! ## the documentation of the v1 keys, as a table -/

/-- the six `{default, except, override}` sections of the v1 form. -/
inductive V1Section where
  | javaPackagePrefix | csharpNamespace | optimizeFor | goPackagePrefix | objcClassPrefix
  | rubyPackage
  deriving DecidableEq, Repr

def V1Section.all : List V1Section :=
  [.javaPackagePrefix, .csharpNamespace, .optimizeFor, .goPackagePrefix, .objcClassPrefix,
   .rubyPackage]

def V1Section.get (x : BufModel.ConfigGen.ExtManagedV1) : V1Section → BufModel.ConfigGen.ExtPrefixV1
  | .javaPackagePrefix => x.javaPackagePrefix | .csharpNamespace => x.csharpNamespace
  | .optimizeFor => x.optimizeFor | .goPackagePrefix => x.goPackagePrefix
  | .objcClassPrefix => x.objcClassPrefix | .rubyPackage => x.rubyPackage

/-- DOCUMENTATION: the governed option the section is about ("`except` removes the listed
    modules from the <option> behaviour", "`override` sets <option> (or its prefix) for the
    listed modules").  This is the specification side of the table. -/
def V1Section.documented : V1Section → BufModel.Managed.Gov
  | .javaPackagePrefix => .str .javaPackage
  | .csharpNamespace => .str .csharpNamespace
  | .optimizeFor => .optimize
  | .goPackagePrefix => .str .goPackage
  | .objcClassPrefix => .str .objcClassPrefix
  | .rubyPackage => .str .rubyPackage

/-- CODE: the option the reader puts into the disable rules of `except`
    (first argument of disablesAndOverridesFromExceptAndOverrideV1 at each call site). -/
def V1Section.exceptOption : V1Section → BufModel.ConfigGen.FileOption
  | .javaPackagePrefix => .javaPackage | .csharpNamespace => .csharpNamespace
  | .optimizeFor => .optimizeFor | .goPackagePrefix => .goPackage
  | .objcClassPrefix => .objcClassPrefix | .rubyPackage => .rubyPackage

/-- CODE: the option the reader puts into the override rules of `default` / `override`
    (third argument at each call site). -/
def V1Section.overrideOption : V1Section → BufModel.ConfigGen.FileOption
  | .javaPackagePrefix => .javaPackagePrefix | .csharpNamespace => .csharpNamespace
  | .optimizeFor => .optimizeFor | .goPackagePrefix => .goPackagePrefix
  | .objcClassPrefix => .objcClassPrefix | .rubyPackage => .rubyPackage

def V1Section.mode : V1Section → BufModel.ConfigGen.DefaultMode
  | .javaPackagePrefix | .optimizeFor | .goPackagePrefix => .required
  | .objcClassPrefix => .optional
  | .csharpNamespace | .rubyPackage => .absent

/-- an override rule naming file option `o` acts on governed option `g`: `o` is the option
    itself or (for the string options) its prefix / suffix companion. -/
def concerns (o : BufModel.Managed.FileOption) : BufModel.Managed.Gov → Bool
  | .str s => o = s.valueOpt || (o ≠ .unspecified && (o = s.prefixOpt || o = s.suffixOpt))
  | .bool b => o = b.fileOpt
  | .optimize => o = .optimizeFor

/-- the three bool keys of the v1 form and the option each is documented to set. -/
inductive V1BoolKey where
  | ccEnableArenas | javaMultipleFiles | javaStringCheckUtf8
  deriving DecidableEq, Repr

def V1BoolKey.documented : V1BoolKey → BufModel.Managed.BoolOpt
  | .ccEnableArenas => .ccEnableArenas | .javaMultipleFiles => .javaMultipleFiles
  | .javaStringCheckUtf8 => .javaStringCheckUtf8

def V1BoolKey.option : V1BoolKey → BufModel.ConfigGen.FileOption
  | .ccEnableArenas => .ccEnableArenas | .javaMultipleFiles => .javaMultipleFiles
  | .javaStringCheckUtf8 => .javaStringCheckUtf8

/-! ## the mark-sweeper's path key -/

/-- `internal.getPathKey`: four little-endian bytes per element. -/
def pathKey : List Nat → List Nat
  | [] => []
  | e :: es => e % 256 :: e / 256 % 256 :: e / 65536 % 256 :: e / 16777216 % 256 :: pathKey es

/-- the lossy key of the seeded regression: two bytes per element. -/
def pathKey16 : List Nat → List Nat
  | [] => []
  | e :: es => e % 256 :: e / 256 % 256 :: pathKey16 es

end BufModel.ManagedYaml
