/-
  BufModel.FindExtension — executable model of `findExtension`
  (private/bufpkg/bufimage/build_image.go), the tree search behind
  `resolverForFiles.FindExtensionByNumber`: the resolver of every image that was BUILT FROM SOURCES.
  The JSON / YAML / txtpb writers print a custom option only if this search finds its declaration
  (property C11: the text-encoded image read back equals the image that was built).

      func findExtension(d container, message FullName, field FieldNumber) ExtensionDescriptor {
          extensions := d.Extensions()
          for i, length := 0, extensions.Len(); i < length; i++ {
              extension := extensions.Get(i)
              if extension.Number() == field && extension.ContainingMessage().FullName() == message {
                  return extension
              }
          }
          for i := range d.Messages().Len() {
              if ext := findExtension(d.Messages().Get(i), message, field); ext != nil {
                  return ext
              }
          }
          return nil // could not be found
      }

  A `container` is a file or a message: a list of extensions DECLARED IN that scope and a list of
  (nested) messages.  Names are interned by the harness: `extendee` is the index of the extended
  message's full name, `id` the index of the extension's own full name (its identity).

  `Variant` carries the two regressions the model exists to exclude, so that the theorems of
  Props/C11FindExt.lean are not vacuous: `skipEmpty` does not descend into a message whose own
  extension list is empty (a pure namespace), `numberOnly` accepts the first extension with the
  right number whatever it extends.  `Variant.asCoded` is the code above.
-/
namespace BufModel.FindExtension

structure Ext where
  extendee : Nat
  number : Int
  id : Nat
deriving DecidableEq, Repr

/-- a message as a scope: the extensions declared directly in it, and its nested messages -/
inductive Msg where
  | mk (exts : List Ext) (nested : List Msg)
deriving Repr

/-- a file as a scope -/
structure File where
  exts : List Ext
  msgs : List Msg
deriving Repr

namespace Msg
def exts : Msg → List Ext | .mk e _ => e
def nested : Msg → List Msg | .mk _ n => n
end Msg

structure Variant where
  skipEmpty : Bool
  numberOnly : Bool
deriving DecidableEq, Repr

def Variant.asCoded : Variant := ⟨false, false⟩

/-- the `if` of the first loop -/
def hits (v : Variant) (message : Nat) (field : Int) (e : Ext) : Bool :=
  e.number == field && (v.numberOnly || e.extendee == message)

/-- the first loop: the scope's own extensions, in declaration order -/
def scanExts (v : Variant) (message : Nat) (field : Int) : List Ext → Option Ext
  | [] => none
  | e :: rest => if hits v message field e then some e else scanExts v message field rest

mutual
/-- `findExtension` on a message -/
def findMsg (v : Variant) (message : Nat) (field : Int) : Msg → Option Ext
  | .mk exts nested =>
    match scanExts v message field exts with
    | some e => some e
    | none => findMsgs v message field nested
/-- the second loop: the nested messages, in declaration order, first hit wins -/
def findMsgs (v : Variant) (message : Nat) (field : Int) : List Msg → Option Ext
  | [] => none
  | m :: rest =>
    if v.skipEmpty && m.exts.isEmpty then findMsgs v message field rest
    else match findMsg v message field m with
      | some e => some e
      | none => findMsgs v message field rest
end

/-- `findExtension` on a file -/
def findFile (v : Variant) (message : Nat) (field : Int) (f : File) : Option Ext :=
  match scanExts v message field f.exts with
  | some e => some e
  | none => findMsgs v message field f.msgs

/-- the code as it is -/
def findExtension (f : File) (message : Nat) (field : Int) : Option Ext :=
  findFile Variant.asCoded message field f

/-! ## what "declared anywhere in the file" means: the pre-order listing of all declarations -/

mutual
def allMsg : Msg → List Ext
  | .mk exts nested => exts ++ allMsgs nested
def allMsgs : List Msg → List Ext
  | [] => []
  | m :: rest => allMsg m ++ allMsgs rest
end

def allFile (f : File) : List Ext := f.exts ++ allMsgs f.msgs

end BufModel.FindExtension
