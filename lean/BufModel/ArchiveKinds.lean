import BufModel.Archive
/-
  BufModel.ArchiveKinds — the ENTRY-KIND layer over BufModel.Archive (C13).

  `BufModel.Archive.extractInto` is the Untar / Unzip loop over entries whose kind is already
  reduced to what the loop looks at (`EKind`: regular / directory / other).  Here an entry carries
  what the archive READER yields for it — the tar typeflag and the file-type bits of the header's
  mode field, or the zip creator/external-attribute class — plus its link name, and `ekind` is the
  library table (`archive/tar` `headerFileInfo.Mode`, klauspost `zip.FileHeader.Mode`) that
  reduces it:

  * tar: the typeflag contributes a type bit for '2' symlink, '3' char, '4' block, '5' dir,
    '6' fifo and NOTHING for '0' reg, '1' hard link, '7' contiguous, 'g' PAX global header,
    'S' GNU sparse and unknown flags; the c_IS* bits of the mode field contribute dir / fifo /
    symlink / block / char / socket bits.  `IsRegular` = no type bit from either source, `IsDir` =
    a dir bit from either source.  ('\x00' TypeRegA never reaches the loop: the reader turns it
    into '0', or into '5' when the name ends in '/'; PAX 'x' and GNU 'L'/'K' records are merged
    into the next header by the reader.)  So as coded a HARD LINK entry, a PAX GLOBAL HEADER and an
    unknown typeflag are "regular files": an (empty, for '1' and 'g') object is written under the
    entry's own validated name; the link name is never looked at.
  * zip: creator FAT/VFAT/NTFS → MS-DOS attribute 0x10 = directory, else regular; creator
    unix/macOS → S_IFMT of the upper 16 bits; AND a name ending in '/' is a directory whatever the
    attributes say.

  The order of the checks per entry is `BufModel.Archive.extractEntry`:
    Untar: unmapArchivePath (error aborts) → skip when not matched / not regular →
           AppleDouble "._" skip (on FileInfo().Name()) → max-file-size error → Put.
    Unzip: unmapArchivePath (error aborts) → skip when not matched → AppleDouble skip →
           Put when regular.
  `extractEntryHoisted` is the variant of seed C13-m8 (kind / AppleDouble filter BEFORE the name
  check), kept only for the `…_counterexample` theorems.
-/
namespace BufModel.ArchiveKinds
open BufModel.Path BufModel.Bucket BufModel.Archive

/-- typeflag of a tar header as `archive/tar.Reader.Next` yields it -/
inductive TarType where
  | reg | link | symlink | char | block | dir | fifo | cont | xglobal | sparse | unknown
  deriving DecidableEq, Repr

/-- file-type bits (c_IS*) of a tar header's mode field -/
inductive ModeBits where
  | none | reg | dir | fifo | lnk | blk | chr | sock
  deriving DecidableEq, Repr

/-- what `zip.FileHeader.Mode` derives from creator version + external attributes -/
inductive ZipMode where
  | plain      -- creator FAT, attributes 0
  | dosDir     -- creator FAT, MS-DOS directory attribute
  | unixReg | unixDir | symlink | fifo | socket | blockDev | charDev
  deriving DecidableEq, Repr

inductive EntryKind where
  | tar (t : TarType) (mb : ModeBits)
  | zip (z : ZipMode)
  deriving DecidableEq, Repr

/-- an archive entry as the reader yields it -/
structure RawEntry where
  kind : EntryKind
  name : Str
  linkname : Str
  content : Content
  deriving DecidableEq

/-- the typeflag sets a file-type bit -/
def TarType.special : TarType → Bool
  | .symlink | .char | .block | .dir | .fifo => true
  | _ => false

/-- the mode field sets a file-type bit -/
def ModeBits.special : ModeBits → Bool
  | .none | .reg => false
  | _ => true

/-- `headerFileInfo.Mode()` reduced to IsDir / IsRegular -/
def tarEKind (t : TarType) (mb : ModeBits) : EKind :=
  if t = .dir || mb = .dir then .dir
  else if t.special || mb.special then .other
  else .reg

def endsWithSlash (s : Str) : Bool := s.getLast? = some '/'

/-- `zip.FileHeader.Mode()` reduced to IsDir / IsRegular -/
def zipEKind (z : ZipMode) (name : Str) : EKind :=
  if z = .dosDir || z = .unixDir || endsWithSlash name then .dir
  else match z with
    | .symlink | .fifo | .socket | .blockDev | .charDev => .other
    | _ => .reg

def RawEntry.ekind (e : RawEntry) : EKind :=
  match e.kind with
  | .tar t mb => tarEKind t mb
  | .zip z => zipEKind z e.name

/-- what the extraction loop looks at: the link name is dropped here — nothing reads it -/
def RawEntry.toEntry (e : RawEntry) : Entry :=
  { name := e.name, content := e.content, kind := e.ekind }

/-- the Untar (`fmt = .tar`) / Unzip (`fmt = .zip`) loop over reader-level entries -/
def extractRaw (fmt : Fmt) (strip : Nat) (matcher : Str → Bool) (maxSize : Nat)
    (es : List RawEntry) (m : Mem) : Option PErr × Mem :=
  extractInto fmt strip matcher maxSize (es.map RawEntry.toEntry) m

/-- `storagearchive.Untar` into an empty bucket -/
def untar (es : List RawEntry) (strip : Nat) (matcher : Str → Bool) (maxSize : Nat) : Option PErr × Mem :=
  extractRaw .tar strip matcher maxSize es []

/-- `storagearchive.Unzip` into an empty bucket -/
def unzip (es : List RawEntry) (strip : Nat) (matcher : Str → Bool) : Option PErr × Mem :=
  extractRaw .zip strip matcher 0 es []

/-- the names `unmapArchivePath` refuses: empty, or refused by `NormalizeAndValidate`
    (absolute / ".." / "../…" after cleaning: `BufProofs.C13.rejected_iff`) -/
def nameRejected (name : Str) : Bool :=
  name = [] || (match normalizeAndValidate name with | .error _ => true | .ok _ => false)

/-- the AppleDouble test on a reader-level entry -/
def RawEntry.apple (fmt : Fmt) (e : RawEntry) : Bool := isApple fmt e.toEntry

/-! ### the variant of seed C13-m8 (documentation only) -/

/-- kind filter and AppleDouble filter hoisted in front of the name check -/
def extractEntryHoisted (fmt : Fmt) (strip : Nat) (matcher : Str → Bool) (maxSize : Nat) (m : Mem) (e : Entry) :
    Except PErr Mem :=
  if !e.isRegular || isApple fmt e then .ok m
  else match unmapArchivePath e.name strip matcher with
    | .error er => .error er
    | .ok none => .ok m
    | .ok (some p) =>
      if fmt = .tar && maxSize ≠ 0 && decide (e.content.utf8ByteSize > maxSize) then .error .other
      else memPut m p e.content

def extractHoisted (fmt : Fmt) (strip : Nat) (matcher : Str → Bool) (maxSize : Nat) :
    List RawEntry → Mem → Option PErr × Mem
  | [], m => (none, m)
  | e :: rest, m =>
    match extractEntryHoisted fmt strip matcher maxSize m e.toEntry with
    | .error er => (some er, m)
    | .ok m' => extractHoisted fmt strip matcher maxSize rest m'

end BufModel.ArchiveKinds
