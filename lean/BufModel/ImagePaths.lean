import BufModel.Path
/-
  BufModel.ImagePaths — executable model for property C11 ("an image faithfully stands in for
  its sources"), as coded in

    private/bufpkg/bufimage/util.go        imageWithOnlyPaths, shouldExcludeFile,
                                           getImageWithImports / addFileWithImports,
                                           checkExcludePathsExistInImage,
                                           imageFileToProtoImageFile / fileDescriptorProtoToProtoImageFile,
                                           stripBufExtensionField
    private/bufpkg/bufimage/bufimage.go    NewImage (empty / duplicate), NewImageForProto (field mapping)
    private/bufpkg/bufimage/validate.go    validateProtoImageFile
    private/bufpkg/bufimage/build_image.go buildImage: sorted targets, getImageFilesRec post-order DFS
    private/bufpkg/bufmodule/module_read_bucket.go   getIsTargetFileForPathUncached (paths / exclude maps)
    private/buf/bufctl/controller.go       filterImage: paths are applied to an image only when some are given
    google.golang.org/protobuf/encoding/protowire    ConsumeTag, ConsumeVarint, ConsumeFieldValue

  Parts:
    (i)   image-level path filtering  `imageWithOnlyPaths`
    (i')  the other rebuilders of image files: `withIsImport`, `imageWithoutImports`, `imageByDir`,
          the image-file level of the type filter `typeFilterFile`; every file carries its
          extension bits `XBits` (descriptor hash, syntax bit, unused dependencies, module, commit)
    (ii)  module-level targeting      `isTargetFile` + `build`  (+ `compilerBits` / `buildX`)
    (iii) image <-> proto image       `toProto` / `toImage`
    (iv)  `stripBufExtensionField` over a wire-format model

  Not modelled: the compiler (a file is its path + declared import list), ProtoFileRef targeting
  (`protoFileTargetPath`, `includePackageFiles`: exclusive with --path and --exclude-path), import
  cycles (a compile error; the DFS below simply terminates on them), encoders/decoders,
  `NewImage`'s check that the files of one module share one commit (every sub-list of an image
  that passed it passes it; the harness only builds such images).
-/
namespace BufModel.ImagePaths
open BufModel.Path

/-! ## (0) Images, the import-closure DFS shared by both implementations

`addFileWithImports` (util.go) and `getImageFilesRec` (build_image.go) are the same walk:
skip if seen, mark seen, walk the declared dependencies in order, append the file with
`isImport := path ∉ nonImportPaths`.  They differ in how a dependency is looked up (the image's
path map vs. the compiled workspace) — a parameter `look` here. -/

structure ModName where
  registry : Str
  owner : Str
  name : Str
  deriving DecidableEq, Repr

/-- What a `bufimage.ImageFile` carries NEXT to its path, import flag and declared dependencies
    ("extension bits": they travel in `buf.alpha.image.v1.ImageFileExtension`, field 8042):
    `FileDescriptorProto()` as an opaque `payload` (a hash of the descriptor without its name and
    dependency list), `IsSyntaxUnspecified()`, `UnusedDependencyIndexes()`, `FullName()`,
    `CommitID()` (dashless; `none` = `uuid.Nil`).  None of the filters below reads them; every one
    of them REBUILDS image files and has to hand them on. -/
structure XBits where
  payload : Nat := 0
  syntaxUnspecified : Bool := false
  unusedDeps : List Nat := []
  modName : Option ModName := none
  commit : Option Str := none
  deriving DecidableEq, Repr

structure File where
  path : Str
  isImport : Bool
  deps : List Str
  /-- the extension bits; `{}` where a caller does not care (source files handed to `build`: the
      compiler's own computation of the bits is not modelled, `build` hands on what it is given). -/
  ext : XBits := {}
  deriving DecidableEq, Repr

abbrev Image := List File

def paths (img : List File) : List Str := img.map (·.path)

/-- `image.GetFile` (`pathToImageFile`; paths are unique in an image). -/
def getFile : List File → Str → Option File
  | [], _ => none
  | f :: fs, p => if f.path = p then some f else getFile fs p

def nonImports (img : Image) : List File := img.filter (fun f => !f.isImport)

/-- `ImageFileWithIsImport(imageFile, !isNotImport)` / `NewImageFile(…, !isNotImport, …)`. -/
def mark (targets : List Str) (f : File) : File :=
  { f with isImport := !(targets.contains f.path) }

/-- DFS state: `seenPaths` / `alreadySeen` and the accumulator. -/
abbrev DState := List Str × List File

/-- One dependency of the loop inside the walk. -/
def visit (look : Str → Option File) (targets : List Str) : Nat → File → DState → DState
  | 0, _, st => st
  | fuel + 1, f, st =>
    if f.path ∈ st.1 then st
    else
      let st1 := f.deps.foldl
        (fun st d => match look d with
          | some g => visit look targets fuel g st
          | none => st)
        (f.path :: st.1, st.2)
      (st1.1, st1.2 ++ [mark targets f])

def visitAll (look : Str → Option File) (targets : List Str) (fuel : Nat) (fs : List File)
    (st : DState) : DState :=
  fs.foldl (fun st f => visit look targets fuel f st) st

inductive Err where
  | invalidPath   -- ValidatePathsNormalizedValidatedUnique
  | samePath      -- the same path for both --path and --exclude-path
  | dotPath       -- "." is not a valid path value
  | noMatch       -- path has no matching file in the image (allowNotExist = false)
  | noFiles       -- NewImage: image contains no files
  | duplicate     -- NewImage: duplicate file
  | noTargets     -- bufmodule.ErrNoTargetProtoFiles
  | compile       -- unresolvable import
  | badProto      -- validateProtoImage / NewFullName / commit parse
  deriving DecidableEq, Repr

def Err.tag : Err → String
  | .invalidPath => "invalid-path"
  | .samePath => "same-path"
  | .dotPath => "dot-path"
  | .noMatch => "no-match"
  | .noFiles => "no-files"
  | .duplicate => "duplicate"
  | .noTargets => "no-targets"
  | .compile => "compile"
  | .badProto => "bad-proto"

def hasDup : List Str → Bool
  | [] => false
  | p :: ps => ps.contains p || hasDup ps

/-- `NewImage` (the part visible on (path, flag) lists). -/
def newImage (files : List File) : Except Err Image :=
  if files.isEmpty then .error .noFiles
  else if hasDup (paths files) then .error .duplicate
  else .ok files

/-! ## (i) imageWithOnlyPaths -/

/-- `normalpath.Ext` = `filepath.Ext`: the suffix starting at the last '.' of the last element. -/
def extGo : Str → Str → Str
  | [], best => best
  | c :: cs, best =>
    if c = '/' then extGo cs [] else if c = '.' then extGo cs (c :: cs) else extGo cs best

def ext (s : Str) : Str := extGo s []

def protoExt : Str := ['.', 'p', 'r', 'o', 't', 'o']

/-- `normalpath.ValidatePathsNormalizedValidatedUnique`. -/
def validUnique : List Str → Bool
  | [] => true
  | p :: ps => p ≠ [] && (normalizeAndValidate p == .ok p) && !(ps.contains p) && validUnique ps

/-- `normalpath.MapHasEqualOrContainingPath(m, path, Relative)`. -/
def mapHas (m : List Str) (path : Str) : Bool := m.any (fun v => equalsOrContainsPath v path)

/-- `normalpath.MapAllEqualOrContainingPathMap(m, path, Relative)` (as a sub-list of `m`). -/
def mapAll (m : List Str) (path : Str) : List Str := m.filter (fun v => equalsOrContainsPath v path)

/-- What `shouldExcludeFile` leaves in `fileMatchingPathMap`: a matching target path is deleted
    when it equals or CONTAINS a matching exclude path. -/
def remaining (mp me : List Str) : List Str :=
  mp.filter (fun p => !(me.any (fun e => equalsOrContainsPath p e)))

/-- `getImageWithImports`. -/
def getImageWithImports (img : Image) (ni : List File) : Except Err Image :=
  newImage (visitAll (getFile img) (paths ni) (img.length + 1) ni ([], [])).2

/-- `checkExcludePathsExistInImage`. -/
def excludesExist (img : Image) (excl : List Str) : Bool :=
  excl.all (fun e => img.any (fun f => equalsOrContainsPath e f.path))

/-- The first loop over `fileOrDirPaths`: direct `.proto` hits vs. potential directories. -/
def splitPaths (img : Image) : List Str → List File → List Str → Except Err (List File × List Str)
  | [], ni, pot => .ok (ni, pot)
  | p :: ps, ni, pot =>
    if p = dot then .error .dotPath
    else if ext p ≠ protoExt then splitPaths img ps ni (pot ++ [p])
    else match getFile img p with
      | some f =>
        if p ∈ paths ni then splitPaths img ps ni pot else splitPaths img ps (ni ++ [f]) pot
      | none => splitPaths img ps ni (pot ++ [p])

/-- State of the loop over `image.Files()`: nonImportImageFiles, matchingPotentialDirPathMap,
    matchingPotentialExcludePathMap. -/
abbrev DirState := List File × List Str × List Str

def dirStep (pot excl : List Str) (st : DirState) (f : File) : DirState :=
  let me := mapAll excl f.path
  let mp := mapAll pot f.path
  let matchedE := st.2.2 ++ me
  let rem := remaining mp me
  if rem.isEmpty then (st.1, st.2.1, matchedE)
  else ((if f.path ∈ paths st.1 then st.1 else st.1 ++ [f]), st.2.1 ++ rem, matchedE)

def imageWithOnlyPaths (img : Image) (pths excl : List Str) (allowNotExist : Bool) :
    Except Err Image :=
  if !validUnique pths then .error .invalidPath
  else if !validUnique excl then .error .invalidPath
  else if pths.isEmpty && !excl.isEmpty then
    let ni := img.filter (fun f => !f.isImport && !mapHas excl f.path)
    if !allowNotExist && !excludesExist img excl then .error .noMatch
    else getImageWithImports img ni
  else if pths.any (fun p => excl.contains p) then .error .samePath
  else match splitPaths img pths [] [] with
    | .error e => .error e
    | .ok (ni, pot) =>
      if pot.isEmpty then
        if !allowNotExist && !excludesExist img excl then .error .noMatch
        else getImageWithImports img ni
      else
        let st := img.foldl (dirStep pot excl) (ni, [], [])
        if !allowNotExist &&
            (!(pot.all (fun p => st.2.1.contains p)) || !(excl.all (fun e => st.2.2.contains e))) then
          .error .noMatch
        else getImageWithImports img st.1

/-- `bufctl.filterImage` for an image that did not come from a workspace: the path filter is only
    applied when a path or an exclude path is given; always `AllowNotExist`. -/
def filterImagePaths (img : Image) (pths excl : List Str) : Except Err Image :=
  if pths.isEmpty && excl.isEmpty then .ok img else imageWithOnlyPaths img pths excl true

/-- byte order (= code-point order on valid UTF-8), `sort.Slice` in `GetTargetFileInfos`, `sort.Strings`. -/
def strLt : Str → Str → Bool
  | [], [] => false
  | [], _ :: _ => true
  | _ :: _, [] => false
  | a :: as, b :: bs => if a < b then true else if b < a then false else strLt as bs

def insertSorted (x : Str) : List Str → List Str
  | [] => [x]
  | y :: ys => if strLt y x then y :: insertSorted x ys else x :: y :: ys

def sortStrs (l : List Str) : List Str := l.foldr insertSorted []

/-! ## (i') the other functions that rebuild image files, and the extension bits

`ImageFileWithIsImport` is the only place of the path filter that constructs an image file;
`mark` above is its use in `addFileWithImports`.  `ImageWithoutImports` and `ImageByDir` reuse the
file objects / the path filter.  `bufimageutil`'s type filter (`filterImageFile`) rebuilds a file
whose descriptor changed with `NewImageFile(…, nil /* no unused dependencies */)`. -/

/-- `bufimage.ImageFileWithIsImport` as coded: the same object when the flag already has the value,
    otherwise `newImageFileNoValidate` with every other attribute handed on. -/
def withIsImport (f : File) (imp : Bool) : File :=
  if f.isImport = imp then f else { f with isImport := imp }

/-- `bufimage.ImageWithoutImports` (`newImageNoValidate`: an empty result is NOT an error). -/
def imageWithoutImports (img : Image) : Image := img.filter (fun f => !f.isImport)

def dedupStrs : List Str → List Str
  | [] => []
  | x :: xs => if x ∈ xs then dedupStrs xs else x :: dedupStrs xs

/-- `normalpath.ByDir` keys of the non-import paths, `sort.Strings(dirs)`. -/
def dirsOf (img : Image) : List Str :=
  sortStrs (dedupStrs ((img.filter (fun f => !f.isImport)).map fun f => dir f.path))

/-- the (sorted) non-import paths of one directory. -/
def pathsInDir (img : Image) (d : Str) : List Str :=
  sortStrs (((img.filter (fun f => !f.isImport)).filter fun f => dir f.path = d).map (·.path))

/-- `bufimage.ImageByDir`: one `ImageWithOnlyPaths(image, pathsOfDir, nil)` per directory. -/
def imageByDir (img : Image) : Except Err (List Image) :=
  (dirsOf img).mapM fun d => imageWithOnlyPaths img (pathsInDir img d) [] false

/-- What the type filter leaves of a file's dependency list (`remapDependencies`): the declared
    dependencies that are still `required` (= `closure.imports[file]`), in order, then the
    required files that were only reachable through a public import, sorted. -/
def remapDeps (required : List Str) (deps : List Str) : List Str :=
  deps.filter (fun d => required.contains d) ++
    sortStrs (dedupStrs (required.filter (fun r => !(deps.contains r))))

/-- "Imports match and no public dependencies": the short cut of `remapDependencies`. -/
def depsUnchanged (required : List Str) (deps : List Str) (hasPublic : Bool) : Bool :=
  deps.all (fun d => required.contains d) && required.length == deps.length && !hasPublic

/-- `bufimageutil.filterImageFile` on the image-file level (the descriptor rewrite itself is
    property C12): `bodyChanged` = some message / enum / service / extension was dropped or
    rewritten, `newPayload` = the hash of the rewritten descriptor.  An untouched file is handed on
    AS IS; a rewritten one keeps flag, syntax bit, module and commit and gets NO unused
    dependencies ("There are no unused dependencies": every kept dependency is required). -/
def typeFilterFile (required : List Str) (bodyChanged hasPublic : Bool) (newPayload : Nat)
    (f : File) : File :=
  if !bodyChanged && depsUnchanged required f.deps hasPublic then f
  else { f with deps := remapDeps required f.deps,
                ext := { f.ext with payload := newPayload, unusedDeps := [] } }

/-- The paths the unused-dependency indexes name (an index out of range names nothing). -/
def unusedPaths (f : File) : List Str := f.ext.unusedDeps.filterMap (fun i => f.deps[i]?)

/-! ## (ii) module-level targeting and the build closure -/

structure Module where
  isTarget : Bool
  targetPaths : List Str
  excludePaths : List Str
  /-- `isImport` of a source file is meaningless (false). -/
  files : List File
  deriving Repr

abbrev Workspace := List Module

/-- `getIsTargetFileForPathUncached` without a ProtoFileRef. -/
def isTargetFile (m : Module) (path : Str) : Bool :=
  if !m.isTarget then false
  else match m.targetPaths.isEmpty, m.excludePaths.isEmpty with
    | true, true => true
    | true, false => !mapHas m.excludePaths path
    | false, true => mapHas m.targetPaths path
    | false, false => mapHas m.targetPaths path && !mapHas m.excludePaths path

def allFiles (ws : Workspace) : List File := ws.flatMap (·.files)

/-- The compiler's import resolution: the file of that path in the module set. -/
def lookup (ws : Workspace) (p : Str) : Option File := getFile (allFiles ws) p

def targetFiles (ws : Workspace) : List File :=
  ws.flatMap (fun m => m.files.filter (fun f => isTargetFile m f.path))

/-- `bufmodule.GetTargetFileInfos` → sorted target paths. -/
def targetPathsOf (ws : Workspace) : List Str := sortStrs (paths (targetFiles ws))

def depsResolvable (ws : Workspace) (out : List File) : Bool :=
  out.all (fun f => f.deps.all (fun d => (lookup ws d).isSome))

/-- `bufimage.BuildImage`: no target → ErrNoTargetProtoFiles; otherwise the post-order closure of
    the sorted targets (`getImage` / `getImageFilesRec`), imports flagged.  An unresolvable
    import is a compile error. -/
def build (ws : Workspace) : Except Err Image :=
  let t := targetPathsOf ws
  if t.isEmpty then .error .noTargets
  else
    let out := (visitAll (lookup ws) t ((allFiles ws).length + 1) (t.filterMap (lookup ws)) ([], [])).2
    if depsResolvable ws out then .ok out else .error .compile

/-- The module set with `--path` / `--exclude-path` given to every targeted module
    (`LocalModuleWithTargetPaths`; it may only be set on targeted modules). -/
def withTargeting (ws : Workspace) (pths excl : List Str) : Workspace :=
  ws.map (fun m => if m.isTarget then { m with targetPaths := pths, excludePaths := excl } else m)

/-! ## (iii) image file <-> proto image file -/

abbrev Bytes := List Nat   -- every element < 256

/-- `bufimage.ImageFile` (the descriptor is `payload`, opaque, plus its declared dependencies and
    its unknown-field bytes). -/
structure IFile where
  path : Str
  deps : List Str
  payload : Str
  unknown : Bytes
  isImport : Bool
  syntaxUnspecified : Bool
  unusedDeps : List Nat
  modName : Option ModName
  /-- dashless commit id; `none` = `uuid.Nil`. -/
  commit : Option Str
  deriving DecidableEq, Repr

structure PModuleInfo where
  name : Option ModName
  commit : Option Str
  deriving DecidableEq, Repr

/-- `imagev1.ImageFileExtension` (field 8042); proto2 optional scalars. -/
structure PExt where
  isImport : Option Bool
  syntaxUnspecified : Option Bool
  unused : List Nat
  moduleInfo : Option PModuleInfo
  deriving DecidableEq, Repr

structure PFile where
  path : Str
  deps : List Str
  payload : Str
  unknown : Bytes
  ext : Option PExt
  deriving DecidableEq, Repr

/-! ## (iv) stripBufExtensionField -/

def bufExtensionFieldNumber : Nat := 8042

/-- `protowire.ConsumeVarint`: at most 10 bytes, the tenth must be 0 or 1.
    `idx` = number of bytes already consumed; returns (value, total length). -/
def consumeVarintAux : Nat → Nat → Nat → Bytes → Option (Nat × Nat)
  | 0, _, _, _ => none                              -- errCodeOverflow (an 11th byte)
  | _ + 1, _, _, [] => none                         -- errCodeTruncated
  | left + 1, idx, acc, b :: bs =>
    if idx = 9 then (if b < 2 then some (acc + b * 2 ^ 63, 10) else none)
    else if b < 128 then some (acc + b * 2 ^ (7 * idx), idx + 1)
    else consumeVarintAux left (idx + 1) (acc + (b - 128) * 2 ^ (7 * idx)) bs

def consumeVarint (b : Bytes) : Option (Nat × Nat) := consumeVarintAux 10 0 0 b

/-- `protowire.ConsumeTag`: (number, wire type, length); number 0 and numbers above MaxInt32 are
    errors. -/
def consumeTag (b : Bytes) : Option (Nat × Nat × Nat) :=
  match consumeVarint b with
  | none => none
  | some (v, n) =>
    let num := v / 8
    if num > 2147483647 then none
    else if num < 1 then none
    else some (num, v % 8, n)

/-- The loop of the StartGroup case of `consumeFieldValueD`; `rec` consumes one nested value,
    `fuel` bounds the number of iterations (each consumes at least one byte).
    Returns the number of bytes consumed including the end-group tag. -/
def groupLoop (rec : Nat → Nat → Bytes → Option Nat) (num : Nat) : Nat → Bytes → Nat → Option Nat
  | 0, _, _ => none
  | fuel + 1, b, consumed =>
    match consumeTag b with
    | none => none
    | some (num2, typ2, n) =>
      if typ2 = 4 then (if num = num2 then some (consumed + n) else none)
      else match rec num2 typ2 (b.drop n) with
        | none => none
        | some m => groupLoop rec num fuel (b.drop (n + m)) (consumed + n + m)

/-- `protowire.consumeFieldValueD` with `d = depth + 1` (so `d = 0` is `depth < 0`). -/
def consumeFieldValueD : Nat → Nat → Nat → Bytes → Option Nat
  | d, num, typ, b =>
    if typ = 0 then (consumeVarint b).map (·.2)
    else if typ = 5 then (if b.length < 4 then none else some 4)
    else if typ = 1 then (if b.length < 8 then none else some 8)
    else if typ = 2 then
      match consumeVarint b with
      | none => none
      | some (m, n) => if m > b.length - n then none else some (n + m)
    else if typ = 3 then
      match d with
      | 0 => none
      | d' + 1 => groupLoop (consumeFieldValueD d') num (b.length + 1) b 0
    else none

/-- `protowire.DefaultRecursionLimit` + 1. -/
def recursionLimit : Nat := 10001

def consumeFieldValue (num typ : Nat) (b : Bytes) : Option Nat :=
  consumeFieldValueD recursionLimit num typ b

/-- The loop of `stripBufExtensionField`; `none` = malformed (the caller returns its input).
    The lazily initialised `result` of the Go code is the same byte string as the eager
    accumulation here. -/
def stripLoop : Nat → Bytes → Bytes → Option Bytes
  | 0, _, _ => none
  | fuel + 1, rest, acc =>
    if rest.isEmpty then some acc
    else match consumeTag rest with
      | none => none
      | some (num, typ, n) =>
        match consumeFieldValue num typ (rest.drop n) with
        | none => none
        | some m =>
          let acc' := if num = bufExtensionFieldNumber then acc else acc ++ rest.take (n + m)
          stripLoop fuel (rest.drop (n + m)) acc'

def stripBufExtensionField (u : Bytes) : Bytes :=
  match stripLoop (u.length + 1) u [] with
  | some r => r
  | none => u

/-! ### (ii') the bits the compiler attaches

`build` above hands on the `ext` of the source files it is given: it does not model how
`buildImage` computes the bits.  What it computes (build_image.go `getImageFilesRec`): syntax bit,
module name and commit for every file, but `UnusedDependencyIndexes` ONLY for the files that
are roots of the compile — an import never carries unused dependencies when it comes out of
`BuildImage`.  With the source files' `ext` read as "the bits of that file when it is a root": -/

/-- The bits `BuildImage` gives a file: those of the file as a root, without the unused
    dependencies when the file is an import. -/
def compilerBits (f : File) : File :=
  { f with ext := { f.ext with unusedDeps := if f.isImport then [] else f.ext.unusedDeps } }

/-- `bufimage.BuildImage` with the bits. -/
def buildX (ws : Workspace) : Except Err Image := (build ws).map (List.map compilerBits)

/-- Forget the unused-dependency indexes (for statements "equal up to unused dependencies"). -/
def eraseUnused (f : File) : File := { f with ext := { f.ext with unusedDeps := [] } }

/-! ### (iii) continued: the two conversions -/

/-- `imageFileToProtoImageFile` / `fileDescriptorProtoToProtoImageFile`. -/
def toProto (f : IFile) : PFile :=
  { path := f.path, deps := f.deps, payload := f.payload,
    unknown := stripBufExtensionField f.unknown,
    ext := some
      { isImport := some f.isImport,
        syntaxUnspecified := some f.syntaxUnspecified,
        unused := f.unusedDeps,
        moduleInfo := match f.modName with
          | none => none
          | some n => some { name := some n, commit := f.commit } } }

def isHex (c : Char) : Bool :=
  ('0' ≤ c && c ≤ '9') || ('a' ≤ c && c ≤ 'f') || ('A' ≤ c && c ≤ 'F')

/-- `uuidutil.FromDashless`: 32 hex digits (then `uuid.Parse`). -/
def validDashless (c : Str) : Bool := c.length = 32 && c.all isHex

def nilDashless : Str := List.replicate 32 '0'

/-- `validateProtoImageFile` + the per-file part of `NewImageForProto`.  The registry must also be
    a valid hostname (`netext.ValidateHostname`, library): the model only checks non-emptiness. -/
def toImage (p : PFile) : Except Err IFile :=
  match p.ext with
  | none =>
    .ok { path := p.path, deps := p.deps, payload := p.payload, unknown := p.unknown,
          isImport := false, syntaxUnspecified := false, unusedDeps := [], modName := none,
          commit := none }
  | some e =>
    if !(e.unused.all (fun i => i < p.deps.length)) then .error .badProto
    else
      let base : IFile :=
        { path := p.path, deps := p.deps, payload := p.payload, unknown := p.unknown,
          isImport := e.isImport.getD false, syntaxUnspecified := e.syntaxUnspecified.getD false,
          unusedDeps := e.unused, modName := none, commit := none }
      match e.moduleInfo with
      | none => .ok base
      | some mi =>
        match mi.name with
        | none => .ok base
        | some n =>
          if n.registry = [] || n.owner = [] || n.name = [] || n.owner.contains '/' || n.name.contains '/' then
            .error .badProto
          else match mi.commit with
            | none => .ok { base with modName := some n }
            | some c =>
              if c = [] then .ok { base with modName := some n }
              else if !validDashless c then .error .badProto
              else .ok { base with modName := some n,
                                   commit := if c = nilDashless then none else some (c.map Char.toLower) }

end BufModel.ImagePaths
