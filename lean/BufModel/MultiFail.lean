import BufModel.Graph
/-
  BufModel.MultiFail — the module-dependency traversal (bufmodule getModuleDeps /
  getModuleDepsRec = `Module.ModuleDeps()`) with the IDENTITY of the failure kept.

  `BufModel.Graph.depsRec` answers "does the traversal fail, and with which kind of error".
  When two or more dependencies of a module fail, the interesting question is WHICH of them the
  returned error names — the first one the traversal reaches.  This file repeats the traversal
  exactly as coded (the scan of the files in bucket-walk order, the `sort.Slice` of the newly
  found dependencies by OpaqueID before the descent, the cycle stack) with errors that say where
  they come from, and with the order of the descent as a PARAMETER:

    * `ord := sortBy natLe`   the code that exists (`depsRecE`, `moduleDepsE`, `toDAGE`)
    * `ord := id`             discovery order = storage enumeration order (`moduleDepsUnsorted`;
                              the stored regression C02-m9 dropped the sort)

  Two things Graph.lean's `WS` cannot say are added on the side: files the import scan cannot
  parse (`broken`), and non-.proto files a module owns (`docs`: LICENSE, README.md … — they can be
  named by an import, and a module that has nothing else fails with NoProtoFilesError).
  `BufProofs.C02.mf_erase_refines_graph` : with neither, erasing the identities gives
  `Graph.moduleDeps`.

  Core Lean only.  Module ids are ranks of the OpaqueIDs, as in Graph.lean.
-/
namespace BufModel.MultiFail
open BufModel.Path BufModel.Graph

/-- An error of `ModuleDeps()` and where it comes from. -/
inductive MFErr where
  /-- ModuleCycleError: `Descriptions` = the stack from the root of the call down, then the module
      that closes the cycle. -/
  | cycle (path : List Nat)
  /-- ImportNotExistError: the importing file and the import path. -/
  | importNotExist (file imp : Str)
  /-- DuplicateProtoPathError for an import (the final tracker's error carries `[]`). -/
  | dupPath (p : Str)
  /-- NoProtoFilesError of a module. -/
  | noProtoFiles (m : Nat)
  /-- the FileAnnotationSet of a file the import scan cannot parse. -/
  | parse (file : Str)
  | fuel
  deriving DecidableEq, Repr

/-- forget the identity (a `parse` has no counterpart in Graph.lean: it is a failure of the
    module's own scan like a missing import, and is mapped there). -/
def MFErr.erase : MFErr → DErr
  | .cycle _ => .cycle
  | .importNotExist _ _ => .importNotExist
  | .dupPath _ => .dupPath
  | .noProtoFiles _ => .noProtoFiles
  | .parse _ => .importNotExist
  | .fuel => .fuel

structure MFWS where
  ws : WS
  /-- (module, path) of the .proto files whose import scan fails (syntax error). -/
  broken : List (Nat × Str) := []
  /-- (module, path) of non-.proto files a module owns. -/
  docs : List (Nat × Str) := []
  deriving Repr

def hasPathE (t : MFWS) (m : Nat) (p : Str) : Bool := hasPath t.ws m p || t.docs.contains (m, p)

def providersE (t : MFWS) (p : Str) : List Nat := (List.range t.ws.mods.length).filter (fun m => hasPathE t m p)

/-- `getModuleForFilePathUncached` over .proto files and documentation files. -/
def ownerE (t : MFWS) (p : Str) : Owner :=
  match providersE t p with
  | [] => .none
  | [m] => .one m
  | _ => .dup

/-- The imports of ONE file (`Graph.scanImports` with the importing file remembered). -/
def scanImportsE (t : MFWS) (self : Nat) (isDirect : Bool) (file : Str) :
    List Str → DepMap → List Nat → Except MFErr (DepMap × List Nat)
  | [], d, nw => .ok (d, nw)
  | p :: ps, d, nw =>
    match ownerE t p with
    | .none => if isWkt t.ws p then scanImportsE t self isDirect file ps d nw else .error (.importNotExist file p)
    | .dup => .error (.dupPath p)
    | .one m =>
      if m = self then scanImportsE t self isDirect file ps d nw
      else if m ∈ d.keys then scanImportsE t self isDirect file ps d nw
      else scanImportsE t self isDirect file ps (d ++ [(m, isDirect)]) (nw ++ [m])

/-- The `WalkFileInfos` callback over the .proto files of the module IN WALK ORDER: a file that
    does not scan ends the walk with its annotations; otherwise its imports are resolved. -/
def scanFilesE (t : MFWS) (self : Nat) (isDirect : Bool) :
    List PFile → DepMap → List Nat → Except MFErr (DepMap × List Nat)
  | [], d, nw => .ok (d, nw)
  | f :: fs, d, nw =>
    if t.broken.contains (self, f.path) then .error (.parse f.path)
    else
      match scanImportsE t self isDirect f.path f.imports d nw with
      | .error e => .error e
      | .ok (d', nw') => scanFilesE t self isDirect fs d' nw'

/-- `getModuleDepsRec`, descending into the new dependencies in the order `ord` puts them. -/
def depsRecWith (ord : List Nat → List Nat) (t : MFWS) :
    Nat → Nat → Bool → List Nat → List Nat × DepMap → Except MFErr (List Nat × DepMap)
  | 0, _, _, _, _ => .error .fuel
  | fuel + 1, m, isDirect, parents, (vis, d) =>
    if m ∈ parents then .error (.cycle (parents.reverse ++ [m]))
    else if m ∈ vis then .ok (vis, d)
    else
      match scanFilesE t m isDirect (modFiles t.ws m) d [] with
      | .error e => .error e
      | .ok (d', nw) =>
        if (modFiles t.ws m).isEmpty then .error (.noProtoFiles m)
        else foldE (fun c s => depsRecWith ord t fuel c false (m :: parents) s) (ord nw) (m :: vis, d')

def moduleDepsWith (ord : List Nat → List Nat) (t : MFWS) (r : Nat) : Except MFErr DepMap :=
  match depsRecWith ord t (t.ws.mods.length + 1) r true [] ([], []) with
  | .error e => .error e
  | .ok (vis, d) => if dupAmong t.ws vis then .error (.dupPath []) else .ok (sortBy depLe d)

/-- The code that exists: `sort.Slice(newModuleDeps, by OpaqueID)` before the descent. -/
def depsRecE (t : MFWS) := depsRecWith (sortBy natLe) t
def moduleDepsE (t : MFWS) (r : Nat) : Except MFErr DepMap := moduleDepsWith (sortBy natLe) t r

/-- The variant that does not exist (stored regression C02-m9): descend in discovery order. -/
def moduleDepsUnsorted (t : MFWS) (r : Nat) : Except MFErr DepMap := moduleDepsWith id t r

/-- `moduleSetToDAGRec` over `moduleDepsE`. -/
def dagRecE (t : MFWS) : Nat → Nat → Dag → Except MFErr Dag
  | 0, _, _ => .error .fuel
  | fuel + 1, m, g =>
    match moduleDepsE t m with
    | .error e => .error e
    | .ok ds =>
      foldE (fun d g' => dagRecE t fuel d.1 (addEdge g' m d.1)) (ds.filter (·.2)) (addNode g m)

def toDAGE (t : MFWS) : Except MFErr Dag :=
  foldE (fun m g => dagRecE t (t.ws.mods.length + 1) m g) (targetMods t.ws) ([], [])

/-! ### what the scan of a module can fail with

  Every failure of the import scan of module `m`, in walk order.  The scan returns the FIRST; that
  is the one place where the walk order shows as coded — see `ScanDet`. -/

def importErr (t : MFWS) (file : Str) (p : Str) : Option MFErr :=
  match ownerE t p with
  | .none => if isWkt t.ws p then none else some (.importNotExist file p)
  | .dup => some (.dupPath p)
  | .one _ => none

def fileErrs (t : MFWS) (m : Nat) (f : PFile) : List MFErr :=
  if t.broken.contains (m, f.path) then [.parse f.path] else f.imports.filterMap (importErr t f.path)

def scanErrs (t : MFWS) (m : Nat) : List MFErr := (modFiles t.ws m).flatMap (fileErrs t m)

/-- No module has two different ways to fail its own scan (two unresolvable imports, two
    unparsable files …).  Decidable; the harness family keeps to it except for the members of
    kind `within`, which exist to show that the hypothesis is needed. -/
def scanDet (t : MFWS) : Bool := (List.range t.ws.mods.length).all (fun m => decide ((scanErrs t m).length ≤ 1))

end BufModel.MultiFail
