import BufModel.Path
import BufModel.Bucket
/-
  BufModel.Faults — write paths under injected I/O failures (property C15).

  A destination is a bucket behind a fault-injecting wrapper (the wrapper is part of the
  harness; its semantics are *defined* here and implemented identically in Go):
    * Put(path)      : scheduled fault → error, nothing happens; otherwise the delegate's Put
                       (which may reject the path).
    * Write(chunk i) : scheduled fault → error, the chunk is not written.
    * Close          : scheduled fault → the delegate is closed (what was written becomes/stays
                       visible) but an error is returned.
  Since Close is always called once Put succeeded, the memory delegate (object visible on
  Close) and the plain disk delegate (os.Create: visible from Put on) end in the same state.

  The helpers of private/pkg/storage are modelled with the error plumbing they have in the
  source: a named return value joined with the deferred Close.  Whether each `defer` joins the
  named return (and not some stale variable) is a *fact extracted from /repo on every run*
  (BufGen/AstFacts.lean); the model takes those facts as a parameter.
-/
namespace BufModel.Faults
open BufModel.Path BufModel.Bucket

inductive Prim where
  | put | write | close
  deriving DecidableEq, Repr

/-- A scheduled fault: the `idx`-th write chunk (idx ignored for put/close) of `path`. -/
structure Fault where
  path : Str
  kind : Prim
  idx : Nat
  deriving DecidableEq, Repr

abbrev Sched := List Fault

def Sched.has (s : Sched) (f : Fault) : Bool := s.contains f

/-- Facts about the source, one per helper: does its deferred Close join the named return? -/
structure Facts where
  putPath : Bool
  copyReader : Bool
  copyPath : Bool
  copyReadObject : Bool
  forWriteObject : Bool
  copyZipFile : Bool
  tarJoinsWriterClose : Bool
  zipJoinsWriterClose : Bool
  deriving DecidableEq, Repr

def Facts.allTrue : Facts := ⟨true, true, true, true, true, true, true, true⟩

/-- What the go/ast translator reports about one helper: was the function found, the name of its
    named `error` result ("" if none), and for every deferred `X = errors.Join(Y, z.Close())`
    the triple (X, Y, closed expression). -/
structure RawFact where
  found : Bool
  named : String
  defers : List (String × String × String)

def endsWithClose (s : String) : Bool := ".Close()".toList.isSuffixOf s.toList

/-- The helper's deferred Close is joined into its NAMED return value: the function exists, has a
    named error result, has at least one such defer, and every one assigns the named result the
    join of the named result with a `.Close()` call.  (`retErr = errors.Join(err, …)` — the
    stale-variable shape of the recorded copyPath defect — and a plain `retErr = x.Close()` both
    fail this test.) -/
def joinsNamed (r : RawFact) : Bool :=
  r.found && r.named != "" && !r.defers.isEmpty &&
    r.defers.all fun d => d.1 == r.named && d.2.1 == r.named && endsWithClose d.2.2

/-- Go's `defer func() { retErr = errors.Join(<X>, c.Close()) }()` after `return <e>`: with
    X = the named result the returned error and the Close error are both kept; with a stale
    variable (nil at that point) the returned error is OVERWRITTEN by the Close error. -/
def deferJoin (joins : Bool) (returned stale closeErr : Bool) : Bool :=
  if joins then returned || closeErr else stale || closeErr

@[simp] theorem deferJoin_true (r st c : Bool) : deferJoin true r st c = (r || c) := rfl

/-- Destination state: visible objects + the faults that fired so far. -/
structure Dest where
  mem : Mem
  fired : List Fault
  deriving DecidableEq

def joinContent : List Content → Content
  | [] => ""
  | c :: rest => c ++ joinContent rest

/-- Write chunks `i, i+1, …` until the first scheduled write fault; returns what was written and
    whether a fault fired (io.Copy / Write stop at the first error). -/
def writeChunks (s : Sched) (path : Str) : Nat → List Content → List Content × Option Fault
  | _, [] => ([], none)
  | i, c :: rest =>
    if s.has ⟨path, .write, i⟩ then ([], some ⟨path, .write, i⟩)
    else
      let r := writeChunks s path (i + 1) rest
      (c :: r.1, r.2)

/-- One object written through the wrapper with the plumbing "Put; defer Close-join; write".
    `joins` = the deferred Close joins the named return.  `path` is the path handed to the
    bucket (validated by the delegate). Returns (error?, dest'). -/
def writeObj (joins : Bool) (s : Sched) (d : Dest) (path : Str) (chunks : List Content) : Bool × Dest :=
  if s.has ⟨path, .put, 0⟩ then (true, { d with fired := ⟨path, .put, 0⟩ :: d.fired })
  else
    match validatePath path with
    | .error _ => (true, d)      -- rejected by the delegate: an error, not a fault
    | .ok p =>
      let w := writeChunks s path 0 chunks
      let written := joinContent w.1
      let firedW := match w.2 with | some f => [f] | none => []
      let closeFault := s.has ⟨path, .close, 0⟩
      let firedC := if closeFault then [(⟨path, .close, 0⟩ : Fault)] else []
      -- Close always happens once Put succeeded; the delegate commits what was written
      let mem' := (p, written) :: d.mem.erase p
      let writeErr := w.2.isSome
      -- error plumbing: `return err` (the write error) followed by the deferred Close-join; the
      -- variable a non-joining defer would read is the nil `err` of the successful Put
      let err := deferJoin joins writeErr false closeFault
      (err, { d with mem := mem', fired := firedC ++ firedW ++ d.fired })

/-- storage.PutPath / CopyReader / CopyReadObject / ForWriteObject all have this shape. -/
def putPath (fx : Facts) := writeObj fx.putPath
def copyReader (fx : Facts) := writeObj fx.copyReader
def forWriteObject (fx : Facts) := writeObj fx.forWriteObject
def copyReadObject (fx : Facts) := writeObj fx.copyReadObject

/-- storagearchive.copyZipFile: open the entry (never faulted here); defer Close-join of the
    entry reader; `return storage.CopyReader(...)`. -/
def copyZipFile (fx : Facts) (s : Sched) (d : Dest) (path : Str) (chunks : List Content) : Bool × Dest :=
  let r := writeObj fx.copyReader s d path chunks
  (deferJoin fx.copyZipFile r.1 false false, r.2)

/-- storagearchive.Tar / Zip into an io.Writer: the body (headers + data, returned directly) and
    the deferred `tarWriter.Close()` / `zipWriter.Close()` (which writes the trailer). -/
def archiveOut (joins : Bool) (bodyFails closeFails : Bool) : Bool := deferJoin joins bodyFails false closeFails
def tarOut (fx : Facts) := archiveOut fx.tarJoinsWriterClose
def zipOut (fx : Facts) := archiveOut fx.zipJoinsWriterClose

/-- storage.copyPath: Get (never faulted here); defer { retErr = Join(<X>, readClose) };
    return copyReadObject(...).  If <X> is not the named return the result of copyReadObject is
    overwritten by the (nil) read-close error. -/
def copyPath (fx : Facts) (s : Sched) (d : Dest) (path : Str) (chunks : List Content) : Bool × Dest :=
  let r := writeObj fx.copyReadObject s d path chunks
  (deferJoin fx.copyPath r.1 false false, r.2)

/-- storage.Copy = thread.Parallelize over one copyPath job per path: every job runs (no
    cancel-on-failure), errors are collected, the result is an error iff some job failed.
    `jobs` is the list in the order in which the scheduler happened to run them. -/
def copyAll (fx : Facts) (s : Sched) (d : Dest) : List (Str × List Content) → Bool × Dest × Nat
  | [] => (false, d, 0)
  | (p, cs) :: rest =>
    let r := copyPath fx s d p cs
    let rr := copyAll fx s r.2 rest
    (r.1 || rr.1, rr.2.1, (if r.1 then 0 else 1) + rr.2.2)

/-- Untar / Unzip: sequential; the first failing entry aborts the loop. Entry names go through
    unmapArchivePath (strip = 0, no matcher). -/
def untarAll (fx : Facts) (s : Sched) (d : Dest) : List (Str × List Content) → Bool × Dest
  | [] => (false, d)
  | (name, cs) :: rest =>
    match unmapArchivePath name 0 (fun _ => true) with
    | .error _ => (true, d)
    | .ok none => untarAll fx s d rest
    | .ok (some p) =>
      let r := writeObj fx.copyReader s d p cs
      if r.1 then (true, r.2) else untarAll fx s r.2 rest

/-- Unzip: like Untar, each entry through copyZipFile. -/
def unzipAll (fx : Facts) (s : Sched) (d : Dest) : List (Str × List Content) → Bool × Dest
  | [] => (false, d)
  | (name, cs) :: rest =>
    match unmapArchivePath name 0 (fun _ => true) with
    | .error _ => (true, d)
    | .ok none => unzipAll fx s d rest
    | .ok (some p) =>
      let r := copyZipFile fx s d p cs
      if r.1 then (true, r.2) else unzipAll fx s r.2 rest

/-! ### Flushing generated files (bufprotopluginos.responseWriter.Close) -/

/-- One closer per output location, run in configuration order; the first failing flush is
    returned and the remaining outputs are not flushed.  Returns (error?, number flushed). -/
def flushOuts : List Bool → Bool × Nat
  | [] => (false, 0)
  | fails :: rest =>
    if fails then (true, 0)
    else
      let r := flushOuts rest
      (r.1, r.2 + 1)

/-! ### Atomic put on disk (storageos.Put with PutWithAtomic + writeObjectCloser.Close) -/

inductive AStep where
  | createTemp
  | write (c : Content)
  | closeFile
  | rename
  deriving DecidableEq, Repr

/-- Directory state restricted to what matters: the object at the final path and the temp file. -/
structure ADir where
  final : Option Content
  temp : Option Content
  deriving DecidableEq, Repr

def atomicSteps (chunks : List Content) : List AStep :=
  [.createTemp] ++ chunks.map .write ++ [.closeFile, .rename]

/-- Effect of one successful step. -/
def aStep (d : ADir) : AStep → ADir
  | .createTemp => { d with temp := some "" }
  | .write c => { d with temp := d.temp.map (· ++ c) }
  | .closeFile => d
  | .rename => { final := d.temp, temp := none }

/-- The write phase: write steps have indices 1..n; a failing write has no effect but is
    remembered (`bad`). -/
def atomicWrites (failAt : Option Nat) (d : ADir) (i : Nat) (bad : Bool) : List Content → ADir × Bool
  | [] => (d, bad)
  | c :: rest =>
    if failAt = some i then atomicWrites failAt d (i + 1) true rest
    else atomicWrites failAt (aStep d (.write c)) (i + 1) bad rest

/-- Run the steps; `failAt = some k` makes step k fail (no effect).  As coded: a failed
    createTemp returns at once; a failed write is remembered; at Close, if a write or the file
    close failed the temp file is removed without rename; a failed rename removes the temp
    file.  Returns (error?, dir). -/
def atomicRun (old : Option Content) (chunks : List Content) (failAt : Option Nat) : Bool × ADir :=
  let d0 : ADir := { final := old, temp := none }
  if failAt = some 0 then (true, d0)
  else
    let d1 := aStep d0 .createTemp
    let w := atomicWrites failAt d1 1 false chunks
    let n := chunks.length
    if w.2 || failAt = some (n + 1) then (true, { w.1 with temp := none })
    else if failAt = some (n + 2) then (true, { w.1 with temp := none })
    else (false, aStep w.1 .rename)

/-- AS CODED (recorded finding `atomic-put-producer-failure-published`): the helpers
    (ForWriteObject, copyReadObject, bufconfig.putFileForPrefix, the tar store) Close the object
    in a deferred call also when the PRODUCER of the content — the callback, the source reader,
    the encoder — fails after `k` chunks.  No Write failed, so `Close` closes the temp file and
    renames it: the error is returned, but the truncated content is published. -/
def atomicProducerFail (old : Option Content) (chunks : List Content) (k : Nat) : Bool × ADir :=
  let d1 := aStep { final := old, temp := none } .createTemp
  let d2 := (chunks.take k).foldl (fun d c => aStep d (.write c)) d1
  (true, aStep d2 .rename)

/-- The directory a reader / a crash survivor sees after the first `j` steps of a fault-free
    atomic put. -/
def atomicPrefix (old : Option Content) (chunks : List Content) (j : Nat) : ADir :=
  ((atomicSteps chunks).take j).foldl aStep { final := old, temp := none }

/-- Non-atomic put (os.Create, then writes): the object itself is truncated and grows. -/
def plainPrefix (old : Option Content) (chunks : List Content) (j : Nat) : Option Content :=
  if j = 0 then old else some (joinContent (chunks.take (j - 1)))

/-! ### Two concurrent atomic puts of the SAME path

Each atomic put creates its own temp file (`os.CreateTemp`: a fresh random name), writes into it
and renames it over the final path.  `shared = true` is the variant in which both puts use one
fixed temp name (kept for the counterexample).  A schedule interleaves the two programs. -/

inductive Who where
  | a | b
  deriving DecidableEq, Repr

structure CDir where
  final : Option Content
  ta : Option Content       -- temp file of writer a (of both writers when `shared`)
  tb : Option Content
  deriving DecidableEq, Repr

/-- One successful step of one of the two writers.  A rename whose temp file is gone (possible
    only with a shared temp name) fails and changes nothing. -/
def cStep (shared : Bool) (d : CDir) : Who × AStep → CDir
  | (w, .createTemp) => if w = .a || shared then { d with ta := some "" } else { d with tb := some "" }
  | (w, .write c) => if w = .a || shared then { d with ta := d.ta.map (· ++ c) } else { d with tb := d.tb.map (· ++ c) }
  | (_, .closeFile) => d
  | (w, .rename) =>
    if w = .a || shared then
      (match d.ta with
        | some t => { d with final := some t, ta := none }
        | none => d)
    else
      (match d.tb with
        | some t => { d with final := some t, tb := none }
        | none => d)

/-- Interleave two programs: `true` = writer a moves next, `false` = writer b; a writer that has
    finished is skipped; an exhausted schedule lets a run first. -/
def merge2 : List Bool → List AStep → List AStep → List (Who × AStep)
  | _, [], [] => []
  | s, [], y :: ys => (Who.b, y) :: merge2 s.tail [] ys
  | s, x :: xs, [] => (Who.a, x) :: merge2 s.tail xs []
  | [], x :: xs, y :: ys => (Who.a, x) :: merge2 [] xs (y :: ys)
  | true :: s, x :: xs, y :: ys => (Who.a, x) :: merge2 s xs (y :: ys)
  | false :: s, x :: xs, y :: ys => (Who.b, y) :: merge2 s (x :: xs) ys
termination_by _ xs ys => xs.length + ys.length

/-- What a reader sees at the final path after the first `j` steps of two interleaved atomic
    puts (contents `ca`, `cb`) of one path. -/
def concurrentPrefix (shared : Bool) (old : Option Content) (ca cb : List Content) (sched : List Bool) (j : Nat) : CDir :=
  ((merge2 sched (atomicSteps ca) (atomicSteps cb)).take j).foldl (cStep shared) { final := old, ta := none, tb := none }

/-! ### Error VALUES, and a write inside a `Walk` callback (strengthening S4C)

Everything above treats an error as a Boolean.  Helper code, however, TESTS error values:
not-exist means "nothing there", `io.EOF` means "done", `filepath.SkipDir` means "skip",
`context.Canceled` means "stopping anyway".  A write failure that happens to carry such a value
must still be reported.  `ErrV` is the shape of a Go error value as far as `os.IsNotExist`,
`errors.Is` and `==` can tell. -/

inductive Errno where
  | enoent | eexist | enotdir | eisdir | eacces | enospc
  deriving DecidableEq, Repr

inductive Sentinel where
  | notExist | exist | permission | eof | unexpectedEOF | shortWrite | closedPipe
  | canceled | deadline | closed | osClosed | skipDir | skipAll
  deriving DecidableEq, Repr

inductive ErrV where
  | injected                      -- an opaque errors.New value
  | errno (e : Errno)             -- a bare syscall.Errno
  | pathError (e : Errno)         -- *fs.PathError{Err: errno}
  | linkError (e : Errno)         -- *os.LinkError
  | syscallError (e : Errno)      -- *os.SyscallError
  | sentinel (s : Sentinel)
  | wrap (e : ErrV)               -- fmt.Errorf("…: %w", e)
  | join1 (e : ErrV)              -- errors.Join(e, nil)
  | join2 (a b : ErrV)            -- errors.Join(a, b)
  deriving DecidableEq, Repr

def Errno.isNotExist : Errno → Bool
  | .enoent => true
  | _ => false

/-- `os.IsNotExist`: looks through ONE *PathError / *LinkError / *SyscallError, never through
    `%w` or `errors.Join`. -/
def osIsNotExist : ErrV → Bool
  | .errno e => e.isNotExist
  | .pathError e => e.isNotExist
  | .linkError e => e.isNotExist
  | .syscallError e => e.isNotExist
  | .sentinel s => s == .notExist
  | _ => false

/-- `errors.Is(err, fs.ErrNotExist)`: unwraps everything. -/
def errorsIsNotExist : ErrV → Bool
  | .injected => false
  | .errno e => e.isNotExist
  | .pathError e => e.isNotExist
  | .linkError e => e.isNotExist
  | .syscallError e => e.isNotExist
  | .sentinel s => s == .notExist
  | .wrap e => errorsIsNotExist e
  | .join1 e => errorsIsNotExist e
  | .join2 a b => errorsIsNotExist a || errorsIsNotExist b

/-- Which rule `storageos.bucket.Walk` applies to the error that comes back from
    `filepathext.Walk` — which may be the error of the caller's callback:
    * `asCoded`  (HEAD before the repair): `os.IsNotExist(err)` ⇒ "the prefix does not exist", nil;
                  and `filepathext.Walk` turns a returned `filepath.SkipDir` (compared with `==`) into nil;
    * `errorsIs` (seed C15-m5): the same with `errors.Is(err, fs.ErrNotExist)`;
    * `fixed`    (handoff/C15-walk-callback-error.diff): an error of the callback is returned as it is. -/
inductive WalkRule where
  | asCoded | errorsIs | fixed
  deriving DecidableEq, Repr

/-- What the disk `Walk` returns when the callback returned `e`. -/
def diskWalkReturn (rule : WalkRule) (e : ErrV) : Option ErrV :=
  match rule with
  | .fixed => some e
  | .asCoded => if e = .sentinel .skipDir then none else if osIsNotExist e then none else some e
  | .errorsIs => if e = .sentinel .skipDir then none else if errorsIsNotExist e then none else some e

/-- The loop shapes that write inside a Walk callback. -/
inductive WalkHelper where
  | wroCopyReadObject   -- storage.WalkReadObjects + storage.CopyReadObject
  | wroPutPath          -- storage.WalkReadObjects + storage.PutPath
  | walkBare            -- Walk + Get + `return storage.CopyReadObject(…)`
  | exportLike          -- export.go: `if err := CopyReadObject(…); err != nil { return errors.Join(err, f.Close()) }`
  | walkCopyPath        -- Walk + storage.CopyPath
  deriving DecidableEq, Repr

/-- The error value that reaches `Walk` when primitive `p` of the destination fails with `e`:
    a failing Put is returned as it is by CopyReadObject / PutPath (the deferred Close-join is
    installed after the Put); a failing Write or Close goes through `errors.Join(retErr, Close())`;
    `WalkReadObjects` returns `errors.Join(f(obj), obj.Close())`, export.go joins on its failure
    path, `copyPath` has its own deferred join. -/
def reachesWalk (h : WalkHelper) (p : Prim) (e : ErrV) : ErrV :=
  let inner := match p with
    | .put => e
    | _ => .join1 e
  match h with
  | .walkBare => inner
  | _ => .join1 inner

/-- A copy of `n` objects out of a bucket (`disk` or memory) by helper `h`, primitive `p` of the
    `k`-th object (walk order) failing with `e`: the error the helper returns (`none` = nil). -/
def walkCopy (rule : WalkRule) (disk : Bool) (h : WalkHelper) (p : Prim) (e : ErrV) : Option ErrV :=
  if disk then diskWalkReturn rule (reachesWalk h p e) else some (reachesWalk h p e)

/-- A disk walk whose directory listing is stale: `true` = the entry vanished before it is
    visited (removed concurrently; the temp file of an atomic Put renamed away).  `lstat` fails
    with ENOENT; as coded that error ends the walk and is then taken for "prefix does not
    exist" (nil); the repaired walk skips the entry.  Returns the number of surviving entries
    visited (the walk returns nil under every rule). -/
def visitStale (rule : WalkRule) : List Bool → Nat
  | [] => 0
  | gone :: rest =>
    if gone then (match rule with
      | .fixed => visitStale rule rest
      | _ => 0)
    else 1 + visitStale rule rest

/-! ### REAL failures of the file behind a disk put (harness part X)

The wrapper of part A fails a primitive ABOVE the bucket.  Here the file of a `storageos` put
itself fails: `write(2)` of chunk `idx` (the chunk does not reach the file; the failure is
remembered in `writeErr`; `close(2)` then succeeds) or `close(2)` of the file (a deferred
EIO / ENOSPC / EDQUOT of NFS, FUSE, quota file systems — in the harness EBADF of a descriptor
closed behind the bucket's back).  `storageos.writeObjectCloser.Close` decides what becomes of
that: -/

/-- What `writeObjectCloser.Close` sees: is it an atomic put, did a Write record an error, does
    `file.Close()` fail, does the rename fail. -/
structure OsClose where
  atomic : Bool
  writeErr : Bool
  fileCloseErr : Bool
  renameErr : Bool
  deriving DecidableEq, Repr

/-- `asCoded`: the function at HEAD.  The two other rules are regressions kept for their
    counterexample theorems: `dropsPlainCloseError` ends with `return nil` (the result of
    `file.Close()` only matters to the atomic branch), `ignoresWriteErr` renames although a
    Write failed. -/
inductive CloseRule where
  | asCoded | dropsPlainCloseError | ignoresWriteErr
  deriving DecidableEq, Repr

/-- (error returned?, object published?) — published: a plain put's file IS the object whatever
    Close says; an atomic put's temp file is renamed over the object only when nothing failed,
    and removed otherwise. -/
def osClose (rule : CloseRule) (c : OsClose) : Bool × Bool :=
  if c.atomic then
    let w := match rule with | .ignoresWriteErr => false | _ => c.writeErr
    if w || c.fileCloseErr then (true, false)
    else if c.renameErr then (true, false)
    else (false, true)
  else
    match rule with
    | .dropsPlainCloseError => (false, true)
    | _ => (c.fileCloseErr, true)

/-- `os.File` after `Close`: a second `Close` returns `os.ErrClosed`, which `toStorageError`
    turns into `storage.ErrClosed` (for an atomic put the joined removal error of the temp file
    does not hide it).  Result of the SECOND close: `true` = storage.ErrClosed. -/
def secondCloseIsErrClosed (rule : CloseRule) (atomic : Bool) : Bool :=
  match rule, atomic with
  | .dropsPlainCloseError, false => false
  | _, _ => true

/-- One object put into a DISK bucket through a helper with the plumbing "Put; defer
    Close-join; write" (`joins` as in `writeObj`), the FILE failing as scheduled: a `.write`
    fault = `write(2)` of that chunk fails, a `.close` fault = `close(2)` fails. -/
def realPut (rule : CloseRule) (joins atomic : Bool) (s : Sched) (d : Dest) (path : Str)
    (chunks : List Content) : Bool × Dest :=
  if s.has ⟨path, .put, 0⟩ then (true, { d with fired := ⟨path, .put, 0⟩ :: d.fired })
  else
    match validatePath path with
    | .error _ => (true, d)
    | .ok p =>
      let w := writeChunks s path 0 chunks
      let written := joinContent w.1
      let firedW := match w.2 with | some f => [f] | none => []
      let closeFault := s.has ⟨path, .close, 0⟩
      let firedC := if closeFault then [(⟨path, .close, 0⟩ : Fault)] else []
      let writeErr := w.2.isSome
      let c := osClose rule ⟨atomic, writeErr, closeFault, false⟩
      -- a plain put truncates and fills the object itself; an atomic put fills a temp file
      let mem' := if atomic && !c.2 then d.mem else (p, written) :: d.mem.erase p
      let err := deferJoin joins writeErr false c.1
      (err, { d with mem := mem', fired := firedC ++ firedW ++ d.fired })

/-- A helper over several objects: `par` = storage.Copy (every job runs, errors collected, count
    of successful jobs), otherwise a sequential loop that stops at the first error (Untar, Unzip,
    WalkReadObjects loops).  `outer` = an enclosing deferred join (copyPath around
    copyReadObject, copyZipFile around CopyReader). -/
def realAll (rule : CloseRule) (par : Bool) (joins : Bool) (outer : Option Bool) (atomic : Bool)
    (s : Sched) (d : Dest) : List (Str × List Content) → Bool × Dest × Nat
  | [] => (false, d, 0)
  | (p, cs) :: rest =>
    let r := realPut rule joins atomic s d p cs
    let e := match outer with | some j => deferJoin j r.1 false false | none => r.1
    if par then
      let rr := realAll rule par joins outer atomic s r.2 rest
      (e || rr.1, rr.2.1, (if e then 0 else 1) + rr.2.2)
    else if e then (true, r.2, 0)
    else
      let rr := realAll rule par joins outer atomic s r.2 rest
      (rr.1, rr.2.1, rr.2.2 + 1)

/-- The plumbing of the helpers exercised by part X: (joins of the inner Put/Close helper,
    enclosing join, parallel?). -/
def realHelper (fx : Facts) : String → Option (Bool × Option Bool × Bool)
  | "direct" => some (true, none, false)
  | "putpath" => some (fx.putPath, none, false)
  | "copyreader" => some (fx.copyReader, none, false)
  | "forwriteobject" => some (fx.forWriteObject, none, false)
  | "copyreadobject" => some (fx.copyReadObject, none, false)
  | "copypath" => some (fx.copyReadObject, some fx.copyPath, false)
  | "copy" => some (fx.copyReadObject, some fx.copyPath, true)
  | "untar" => some (fx.copyReader, none, false)
  | "unzip" => some (fx.copyReader, some fx.copyZipFile, false)
  | "wro-copyreadobject" => some (fx.copyReadObject, none, false)
  | "wro-putpath" => some (fx.putPath, none, false)
  | "walk-bare" => some (fx.copyReadObject, none, false)
  | "export-like" => some (fx.copyReadObject, none, false)
  | "walk-copypath" => some (fx.copyReadObject, some fx.copyPath, false)
  | _ => none

/-! ### Overwriting an object that already EXISTS (harness part E)

`Mem` is a map: a put REPLACES the binding (`(p, written) :: m.erase p`), so whatever the
destination held before — longer, shorter, of equal length — is gone once the put has written.
That is `os.Create` (O_TRUNC) for the plain disk put and `rename(2)` for the atomic one.  The
file-level view below says what the file holds when the plain branch opens WITHOUT truncation
(seed C15-m9: `os.OpenFile(path, O_WRONLY|O_CREATE, 0666)`): the written bytes overlay the
beginning of the old file and its tail survives. -/

/-- How the plain branch of `storageos.bucket.Put` opens the destination: `truncates` =
    `os.Create` (as coded), `keepsTail` = without `O_TRUNC` (kept for the counterexample). -/
inductive OpenRule where
  | truncates | keepsTail
  deriving DecidableEq, Repr

/-- Bytes of the destination file after a plain put wrote `written` from offset 0 and closed,
    the file having held `old` (`none`: no file) when it was opened. -/
def overwriteBytes (rule : OpenRule) (old : Option (List Char)) (written : List Char) : List Char :=
  match rule, old with
  | .keepsTail, some o => written ++ o.drop written.length
  | _, _ => written

/-- The same on `Content`. -/
def overwrite (rule : OpenRule) (old : Option Content) (written : Content) : Content :=
  String.ofList (overwriteBytes rule (old.map String.toList) written.toList)

/-- The object of a plain disk put as a reader sees it after the first `j` steps (Put, the
    Writes; Close changes nothing), by open rule.  `plainPrefix` is the `truncates` instance. -/
def plainPrefixWith (rule : OpenRule) (old : Option Content) (chunks : List Content) (j : Nat) : Option Content :=
  if j = 0 then old else some (overwrite rule old (joinContent (chunks.take (j - 1))))

/-! ### A reader that is open ACROSS an overwrite (harness part E5)

`Get` hands out a reader on what the object holds THEN: storagemem wraps the immutable object's
byte slice, an atomic disk put renames a new inode over the path while the reader keeps the old
one.  Later puts — completed ones of the same path, in-flight writers of any path in any bucket —
do not reach it: the reader delivers the previous content to its end.  `recycles` is seed C15-m10
(the replaced object's backing array goes to a pool and seeds the buffer of the NEXT writer,
whose first write then lands in the array the reader is still reading), kept for the
counterexample. -/

inductive BufRule where
  | asCoded | recycles
  deriving DecidableEq, Repr

inductive ROp where
  | read (n : Nat)               -- the reader reads up to n bytes
  | put (c : List Char)          -- a completed put of the SAME path
  | other (c : List Char)        -- a completed put of another path
  | wSame (c : List Char)        -- Put + Write on the same path, not closed yet
  | wOther (c : List Char)       -- Put + Write on another path (or in another bucket), not closed yet
  | closeW                       -- Close of the oldest in-flight writer
  deriving DecidableEq, Repr

structure RSt where
  obj : List Char                       -- what the bucket holds at the path
  snap : List Char                      -- the bytes behind the open reader
  pos : Nat
  got : List Char                       -- what the reader has delivered so far
  flight : List (Bool × List Char)      -- in-flight writers: (same path?, written)
  snapIsCurrent : Bool                  -- the reader's array is still the bucket's object
  pooled : Bool                         -- (recycles only) the reader's array lies in the pool
  deriving DecidableEq, Repr

def RSt.init (old : List Char) : RSt := ⟨old, old, 0, [], [], true, false⟩

/-- (recycles only) a new writer takes the pooled array and writes `c` as its first bytes: they
    land in the reader's array when they fit its capacity (a longer first write reallocates). -/
def scribble (rule : BufRule) (st : RSt) (c : List Char) : RSt :=
  match rule with
  | .asCoded => st
  | .recycles =>
    if st.pooled then
      { st with pooled := false, snap := if c.length ≤ st.snap.length then c ++ st.snap.drop c.length else st.snap }
    else st

/-- (recycles only) Close of a put that replaces the object the reader was opened on donates
    that object's array. -/
def donate (rule : BufRule) (st : RSt) : RSt :=
  match rule with
  | .asCoded => { st with snapIsCurrent := false }
  | .recycles => { st with snapIsCurrent := false, pooled := st.pooled || st.snapIsCurrent }

def rStep (rule : BufRule) (st : RSt) : ROp → RSt
  | .read n => { st with got := st.got ++ (st.snap.drop st.pos).take n, pos := st.pos + n }
  | .put c => { donate rule (scribble rule st c) with obj := c }
  | .other c => scribble rule st c
  | .wSame c => { scribble rule st c with flight := st.flight ++ [(true, c)] }
  | .wOther c => { scribble rule st c with flight := st.flight ++ [(false, c)] }
  | .closeW =>
    match st.flight with
    | [] => st
    | (same, c) :: rest =>
      if same then { donate rule st with obj := c, flight := rest } else { st with flight := rest }

/-- Run the operations, then the reader reads to its end and the remaining writers are closed.
    Returns (everything the reader delivered, the object at the path afterwards). -/
def readerAcross (rule : BufRule) (old : List Char) (ops : List ROp) : List Char × List Char :=
  let st := ops.foldl (rStep rule) (RSt.init old)
  let st := rStep rule st (.read (st.snap.length))
  let st := st.flight.foldl (fun s _ => rStep rule s .closeW) st
  (st.got, st.obj)

end BufModel.Faults
