/-
  BufModel.Annot — executable model of private/bufpkg/bufanalysis (file annotations: compare,
  de-duplication key, sort, the five printers) and of the exit-status decision of
  `buf build | lint | breaking | format --exit-code`
  (bufctl.handleFileAnnotationSetRetError, bufctl.ErrFileAnnotation, buf.go wrapError,
  app.GetExitCode).

  The model describes the code AFTER the two `fix:` changes of C20
    * file_annotation_set.go `hash`: every key field is written length-prefixed (`keyNew`);
      the pre-fix key (plain concatenation, `keyOld`) is kept for the recorded counterexample;
    * print.go: github-actions escapes data / property values by GitHub's rules, msvs prints
      line breaks as spaces; the pre-fix printers are `ghaLineOld` / `msvsLineOld`.

  Strings are `List Char` (valid UTF-8 Go strings).  Line/column numbers are `Nat` (the
  producers — protocompile locations, check plugins — never emit negative numbers; 0 = unknown).
  Core Lean only; everything is total and structurally recursive so that `decide` can evaluate it.
-/
namespace BufModel.Annot

abbrev Str := List Char

/-- bufanalysis.fileAnnotation.  `file = none` is a nil FileInfo; `some p` has ExternalPath `p`. -/
structure Annot where
  file : Option Str
  sl : Nat
  sc : Nat
  el : Nat
  ec : Nat
  type : Str
  msg : Str
  plugin : Str
deriving DecidableEq, Repr

/-! ### comparison (fileAnnotationCompareTo) -/

def cmpNat (a b : Nat) : Ordering :=
  if a < b then .lt else if b < a then .gt else .eq

/-- Go's `<` on strings is byte-wise; on valid UTF-8 that is code-point order. -/
def cmpStr : Str → Str → Ordering
  | [], [] => .eq
  | [], _ :: _ => .lt
  | _ :: _, [] => .gt
  | a :: as, b :: bs => (cmpNat a.toNat b.toNat).then (cmpStr as bs)

/-- nil FileInfo sorts before every non-nil one; two non-nil ones by ExternalPath. -/
def cmpFile : Option Str → Option Str → Ordering
  | none, none => .eq
  | none, some _ => .lt
  | some _, none => .gt
  | some a, some b => cmpStr a b

/-- fileAnnotationCompareTo: ExternalPath, StartLine, StartColumn, Type, Message, EndLine,
    EndColumn (PluginName is not compared). -/
def compareTo (a b : Annot) : Ordering :=
  (cmpFile a.file b.file).then <|
  (cmpNat a.sl b.sl).then <|
  (cmpNat a.sc b.sc).then <|
  (cmpStr a.type b.type).then <|
  (cmpStr a.msg b.msg).then <|
  (cmpNat a.el b.el).then (cmpNat a.ec b.ec)

/-- `Less(i,j)` of sortFileAnnotationSlice. -/
def less (a b : Annot) : Bool := compareTo a b == .lt

/-- `a` may stay in front of `b`:  ¬ less b a. -/
def le (a b : Annot) : Bool := !(less b a)

/-- Stable insertion: `x` (which stood before everything in `l`) goes in front of the first
    element that is not strictly smaller.  `sort.Stable` yields THE stable sorted permutation,
    which is what insertion sort computes. -/
def ins (x : Annot) : List Annot → List Annot
  | [] => [x]
  | y :: ys => if less y x then y :: ins x ys else x :: y :: ys

def sortS : List Annot → List Annot
  | [] => []
  | x :: xs => ins x (sortS xs)

/-! ### de-duplication key (hash) -/

/-- strconv.Itoa on a non-negative int. -/
def itoa (n : Nat) : Str := Nat.toDigits 10 n

/-- len(s) of the Go string: number of UTF-8 bytes. -/
def utf8Len : Str → Nat
  | [] => 0
  | c :: cs => c.utf8Size + utf8Len cs

/-- the path the hash sees: "" for a nil FileInfo. -/
def pathOf (a : Annot) : Str := a.file.getD []

/-- The seven fields the key is made of, in the order they are written. -/
def keyFields (a : Annot) : List Str :=
  [pathOf a, itoa a.sl, itoa a.sc, itoa a.el, itoa a.ec, a.type, a.msg]

/-- AS CODED BEFORE THE FIX: the fields are written into SHA-256 back to back.  (The model
    takes the pre-image as the key: SHA-256 is assumed injective on the inputs compared.) -/
def keyOld (a : Annot) : Str := (keyFields a).flatMap id

/-- one length-prefixed field: strconv.Itoa(len(field)) ':' field -/
def lp (s : Str) : Str := itoa (utf8Len s) ++ ':' :: s

/-- AFTER THE FIX: every field is written length-prefixed. -/
def keyNew (a : Annot) : Str := (keyFields a).flatMap lp

/-- deduplicateAndSortFileAnnotations, first loop: keep the first annotation of every key. -/
def dedupWith (key : Annot → Str) : List Annot → List Str → List Annot
  | [], _ => []
  | a :: as, seen =>
    if key a ∈ seen then dedupWith key as seen
    else a :: dedupWith key as (key a :: seen)

def dedupSortWith (key : Annot → Str) (l : List Annot) : List Annot :=
  sortS (dedupWith key l [])

/-- deduplicateAndSortFileAnnotations (current code). -/
def dedupSort (l : List Annot) : List Annot := dedupSortWith keyNew l

/-- the pre-fix behaviour, kept for `dedup_collision_counterexample`. -/
def dedupSortOld (l : List Annot) : List Annot := dedupSortWith keyOld l

/-! ### printers -/

def atLeast1 (n : Nat) : Nat := if n = 0 then 1 else n

def inputPath : Str := "<input>".toList
def failureStr : Str := "FAILURE".toList

/-- path shown by text / msvs / github-actions / junit: "<input>" for a nil FileInfo. -/
def dispPath (a : Annot) : Str := a.file.getD inputPath

/-- message shown by text / msvs: falls back to the type, then to "FAILURE". -/
def shownMsg (a : Annot) : Str :=
  if a.msg = [] then (if a.type = [] then failureStr else a.type) else a.msg

def shownType (a : Annot) : Str := if a.type = [] then failureStr else a.type

def pluginSuffix (esc : Str → Str) (p : Str) : Str :=
  if p = [] then [] else " (".toList ++ esc p ++ [')']

/-- fileAnnotation.String() — the text format (the human format: nothing is escaped). -/
def textLine (a : Annot) : Str :=
  dispPath a ++ ':' :: itoa (atLeast1 a.sl) ++ ':' :: itoa (atLeast1 a.sc) ++ ':' :: shownMsg a
    ++ pluginSuffix id a.plugin

/-- msvsLineBreakReplacer: '\r' and '\n' become a space. -/
def oneLine (s : Str) : Str := s.map fun c => if c = '\n' ∨ c = '\r' then ' ' else c

def msvsLineWith (esc : Str → Str) (a : Annot) : Str :=
  esc (dispPath a) ++ '(' :: itoa (atLeast1 a.sl) ++ ',' :: itoa (atLeast1 a.sc)
    ++ ") : error ".toList ++ esc (shownType a) ++ " : ".toList ++ esc (shownMsg a)
    ++ pluginSuffix esc a.plugin

def msvsLine : Annot → Str := msvsLineWith oneLine
def msvsLineOld : Annot → Str := msvsLineWith id

/-- githubActionsDataEscaper -/
def escData (s : Str) : Str := s.flatMap fun c =>
  if c = '%' then "%25".toList else if c = '\r' then "%0D".toList
  else if c = '\n' then "%0A".toList else [c]

/-- githubActionsPropertyEscaper -/
def escProp (s : Str) : Str := s.flatMap fun c =>
  if c = '%' then "%25".toList else if c = '\r' then "%0D".toList
  else if c = '\n' then "%0A".toList else if c = ':' then "%3A".toList
  else if c = ',' then "%2C".toList else [c]

def ghaPos (a : Annot) : Str :=
  if a.sl = 0 then [] else
    ",line=".toList ++ itoa a.sl
    ++ (if a.sc = 0 then [] else ",col=".toList ++ itoa a.sc)
    ++ (if a.el = 0 then [] else
          ",endLine=".toList ++ itoa a.el
          ++ (if a.ec = 0 then [] else ",endColumn=".toList ++ itoa a.ec))

def ghaLineWith (escP escD : Str → Str) (a : Annot) : Str :=
  "::error file=".toList ++ escP (dispPath a) ++ ghaPos a ++ "::".toList ++ escD a.msg
    ++ pluginSuffix escD a.plugin

def ghaLine : Annot → Str := ghaLineWith escProp escData
def ghaLineOld : Annot → Str := ghaLineWith id id

/-- printEachAnnotationOnNewLine -/
def printLines (line : Annot → Str) (l : List Annot) : Str :=
  l.flatMap fun a => line a ++ ['\n']

/-- externalFileAnnotation — the JSON record at field level (string escaping is
    encoding/json's).  `omitempty` drops empty strings; the numbers are never 0. -/
structure JsonRec where
  path : Str
  sl : Nat
  sc : Nat
  el : Nat
  ec : Nat
  type : Str
  msg : Str
  plugin : Str
deriving DecidableEq, Repr

def jsonRec (a : Annot) : JsonRec :=
  { path := pathOf a, sl := atLeast1 a.sl, sc := atLeast1 a.sc, el := atLeast1 a.el,
    ec := atLeast1 a.ec, type := a.type, msg := a.msg, plugin := a.plugin }

/-- JUnit at field level: one testcase. -/
structure JCase where
  name : Str
  message : Str
  type : Str
deriving DecidableEq, Repr

structure JSuite where
  name : Str
  tests : Nat
  cases : List JCase
deriving DecidableEq, Repr

def junitCaseName (a : Annot) : Str :=
  a.type ++ (if a.sc ≠ 0 then '_' :: itoa a.sl ++ '_' :: itoa a.sc
             else if a.sl ≠ 0 then '_' :: itoa a.sl else [])

def junitCase (a : Annot) : JCase :=
  { name := junitCaseName a, message := textLine a, type := a.type }

/-- groupAnnotationsByPath: groups in order of first appearance of the displayed path. -/
def addToGroups (k : Str) (a : Annot) : List (Str × List Annot) → List (Str × List Annot)
  | [] => [(k, [a])]
  | (k', g) :: rest =>
    if k' = k then (k', g ++ [a]) :: rest else (k', g) :: addToGroups k a rest

def groupByPath (l : List Annot) : List (Str × List Annot) :=
  l.foldl (fun gs a => addToGroups (dispPath a) a gs) []

def protoSuffix : Str := ".proto".toList

/-- strings.TrimSuffix(path, ".proto") -/
def trimProto (s : Str) : Str :=
  if protoSuffix.isSuffixOf s then s.take (s.length - protoSuffix.length) else s

def junitSuites (l : List Annot) : List JSuite :=
  (groupByPath l).map fun kg =>
    { name := trimProto kg.1, tests := kg.2.length, cases := kg.2.map junitCase }

/-! ### formats -/

inductive Format where
  | text | json | msvs | junit | gha
deriving DecidableEq, Repr

def Format.all : List Format := [.text, .json, .msvs, .junit, .gha]

/-- What a format carries of ONE annotation — the per-annotation record a consumer of that
    format reads (a line for the line formats, the decoded object / testcase otherwise). -/
inductive Rendered where
  | line (s : Str)
  | json (r : JsonRec)
  | junit (suite : Str) (c : JCase)
deriving DecidableEq, Repr

def render : Format → Annot → Rendered
  | .text, a => .line (textLine a)
  | .msvs, a => .line (msvsLine a)
  | .gha, a => .line (ghaLine a)
  | .json, a => .json (jsonRec a)
  | .junit, a => .junit (trimProto (dispPath a)) (junitCase a)

/-- The document a printer emits for an already sorted, de-duplicated list. -/
inductive Doc where
  | lines (out : Str)              -- text, msvs, github-actions: the bytes written
  | jsonl (recs : List JsonRec)    -- json: one object per line
  | junit (suites : List JSuite)
deriving DecidableEq, Repr

def printDoc : Format → List Annot → Doc
  | .text, l => .lines (printLines textLine l)
  | .msvs, l => .lines (printLines msvsLine l)
  | .gha, l => .lines (printLines ghaLine l)
  | .json, l => .jsonl (l.map jsonRec)
  | .junit, l => .junit (junitSuites l)

/-- What a line-oriented consumer (the GitHub runner, MSBuild, a terminal) reads: the
    '\n'-terminated lines of the output. -/
def linesOf : Str → List Str
  | [] => []
  | c :: cs =>
    if c = '\n' then [] :: linesOf cs
    else match linesOf cs with
      | [] => [[c]]
      | l :: ls => (c :: l) :: ls

/-- The per-annotation records a consumer of the document reads, in document order. -/
def Doc.items : Doc → List Rendered
  | .lines out => (linesOf out).map .line
  | .jsonl recs => recs.map .json
  | .junit suites => suites.flatMap fun s => s.cases.map (.junit s.name)

/-- PrintFileAnnotationSet(NewFileAnnotationSet(as…), fmt) -/
def printSet (f : Format) (as : List Annot) : Doc := printDoc f (dedupSort as)

/-! ### exit status (controller.handleFileAnnotationSetRetError, wrapError, GetExitCode) -/

/-- What a step of a command can fail with. -/
inductive StepErr where
  /-- the error chain holds a FileAnnotationSet; `NewFileAnnotationSet` never builds an empty
      one, hence head + tail (raw, before dedup/sort). -/
  | annots (hd : Annot) (tl : List Annot)
  /-- *bufmodule.ImportNotExistError in the chain -/
  | importNotExist
  /-- anything else: I/O, configuration, flags, … -/
  | other
deriving DecidableEq, Repr

abbrev Step := Option StepErr

/-- error that reaches app.Run after wrapError -/
inductive Final where
  | ok
  | fileAnnotation     -- bufctl.ErrFileAnnotation: exit code 100, empty message
  | importNotExist     -- app.WrapError(100, importNotExistError): "Failure: …"
  | other              -- "Failure: …", no app error in the chain
deriving DecidableEq, Repr

def exitCodeFileAnnotation : Nat := 100

def Final.exit : Final → Nat
  | .ok => 0
  | .fileAnnotation => exitCodeFileAnnotation
  | .importNotExist => exitCodeFileAnnotation
  | .other => 1

/-- Observable outcome of a command run. -/
structure Outcome where
  final : Final
  /-- annotations rendered (in the requested --error-format), in order -/
  printed : List Annot
  /-- `buf format --exit-code` found a difference -/
  diff : Bool
deriving DecidableEq, Repr

def Outcome.exit (o : Outcome) : Nat := o.final.exit
/-- printError writes "Failure: …" exactly for errors with a non-empty message. -/
def Outcome.failureLine (o : Outcome) : Bool :=
  o.final == .importNotExist || o.final == .other

/-- a step that goes through a controller method: `defer handleFileAnnotationSetRetError`
    prints the set and swaps the error for ErrFileAnnotation. -/
def failStep (e : StepErr) (printedSoFar : List Annot) : Outcome :=
  match e with
  | .annots hd tl => { final := .fileAnnotation, printed := printedSoFar ++ dedupSort (hd :: tl), diff := false }
  | .importNotExist => { final := .importNotExist, printed := printedSoFar, diff := false }
  | .other => { final := .other, printed := printedSoFar, diff := false }

/-- controller steps run in sequence; the first failing one ends the command. -/
def runSteps : List Step → Option Outcome
  | [] => none
  | none :: rest => runSteps rest
  | some e :: _ => some (failStep e [])

/-- the check loop of lint / breaking: annotation sets are collected (each already
    de-duplicated and sorted by its NewFileAnnotationSet), any other error aborts
    WITHOUT printing what was collected. -/
def checkLoop : List Step → List Annot → Outcome
  | [], acc =>
    if acc = [] then { final := .ok, printed := [], diff := false }
    else { final := .fileAnnotation, printed := dedupSort acc, diff := false }
  | none :: rest, acc => checkLoop rest acc
  | some (.annots hd tl) :: rest, acc => checkLoop rest (acc ++ dedupSort (hd :: tl))
  | some .importNotExist :: _, _ => { final := .importNotExist, printed := [], diff := false }
  | some .other :: _, _ => { final := .other, printed := [], diff := false }

/-- `buf lint` / `buf breaking`: controller steps (build the image(s) — compile errors are
    annotation sets, a missing import is ImportNotExist), then one check per image. -/
def lintLike (controller : List Step) (checks : List Step) : Outcome :=
  match runSteps controller with
  | some o => o
  | none => checkLoop checks []

/-- `buf build`: GetImage then PutImage. -/
def build (controller : List Step) : Outcome :=
  match runSteps controller with
  | some o => o
  | none => { final := .ok, printed := [], diff := false }

/-! ### `buf format` and its output modes

`format.go: run` has one return path per mode.  After the flag validation, `GetWorkspace`,
`FormatBucket` and the diff, a `defer` turns `retErr == nil && --exit-code && diffExists` into
`ErrFileAnnotation`; then

* `-d`            copies the diff to stdout and returns (`-o` left at "-" and no `-w`);
* `-d -w`, `-w`   (after the copy) rewrites the changed files in place and returns;
* `-d -o X`, `-o X`, plain   (after the copy) writes the formatted files to `X` (a directory or
  one `.proto` file) resp. to stdout.

The mode is an explicit parameter so that the exit-status theorems quantify over all of them. -/

/-- value of `-o`: "-" (the default, stdout) or a directory / `.proto` file -/
inductive FmtOut where
  | stdout
  | path
deriving DecidableEq, Repr

/-- the flags that select the return path of `buf format` -/
structure FmtMode where
  /-- `-d` -/
  diff : Bool
  /-- `-w` -/
  write : Bool
  /-- `-o` -/
  out : FmtOut
  /-- `--exit-code` -/
  exitCode : Bool
deriving DecidableEq, Repr

/-- `-w` and `-o` exclude each other; `-w` needs a source that can be rewritten (a directory or a
    `.proto` file — not a module reference, archive, git repository). -/
def FmtMode.valid (m : FmtMode) (srcWritable : Bool) : Bool :=
  !m.write || (m.out == .stdout && srcWritable)

/-- every mode: {plain, -d, -w, -d -w, -o, -d -o} × {with, without --exit-code} (valid ones),
    and the rejected combinations with both -w and -o. -/
def FmtMode.all : List FmtMode :=
  [false, true].flatMap fun d => [false, true].flatMap fun w => [FmtOut.stdout, FmtOut.path].flatMap fun o =>
    [false, true].map fun e => { diff := d, write := w, out := o, exitCode := e }

/-- the I/O steps a mode may perform after the diff is known: copy the diff to stdout, rewrite
    the changed files in place, write the formatted files to the `-o` location (stdout included) -/
structure FmtIO where
  copyDiff : Step
  rewrite : Step
  output : Step
deriving DecidableEq, Repr

def FmtIO.ok : FmtIO := { copyDiff := none, rewrite := none, output := none }

/-- what a `buf format` run did besides exiting -/
structure FmtEffects where
  /-- the diff text was copied to stdout -/
  stdoutDiff : Bool
  /-- the formatted source was written to stdout -/
  stdoutSource : Bool
  /-- changed files were rewritten in place -/
  rewrote : Bool
  /-- the formatted files were written to the `-o` directory / file -/
  wroteOut : Bool
deriving DecidableEq, Repr

def FmtEffects.none : FmtEffects :=
  { stdoutDiff := false, stdoutSource := false, rewrote := false, wroteOut := false }

/-- the deferred `if retErr == nil && flags.ExitCode && diffExists { retErr = ErrFileAnnotation }` -/
def fmtDeferred (m : FmtMode) (diffExists : Bool) : Outcome :=
  if m.exitCode && diffExists then { final := .fileAnnotation, printed := [], diff := true }
  else { final := .ok, printed := [], diff := false }

/-- the part of `run` after the diff: the return path selected by the mode.  An I/O error
    returns at once (the deferred function then leaves it alone: `retErr != nil`). -/
def fmtTail (m : FmtMode) (diffExists : Bool) (io : FmtIO) : Outcome × FmtEffects :=
  -- `if flags.Diff { if diffExists { io.Copy(stdout, diffBuffer) } … }`
  let copy : Step := if m.diff && diffExists then io.copyDiff else none
  match copy with
  | some e => (failStep e [], FmtEffects.none)
  | none =>
    let eff : FmtEffects := { FmtEffects.none with stdoutDiff := m.diff && diffExists }
    if m.diff && m.out == .stdout && !m.write then
      -- "If we haven't overridden the output flag and haven't set write, we can stop here."
      (fmtDeferred m diffExists, eff)
    else if m.write then
      -- only the changed paths are re-written: nothing to do (and nothing to fail) without a diff
      let rw : Step := if diffExists then io.rewrite else none
      match rw with
      | some e => (failStep e [], eff)
      | none => (fmtDeferred m diffExists, { eff with rewrote := diffExists })
    else
      match io.output with
      | some e => (failStep e [], eff)
      | none =>
        (fmtDeferred m diffExists,
          { eff with stdoutSource := m.out == .stdout, wroteOut := m.out == .path })

/-- the I/O steps the mode actually performs, in order (a step that is not performed cannot fail) -/
def FmtMode.ioSteps (m : FmtMode) (diffExists : Bool) (io : FmtIO) : List Step :=
  (if m.diff && diffExists then [io.copyDiff] else []) ++
  (if m.diff && m.out == .stdout && !m.write then []
   else if m.write then (if diffExists then [io.rewrite] else [])
   else [io.output])

/-- `buf format`: flag validation (an invalid combination is an invalid-argument error, i.e.
    operational), controller steps (GetWorkspace), FormatBucket + diff (`fmtStep`: a parse error
    is a plain error here — bufformat does not produce annotation sets), then the return path
    of the mode. -/
def formatFull (m : FmtMode) (srcWritable : Bool) (controller : List Step) (fmtStep : Step)
    (diffExists : Bool) (io : FmtIO) : Outcome × FmtEffects :=
  if !m.valid srcWritable then (failStep .other [], FmtEffects.none)
  else
    match runSteps (controller ++ [fmtStep]) with
    | some o => (o, FmtEffects.none)
    | none => fmtTail m diffExists io

def format (m : FmtMode) (srcWritable : Bool) (controller : List Step) (fmtStep : Step)
    (diffExists : Bool) (io : FmtIO) : Outcome :=
  (formatFull m srcWritable controller fmtStep diffExists io).1

/-- The four commands of the property with the abstract results of their steps. -/
inductive Cmd where
  | lint (controller checks : List Step)
  | breaking (controller checks : List Step)
  | build (controller : List Step)
  | format (mode : FmtMode) (srcWritable : Bool) (controller : List Step) (fmtStep : Step)
      (diffExists : Bool) (io : FmtIO)
deriving Repr

def Cmd.run : Cmd → Outcome
  | .lint c k => lintLike c k
  | .breaking c k => lintLike c k
  | .build c => BufModel.Annot.build c
  | .format m sw c f d io => BufModel.Annot.format m sw c f d io

end BufModel.Annot
