import BufModel.Path
/-
  BufModel.Annot — executable model of private/bufpkg/bufanalysis (file annotations: compare,
  de-duplication key, sort, the five printers) and of the exit-status decision of
  `buf build | lint | breaking | format --exit-code`
  (bufctl.handleFileAnnotationSetRetError, bufctl.ErrFileAnnotation, buf.go wrapError,
  app.GetExitCode).

  The model describes the code AFTER the two `fix:` changes of C20
    * file_annotation_set.go `hash`: every key field is written length-prefixed (`keyNew`);
      the pre-fix key (plain concatenation, `keyOld`) is kept for the recorded counterexample;
    * print.go: github-actions escapes data / property values by GitHub's rules, msvs prints
      line breaks as spaces; the pre-fix printers are `ghaLineOld` / `msvsLineOld`.

  Besides the printers the model has, for every format, the DECODER a consumer of that format
  runs (`parseTextLine`, `parseMsvsLine`, `parseGhaLine` with GitHub's unescape, `parseJunitCase`;
  `parseDoc` for a whole document) — `BufProofs.C20.formats_decode` proves they invert the
  printers, the driver runs them on the real output — and a model of the Go error VALUES the exit
  status is computed from (`GoErr`, `handleFAS`, `wrapError`, `getExitCode`).

  Last section: the fate of an IMPORT PATH as written (`importFate`: a file of the module set, a
  Well-Known Type, not found, rejected by normalpath, an existing file not named by its normalised
  path) and the error values bufimage.BuildImage / bufmodule's ModuleDeps() return for it.

  Strings are `List Char` (valid UTF-8 Go strings).  Line/column numbers are `Nat` (the
  producers — protocompile locations, check plugins — never emit negative numbers; 0 = unknown).
  Core Lean only; everything is total and structurally recursive so that `decide` can evaluate it.
-/
namespace BufModel.Annot

abbrev Str := List Char

/-- bufanalysis.fileAnnotation.  `file = none` is a nil FileInfo; `some p` has ExternalPath `p`. -/
structure Annot where
  file : Option Str
  sl : Nat
  sc : Nat
  el : Nat
  ec : Nat
  type : Str
  msg : Str
  plugin : Str
deriving DecidableEq, Repr

/-! ### comparison (fileAnnotationCompareTo) -/

def cmpNat (a b : Nat) : Ordering :=
  if a < b then .lt else if b < a then .gt else .eq

/-- Go's `<` on strings is byte-wise; on valid UTF-8 that is code-point order. -/
def cmpStr : Str → Str → Ordering
  | [], [] => .eq
  | [], _ :: _ => .lt
  | _ :: _, [] => .gt
  | a :: as, b :: bs => (cmpNat a.toNat b.toNat).then (cmpStr as bs)

/-- nil FileInfo sorts before every non-nil one; two non-nil ones by ExternalPath. -/
def cmpFile : Option Str → Option Str → Ordering
  | none, none => .eq
  | none, some _ => .lt
  | some _, none => .gt
  | some a, some b => cmpStr a b

/-- fileAnnotationCompareTo: ExternalPath, StartLine, StartColumn, Type, Message, EndLine,
    EndColumn (PluginName is not compared). -/
def compareTo (a b : Annot) : Ordering :=
  (cmpFile a.file b.file).then <|
  (cmpNat a.sl b.sl).then <|
  (cmpNat a.sc b.sc).then <|
  (cmpStr a.type b.type).then <|
  (cmpStr a.msg b.msg).then <|
  (cmpNat a.el b.el).then (cmpNat a.ec b.ec)

/-- `Less(i,j)` of sortFileAnnotationSlice. -/
def less (a b : Annot) : Bool := compareTo a b == .lt

/-- `a` may stay in front of `b`:  ¬ less b a. -/
def le (a b : Annot) : Bool := !(less b a)

/-- Stable insertion: `x` (which stood before everything in `l`) goes in front of the first
    element that is not strictly smaller.  `sort.Stable` yields THE stable sorted permutation,
    which is what insertion sort computes. -/
def ins (x : Annot) : List Annot → List Annot
  | [] => [x]
  | y :: ys => if less y x then y :: ins x ys else x :: y :: ys

def sortS : List Annot → List Annot
  | [] => []
  | x :: xs => ins x (sortS xs)

/-! ### de-duplication key (hash) -/

/-- strconv.Itoa on a non-negative int. -/
def itoa (n : Nat) : Str := Nat.toDigits 10 n

/-- len(s) of the Go string: number of UTF-8 bytes. -/
def utf8Len : Str → Nat
  | [] => 0
  | c :: cs => c.utf8Size + utf8Len cs

/-- the path the hash sees: "" for a nil FileInfo. -/
def pathOf (a : Annot) : Str := a.file.getD []

/-- The seven fields the key is made of, in the order they are written. -/
def keyFields (a : Annot) : List Str :=
  [pathOf a, itoa a.sl, itoa a.sc, itoa a.el, itoa a.ec, a.type, a.msg]

/-- AS CODED BEFORE THE FIX: the fields are written into SHA-256 back to back.  (The model
    takes the pre-image as the key: SHA-256 is assumed injective on the inputs compared.) -/
def keyOld (a : Annot) : Str := (keyFields a).flatMap id

/-- one length-prefixed field: strconv.Itoa(len(field)) ':' field -/
def lp (s : Str) : Str := itoa (utf8Len s) ++ ':' :: s

/-- AFTER THE FIX: every field is written length-prefixed. -/
def keyNew (a : Annot) : Str := (keyFields a).flatMap lp

/-- deduplicateAndSortFileAnnotations, first loop: keep the first annotation of every key. -/
def dedupWith (key : Annot → Str) : List Annot → List Str → List Annot
  | [], _ => []
  | a :: as, seen =>
    if key a ∈ seen then dedupWith key as seen
    else a :: dedupWith key as (key a :: seen)

def dedupSortWith (key : Annot → Str) (l : List Annot) : List Annot :=
  sortS (dedupWith key l [])

/-- deduplicateAndSortFileAnnotations (current code). -/
def dedupSort (l : List Annot) : List Annot := dedupSortWith keyNew l

/-- the pre-fix behaviour, kept for `dedup_collision_counterexample`. -/
def dedupSortOld (l : List Annot) : List Annot := dedupSortWith keyOld l

/-! ### printers -/

def atLeast1 (n : Nat) : Nat := if n = 0 then 1 else n

def inputPath : Str := "<input>".toList
def failureStr : Str := "FAILURE".toList

/-- path shown by text / msvs / github-actions / junit: "<input>" for a nil FileInfo. -/
def dispPath (a : Annot) : Str := a.file.getD inputPath

/-- message shown by text / msvs: falls back to the type, then to "FAILURE". -/
def shownMsg (a : Annot) : Str :=
  if a.msg = [] then (if a.type = [] then failureStr else a.type) else a.msg

def shownType (a : Annot) : Str := if a.type = [] then failureStr else a.type

def pluginSuffix (esc : Str → Str) (p : Str) : Str :=
  if p = [] then [] else " (".toList ++ esc p ++ [')']

/-- fileAnnotation.String() — the text format (the human format: nothing is escaped). -/
def textLine (a : Annot) : Str :=
  dispPath a ++ ':' :: itoa (atLeast1 a.sl) ++ ':' :: itoa (atLeast1 a.sc) ++ ':' :: shownMsg a
    ++ pluginSuffix id a.plugin

/-- msvsLineBreakReplacer: '\r' and '\n' become a space. -/
def oneLine (s : Str) : Str := s.map fun c => if c = '\n' ∨ c = '\r' then ' ' else c

def msvsLineWith (esc : Str → Str) (a : Annot) : Str :=
  esc (dispPath a) ++ '(' :: itoa (atLeast1 a.sl) ++ ',' :: itoa (atLeast1 a.sc)
    ++ ") : error ".toList ++ esc (shownType a) ++ " : ".toList ++ esc (shownMsg a)
    ++ pluginSuffix esc a.plugin

def msvsLine : Annot → Str := msvsLineWith oneLine
def msvsLineOld : Annot → Str := msvsLineWith id

/-- githubActionsDataEscaper -/
def escData (s : Str) : Str := s.flatMap fun c =>
  if c = '%' then "%25".toList else if c = '\r' then "%0D".toList
  else if c = '\n' then "%0A".toList else [c]

/-- githubActionsPropertyEscaper -/
def escProp (s : Str) : Str := s.flatMap fun c =>
  if c = '%' then "%25".toList else if c = '\r' then "%0D".toList
  else if c = '\n' then "%0A".toList else if c = ':' then "%3A".toList
  else if c = ',' then "%2C".toList else [c]

def ghaPos (a : Annot) : Str :=
  if a.sl = 0 then [] else
    ",line=".toList ++ itoa a.sl
    ++ (if a.sc = 0 then [] else ",col=".toList ++ itoa a.sc)
    ++ (if a.el = 0 then [] else
          ",endLine=".toList ++ itoa a.el
          ++ (if a.ec = 0 then [] else ",endColumn=".toList ++ itoa a.ec))

def ghaLineWith (escP escD : Str → Str) (a : Annot) : Str :=
  "::error file=".toList ++ escP (dispPath a) ++ ghaPos a ++ "::".toList ++ escD a.msg
    ++ pluginSuffix escD a.plugin

def ghaLine : Annot → Str := ghaLineWith escProp escData
def ghaLineOld : Annot → Str := ghaLineWith id id

/-- printEachAnnotationOnNewLine -/
def printLines (line : Annot → Str) (l : List Annot) : Str :=
  l.flatMap fun a => line a ++ ['\n']

/-- externalFileAnnotation — the JSON record at field level (string escaping is
    encoding/json's).  `omitempty` drops empty strings; the numbers are never 0. -/
structure JsonRec where
  path : Str
  sl : Nat
  sc : Nat
  el : Nat
  ec : Nat
  type : Str
  msg : Str
  plugin : Str
deriving DecidableEq, Repr

def jsonRec (a : Annot) : JsonRec :=
  { path := pathOf a, sl := atLeast1 a.sl, sc := atLeast1 a.sc, el := atLeast1 a.el,
    ec := atLeast1 a.ec, type := a.type, msg := a.msg, plugin := a.plugin }

/-- JUnit at field level: one testcase. -/
structure JCase where
  name : Str
  message : Str
  type : Str
deriving DecidableEq, Repr

structure JSuite where
  name : Str
  tests : Nat
  cases : List JCase
deriving DecidableEq, Repr

/-- the position suffix of a testcase name: `_<line>_<column>` when the column is known,
    `_<line>` when only the line is, nothing otherwise (printFileAnnotationAsJUnit) -/
def junitPosSuffix (sl sc : Nat) : Str :=
  if sc ≠ 0 then '_' :: itoa sl ++ '_' :: itoa sc
  else if sl ≠ 0 then '_' :: itoa sl else []

/-- testcase name as a function of the three fields it is made of: rule ID, start line, start
    column (the RAW numbers: 0 = unknown; json shows 1 for those) -/
def junitName (type : Str) (sl sc : Nat) : Str := type ++ junitPosSuffix sl sc

def junitCaseName (a : Annot) : Str := junitName a.type a.sl a.sc

def junitCase (a : Annot) : JCase :=
  { name := junitCaseName a, message := textLine a, type := a.type }

/-- groupAnnotationsByPath: groups in order of first appearance of the displayed path. -/
def addToGroups (k : Str) (a : Annot) : List (Str × List Annot) → List (Str × List Annot)
  | [] => [(k, [a])]
  | (k', g) :: rest =>
    if k' = k then (k', g ++ [a]) :: rest else (k', g) :: addToGroups k a rest

def groupByPath (l : List Annot) : List (Str × List Annot) :=
  l.foldl (fun gs a => addToGroups (dispPath a) a gs) []

def protoSuffix : Str := ".proto".toList

/-- strings.TrimSuffix(path, ".proto") -/
def trimProto (s : Str) : Str :=
  if protoSuffix.isSuffixOf s then s.take (s.length - protoSuffix.length) else s

def junitSuites (l : List Annot) : List JSuite :=
  (groupByPath l).map fun kg =>
    { name := trimProto kg.1, tests := kg.2.length, cases := kg.2.map junitCase }

/-! ### formats -/

inductive Format where
  | text | json | msvs | junit | gha
deriving DecidableEq, Repr

def Format.all : List Format := [.text, .json, .msvs, .junit, .gha]

/-- What a format carries of ONE annotation — the per-annotation record a consumer of that
    format reads (a line for the line formats, the decoded object / testcase otherwise). -/
inductive Rendered where
  | line (s : Str)
  | json (r : JsonRec)
  | junit (suite : Str) (c : JCase)
deriving DecidableEq, Repr

def render : Format → Annot → Rendered
  | .text, a => .line (textLine a)
  | .msvs, a => .line (msvsLine a)
  | .gha, a => .line (ghaLine a)
  | .json, a => .json (jsonRec a)
  | .junit, a => .junit (trimProto (dispPath a)) (junitCase a)

/-- The document a printer emits for an already sorted, de-duplicated list. -/
inductive Doc where
  | lines (out : Str)              -- text, msvs, github-actions: the bytes written
  | jsonl (recs : List JsonRec)    -- json: one object per line
  | junit (suites : List JSuite)
deriving DecidableEq, Repr

def printDoc : Format → List Annot → Doc
  | .text, l => .lines (printLines textLine l)
  | .msvs, l => .lines (printLines msvsLine l)
  | .gha, l => .lines (printLines ghaLine l)
  | .json, l => .jsonl (l.map jsonRec)
  | .junit, l => .junit (junitSuites l)

/-- What a line-oriented consumer (the GitHub runner, MSBuild, a terminal) reads: the
    '\n'-terminated lines of the output. -/
def linesOf : Str → List Str
  | [] => []
  | c :: cs =>
    if c = '\n' then [] :: linesOf cs
    else match linesOf cs with
      | [] => [[c]]
      | l :: ls => (c :: l) :: ls

/-- The per-annotation records a consumer of the document reads, in document order. -/
def Doc.items : Doc → List Rendered
  | .lines out => (linesOf out).map .line
  | .jsonl recs => recs.map .json
  | .junit suites => suites.flatMap fun s => s.cases.map (.junit s.name)

/-- PrintFileAnnotationSet(NewFileAnnotationSet(as…), fmt) -/
def printSet (f : Format) (as : List Annot) : Doc := printDoc f (dedupSort as)

/-! ### decoders: what a consumer reads back from the printed text

Every format gets a decoder of ONE printed record back to the tuple of fields the format
carries.  The decoders are what a line-oriented consumer does (split at the first separator,
read a decimal number, undo GitHub's escaping); `BufProofs.C20.formats_decode` proves that they
invert the printers above — under an explicit side condition where the format does not escape
(text, msvs) and unconditionally where it does (github-actions).  The driver runs the same
decoders on the REAL output of the implementation (`dec` lines of the protocol) and the harness
compares the result with its own decoders. -/

/-- split at the first occurrence of `sep`: (before, after) -/
def cutAt (sep : Char) : Str → Option (Str × Str)
  | [] => none
  | c :: cs => if c = sep then some ([], cs) else (cutAt sep cs).map fun ab => (c :: ab.1, ab.2)

/-- strip a literal prefix -/
def dropPrefix : Str → Str → Option Str
  | [], s => some s
  | _ :: _, [] => none
  | p :: ps, c :: cs => if p = c then dropPrefix ps cs else none

/-- a decimal number in front (at least one digit; strconv.Atoi of the leading digit run) -/
def readNat (s : Str) : Option (Nat × Str) :=
  let ds := s.takeWhile Char.isDigit
  if ds = [] then none else some (Nat.ofDigitChars 10 ds 0, s.dropWhile Char.isDigit)

/-- the text a message-carrying format shows after the position: message + " (plugin)" -/
def withPlugin (m plugin : Str) : Str := m ++ pluginSuffix id plugin

/-- fields of a text line `path:line:column:message` -/
structure TextF where
  path : Str
  line : Nat
  col : Nat
  text : Str
deriving DecidableEq, Repr

/-- decoder of the text format: the path ends at the FIRST ':' -/
def parseTextLine (s : Str) : Option TextF := do
  let (p, r) ← cutAt ':' s
  let (l, r) ← readNat r
  let r ← dropPrefix [':'] r
  let (c, r) ← readNat r
  let r ← dropPrefix [':'] r
  some { path := p, line := l, col := c, text := r }

/-- what the text format carries of an annotation -/
def textF (a : Annot) : TextF :=
  { path := dispPath a, line := atLeast1 a.sl, col := atLeast1 a.sc, text := withPlugin (shownMsg a) a.plugin }

/-- fields of an msvs line `path(line,column) : error TYPE : message` -/
structure MsvsF where
  path : Str
  line : Nat
  col : Nat
  type : Str
  text : Str
deriving DecidableEq, Repr

/-- all but the last character, which must be a space -/
def dropTrailingSpace (s : Str) : Option Str :=
  if s.getLast? = some ' ' then some s.dropLast else none

/-- decoder of the msvs format: the path ends at the FIRST '(', the type at the first ':' -/
def parseMsvsLine (s : Str) : Option MsvsF := do
  let (p, r) ← cutAt '(' s
  let (l, r) ← readNat r
  let r ← dropPrefix [','] r
  let (c, r) ← readNat r
  let r ← dropPrefix ") : error ".toList r
  let (t, r) ← cutAt ':' r
  let t ← dropTrailingSpace t
  let r ← dropPrefix [' '] r
  some { path := p, line := l, col := c, type := t, text := r }

/-- what the msvs format carries: line breaks of every string are flattened to spaces -/
def msvsF (a : Annot) : MsvsF :=
  { path := oneLine (dispPath a), line := atLeast1 a.sl, col := atLeast1 a.sc,
    type := oneLine (shownType a), text := oneLine (withPlugin (shownMsg a) a.plugin) }

/-- GitHub's unescape, one pass from the left: at a '%' followed by a known two-character code
    the decoded character is emitted and the code skipped (`k` = characters still to skip) -/
def unescAux (dec : Char → Char → Option Char) : Nat → Str → Str
  | _, [] => []
  | k + 1, _ :: t => unescAux dec k t
  | 0, c :: t =>
    if c = '%' then
      match t with
      | a :: b :: _ =>
        match dec a b with
        | some x => x :: unescAux dec 2 t
        | none => c :: unescAux dec 0 t
      | _ => c :: unescAux dec 0 t
    else c :: unescAux dec 0 t

def decData (a b : Char) : Option Char :=
  if a = '2' ∧ b = '5' then some '%' else if a = '0' ∧ b = 'D' then some '\r'
  else if a = '0' ∧ b = 'A' then some '\n' else none

def decProp (a b : Char) : Option Char :=
  if a = '2' ∧ b = '5' then some '%' else if a = '0' ∧ b = 'D' then some '\r'
  else if a = '0' ∧ b = 'A' then some '\n' else if a = '3' ∧ b = 'A' then some ':'
  else if a = '2' ∧ b = 'C' then some ',' else none

/-- the runner's unescape for command data (%25 %0D %0A) -/
def unescData (s : Str) : Str := unescAux decData 0 s
/-- the runner's unescape for property values (%25 %0D %0A %3A %2C) -/
def unescProp (s : Str) : Str := unescAux decProp 0 s

/-- fields of a github-actions command; a number is 0 when its key is absent -/
structure GhaF where
  path : Str
  line : Nat
  col : Nat
  endLine : Nat
  endCol : Nat
  msg : Str
deriving DecidableEq, Repr

/-- an optional `,key=<number>` property: (0, unchanged rest) when the key is not next -/
def optKey (key : Str) (s : Str) : Option (Nat × Str) :=
  match dropPrefix key s with
  | none => some (0, s)
  | some r => readNat r

/-- decoder of a github-actions workflow command: the (escaped) file value ends at the first
    ',' or ':', the optional properties come in the printer's order, the data follows `::` -/
def parseGhaLine (s : Str) : Option GhaF := do
  let r ← dropPrefix "::error file=".toList s
  let f := r.takeWhile fun c => c != ',' && c != ':'
  let r := r.dropWhile fun c => c != ',' && c != ':'
  let (l, r) ← optKey ",line=".toList r
  let (c, r) ← optKey ",col=".toList r
  let (el, r) ← optKey ",endLine=".toList r
  let (ec, r) ← optKey ",endColumn=".toList r
  let r ← dropPrefix "::".toList r
  some { path := unescProp f, line := l, col := c, endLine := el, endCol := ec, msg := unescData r }

/-- what github-actions carries: the RAW numbers, nested as the printer nests them — no
    column / end position without a start line, no end column without an end line -/
def ghaF (a : Annot) : GhaF :=
  { path := dispPath a,
    line := a.sl,
    col := if a.sl = 0 then 0 else a.sc,
    endLine := if a.sl = 0 then 0 else a.el,
    endCol := if a.sl = 0 then 0 else if a.el = 0 then 0 else a.ec,
    msg := withPlugin a.msg a.plugin }

/-- the position encoded in a JUnit testcase name after the rule ID -/
def parsePosSuffix : Str → Option (Nat × Nat)
  | [] => some (0, 0)
  | c :: r =>
    if c = '_' then
      match readNat r with
      | none => none
      | some (l, []) => some (l, 0)
      | some (l, c' :: r') =>
        if c' = '_' then
          match readNat r' with
          | some (k, []) => some (l, k)
          | _ => none
        else none
    else none

/-- fields of a JUnit testcase: suite name, rule ID (failure type), the raw start position
    encoded in the testcase name, and the text line carried as failure message -/
structure JunitF where
  suite : Str
  type : Str
  sl : Nat
  sc : Nat
  text : TextF
deriving DecidableEq, Repr

def parseJunitCase (suite : Str) (c : JCase) : Option JunitF := do
  let rest ← dropPrefix c.type c.name
  let (sl, sc) ← parsePosSuffix rest
  let t ← parseTextLine c.message
  some { suite := suite, type := c.type, sl := sl, sc := sc, text := t }

def junitF (a : Annot) : JunitF :=
  { suite := trimProto (dispPath a), type := a.type, sl := a.sl, sc := a.sc, text := textF a }

/-- the fields one record of a format carries -/
inductive Carried where
  | text (t : TextF)
  | msvs (m : MsvsF)
  | gha (g : GhaF)
  | json (r : JsonRec)
  | junit (j : JunitF)
deriving DecidableEq, Repr

/-- what format `f` carries of annotation `a` -/
def proj : Format → Annot → Carried
  | .text, a => .text (textF a)
  | .msvs, a => .msvs (msvsF a)
  | .gha, a => .gha (ghaF a)
  | .json, a => .json (jsonRec a)
  | .junit, a => .junit (junitF a)

/-- decoder of one record of the document of format `f` -/
def parseItem : Format → Rendered → Option Carried
  | .text, .line s => (parseTextLine s).map .text
  | .msvs, .line s => (parseMsvsLine s).map .msvs
  | .gha, .line s => (parseGhaLine s).map .gha
  | .json, .json r => some (.json r)
  | .junit, .junit suite c => (parseJunitCase suite c).map .junit
  | _, _ => none

/-- `parse_f`: the decoder of a whole printed document (fails if one record does not parse) -/
def parseDoc (f : Format) (d : Doc) : Option (List Carried) := d.items.mapM (parseItem f)

/-! ### the fields shared between formats

`Shared` lists the property-level fields (file, position, rule ID, message) at every precision a
format shows them; `view` says what a decoded record determines (`none` = the format does not
carry the field for this record). -/

structure Shared where
  /-- the displayed path ("<input>" without FileInfo) -/
  file : Option Str
  /-- … with CR / LF as spaces (msvs) -/
  fileFlat : Option Str
  /-- … without the ".proto" suffix (JUnit testsuite name) -/
  suite : Option Str
  /-- start line / column, end line / column as shown (unknown = 1) -/
  line : Option Nat
  col : Option Nat
  endLine : Option Nat
  endCol : Option Nat
  /-- the rule ID (type) -/
  rule : Option Str
  /-- the type msvs shows ("FAILURE" for an empty one), flattened -/
  ruleFlat : Option Str
  /-- the message text / msvs / junit show: message (else rule ID, else "FAILURE") + " (plugin)" -/
  text : Option Str
  textFlat : Option Str
  /-- message + " (plugin)" without fall-back (github-actions, json) -/
  message : Option Str
deriving DecidableEq, Repr

/-- everything, from the annotation itself -/
def Shared.full (a : Annot) : Shared :=
  { file := some (dispPath a), fileFlat := some (oneLine (dispPath a)), suite := some (trimProto (dispPath a)),
    line := some (atLeast1 a.sl), col := some (atLeast1 a.sc),
    endLine := some (atLeast1 a.el), endCol := some (atLeast1 a.ec),
    rule := some a.type, ruleFlat := some (oneLine (shownType a)),
    text := some (withPlugin (shownMsg a) a.plugin),
    textFlat := some (oneLine (withPlugin (shownMsg a) a.plugin)),
    message := some (withPlugin a.msg a.plugin) }

def viewText (t : TextF) : Shared :=
  { file := some t.path, fileFlat := some (oneLine t.path), suite := some (trimProto t.path),
    line := some t.line, col := some t.col, endLine := none, endCol := none,
    rule := none, ruleFlat := none, text := some t.text, textFlat := some (oneLine t.text), message := none }

/-- a github-actions number: absent (0) = not carried -/
def known (n : Nat) : Option Nat := if n = 0 then none else some n

def shownTypeOf (t : Str) : Str := if t = [] then failureStr else t
def shownMsgOf (t m : Str) : Str := if m = [] then shownTypeOf t else m

def view : Carried → Shared
  | .text t => viewText t
  | .msvs m =>
    { file := none, fileFlat := some m.path, suite := none, line := some m.line, col := some m.col,
      endLine := none, endCol := none, rule := none, ruleFlat := some m.type,
      text := none, textFlat := some m.text, message := none }
  | .gha g =>
    { file := some g.path, fileFlat := some (oneLine g.path), suite := some (trimProto g.path),
      line := known g.line, col := known g.col, endLine := known g.endLine, endCol := known g.endCol,
      rule := none, ruleFlat := none, text := none, textFlat := none, message := some g.msg }
  | .json r =>
    -- a record without `path` key says nothing about the displayed path
    { file := if r.path = [] then none else some r.path,
      fileFlat := if r.path = [] then none else some (oneLine r.path),
      suite := if r.path = [] then none else some (trimProto r.path),
      line := some r.sl, col := some r.sc, endLine := some r.el, endCol := some r.ec,
      rule := some r.type, ruleFlat := some (oneLine (shownTypeOf r.type)),
      text := some (withPlugin (shownMsgOf r.type r.msg) r.plugin),
      textFlat := some (oneLine (withPlugin (shownMsgOf r.type r.msg) r.plugin)),
      message := some (withPlugin r.msg r.plugin) }
  | .junit j =>
    { viewText j.text with suite := some j.suite, rule := some j.type,
                           ruleFlat := some (oneLine (shownTypeOf j.type)) }

/-- keep `x` where the other side carries the field too -/
def keep {α : Type} (x y : Option α) : Option α := if y.isSome then x else none

/-- projection of `s` onto the fields `t` carries as well -/
def Shared.restrict (s t : Shared) : Shared :=
  { file := keep s.file t.file, fileFlat := keep s.fileFlat t.fileFlat, suite := keep s.suite t.suite,
    line := keep s.line t.line, col := keep s.col t.col, endLine := keep s.endLine t.endLine,
    endCol := keep s.endCol t.endCol, rule := keep s.rule t.rule, ruleFlat := keep s.ruleFlat t.ruleFlat,
    text := keep s.text t.text, textFlat := keep s.textFlat t.textFlat, message := keep s.message t.message }

/-! ### errors and the exit status
    (controller.handleFileAnnotationSetRetError, buf.go wrapError, app.GetExitCode, app.printError)

A Go error value is modelled as far as the code looks at it: `errors.As` walks the wrapping
tree in pre-order (the error itself, then what it wraps; for `errors.Join` the children left to
right), `Error() == ""` decides whether anything is printed. -/

inductive GoErr where
  /-- a bufanalysis.FileAnnotationSet (it is an `error`); `NewFileAnnotationSet` never builds an
      empty one, hence head + tail (raw, before dedup/sort) -/
  | annotSet (hd : Annot) (tl : List Annot)
  /-- *bufmodule.ImportNotExistError -/
  | importNotExist
  /-- errors.New(s), an *os.PathError, …: a leaf; `text` = (Error() ≠ "") -/
  | plain (text : Bool)
  /-- fmt.Errorf("…: %w", inner) and every other wrapper with its own non-empty text -/
  | wrapf (inner : GoErr)
  /-- *app.appError: carries an exit code, Error() is the inner error's -/
  | app (code : Nat) (inner : GoErr)
  /-- *syserror.Error ("system error: " + underlying) -/
  | sys (inner : GoErr)
  /-- *connect.Error; `special` = one of the codes wrapError answers with a message of its own
      (unauthenticated, unavailable, the old-BSR shapes) -/
  | connect (special : Bool) (inner : GoErr)
  /-- errors.Join(a, b) with both non-nil -/
  | join (a b : GoErr)
deriving DecidableEq, Repr

/-- `err.Error() != ""` -/
def GoErr.text : GoErr → Bool
  | .annotSet _ _ => true
  | .importNotExist => true
  | .plain t => t
  | .wrapf _ => true
  | .app _ i => i.text
  | .sys _ => true
  | .connect _ _ => true
  | .join _ _ => true

/-- errors.As(err, &fileAnnotationSet): the first FileAnnotationSet of the tree -/
def GoErr.findAnnots : GoErr → Option (Annot × List Annot)
  | .annotSet hd tl => some (hd, tl)
  | .importNotExist => none
  | .plain _ => none
  | .wrapf i => i.findAnnots
  | .app _ i => i.findAnnots
  | .sys i => i.findAnnots
  | .connect _ i => i.findAnnots
  | .join a b => (a.findAnnots).orElse fun _ => b.findAnnots

/-- errors.As(err, &importNotExistError) succeeds -/
def GoErr.hasImport : GoErr → Bool
  | .annotSet _ _ => false
  | .importNotExist => true
  | .plain _ => false
  | .wrapf i => i.hasImport
  | .app _ i => i.hasImport
  | .sys i => i.hasImport
  | .connect _ i => i.hasImport
  | .join a b => a.hasImport || b.hasImport

/-- errors.As(err, &appErr): the exit code of the first *appError -/
def GoErr.findApp : GoErr → Option Nat
  | .annotSet _ _ => none
  | .importNotExist => none
  | .plain _ => none
  | .wrapf i => i.findApp
  | .app c _ => some c
  | .sys i => i.findApp
  | .connect _ i => i.findApp
  | .join a b => (a.findApp).orElse fun _ => b.findApp

/-- syserror.As(err): the Underlying of the first *syserror.Error -/
def GoErr.findSys : GoErr → Option GoErr
  | .annotSet _ _ => none
  | .importNotExist => none
  | .plain _ => none
  | .wrapf i => i.findSys
  | .app _ i => i.findSys
  | .sys i => some i
  | .connect _ i => i.findSys
  | .join a b => (a.findSys).orElse fun _ => b.findSys

/-- errors.As(err, &connectErr): the first *connect.Error (its `special` flag) -/
def GoErr.findConnect : GoErr → Option Bool
  | .annotSet _ _ => none
  | .importNotExist => none
  | .plain _ => none
  | .wrapf i => i.findConnect
  | .app _ i => i.findConnect
  | .sys i => i.findConnect
  | .connect s _ => some s
  | .join a b => (a.findConnect).orElse fun _ => b.findConnect

/-- no *appError anywhere in the tree -/
def GoErr.noApp : GoErr → Bool
  | .annotSet _ _ => true
  | .importNotExist => true
  | .plain _ => true
  | .wrapf i => i.noApp
  | .app _ _ => false
  | .sys i => i.noApp
  | .connect _ i => i.noApp
  | .join a b => a.noApp && b.noApp

def exitCodeFileAnnotation : Nat := 100

/-- app.newAppError: exit code 0 is turned into 1 (with a message of its own) -/
def newAppError (code : Nat) (inner : GoErr) : GoErr :=
  if code = 0 then .app 1 (.wrapf inner) else .app code inner

/-- bufctl.ErrFileAnnotation = app.NewError(100, "") -/
def errFileAnnotation : GoErr := newAppError exitCodeFileAnnotation (.plain false)

/-- the system-error step of wrapError: `err = fmt.Errorf("it looks like you have found a bug …: %w",
    sysError.Unwrap())` — everything outside the *syserror.Error is dropped -/
def sysStrip (e : GoErr) : GoErr :=
  match e.findSys with
  | some u => .wrapf u
  | none => e

/-- the tail of wrapError: system error, ImportNotExistError → app.WrapError(100, it), "Failure: %w" -/
def wrapTail (e : GoErr) : GoErr :=
  let e1 := sysStrip e
  let e2 := if e1.hasImport then newAppError exitCodeFileAnnotation .importNotExist else e1
  .wrapf e2

/-- buf.go wrapError (the interceptor around every command), as coded:
    nil stays nil; a non-connect error with an empty message is returned as it is; the special
    connect codes are answered with a fresh error (the chain is dropped); everything else goes
    through the system-error / import-not-found / "Failure:" tail. -/
def wrapError : Option GoErr → Option GoErr
  | none => none
  | some e =>
    match e.findConnect with
    | none => if e.text then some (wrapTail e) else some e
    | some true => some (.plain true)
    | some false => some (wrapTail e)

/-- app.GetExitCode -/
def getExitCode : Option GoErr → Nat
  | none => 0
  | some e => (e.findApp).getD 1

/-- printError: something is written to stderr exactly when `err.Error() != ""` -/
def textOf : Option GoErr → Bool
  | none => false
  | some e => e.text

/-- wrapError took its `errors.As(err, &importNotExistError)` branch -/
def importBranch (e : GoErr) : Bool :=
  (match e.findConnect with
   | none => e.text
   | some s => !s) && (sysStrip e).hasImport

abbrev Step := Option GoErr

/-- a step and whether it runs inside a controller method (`defer
    handleFileAnnotationSetRetError`) or directly in the command's `run` -/
abbrev CStep := Bool × Step

/-- Observable outcome of a command run. -/
structure Outcome where
  /-- what the command's `run` returned (before the interceptor) -/
  ret : Option GoErr
  /-- annotations rendered (in the requested --error-format), in order -/
  printed : List Annot
  /-- `buf format --exit-code` found a difference -/
  diff : Bool
deriving DecidableEq, Repr

/-- the error app.Run receives -/
def Outcome.err (o : Outcome) : Option GoErr := wrapError o.ret
def Outcome.exit (o : Outcome) : Nat := getExitCode o.err
/-- printError writes the message exactly for errors with a non-empty one ("Failure: …") -/
def Outcome.failureLine (o : Outcome) : Bool := textOf o.err
/-- the run ended in wrapError's import-not-found branch -/
def Outcome.importNotFound (o : Outcome) : Bool :=
  match o.ret with
  | none => false
  | some e => importBranch e

/-- controller.handleFileAnnotationSetRetError: a FileAnnotationSet in the error tree is printed
    (de-duplicated and sorted by its NewFileAnnotationSet) and the error replaced by
    ErrFileAnnotation; any other error is left alone.  (Writes to stdout / stderr are taken to
    succeed: the branch that replaces the error by the writer's error is not modelled.) -/
def handleFAS (e : GoErr) : GoErr × List Annot :=
  match e.findAnnots with
  | some (hd, tl) => (errFileAnnotation, dedupSort (hd :: tl))
  | none => (e, [])

/-- a failing step inside a controller method -/
def failStep (e : GoErr) (printedSoFar : List Annot) : Outcome :=
  { ret := some (handleFAS e).1, printed := printedSoFar ++ (handleFAS e).2, diff := false }

/-- a failing step directly in `run`: returned as it is, nothing printed -/
def failDirect (e : GoErr) : Outcome := { ret := some e, printed := [], diff := false }

def Outcome.ok : Outcome := { ret := none, printed := [], diff := false }

/-- steps run in sequence; the first failing one ends the command. -/
def runSteps : List CStep → Option Outcome
  | [] => none
  | (_, none) :: rest => runSteps rest
  | (true, some e) :: _ => some (failStep e [])
  | (false, some e) :: _ => some (failDirect e)

/-- the check loop of lint / breaking: annotation sets are collected (each already
    de-duplicated and sorted by its NewFileAnnotationSet), any other error is returned at once
    WITHOUT printing what was collected. -/
def checkLoop : List Step → List Annot → Outcome
  | [], acc =>
    if acc = [] then Outcome.ok
    else { ret := some errFileAnnotation, printed := dedupSort acc, diff := false }
  | none :: rest, acc => checkLoop rest acc
  | some e :: rest, acc =>
    match e.findAnnots with
    | some (hd, tl) => checkLoop rest (acc ++ dedupSort (hd :: tl))
    | none => failDirect e

/-- errors.Join(retErr, closeErr); a join with one non-nil member is identified with that member
    (same Error(), same errors.As answers) -/
def joinErr : Option GoErr → Option GoErr → Option GoErr
  | none, none => none
  | some a, none => some a
  | none, some b => some b
  | some a, some b => some (.join a b)

/-- `buf lint` / `buf breaking`: `pre` = the steps before `defer wasmRuntime.Close` is
    registered (flag validation, GetInputValue, NewController, NewWasmRuntime — all directly in
    `run`); then the steps that build the image(s) (controller methods: compile errors are
    annotation sets) mixed with direct ones (breaking: "input contained n images …"), one check
    per image, and finally `retErr = errors.Join(retErr, wasmRuntime.Close(ctx))`. -/
def lintLike (pre : List Step) (body : List CStep) (checks : List Step) (close : Step) : Outcome :=
  match runSteps (pre.map fun s => (false, s)) with
  | some o => o
  | none =>
    let o := match runSteps body with
      | some o => o
      | none => checkLoop checks []
    { o with ret := joinErr o.ret close }

/-- `buf build` (GetImage, PutImage in controller methods, the rest directly) — and every other
    command that is a plain sequence of steps, e.g. `buf dep graph` (GetWorkspace, ModuleSetToDAG). -/
def build (steps : List CStep) : Outcome :=
  match runSteps steps with
  | some o => o
  | none => Outcome.ok

/-! ### `buf format` and its output modes

`format.go: run` has one return path per mode.  After the flag validation, `GetWorkspace`,
`FormatBucket` and the diff, a `defer` turns `retErr == nil && --exit-code && diffExists` into
`ErrFileAnnotation`; then

* `-d`            copies the diff to stdout and returns (`-o` left at "-" and no `-w`);
* `-d -w`, `-w`   (after the copy) rewrites the changed files in place and returns;
* `-d -o X`, `-o X`, plain   (after the copy) writes the formatted files to `X` (a directory or
  one `.proto` file) resp. to stdout.

The mode is an explicit parameter so that the exit-status theorems quantify over all of them. -/

/-- value of `-o`: "-" (the default, stdout) or a directory / `.proto` file -/
inductive FmtOut where
  | stdout
  | path
deriving DecidableEq, Repr

/-- the flags that select the return path of `buf format` -/
structure FmtMode where
  /-- `-d` -/
  diff : Bool
  /-- `-w` -/
  write : Bool
  /-- `-o` -/
  out : FmtOut
  /-- `--exit-code` -/
  exitCode : Bool
deriving DecidableEq, Repr

/-- `-w` and `-o` exclude each other; `-w` needs a source that can be rewritten (a directory or a
    `.proto` file — not a module reference, archive, git repository). -/
def FmtMode.valid (m : FmtMode) (srcWritable : Bool) : Bool :=
  !m.write || (m.out == .stdout && srcWritable)

/-- every mode: {plain, -d, -w, -d -w, -o, -d -o} × {with, without --exit-code} (valid ones),
    and the rejected combinations with both -w and -o. -/
def FmtMode.all : List FmtMode :=
  [false, true].flatMap fun d => [false, true].flatMap fun w => [FmtOut.stdout, FmtOut.path].flatMap fun o =>
    [false, true].map fun e => { diff := d, write := w, out := o, exitCode := e }

/-- the I/O steps a mode may perform after the diff is known: copy the diff to stdout, rewrite
    the changed files in place, write the formatted files to the `-o` location (stdout included) -/
structure FmtIO where
  copyDiff : Step
  rewrite : Step
  output : Step
deriving DecidableEq, Repr

def FmtIO.ok : FmtIO := { copyDiff := none, rewrite := none, output := none }

/-- what a `buf format` run did besides exiting -/
structure FmtEffects where
  /-- the diff text was copied to stdout -/
  stdoutDiff : Bool
  /-- the formatted source was written to stdout -/
  stdoutSource : Bool
  /-- changed files were rewritten in place -/
  rewrote : Bool
  /-- the formatted files were written to the `-o` directory / file -/
  wroteOut : Bool
deriving DecidableEq, Repr

def FmtEffects.none : FmtEffects :=
  { stdoutDiff := false, stdoutSource := false, rewrote := false, wroteOut := false }

/-- the deferred `if retErr == nil && flags.ExitCode && diffExists { retErr = ErrFileAnnotation }` -/
def fmtDeferred (m : FmtMode) (diffExists : Bool) : Outcome :=
  if m.exitCode && diffExists then { ret := some errFileAnnotation, printed := [], diff := true }
  else Outcome.ok

/-- the part of `run` after the diff: the return path selected by the mode.  An I/O error
    returns at once (the deferred function then leaves it alone: `retErr != nil`). -/
def fmtTail (m : FmtMode) (diffExists : Bool) (io : FmtIO) : Outcome × FmtEffects :=
  -- `if flags.Diff { if diffExists { io.Copy(stdout, diffBuffer) } … }`
  let copy : Step := if m.diff && diffExists then io.copyDiff else none
  match copy with
  | some e => (failDirect e, FmtEffects.none)
  | none =>
    let eff : FmtEffects := { FmtEffects.none with stdoutDiff := m.diff && diffExists }
    if m.diff && m.out == .stdout && !m.write then
      -- "If we haven't overridden the output flag and haven't set write, we can stop here."
      (fmtDeferred m diffExists, eff)
    else if m.write then
      -- only the changed paths are re-written: nothing to do (and nothing to fail) without a diff
      let rw : Step := if diffExists then io.rewrite else none
      match rw with
      | some e => (failDirect e, eff)
      | none => (fmtDeferred m diffExists, { eff with rewrote := diffExists })
    else
      match io.output with
      | some e => (failDirect e, eff)
      | none =>
        (fmtDeferred m diffExists,
          { eff with stdoutSource := m.out == .stdout, wroteOut := m.out == .path })

/-- the I/O steps the mode actually performs, in order (a step that is not performed cannot fail) -/
def FmtMode.ioSteps (m : FmtMode) (diffExists : Bool) (io : FmtIO) : List Step :=
  (if m.diff && diffExists then [io.copyDiff] else []) ++
  (if m.diff && m.out == .stdout && !m.write then []
   else if m.write then (if diffExists then [io.rewrite] else [])
   else [io.output])

/-- `buf format`: flag validation (an invalid combination is an invalid-argument error, i.e.
    operational), controller steps (NewController directly, GetWorkspace in a controller method),
    FormatBucket + diff directly in `run` (`fmtStep`: a parse error is a plain error here —
    bufformat does not produce annotation sets, and if it did nothing would print them), then the
    return path of the mode (its I/O steps run directly in `run` as well). -/
def formatFull (m : FmtMode) (srcWritable : Bool) (controller : List CStep) (fmtStep : Step)
    (diffExists : Bool) (io : FmtIO) : Outcome × FmtEffects :=
  if !m.valid srcWritable then (failDirect (.plain true), FmtEffects.none)
  else
    match runSteps (controller ++ [(false, fmtStep)]) with
    | some o => (o, FmtEffects.none)
    | none => fmtTail m diffExists io

def format (m : FmtMode) (srcWritable : Bool) (controller : List CStep) (fmtStep : Step)
    (diffExists : Bool) (io : FmtIO) : Outcome :=
  (formatFull m srcWritable controller fmtStep diffExists io).1

/-! ### `buf format -w` at the level of file contents

The rewrite step of the `-w` modes, as coded: the changed paths of the diff are walked in path
order; each one is opened with `os.OpenFile(externalPath, O_WRONLY|O_CREATE|O_TRUNC, 0644)` and the
formatted text written into it.  A symbolic link is followed by the open (the link stays a link,
its target holds the new text), a read-only file fails the open for a non-root user; the first
failing open ends the walk with its error — the files before it are rewritten, the files after
it are not.  The formatter itself is a parameter (`WFile.fmt` is its output, C07 owns it). -/

/-- a `.proto` file as `buf format` sees it -/
structure WFile where
  path : Str
  /-- what the file holds before the run -/
  orig : Str
  /-- the formatter's output for `orig` (`none`: it does not parse) -/
  fmt : Option Str
  /-- selected by the input / `--path` / `--exclude-path` -/
  target : Bool
  /-- the open for writing succeeds -/
  openable : Bool
deriving DecidableEq, Repr

/-- the file is among the changed paths of the diff: targeted, and the formatter's text differs -/
def WFile.changed (f : WFile) : Bool :=
  f.target && (match f.fmt with
    | some t => t != f.orig
    | none => false)

/-- what the file is to hold after a `-w` run that did not fail -/
def WFile.want (f : WFile) : Str :=
  if f.target then f.fmt.getD f.orig else f.orig

/-- FormatBucket succeeds: every targeted file parses -/
def fmtStepOk (fs : List WFile) : Bool := fs.all fun f => !f.target || f.fmt.isSome

/-- open with O_TRUNC, write `new`: the file holds exactly `new` -/
def writeTrunc (_old new : Str) : Str := new

/-- open WITHOUT O_TRUNC, write `new` from offset 0: what the old content had beyond the length
    of `new` stays behind it (lengths in characters here, bytes in the file; only used for the
    counterexample) -/
def writeOver (old new : Str) : Str := new ++ old.drop new.length

def untouched (fs : List WFile) : List (Str × Str) := fs.map fun g => (g.path, g.orig)

/-- the rewrite walk (the list is in path order), parameterised by what a write does.
    Result: (path, content) afterwards, and whether the walk ended with an error. -/
def rewriteWalk (wr : Str → Str → Str) : List WFile → List (Str × Str) × Bool
  | [] => ([], false)
  | f :: rest =>
    if f.changed then
      if f.openable then
        ((f.path, wr f.orig (f.fmt.getD f.orig)) :: (rewriteWalk wr rest).1, (rewriteWalk wr rest).2)
      else ((f.path, f.orig) :: untouched rest, true)
    else ((f.path, f.orig) :: (rewriteWalk wr rest).1, (rewriteWalk wr rest).2)

/-- `buf format -w`: (contents afterwards, the run failed, a difference existed) -/
def formatWrite (fs : List WFile) : List (Str × Str) × Bool × Bool :=
  if fmtStepOk fs then
    ((rewriteWalk writeTrunc fs).1, (rewriteWalk writeTrunc fs).2, fs.any (·.changed))
  else (untouched fs, true, false)

/-- the files as the NEXT run sees them (`F` = the formatter) -/
def nextRun (F : Str → Option Str) (fs : List WFile) : List WFile :=
  fs.map fun f => { f with orig := f.want, fmt := F f.want }

/-! ### `buf format` to stdout / `-o file.proto` / `-o dir` at the level of file contents

The output step of the modes without `-w`, as coded.  `writeToProtoFile` (stdout and
`-o x.proto`): the sink is opened once — `PutProtoFile`: the local file with
`O_WRONLY|O_CREATE|O_TRUNC`, stdout as it is — AFTER FormatBucket succeeded; one walk over the
formatted bucket in path order, per file `io.ReadAll` + `Write`.  `writeToDir`: `storage.Copy`
puts every formatted file at its own path below the directory (each opened truncating), what
else is there stays.  Only targeted files are in the formatted bucket. -/

/-- the formatter's outputs of the targeted files, concatenated in path order: what one walk
    with a complete read and a complete write per file sends to the sink -/
def sinkOut (fs : List WFile) : Str :=
  (fs.filter (·.target)).flatMap fun f => f.fmt.getD []

/-- `-o file.proto` on a location that holds `old`: (content afterwards, the run failed) -/
def formatToFile (old : Str) (fs : List WFile) : Str × Bool :=
  if fmtStepOk fs then (writeTrunc old (sinkOut fs), false) else (old, true)

/-- stdout: nothing precedes the run's own output -/
def formatToStdout (fs : List WFile) : Str × Bool := formatToFile [] fs

/-- `-o dir`: (path, content) of the files written, the run failed -/
def formatToDir (fs : List WFile) : List (Str × Str) × Bool :=
  if fmtStepOk fs then ((fs.filter (·.target)).map fun f => (f.path, f.fmt.getD []), false)
  else ([], true)

/-- NOT as coded (kept for the counterexample): every file goes through ONE `Read` into a buffer
    of `n` units, so at most `n` units of it arrive -/
def sinkCut (n : Nat) (fs : List WFile) : Str :=
  (fs.filter (·.target)).flatMap fun f => (f.fmt.getD []).take n

/-- NOT as coded: the location opened with O_APPEND instead of O_TRUNC -/
def writeAppend (old new : Str) : Str := old ++ new

/-! #### summaries

The correspondence harness plants formatted texts of up to a megabyte; the protocol lines carry
a SUMMARY of a text instead of the text: its length and a polynomial hash modulo a prime.  The
summary is a monoid homomorphism (`summ_append`), so the model computes the summary of what a
sink must hold from the summaries of the files alone. -/

def hashB : Nat := 257
def hashP : Nat := 4294967291

structure Summ where
  len : Nat
  hash : Nat
deriving DecidableEq, Repr

/-- the value of the text read as a number in base `hashB` (units = the numbers in the list) -/
def polyVal (h : Nat) (s : List Nat) : Nat := s.foldl (fun h c => h * hashB + c) h

def summ (s : List Nat) : Summ := ⟨s.length, polyVal 0 s % hashP⟩

def Summ.empty : Summ := ⟨0, 0⟩

def Summ.append (a b : Summ) : Summ :=
  ⟨a.len + b.len, ((a.hash % hashP) * hashB ^ b.len + b.hash % hashP) % hashP⟩

/-- summary of a text of the model (units: the characters' code points; on the protocol lines
    the units are bytes) -/
def summS (s : Str) : Summ := summ (s.map Char.toNat)

/-- a file at summary level -/
structure SFile where
  path : Str
  orig : Summ
  fmt : Option Summ
  target : Bool
deriving DecidableEq, Repr

def WFile.toS (f : WFile) : SFile :=
  { path := f.path, orig := summS f.orig, fmt := f.fmt.map summS, target := f.target }

def sfmtStepOk (fs : List SFile) : Bool := fs.all fun f => !f.target || f.fmt.isSome

/-- `sinkOut` on summaries -/
def sinkSumm (fs : List SFile) : Summ :=
  (fs.filter (·.target)).foldl (fun acc f => acc.append (f.fmt.getD Summ.empty)) Summ.empty

/-- `formatToFile` on summaries -/
def formatToFileS (old : Summ) (fs : List SFile) : Summ × Bool :=
  if sfmtStepOk fs then (sinkSumm fs, false) else (old, true)

/-- `formatToDir` on summaries -/
def formatToDirS (fs : List SFile) : List (Str × Summ) × Bool :=
  if sfmtStepOk fs then ((fs.filter (·.target)).map fun f => (f.path, f.fmt.getD Summ.empty), false)
  else ([], true)

/-- what a `-w` run in which every open succeeds leaves on disk, on summaries (`WFile.want`) -/
def formatWriteS (fs : List SFile) : List (Str × Summ) × Bool :=
  if sfmtStepOk fs then (fs.map fun f => (f.path, if f.target then f.fmt.getD f.orig else f.orig), false)
  else (fs.map fun f => (f.path, f.orig), true)

/-- The four commands of the property with the abstract results of their steps, and `buf dep
    graph` — the command that reaches `ModuleDeps()` and with it the ImportNotExistError of a
    `.proto` file importing a file that does not exist (build / lint / breaking / format get a
    compile annotation for that from the image build and never call `ModuleDeps()`). -/
inductive Cmd where
  | lint (pre : List Step) (body : List CStep) (checks : List Step) (close : Step)
  | breaking (pre : List Step) (body : List CStep) (checks : List Step) (close : Step)
  | build (steps : List CStep)
  | format (mode : FmtMode) (srcWritable : Bool) (controller : List CStep) (fmtStep : Step)
      (diffExists : Bool) (io : FmtIO)
  | depGraph (steps : List CStep)
  /-- `buf ls-files`: NewController directly, GetImportableImageFileInfos in a controller method
      (the pre-compile scan for `file.proto#include_package_files=true` happens in there: a
      syntax error in a header statement arrives as an annotation set), the listing directly -/
  | lsFiles (steps : List CStep)
deriving Repr

def Cmd.run : Cmd → Outcome
  | .lint p c k cl => lintLike p c k cl
  | .breaking p c k cl => lintLike p c k cl
  | .build c => BufModel.Annot.build c
  | .format m sw c f d io => BufModel.Annot.format m sw c f d io
  | .depGraph c => BufModel.Annot.build c
  | .lsFiles c => BufModel.Annot.build c

/-- every error a step of the command can return -/
def Cmd.stepErrs : Cmd → List GoErr
  | .lint p c k cl => (p ++ c.map (·.2) ++ k ++ [cl]).filterMap id
  | .breaking p c k cl => (p ++ c.map (·.2) ++ k ++ [cl]).filterMap id
  | .build c => (c.map (·.2)).filterMap id
  | .format _ _ c f _ io => (c.map (·.2) ++ [f, io.copyDiff, io.rewrite, io.output]).filterMap id
  | .depGraph c => (c.map (·.2)).filterMap id
  | .lsFiles c => (c.map (·.2)).filterMap id

/-- the `wasmRuntime.Close` error joined to the result of lint / breaking -/
def Cmd.closeErr : Cmd → Step
  | .lint _ _ _ cl => cl
  | .breaking _ _ _ cl => cl
  | _ => none

/-! ### import statements whose file cannot be resolved
    (bufimage `parserAccessorHandler.Open` / `getBuildResult`, bufmodule `getModuleDepsRec`)

protocompile asks the accessor for the import path exactly AS WRITTEN in the statement.  The
module set's bucket validates and normalises it (`normalpath.NormalizeAndValidate`: an absolute
path and a path that leaves the root are errors of their own, NOT fs.ErrNotExist); a file is
found by its normalised path, and the accessor refuses a file whose path is not the requested
string ("parser accessor requested path … but got …"); what the module set does not have is
looked up among the Well-Known Types.  Whatever the reason, protocompile returns ONE positioned
error from `Compile` (at the path literal of the import statement) and `getBuildResult` converts
every positioned error into a FileAnnotationSet — the conversion does not look at the cause. -/

/-- what the accessor answers for an import path as written -/
inductive ImportFate where
  /-- a `.proto` file of the module set, named by its normalised path -/
  | file
  /-- not in the module set, a Well-Known Type shipped with buf -/
  | wkt
  /-- fs.ErrNotExist: "import "x": file does not exist" -/
  | notExist
  /-- normalpath error: "expected to be relative" / "is outside the context directory" -/
  | invalid (e : Path.PErr)
  /-- names an existing file, but not by its normalised path (`./a.proto`, `a//b.proto`, `a/../b.proto`, `a.proto/`) -/
  | notNormal
deriving DecidableEq, Repr

/-- `files`: the `.proto` files of the module set (normalised paths, excluded files left out);
    `wkt`: datawkt.AllFilePaths. -/
def importFate (files wkt : List Str) (p : Str) : ImportFate :=
  match Path.normalizeAndValidate p with
  | .error e => .invalid e
  | .ok q =>
    if files.contains q then (if q = p then .file else .notNormal)
    else if wkt.contains q then (if q = p then .wkt else .notNormal)
    else .notExist

def ImportFate.resolves : ImportFate → Bool
  | .file => true
  | .wkt => true
  | _ => false

/-- what bufimage.BuildImage returns for a file whose only problem is an import statement of
    that fate; `a` = the annotation at the importing file / the path literal.  As coded: every
    positioned error `Compile` returns is converted. -/
def buildImageErr (a : Annot) (f : ImportFate) : Step :=
  if f.resolves then none else some (.annotSet a [])

/-- NOT as coded (a recorded regression): the conversion additionally requires
    `errors.Is(err, fs.ErrNotExist)`; every other positioned error stays what protocompile
    returned, an ErrorWithPos around the accessor's error. -/
def buildImageErrGuarded (a : Annot) (f : ImportFate) : Step :=
  if f.resolves then none
  else if f = .notExist then some (.annotSet a []) else some (.wrapf (.plain true))

/-- what `Module.ModuleDeps()` (reached by `buf dep graph` only) returns for the same statement,
    as coded: `getModuleForFilePath` finds a file by its NORMALISED path; only fs.ErrNotExist is
    turned into the ImportNotExistError (unless `datawkt.Exists` of the normalised path), any
    other error - the normalpath ones - is returned as it is. -/
def moduleDepsErr (files wkt : List Str) (p : Str) : Step :=
  match Path.normalizeAndValidate p with
  | .error _ => some (.plain true)
  | .ok q => if files.contains q || wkt.contains q then none else some .importNotExist

end BufModel.Annot
