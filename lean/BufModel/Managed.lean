import BufModel.Path
/-
  BufModel.Managed — executable model of managed mode (property C18):
    private/bufpkg/bufimage/bufimagemodify/{bufimagemodify,file_option,field_option,override}.go
    private/bufpkg/bufimage/bufimagemodify/internal/{marksweeper,field_options_trie,location_path_dfa}.go
    private/bufpkg/bufconfig/generate_managed_{config,option}.go   (the rule records)

  An image file is: its path, package, module full name, its FileOptions message as a list
  `field number ↦ value` holding EVERY option present (the twelve governed ones as typed
  values, every other option — `deprecated`, `swift_prefix`, `features`, custom extensions,
  unknown fields — as an opaque value the harness fills with a hash of the option's wire
  bytes), the list of its fields (every FieldDescriptorProto reachable by protocompile's walk:
  message fields, nested, extensions) each with its full FieldOptions list (`jstype` = field
  number 6 typed, the others opaque) and an opaque `rest` (hash of the field descriptor without
  its options), the SourceCodeInfo location list (path + opaque payload) and an opaque
  `payload` (hash of the serialized descriptor without file options, field options and source
  info: messages, enums, services, dependencies, message/enum/service options …).
  Setting an option is a list update by field number (`setOpt`), so "no other option changes"
  is a theorem about the model, not a property of a record update.

  Strings are `List Char`; the casing helpers are modelled on ASCII (other runes are
  "neither upper nor lower").  Package names are assumed to have no empty dot-separated part
  (the Go code indexes `[]rune(part)[0]`).
-/
namespace BufModel.Managed
open BufModel.Path

/-! ## bufconfig: options and rules -/

/-- `bufconfig.FileOption` (same order as the Go iota). -/
inductive FileOption where
  | unspecified | javaPackage | javaPackagePrefix | javaPackageSuffix | javaOuterClassname
  | javaMultipleFiles | javaStringCheckUtf8 | optimizeFor | goPackage | goPackagePrefix
  | ccEnableArenas | objcClassPrefix | csharpNamespace | csharpNamespacePrefix | phpNamespace
  | phpMetadataNamespace | phpMetadataNamespaceSuffix | rubyPackage | rubyPackageSuffix
  deriving DecidableEq, Repr

def FileOption.fromNat : Nat → FileOption
  | 1 => .javaPackage | 2 => .javaPackagePrefix | 3 => .javaPackageSuffix
  | 4 => .javaOuterClassname | 5 => .javaMultipleFiles | 6 => .javaStringCheckUtf8
  | 7 => .optimizeFor | 8 => .goPackage | 9 => .goPackagePrefix | 10 => .ccEnableArenas
  | 11 => .objcClassPrefix | 12 => .csharpNamespace | 13 => .csharpNamespacePrefix
  | 14 => .phpNamespace | 15 => .phpMetadataNamespace | 16 => .phpMetadataNamespaceSuffix
  | 17 => .rubyPackage | 18 => .rubyPackageSuffix | _ => .unspecified

/-- The eight governed string-valued file options. -/
inductive StrOpt where
  | javaPackage | javaOuterClassname | goPackage | objcClassPrefix | csharpNamespace
  | phpNamespace | phpMetadataNamespace | rubyPackage
  deriving DecidableEq, Repr

/-- The three governed bool-valued file options. -/
inductive BoolOpt where
  | ccEnableArenas | javaMultipleFiles | javaStringCheckUtf8
  deriving DecidableEq, Repr

def StrOpt.all : List StrOpt :=
  [.javaPackage, .javaOuterClassname, .goPackage, .objcClassPrefix, .csharpNamespace,
   .phpNamespace, .phpMetadataNamespace, .rubyPackage]
def BoolOpt.all : List BoolOpt := [.ccEnableArenas, .javaMultipleFiles, .javaStringCheckUtf8]

/-- A disable rule (`managedDisableRule`); `jstype` = `FieldOption() == FieldOptionJSType`
    (the only field option), `false` = `FieldOptionUnspecified`. -/
structure Disable where
  path : Str
  module : Str
  fieldName : Str
  fileOption : FileOption
  jstype : Bool
  deriving DecidableEq, Repr

/-- An override rule (`managedOverrideRule`).  The constructors validate the value's type per
    option, so the value lives in the slot of its type: `sval` for the string options and
    their prefixes/suffixes, `bval` for the bool options, `nval` for optimize_for / jstype. -/
structure Override where
  path : Str
  module : Str
  fieldName : Str
  fileOption : FileOption
  jstype : Bool
  sval : Str
  bval : Bool
  nval : Nat
  deriving DecidableEq, Repr

structure Config where
  enabled : Bool
  disables : List Disable
  overrides : List Override
  deriving DecidableEq, Repr

/-! ## the image -/

/-- value of one option (one field number of a FileOptions / FieldOptions message). -/
inductive OVal where
  | str (s : Str)
  | bool (b : Bool)
  | num (n : Nat)      -- enum value (optimize_for, jstype)
  | raw (h : Nat)      -- any other option: opaque (hash of its wire bytes)
  deriving DecidableEq, Repr

/-- an options message: the options present, by field number. -/
abbrev Opts := List (Nat × OVal)

/-- the value of field number `n` (`none` = not set). -/
def getOpt (n : Nat) : Opts → Option OVal
  | [] => none
  | (k, v) :: rest => if k = n then some v else getOpt n rest

/-- set field number `n` (replace it where it stands, else add it). -/
def setOpt (n : Nat) (v : OVal) : Opts → Opts
  | [] => [(n, v)]
  | (k, w) :: rest => if k = n then (n, v) :: rest else (k, w) :: setOpt n v rest

/-- FileOptions field numbers (second element of the SourceCodeInfo path `[8, n]`). -/
def StrOpt.tag : StrOpt → Nat
  | .javaPackage => 1 | .javaOuterClassname => 8 | .goPackage => 11 | .objcClassPrefix => 36
  | .csharpNamespace => 37 | .phpNamespace => 41 | .phpMetadataNamespace => 44 | .rubyPackage => 45

def BoolOpt.tag : BoolOpt → Nat
  | .ccEnableArenas => 31 | .javaMultipleFiles => 10 | .javaStringCheckUtf8 => 27

def optimizeForTag : Nat := 9

/-- FieldOptions.jstype field number. -/
def jstypeTag : Nat := 6

structure Field where
  fullName : Str
  path : List Nat          -- SourceCodeInfo path of the FieldDescriptorProto
  typ : Option Nat         -- FieldDescriptorProto.type
  opts : Opts              -- FieldOptions, every option present (6 = jstype, typed `.num`)
  rest : Nat               -- everything else of the field (opaque: hash without options)
  deriving DecidableEq, Repr

/-- `FieldOptions.jstype` (none = unset). -/
def Field.jstype (fd : Field) : Option Nat :=
  match getOpt jstypeTag fd.opts with
  | some (.num n) => some n
  | _ => none

structure Loc where
  path : List Nat
  payload : Nat            -- span, comments (opaque; the driver stores the original index)
  deriving DecidableEq, Repr

structure File where
  path : Str
  pkg : Str
  module : Option Str      -- none = `FullName() == nil`
  opts : Opts              -- FileOptions, every option present
  fields : List Field
  locs : List Loc
  payload : Nat            -- every other part of the FileDescriptorProto (opaque hash)
  deriving DecidableEq, Repr

/-- `options.XxxString != nil` / `GetXxx()` for the governed string options. -/
def File.strOpts (f : File) (o : StrOpt) : Option Str :=
  match getOpt o.tag f.opts with
  | some (.str s) => some s
  | _ => none

def File.boolOpts (f : File) (o : BoolOpt) : Option Bool :=
  match getOpt o.tag f.opts with
  | some (.bool b) => some b
  | _ => none

def File.optimizeFor (f : File) : Option Nat :=
  match getOpt optimizeForTag f.opts with
  | some (.num n) => some n
  | _ => none

/-! ## text helpers (ASCII) -/

def isUpperA (c : Char) : Bool := 'A' ≤ c ∧ c ≤ 'Z'
def isLowerA (c : Char) : Bool := 'a' ≤ c ∧ c ≤ 'z'
def toUpperA (c : Char) : Char := if isLowerA c then Char.ofNat (c.toNat - 32) else c
def toLowerA (c : Char) : Char := if isUpperA c then Char.ofNat (c.toNat + 32) else c
def isDigitA (c : Char) : Bool := '0' ≤ c ∧ c ≤ '9'
def isSpaceA (c : Char) : Bool :=
  c = ' ' ∨ c = '\t' ∨ c = '\n' ∨ c = '\r' ∨ c.toNat = 11 ∨ c.toNat = 12

def trimSpace (s : Str) : Str := ((s.dropWhile isSpaceA).reverse.dropWhile isSpaceA).reverse

/-- `stringutil.isDelimiter`. -/
def isDelimiter (c : Char) : Bool :=
  c = '.' ∨ c = '-' ∨ c = '_' ∨ c = ' ' ∨ c = '\t' ∨ c = '\n' ∨ c = '\r'

/-- loop of `stringutil.ToPascalCase`: `prev = none` at index 0. -/
def pascalLoop : Option Char → Str → Str
  | _, [] => []
  | prev, c :: cs =>
    let rest := pascalLoop (some c) cs
    if isDelimiter c then rest
    else
      let up := match prev with
        | none => true
        | some p => isDelimiter p || isUpperA c
      (if up then toUpperA c else toLowerA c) :: rest

/-- `stringutil.ToPascalCase`. -/
def toPascalCase (s : Str) : Str := pascalLoop none (trimSpace s)

/-- `strings.Split(s, sep)` for a one-character separator. -/
def splitOn (sep : Char) : Str → List Str
  | [] => [[]]
  | c :: cs =>
    if c = sep then [] :: splitOn sep cs
    else match splitOn sep cs with
      | [] => [[c]]
      | h :: t => (c :: h) :: t

/-- `strings.Join`. -/
def joinWith (sep : Str) : List Str → Str
  | [] => []
  | [x] => x
  | x :: xs => x ++ sep ++ joinWith sep xs

/-- Is `pat` a contiguous substring of `s`; on success the text before / after its first
    occurrence (`strings.SplitN(s, pat, 2)`). -/
def splitFirst (pat : Str) : Str → Option (Str × Str)
  | [] => if pat = [] then some ([], []) else none
  | c :: cs =>
    if pat.isPrefixOf (c :: cs) then some ([], (c :: cs).drop pat.length)
    else match splitFirst pat cs with
      | some (a, b) => some (c :: a, b)
      | none => none

def containsStr (pat s : Str) : Bool := (splitFirst pat s).isSome

def digitsVal : Str → Nat := fun s => s.foldl (fun acc c => acc * 10 + (c.toNat - 48)) 0

/-- `protoversion.getNumber` on identifier characters: `strconv.ParseInt(s, 10, 32)` accepts a
    non-empty all-digit string of value ≤ 2^31-1 (signs cannot occur in identifiers). -/
def getNumberOk (s : Str) (minimum : Nat) : Bool :=
  s ≠ [] ∧ s.all isDigitA ∧ digitsVal s ≤ 2147483647 ∧ minimum ≤ digitsVal s

/-- `getAlphaBetaMajorPatch` succeeds. -/
def majorPatchOk (rem : Str) : Bool :=
  match splitFirst ['p'] rem with
  | some (a, b) => getNumberOk a 1 && getNumberOk b 1
  | none => getNumberOk rem 1

def sTest : Str := "test".toList
def sAlpha : Str := "alpha".toList
def sBeta : Str := "beta".toList

/-- `newPackageVersionForComponent(component)` succeeds (no `allowV0`). -/
def isVersionComponent (comp : Str) : Bool :=
  if comp.contains '.' then false
  else if comp.length < 2 then false
  else match comp with
    | 'v' :: version =>
      match splitFirst sTest version with
      | some (a, _) => getNumberOk a 1
      | none =>
        let ca := containsStr sAlpha version
        let cb := containsStr sBeta version
        if ca && cb then false
        else if ca || cb then
          match splitFirst (if ca then sAlpha else sBeta) version with
          | some (before, after) =>
            (after = [] || getNumberOk after 1) && majorPatchOk before
          | none => false
        else getNumberOk version 1
    | _ => false

/-- `protoversion.NewPackageVersionForPackage(pkg)` succeeds. -/
def hasPackageVersion (pkg : Str) : Bool :=
  if pkg = [] then false
  else
    let parts := splitOn '.' pkg
    if parts.length < 2 then false
    else isVersionComponent (parts.getLast?.getD [])

/-- `phpReservedKeywords`. -/
def phpReserved : List Str :=
  ["directory", "exception", "errorexception", "closure", "generator", "arithmeticerror",
   "assertionerror", "divisionbyzeroerror", "error", "throwable", "parseerror", "typeerror",
   "abstract", "and", "array", "as", "break", "callable", "case", "catch", "class", "clone",
   "const", "continue", "declare", "default", "die", "do", "echo", "else", "elseif", "empty",
   "enddeclare", "endfor", "endforeach", "endif", "endswitch", "endwhile", "eval", "exit",
   "extends", "final", "finally", "fn", "for", "foreach", "function", "global", "goto", "if",
   "implements", "include", "include_once", "instanceof", "insteadof", "interface", "isset",
   "list", "match", "namespace", "new", "or", "print", "private", "protected", "public",
   "require", "require_once", "return", "static", "switch", "throw", "trait", "try", "unset",
   "use", "var", "while", "xor", "yield", "int", "float", "bool", "string", "true", "false",
   "null", "void", "iterable"].map String.toList

/-- `datawkt` file paths. -/
def wktPaths : List Str :=
  ["google/protobuf/any.proto", "google/protobuf/api.proto",
   "google/protobuf/compiler/plugin.proto", "google/protobuf/cpp_features.proto",
   "google/protobuf/descriptor.proto", "google/protobuf/duration.proto",
   "google/protobuf/empty.proto", "google/protobuf/field_mask.proto",
   "google/protobuf/go_features.proto", "google/protobuf/java_features.proto",
   "google/protobuf/source_context.proto", "google/protobuf/struct.proto",
   "google/protobuf/timestamp.proto", "google/protobuf/type.proto",
   "google/protobuf/wrappers.proto"].map String.toList

/-- `datawkt.Exists`. -/
def isWKT (path : Str) : Bool := wktPaths.contains (normalize path)

/-! ## override.go: rule matching -/

/-- `fileMatchConfig`. -/
def fileMatch (f : File) (requiredPath requiredModule : Str) : Bool :=
  (requiredPath = [] || equalsOrContainsPath requiredPath f.path) &&
  (requiredModule = [] || f.module = some requiredModule)

/-- `isFileOptionDisabledForFile`. -/
def isFileOptionDisabled (cfg : Config) (f : File) (o : FileOption) : Bool :=
  cfg.disables.any fun r =>
    (r.fileOption = .unspecified || r.fileOption = o) && !r.jstype && fileMatch f r.path r.module

/-- `overrideFromConfig[T]`: the last matching override of exactly this option. -/
def lastOverride (cfg : Config) (f : File) (o : FileOption) : Option Override :=
  cfg.overrides.foldl
    (fun acc r => if fileMatch f r.path r.module && r.fileOption = o then some r else acc) none

structure SOO where   -- `stringOverrideOptions`
  value : Str
  pfx : Str
  suffix : Str
  deriving DecidableEq, Repr

def SOO.empty : SOO := ⟨[], [], []⟩

/-- one iteration of the override loop of `stringOverrideFromConfig` (Go `switch`: first
    matching case wins, in the order value, prefix, suffix). -/
def sooStep (f : File) (vOpt pOpt sOpt : FileOption) (ignoreP ignoreS : Bool)
    (acc : SOO) (r : Override) : SOO :=
  if !fileMatch f r.path r.module then acc
  else if r.fileOption = vOpt then ⟨r.sval, [], []⟩
  else if r.fileOption = pOpt then (if ignoreP then acc else ⟨[], r.sval, acc.suffix⟩)
  else if r.fileOption = sOpt then (if ignoreS then acc else ⟨[], acc.pfx, r.sval⟩)
  else acc

/-- `stringOverrideFromConfig`. -/
def stringOverride (cfg : Config) (f : File) (dflt : SOO) (vOpt pOpt sOpt : FileOption) : SOO :=
  if isFileOptionDisabled cfg f vOpt then SOO.empty
  else
    let ignoreP := pOpt = .unspecified || isFileOptionDisabled cfg f pOpt
    let ignoreS := sOpt = .unspecified || isFileOptionDisabled cfg f sOpt
    let d0 : SOO := ⟨dflt.value, if ignoreP then [] else dflt.pfx, if ignoreS then [] else dflt.suffix⟩
    cfg.overrides.foldl (sooStep f vOpt pOpt sOpt ignoreP ignoreS) d0

/-! ## override.go: default formulas -/

def javaOuterClassnameValue (f : File) : Str := toPascalCase (base f.path)

def getJavaPackageValue (f : File) (o : SOO) : Str :=
  if f.pkg = [] then []
  else
    let p1 := if o.pfx ≠ [] then o.pfx ++ '.' :: f.pkg else f.pkg
    if o.suffix ≠ [] then p1 ++ '.' :: o.suffix else p1

def csharpNamespaceValue (f : File) : Str :=
  if f.pkg = [] then [] else joinWith ['.'] ((splitOn '.' f.pkg).map toPascalCase)

def getCsharpNamespaceValue (f : File) (pfx : Str) : Str :=
  let ns := csharpNamespaceValue f
  if ns = [] then [] else if pfx = [] then ns else pfx ++ '.' :: ns

def phpNamespaceValue (f : File) : Str :=
  if f.pkg = [] then []
  else joinWith ['\\'] ((splitOn '.' f.pkg).map fun part =>
    let p := toPascalCase part
    if phpReserved.contains (part.map toLowerA) then p ++ ['_'] else p)

def phpMetadataNamespaceValue (f : File) : Str :=
  let ns := phpNamespaceValue f
  if ns = [] then [] else ns ++ "\\GPBMetadata".toList

def getPhpMetadataNamespaceValue (f : File) (suffix : Str) : Str :=
  let ns := phpNamespaceValue f
  if ns = [] then [] else if suffix = [] then ns else ns ++ '\\' :: suffix

def rubyPackageValue (f : File) : Str :=
  if f.pkg = [] then [] else joinWith [':', ':'] ((splitOn '.' f.pkg).map toPascalCase)

def getRubyPackageValue (f : File) (suffix : Str) : Str :=
  let rp := rubyPackageValue f
  if rp = [] then [] else if suffix = [] then rp else rp ++ ':' :: ':' :: suffix

/-- `goPackageImportPathForFile`. -/
def goPackageImportPath (f : File) (importPathPrefix : Str) : Str :=
  let p := join [importPathPrefix, dir f.path]
  if hasPackageVersion f.pkg then
    let parts := splitOn '.' f.pkg
    if parts.length ≥ 2 then
      p ++ ';' :: ((parts.drop (parts.length - 2)).headD [] ++ parts.getLast?.getD [])
    else p
  else p

def padX (s : Str) : Str := s ++ List.replicate (3 - s.length) 'X'

/-- `objcClassPrefixValue`. -/
def objcClassPrefixValue (f : File) : Str :=
  if f.pkg = [] then []
  else
    let parts := splitOn '.' f.pkg
    let used := if hasPackageVersion f.pkg then parts.dropLast else parts
    let pre := padX (used.filterMap fun part => part.head?.map toUpperA)
    if pre = ['G', 'P', 'B'] then ['G', 'P', 'X'] else pre

/-! ## file_option.go -/

/-- per string option: value / prefix / suffix option, default override options, value function
    (the arguments each `modifyXxx` passes to `modifyStringOption`). -/
def StrOpt.valueOpt : StrOpt → FileOption
  | .javaPackage => .javaPackage | .javaOuterClassname => .javaOuterClassname
  | .goPackage => .goPackage | .objcClassPrefix => .objcClassPrefix
  | .csharpNamespace => .csharpNamespace | .phpNamespace => .phpNamespace
  | .phpMetadataNamespace => .phpMetadataNamespace | .rubyPackage => .rubyPackage

def StrOpt.prefixOpt : StrOpt → FileOption
  | .javaPackage => .javaPackagePrefix | .goPackage => .goPackagePrefix
  | .csharpNamespace => .csharpNamespacePrefix | _ => .unspecified

def StrOpt.suffixOpt : StrOpt → FileOption
  | .javaPackage => .javaPackageSuffix | .phpMetadataNamespace => .phpMetadataNamespaceSuffix
  | .rubyPackage => .rubyPackageSuffix | _ => .unspecified

def StrOpt.defaultSOO (f : File) : StrOpt → SOO
  | .javaPackage => ⟨[], ['c', 'o', 'm'], []⟩
  | .javaOuterClassname => ⟨javaOuterClassnameValue f, [], []⟩
  | .goPackage => SOO.empty
  | .objcClassPrefix => ⟨objcClassPrefixValue f, [], []⟩
  | .csharpNamespace => ⟨csharpNamespaceValue f, [], []⟩
  | .phpNamespace => ⟨phpNamespaceValue f, [], []⟩
  | .phpMetadataNamespace => ⟨phpMetadataNamespaceValue f, [], []⟩
  | .rubyPackage => ⟨rubyPackageValue f, [], []⟩

def StrOpt.valueFunc (f : File) (o : SOO) : StrOpt → Str
  | .javaPackage => getJavaPackageValue f o
  | .javaOuterClassname => javaOuterClassnameValue f
  | .goPackage => if o.pfx = [] then [] else goPackageImportPath f o.pfx
  | .objcClassPrefix => objcClassPrefixValue f
  | .csharpNamespace => getCsharpNamespaceValue f o.pfx
  | .phpNamespace => phpNamespaceValue f
  | .phpMetadataNamespace => getPhpMetadataNamespaceValue f o.suffix
  | .rubyPackage => getRubyPackageValue f o.suffix

def BoolOpt.fileOpt : BoolOpt → FileOption
  | .ccEnableArenas => .ccEnableArenas | .javaMultipleFiles => .javaMultipleFiles
  | .javaStringCheckUtf8 => .javaStringCheckUtf8

/-- managed-mode default (`defaultValue` argument of `modifyFileOption`). -/
def BoolOpt.managedDefault : BoolOpt → Bool
  | .ccEnableArenas => true | .javaMultipleFiles => true | .javaStringCheckUtf8 => false

/-- protobuf default returned by `GetXxx()` on an unset option. -/
def BoolOpt.protoDefault : BoolOpt → Bool
  | .ccEnableArenas => true | .javaMultipleFiles => false | .javaStringCheckUtf8 => false

def optimizeSpeed : Nat := 1

/-- the value `modifyStringOption` wants to write; `none` = it returns before comparing
    (option disabled, nothing configured, or the computed value is empty). -/
def strTarget (cfg : Config) (f : File) (o : StrOpt) : Option Str :=
  let oo := stringOverride cfg f (o.defaultSOO f) o.valueOpt o.prefixOpt o.suffixOpt
  if oo = SOO.empty then none
  else
    let v := if oo.value = [] then o.valueFunc f oo else oo.value
    if v = [] then none else some v

/-- `modifyStringOption`: the new value of the option, `none` = not modified (and not marked). -/
def strChange (preserve : Bool) (cfg : Config) (f : File) (o : StrOpt) : Option Str :=
  if preserve && (f.strOpts o).isSome then none
  else match strTarget cfg f o with
    | none => none
    | some v => if (f.strOpts o).getD [] = v then none else some v

/-- value `modifyFileOption` wants for a bool option; `none` = disabled. -/
def boolTarget (cfg : Config) (f : File) (o : BoolOpt) : Option Bool :=
  if isFileOptionDisabled cfg f o.fileOpt then none
  else match lastOverride cfg f o.fileOpt with
    | some r => some r.bval
    | none => some o.managedDefault

def boolChange (preserve : Bool) (cfg : Config) (f : File) (o : BoolOpt) : Option Bool :=
  if preserve && (f.boolOpts o).isSome then none
  else match boolTarget cfg f o with
    | none => none
    | some v => if (f.boolOpts o).getD o.protoDefault = v then none else some v

def optimizeTarget (cfg : Config) (f : File) : Option Nat :=
  if isFileOptionDisabled cfg f .optimizeFor then none
  else match lastOverride cfg f .optimizeFor with
    | some r => some r.nval
    | none => some optimizeSpeed

def optimizeChange (preserve : Bool) (cfg : Config) (f : File) : Option Nat :=
  if preserve && f.optimizeFor.isSome then none
  else match optimizeTarget cfg f with
    | none => none
    | some v => if f.optimizeFor.getD optimizeSpeed = v then none else some v

/-! ## field_option.go -/

def jsOverrides (cfg : Config) (f : File) : List Override :=
  cfg.overrides.filter fun r => r.jstype && fileMatch f r.path r.module

def jsDisables (cfg : Config) (f : File) : List Disable :=
  cfg.disables.filter fun r =>
    (r.jstype || (!r.jstype && r.fileOption = .unspecified)) && fileMatch f r.path r.module

/-- `isJsTypePermittedForType`: INT64 3, UINT64 4, FIXED64 6, SFIXED64 16, SINT64 18. -/
def jsTypePermitted (t : Nat) : Bool := t = 3 || t = 4 || t = 6 || t = 16 || t = 18

/-- does `modifyJsType` reach the descriptor walk for this file. -/
def jsFileActive (cfg : Config) (f : File) : Bool :=
  !(jsOverrides cfg f).isEmpty && !(jsDisables cfg f).any (fun r => r.fieldName = []) && !isWKT f.path

/-- the last override naming this field or no field. -/
def jsTarget (cfg : Config) (f : File) (fullName : Str) : Option Nat :=
  (jsOverrides cfg f).foldl
    (fun acc r => if r.fieldName = [] || r.fieldName = fullName then some r.nval else acc) none

/-- the walk callback of `modifyJsType` for one field; `none` = not modified. -/
def jsChange (preserve : Bool) (cfg : Config) (f : File) (fd : Field) : Option Nat :=
  if !jsFileActive cfg f then none
  else if (jsDisables cfg f).any (fun r => r.fieldName = fd.fullName) then none
  else match jsTarget cfg f fd.fullName with
    | none => none
    | some v =>
      if preserve && fd.jstype.isSome then none
      else match fd.typ with
        | none => none
        | some t =>
          if !jsTypePermitted t then none
          else if fd.jstype = some v then none
          else some v

/-! ## applying the modifiers to one file (before the sweep) -/

/-- the walk callback's write: `fieldDescriptor.Options.Jstype = jsType`. -/
def applyField (preserve : Bool) (cfg : Config) (f : File) (fd : Field) : Field :=
  match jsChange preserve cfg f fd with
  | some v => { fd with opts := setOpt jstypeTag (.num v) fd.opts }
  | none => fd

/-- the paths `modifyJsType` hands to `sweeper.Mark`. -/
def jsMarks (preserve : Bool) (cfg : Config) (f : File) : List (List Nat) :=
  f.fields.filterMap fun fd =>
    match jsChange preserve cfg f fd with
    | some _ => if fd.path = [] then none else some (fd.path ++ [8, jstypeTag])
    | none => none

/-- the twelve file-option modifiers. -/
inductive Gov where
  | str (o : StrOpt)
  | bool (o : BoolOpt)
  | optimize
  deriving DecidableEq, Repr

/-- in the order of the `modifyFuncs` slice of `Modify` (`modifyJsType` comes last). -/
def Gov.all : List Gov :=
  [.bool .ccEnableArenas, .str .csharpNamespace, .str .goPackage, .bool .javaMultipleFiles,
   .str .javaOuterClassname, .str .javaPackage, .bool .javaStringCheckUtf8, .str .objcClassPrefix,
   .optimize, .str .phpMetadataNamespace, .str .phpNamespace, .str .rubyPackage]

def Gov.tag : Gov → Nat
  | .str o => o.tag
  | .bool o => o.tag
  | .optimize => optimizeForTag

/-- the `bufconfig.FileOption` a disable rule names to exempt this option. -/
def Gov.fileOpt : Gov → FileOption
  | .str o => o.valueOpt
  | .bool o => o.fileOpt
  | .optimize => .optimizeFor

/-- what one modifier decides on the CURRENT state of the file: `some v` = it calls
    `setOptionFunc(options, v)` and `sweeper.Mark`, `none` = it returns before. -/
def govChange (preserve : Bool) (cfg : Config) (f : File) : Gov → Option OVal
  | .str o => (strChange preserve cfg f o).map .str
  | .bool o => (boolChange preserve cfg f o).map .bool
  | .optimize => (optimizeChange preserve cfg f).map .num

/-- one modifier applied to the file as the previous modifiers left it; the second component
    is the sweeper's mark set for this file. -/
def stepGov (preserve : Bool) (cfg : Config) (st : File × List (List Nat)) (g : Gov) :
    File × List (List Nat) :=
  match govChange preserve cfg st.1 g with
  | some v => ({ st.1 with opts := setOpt g.tag v st.1.opts }, st.2 ++ [[8, g.tag]])
  | none => st

/-- all thirteen modify functions on one non-WKT file, one after the other as in
    `modifyImage`: the modified file and the paths handed to `sweeper.Mark` for it. -/
def modifyFile (preserve : Bool) (cfg : Config) (f : File) : File × List (List Nat) :=
  let st := Gov.all.foldl (stepGov preserve cfg) (f, [])
  ({ st.1 with fields := st.1.fields.map (applyField preserve cfg st.1) },
   st.2 ++ jsMarks preserve cfg st.1)

/-! ## internal/location_path_dfa.go -/

inductive PathType where
  | notFieldOption | fieldOptionsRoot | fieldOption
  deriving DecidableEq, Repr

inductive DState where
  | start | messages | message | fields | field | fieldOptions | done
  deriving DecidableEq, Repr

def dfaStep : DState → Nat → DState × PathType
  | .start, 4 => (.messages, .notFieldOption)
  | .start, 7 => (.fields, .notFieldOption)
  | .start, _ => (.done, .notFieldOption)
  | .messages, _ => (.message, .notFieldOption)
  | .message, 3 => (.messages, .notFieldOption)
  | .message, 2 => (.fields, .notFieldOption)
  | .message, 6 => (.fields, .notFieldOption)
  | .message, _ => (.done, .notFieldOption)
  | .fields, _ => (.field, .notFieldOption)
  | .field, 8 => (.fieldOptions, .fieldOptionsRoot)
  | .field, _ => (.done, .notFieldOption)
  | .fieldOptions, _ => (.done, .fieldOption)
  | .done, _ => (.done, .notFieldOption)   -- never consulted (loop breaks on nil state)

def dfaRun : DState → PathType → List Nat → PathType
  | _, pt, [] => pt
  | .done, pt, _ => pt
  | st, _, x :: xs => let (st', pt') := dfaStep st x; dfaRun st' pt' xs

/-- `getPathType`. -/
def pathType (p : List Nat) : PathType := dfaRun .start .notFieldOption p

/-! ## internal/marksweeper.go + field_options_trie.go -/

/-- a path-end node of the `fieldOptionsTrie` with its attached data.  `hit` records that a
    descendant location was removed (added by the fix; the code before the fix has no such
    flag and behaves as if it were always true). -/
structure TEntry where
  path : List Nat
  index : Nat
  count : Nat
  hit : Bool
  deriving DecidableEq, Repr

/-- `fieldOptionsTrie.insert`: a second insert of the same path overwrites the index. -/
def trieInsert (t : List TEntry) (p : List Nat) (i : Nat) : List TEntry :=
  if t.any (fun e => e.path = p) then t.map fun e => if e.path = p then { e with index := i } else e
  else t ++ [⟨p, i, 0, false⟩]

def properPrefix (a d : List Nat) : Bool := a.isPrefixOf d && a.length < d.length

/-- apply `g` to the first path-end that is a proper prefix of `d` (the trie walk stops at the
    first path-end it meets). -/
def trieUpdAncestor (g : TEntry → TEntry) : List TEntry → List Nat → List TEntry
  | [], _ => []
  | e :: es, d => if properPrefix e.path d then g e :: es else e :: trieUpdAncestor g es d

/-- `fieldOptionsTrie.registerDescendant`. -/
def trieRegister (t : List TEntry) (d : List Nat) : List TEntry :=
  trieUpdAncestor (fun e => { e with count := e.count + 1 }) t d

/-- (fix) note that a descendant of this FieldOptions location is being removed. -/
def trieHit (t : List TEntry) (d : List Nat) : List TEntry :=
  trieUpdAncestor (fun e => { e with hit := true }) t d

structure SweepSt where
  trie : List TEntry
  removed : List Nat
  deriving DecidableEq, Repr

/-- `isPathForFileOption`. -/
def isFileOptPath (p : List Nat) : Bool := p.length = 2 && p.head? = some 8

/-- loop body, first statement: a FieldOptions location is inserted into the trie. -/
def insertRoot (st : SweepSt) (loc : Loc) (i : Nat) : SweepSt :=
  if pathType loc.path = .fieldOptionsRoot then { st with trie := trieInsert st.trie loc.path i } else st

/-- loop body for a location that stays: a field-option location registers with its parent. -/
def registerKept (st : SweepSt) (loc : Loc) : SweepSt :=
  if pathType loc.path = .fieldOption then { st with trie := trieRegister st.trie loc.path } else st

/-! PATHS ARE EXACT.  A location path and a mark are `List Nat`: unbounded elements, compared as
    whole lists (`mk.contains loc.path`, `e.path = p`, `isPrefixOf`).  The Go code compares
    map keys built by `getPathKey` (four little-endian bytes per int32 element) and trie walks by
    element; `BufProofs.C18.path_key_injective` shows the key is injective on int32 paths, so the
    two agree for every extension number (up to 2^29-1) and every index.  A key that drops bits
    or elements (`BufModel.ManagedYaml.pathKey16`, `path_key16_counterexample`) does not: the
    harness's number family (custom option numbers 2^16+N …, indexes ≥ 2^8 / 2^16, confusable
    paths) exists to show such a loss as a line mismatch and an oracle failure. -/

/-- the first loop of `removeLocationsFromSourceCodeInfo`; `none` = an error is returned
    (and the location list is left as it was). `i` = index of the head of the list,
    `prev` = path of the location before it. -/
def sweepLoop (mk : List (List Nat)) : Nat → Option (List Nat) → List Loc → SweepSt → Option SweepSt
  | _, _, [], st => some st
  | i, prev, loc :: rest, st =>
    if !mk.contains loc.path then
      sweepLoop mk (i + 1) (some loc.path) rest (registerKept (insertRoot st loc i) loc)
    else if i = 0 then none
    else if isFileOptPath loc.path then
      if prev ≠ some [8] then none
      else sweepLoop mk (i + 1) (some loc.path) rest
        { insertRoot st loc i with removed := i :: (i - 1) :: (insertRoot st loc i).removed }
    else if pathType loc.path = .fieldOption then
      sweepLoop mk (i + 1) (some loc.path) rest
        { trie := trieHit (insertRoot st loc i).trie loc.path, removed := i :: (insertRoot st loc i).removed }
    else none

/-- `indicesWithoutDescendant`, restricted (by the fix) to FieldOptions locations that lost a
    descendant in this sweep.  `fixed = false` is the code before the fix. -/
def emptiedRoots (fixed : Bool) (t : List TEntry) : List Nat :=
  (t.filter fun e => e.count = 0 && (!fixed || e.hit)).map (·.index)

def removeIndices (locs : List Loc) (rm : List Nat) : List Loc :=
  (locs.zipIdx.filter fun p => !rm.contains p.2).map (·.1)

/-- indices removed by `removeLocationsFromSourceCodeInfo`, `none` = error. -/
def sweepRemoved (fixed : Bool) (mk : List (List Nat)) (locs : List Loc) : Option (List Nat) :=
  match sweepLoop mk 0 none locs ⟨[], []⟩ with
  | none => none
  | some st => some (st.removed ++ emptiedRoots fixed st.trie)

/-- `removeLocationsFromSourceCodeInfo` (only called for files with at least one mark). -/
def sweepLocs (fixed : Bool) (mk : List (List Nat)) (locs : List Loc) : Option (List Loc) :=
  if mk = [] then some locs
  else (sweepRemoved fixed mk locs).map (removeIndices locs)

/-! ## bufimagemodify.go: modifyImage -/

/-- the modifiers on one file (WKT files are skipped). -/
def modifyOptions (preserve : Bool) (cfg : Config) (f : File) : File :=
  if isWKT f.path then f else (modifyFile preserve cfg f).1

def fileMarks (preserve : Bool) (cfg : Config) (f : File) : List (List Nat) :=
  if isWKT f.path then [] else (modifyFile preserve cfg f).2

structure Result where
  files : List File
  err : Bool

/-- `Sweep()`: files in order; the first file whose sweep fails stops the loop, leaving it
    and the later files unswept (their options are already modified). `fs` pairs each
    already-modified file with its marks. -/
def sweepAll (fixed : Bool) : List (File × List (List Nat)) → Result
  | [] => ⟨[], false⟩
  | (f, mk) :: rest =>
    match sweepLocs fixed mk f.locs with
    | none => ⟨f :: rest.map (·.1), true⟩
    | some l =>
      let r := sweepAll fixed rest
      ⟨{ f with locs := l } :: r.files, r.err⟩

/-- `bufimagemodify.Modify` (with `ModifyPreserveExisting` iff `preserve`). -/
def modifyWith (fixed preserve : Bool) (cfg : Config) (img : List File) : Result :=
  if !cfg.enabled then ⟨img, false⟩
  else sweepAll fixed (img.map fun f => (modifyOptions preserve cfg f, fileMarks preserve cfg f))

/-- the code as it stands after the fix of the sweeper. -/
def modify (cfg : Config) (img : List File) : Result := modifyWith true false cfg img

/-- the code before the fix. -/
def modifyOld (cfg : Config) (img : List File) : Result := modifyWith false false cfg img

end BufModel.Managed
