/-
  BufModel.Schema — the schema datatype the breaking-change rules read (C03 / C04).

  One `Schema` = the list of files of an image as `bufprotosource` presents it to the rule
  handlers (private/bufpkg/bufprotosource): per file the path, package, syntax, the values of
  the tracked file options (as the getters return them, i.e. with descriptor.proto defaults),
  the set of source paths that have a location in SourceCodeInfo (`locs`: `Location()` of an
  element is nil exactly when its path is not in that set — location_store.go), top-level
  messages (a tree: nested messages), enums, services and extensions.

  Library facts (protoreflect / protocompile: resolved Kind, HasPresence, IsMap, IsClosed,
  resolved json_format / utf8_validation features, Default()) are *inputs* of the model: the
  correspondence harness reads them off the compiled descriptors.
-/
namespace BufModel.Schema

abbrev Name := String
/-- dotted identifier split on '.' (package, nested name, full name) -/
abbrev QName := List Name
/-- SourceCodeInfo path -/
abbrev SPath := List Nat

/-- protoreflect.Kind / FieldDescriptorProto.Type (same 18 constants) -/
inductive Kind
  | double | float | int64 | uint64 | int32 | fixed64 | fixed32 | bool | string
  | group | message | bytes | uint32 | enum | sfixed32 | sfixed64 | sint32 | sint64
deriving DecidableEq, Repr, Inhabited

def Kind.all : List Kind :=
  [.double, .float, .int64, .uint64, .int32, .fixed64, .fixed32, .bool, .string,
   .group, .message, .bytes, .uint32, .enum, .sfixed32, .sfixed64, .sint32, .sint64]

theorem Kind.mem_all (k : Kind) : k ∈ Kind.all := by cases k <;> decide

/-- name of the protoreflect constant, the key of the regenerated compatibility tables -/
def Kind.goName : Kind → String
  | .double => "DoubleKind" | .float => "FloatKind" | .int64 => "Int64Kind"
  | .uint64 => "Uint64Kind" | .int32 => "Int32Kind" | .fixed64 => "Fixed64Kind"
  | .fixed32 => "Fixed32Kind" | .bool => "BoolKind" | .string => "StringKind"
  | .group => "GroupKind" | .message => "MessageKind" | .bytes => "BytesKind"
  | .uint32 => "Uint32Kind" | .enum => "EnumKind" | .sfixed32 => "Sfixed32Kind"
  | .sfixed64 => "Sfixed64Kind" | .sint32 => "Sint32Kind" | .sint64 => "Sint64Kind"

/-- FieldDescriptorProto type number (1..18) -/
def Kind.ofNat? : Nat → Option Kind
  | 1 => some .double | 2 => some .float | 3 => some .int64 | 4 => some .uint64
  | 5 => some .int32 | 6 => some .fixed64 | 7 => some .fixed32 | 8 => some .bool
  | 9 => some .string | 10 => some .group | 11 => some .message | 12 => some .bytes
  | 13 => some .uint32 | 14 => some .enum | 15 => some .sfixed32 | 16 => some .sfixed64
  | 17 => some .sint32 | 18 => some .sint64 | _ => none

inductive Label | optional | required | repeated
deriving DecidableEq, Repr, Inhabited

/-- cardinality.go -/
inductive Card | explicit | implicit | required | repeated | map
deriving DecidableEq, Repr, Inhabited

def Card.all : List Card := [.explicit, .implicit, .required, .repeated, .map]
theorem Card.mem_all (c : Card) : c ∈ Card.all := by cases c <;> decide

def Card.goName : Card → String
  | .explicit => "cardinalityOptionalExplicitPresence"
  | .implicit => "cardinalityOptionalImplicitPresence"
  | .required => "cardinalityRequired"
  | .repeated => "cardinalityRepeated"
  | .map => "cardinalityMap"

/-- field_default.go: the `comparable` of a default value, by Go dynamic type class.
    `num` carries the exact value as a rational text (big.Rat) and, for float32/float64, the
    exact value of its float32 rounding; the text is canonical, so equality of texts is
    numeric equality. -/
inductive DefVal
  | str (s : String)                         -- string / bytes kinds
  | num (rat : String) (isZero : Bool)       -- bool, integer and enum kinds
  | f32 (rat : String) (isZero : Bool) (nan : Bool)
  | f64 (rat : String) (asF32 : String) (isZero : Bool) (nan : Bool)
deriving DecidableEq, Repr, Inhabited

structure Field where
  number : Int
  name : Name
  /-- fully-qualified name (used by the rules only for extensions) -/
  fullName : String
  jsonName : String
  label : Label
  /-- FieldDescriptorProto.Type -/
  ty : Kind
  /-- resolved protoreflect Kind (delimited message ↦ group) -/
  kind : Kind
  /-- [] or the referenced type's full name split on '.' -/
  typeName : QName
  /-- name of the containing oneof and whether it is synthetic -/
  oneof : Option (Name × Bool)
  isMap : Bool
  hasPresence : Bool
  /-- protoreflect Cardinality() == Required (proto2 `required`, or editions
      `features.field_presence = LEGACY_REQUIRED`, whose proto label stays optional) -/
  reqCard : Bool
  /-- ContainingMessage().IsMapEntry() -/
  inMapEntry : Bool
  /-- "" for message fields -/
  extendee : String
  /-- FieldOptions.jstype (0 JS_NORMAL, 1 JS_STRING, 2 JS_NUMBER) -/
  jstype : Nat
  /-- resolved features.utf8_validation -/
  utf8 : Nat
  /-- Default() when canHaveDefault -/
  dflt : DefVal
deriving DecidableEq, Repr, Inhabited

structure EnumValue where
  name : Name
  number : Int
deriving DecidableEq, Repr, Inhabited

/-- inclusive tag range (bufprotosource TagRange Start/End) -/
abbrev Range := Int × Int

structure Enum where
  name : Name
  values : List EnumValue
  reservedRanges : List Range
  reservedNames : List Name
  closed : Bool
  /-- resolved features.json_format = ALLOW -/
  jsonAllow : Bool
deriving DecidableEq, Repr, Inhabited

structure Oneof where
  name : Name
  synthetic : Bool
deriving DecidableEq, Repr, Inhabited

/-- everything of a message except its nested messages -/
structure MsgInfo where
  name : Name
  fields : List Field
  extensions : List Field
  enums : List Enum
  oneofs : List Oneof
  reservedRanges : List Range
  reservedNames : List Name
  extRanges : List Range
  messageSet : Bool
  noStdAccessor : Bool
  jsonAllow : Bool
  mapEntry : Bool
deriving DecidableEq, Repr, Inhabited

inductive Msg where
  | mk (info : MsgInfo) (nested : List Msg)
deriving Repr, Inhabited

def Msg.info : Msg → MsgInfo | .mk i _ => i
def Msg.nested : Msg → List Msg | .mk _ ns => ns

structure Method where
  name : Name
  input : String
  output : String
  clientStreaming : Bool
  serverStreaming : Bool
  idempotency : Nat
deriving DecidableEq, Repr, Inhabited

structure Service where
  name : Name
  methods : List Method
deriving DecidableEq, Repr, Inhabited

inductive Syn | unspecified | proto2 | proto3 | editions
deriving DecidableEq, Repr, Inhabited

structure File where
  path : String
  pkg : QName
  syn : Syn
  /-- tracked file options: FileOptions field number ↦ getter value rendered as text -/
  opts : List (Nat × String)
  /-- source paths that have a location -/
  locs : List SPath
  messages : List Msg
  enums : List Enum
  services : List Service
  extensions : List Field
  /-- bufimage ImageFile.IsImport(): the file is in the image only because a target file imports
      it (`--path`, a dependency module).  No rule handler reads it (bufcheckserverutil/breaking.go);
      only the client's exclude-imports filter does (bufcheck/client.go ignoreFileLocation). -/
  isImport : Bool := false
deriving Repr, Inhabited

abbrev Schema := List File

/-! ### flattening (bufprotosource ForEachMessage / ForEachEnum / ForEachExtension) -/

/-- a message at any depth, with the facts the rules use about its position -/
structure FlatMsg where
  file : String
  locs : List SPath
  pkg : QName
  nested : QName
  path : SPath
  /-- fallback location of a synthetic map entry -/
  mapLoc : Option SPath
  info : MsgInfo
deriving Repr, Inhabited

structure FlatEnum where
  file : String
  locs : List SPath
  pkg : QName
  nested : QName
  path : SPath
  enum : Enum
deriving Repr, Inhabited

/-- an extension field at any depth -/
structure FlatExt where
  file : String
  locs : List SPath
  pkg : QName
  nested : QName
  path : SPath
  field : Field
deriving Repr, Inhabited

def FlatMsg.fullName (m : FlatMsg) : QName := m.pkg ++ m.nested
def FlatEnum.fullName (e : FlatEnum) : QName := e.pkg ++ e.nested

/-- `xs` with indices: (i, x) -/
def indexed {α : Type} (xs : List α) : List (Nat × α) := xs.zipIdx.map fun p => (p.2, p.1)

/-- message.go maybeMapEntryLocation: a synthetic map-entry message (and its fields) that has no
    location of its own is reported at the type name of the parent's map field -/
def mapLocOf (pkg pre : QName) (path : SPath) (pfields : List Field) (ci : MsgInfo) : Option SPath :=
  if ci.mapEntry then
    ((indexed pfields).find? fun jf =>
      decide (jf.2.ty = .message ∧ jf.2.label = .repeated ∧ jf.2.typeName = pkg ++ pre ++ [ci.name])).map
      fun jf => path ++ [2, jf.1, 6]
  else none

mutual
/-- pre-order: the message itself, then everything below it (ForEachMessage) -/
def flatMsg (file : String) (locs : List SPath) (pkg pre : QName) (path : SPath) (mapLoc : Option SPath) :
    Msg → List FlatMsg
  | .mk info nested =>
    ⟨file, locs, pkg, pre ++ [info.name], path, mapLoc, info⟩ ::
      flatMsgs file locs pkg (pre ++ [info.name]) path info.fields 0 nested
/-- the `i`-th nested message of the message at `path` lives at `path ++ [3, i]` -/
def flatMsgs (file : String) (locs : List SPath) (pkg pre : QName) (path : SPath) (pfields : List Field)
    (i : Nat) : List Msg → List FlatMsg
  | [] => []
  | m :: ms =>
    flatMsg file locs pkg pre (path ++ [3, i]) (mapLocOf pkg pre path pfields m.info) m ++
      flatMsgs file locs pkg pre path pfields (i + 1) ms
end

/-- top-level messages live at `[4, i]` -/
def topMsgs (file : String) (locs : List SPath) (pkg : QName) (i : Nat) : List Msg → List FlatMsg
  | [] => []
  | m :: ms => flatMsg file locs pkg [] [4, i] none m ++ topMsgs file locs pkg (i + 1) ms

def File.flatMsgs (f : File) : List FlatMsg := topMsgs f.path f.locs f.pkg 0 f.messages

/-- enums: file-level ones at `[5, i]`, then those nested in each message at `path ++ [4, j]`
    (ForEachEnum visits file enums first, then recurses into messages) -/
def File.flatEnums (f : File) : List FlatEnum :=
  (indexed f.enums).map (fun p => ⟨f.path, f.locs, f.pkg, [p.2.name], [5, p.1], p.2⟩) ++
  f.flatMsgs.flatMap fun m =>
    (indexed m.info.enums).map fun p => ⟨f.path, f.locs, f.pkg, m.nested ++ [p.2.name], m.path ++ [4, p.1], p.2⟩

/-- extensions: file-level at `[7, i]`, nested at `path ++ [6, j]` -/
def File.flatExts (f : File) : List FlatExt :=
  (indexed f.extensions).map (fun p => ⟨f.path, f.locs, f.pkg, [p.2.name], [7, p.1], p.2⟩) ++
  f.flatMsgs.flatMap fun m =>
    (indexed m.info.extensions).map fun p => ⟨f.path, f.locs, f.pkg, m.nested ++ [p.2.name], m.path ++ [6, p.1], p.2⟩

def allMsgs (s : Schema) : List FlatMsg := s.flatMap File.flatMsgs
def allEnums (s : Schema) : List FlatEnum := s.flatMap File.flatEnums
def allExts (s : Schema) : List FlatExt := s.flatMap File.flatExts

/-- services of a file with their index -/
structure FlatSvc where
  file : String
  locs : List SPath
  pkg : QName
  path : SPath
  svc : Service
deriving Repr, Inhabited

def FlatSvc.fullName (s : FlatSvc) : QName := s.pkg ++ [s.svc.name]

def File.flatSvcs (f : File) : List FlatSvc :=
  (indexed f.services).map fun p => ⟨f.path, f.locs, f.pkg, [6, p.1], p.2⟩

def allSvcs (s : Schema) : List FlatSvc := s.flatMap File.flatSvcs

end BufModel.Schema
