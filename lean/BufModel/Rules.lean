import BufModel.Path
import BufGen.RuleTables
/-
  BufModel.Rules — executable model of rule selection and annotation suppression in
  private/bufpkg/bufcheck (C06), as coded:

    * `newEnabledCheckConfig` / `normalizeAndCheckPaths`  (bufconfig/check_config.go, paths.go)
    * `newRulesConfig` and its helpers                      (bufcheck/rules_config.go)
    * `protosourcepath.GetAssociatedSourcePaths`            (private/pkg/protosourcepath, the DFA)
    * `ignoreFileLocation`, `ignoreAnnotation`, `filterAnnotations`,
      `checkCommentLineForCheckIgnore`                      (bufcheck/client.go)
    * merge + sort + dedup of the surviving annotations     (multi_client.go Check,
      annotation.go, bufanalysis.NewFileAnnotationSet as used by client.go)

  Rule HANDLERS are not modelled: `Image.annots` holds, for every rule, what that rule reports
  when run alone with no suppression (measured on the implementation by the harness).
  The rule/category tables are the regenerated `BufGen.RuleTables`.

  Rule and category ids are `String` (so `decide` works on the generated tables); paths and
  comment text are `List Char` as in BufModel.Path.  Go maps are association lists / relations;
  every result that comes out of a map is a sorted, duplicate-free list exactly where the Go
  code sorts (`MapKeysToSortedSlice`), and a relation where the Go code only does lookups.
-/
namespace BufModel.Rules
open BufModel.Path BufGen.RuleTables

abbrev Id := String

/-! ## generic helpers: sorted-unique insertion (`MapKeysToSortedSlice ∘ ToStructMap`) -/

/-- Insert into a strictly sorted list, dropping a duplicate. -/
def insertU {α} [DecidableEq α] (lt : α → α → Bool) (x : α) : List α → List α
  | [] => [x]
  | y :: ys => if x = y then y :: ys else if lt x y then x :: y :: ys else y :: insertU lt x ys

/-- `slicesext.ToUniqueSorted` / `MapKeysToSortedSlice (ToStructMap l)`. -/
def uniqueSorted {α} [DecidableEq α] (lt : α → α → Bool) (l : List α) : List α :=
  l.foldr (insertU lt) []

/-- Insert into a sorted list keeping duplicates (`sort.Strings`, `sort.Stable`). -/
def insertS {α} (lt : α → α → Bool) (x : α) : List α → List α
  | [] => [x]
  | y :: ys => if lt y x then y :: insertS lt x ys else x :: y :: ys

def sortS {α} (lt : α → α → Bool) (l : List α) : List α := l.foldr (insertS lt) []

def idLt (a b : Id) : Bool := decide (a < b)
def strLt (a b : Str) : Bool := decide (a < b)

abbrev usIds (l : List Id) : List Id := uniqueSorted idLt l
abbrev usStrs (l : List Str) : List Str := uniqueSorted strLt l

/-- Go's `unicode.IsSpace`. -/
def isSpaceChar (c : Char) : Bool :=
  c = '\t' || c = '\n' || c.toNat = 0x0B || c.toNat = 0x0C || c = '\r' || c = ' ' ||
  c.toNat = 0x85 || c.toNat = 0xA0 || c.toNat = 0x1680 ||
  (0x2000 ≤ c.toNat && c.toNat ≤ 0x200A) || c.toNat = 0x2028 || c.toNat = 0x2029 ||
  c.toNat = 0x202F || c.toNat = 0x205F || c.toNat = 0x3000

/-- `strings.TrimSpace`. -/
def trimSpace (s : Str) : Str :=
  ((s.dropWhile isSpaceChar).reverse.dropWhile isSpaceChar).reverse

/-- `strings.TrimSpace(id) == ""`. -/
def blankId (s : Id) : Bool := s.toList.all isSpaceChar

/-- `stringutil.SliceToUniqueSortedSliceFilterEmptyStrings`. -/
def uniqueSortedNoBlank (l : List Id) : List Id := usIds (l.filter (fun s => !blankId s))

/-! ## errors -/

inductive RErr where
  | config        -- bufconfig.NewEnabledCheckConfig rejected the ignore / ignore_only paths
  | unknownId     -- "%q is not a known rule or category ID"
  | unknownAfter  -- "%q is not a known rule ID after verification"
  | emptyResult   -- syserror "resultRules was empty" / "use and except should always be non-empty"
  | badPath       -- newRulesConfig's own ignore-path normalisation failed (invalid path or ".")
  | sourcePath    -- protosourcepath rejected the annotation's source path
  deriving DecidableEq, Repr

def RErr.tag : RErr → String
  | .config => "config"
  | .unknownId => "unknown-id"
  | .unknownAfter => "unknown-after"
  | .emptyResult => "empty-result"
  | .badPath => "bad-path"
  | .sourcePath => "source-path"

/-! ## bufconfig layer: `newEnabledCheckConfig` -/

/-- The user-facing check configuration (`bufconfig.CheckConfig`) as far as rule selection and
    suppression are concerned. -/
structure CheckConfig where
  use : List Id
  except : List Id
  ignore : List Str
  /-- `ignore_only`: a Go map, keys unique (association list here). -/
  ignoreOnly : List (Id × List Str)
  disableBuiltin : Bool
  deriving DecidableEq, Repr

def conflict (a b : Str) : Bool :=
  a = b || equalsOrContainsPath b a || equalsOrContainsPath a b

def anyConflict : List Str → Bool
  | [] => false
  | a :: rest => rest.any (conflict a) || anyConflict rest

/-- `bufconfig.normalizeAndCheckPaths`. -/
def normalizeAndCheckPaths (paths : List Str) : Except RErr (List Str) :=
  if paths = [] then .ok []
  else if paths.any (· = []) then .error .config
  else match paths.mapM normalizeAndValidate with
    | .error _ => .error .config
    | .ok outs =>
      let s := sortS strLt outs
      if anyConflict s then .error .config else .ok s

def checkIgnoreOnly : List (Id × List Str) → Except RErr (List (Id × List Str))
  | [] => .ok []
  | (k, v) :: rest =>
    match normalizeAndCheckPaths (usStrs v), checkIgnoreOnly rest with
    | .ok v', .ok rest' => .ok ((k, v') :: rest')
    | _, _ => .error .config

/-- `bufconfig.NewEnabledCheckConfig`. -/
def newEnabledCheckConfig (c : CheckConfig) : Except RErr CheckConfig :=
  match normalizeAndCheckPaths (usStrs c.ignore), checkIgnoreOnly c.ignoreOnly with
  | .ok ig, .ok io =>
    .ok { use := usIds c.use, except := usIds c.except, ignore := ig, ignoreOnly := io,
          disableBuiltin := c.disableBuiltin }
  | _, _ => .error .config

/-! ## `newRulesConfig` -/

/-- `rulesForType`. -/
def rulesForType (all : List RuleRow) (lint : Bool) : List RuleRow :=
  all.filter (fun r => r.isLint = lint)

/-- `_, ok := ruleIDToCategoryIDs[id]`. -/
def isRuleId (rs : List RuleRow) (id : Id) : Bool := rs.any (fun r => r.id = id)

/-- `categoryIDToRuleIDs[c]` (absent ⇔ `[]`: a category is known only through the rules of
    this type that carry it). -/
def rulesInCategory (rs : List RuleRow) (c : Id) : List Id :=
  (rs.filter (fun r => c ∈ r.categories)).map (·.id)

/-- One iteration of the loop in `transformRuleOrCategoryIDsToRuleIDs`; `none` = unknown id. -/
def expandOne (rs : List RuleRow) (id : Id) : Option (List Id) :=
  if id = "" then some []
  else if isRuleId rs id then some [id]
  else match rulesInCategory rs id with
    | [] => none
    | l => some l

def expandAll (rs : List RuleRow) : List Id → Except RErr (List Id)
  | [] => .ok []
  | id :: rest =>
    match expandOne rs id, expandAll rs rest with
    | some l, .ok r => .ok (l ++ r)
    | _, _ => .error .unknownId

/-- `transformRuleOrCategoryIDsToRuleIDs`. -/
def transformIds (rs : List RuleRow) (ids : List Id) : Except RErr (List Id) :=
  match expandAll rs ids with
  | .ok l => .ok (usIds l)
  | .error e => .error e

/-- `deprecatedRuleIDToReplacementRuleIDs[id]` (`GetDeprecatedIDToReplacementIDs`). -/
def replacementsOf (rs : List RuleRow) (id : Id) : Option (List Id) :=
  match rs.find? (fun r => r.id = id) with
  | some r => if r.deprecated then some r.replacements else none
  | none => none

/-- Loop body of `transformRuleIDsToUndeprecated`. -/
def undeprecateOne (rs : List RuleRow) (id : Id) : List Id :=
  match replacementsOf rs id with
  | some repl => repl
  | none => [id]

/-- `transformRuleIDsToUndeprecated`. -/
def undeprecate (rs : List RuleRow) (ids : List Id) : List Id :=
  usIds (ids.flatMap (undeprecateOne rs))

/-- `transformRuleOrCategoryIDToIgnoreRootPathsToRuleIDs`, as a relation rule id ↦ path. -/
def expandIgnoreOnly (rs : List RuleRow) : List (Id × List Str) → Except RErr (List (Id × Str))
  | [] => .ok []
  | (k, paths) :: rest =>
    match expandOne rs k, expandIgnoreOnly rs rest with
    | some l, .ok r => .ok ((l.flatMap fun id => paths.map fun p => (id, p)) ++ r)
    | _, _ => .error .unknownId

/-- `transformRuleIDToIgnoreRootPathsToUndeprecated`. -/
def undeprecateIgnoreOnly (rs : List RuleRow) (m : List (Id × Str)) : List (Id × Str) :=
  m.flatMap fun (id, p) => (undeprecateOne rs id).map fun id' => (id', p)

/-- One path of `normalizeIgnoreRootPaths`: `none` = skipped (empty). -/
def normalizeIgnoreOne (p : Str) : Except RErr (Option Str) :=
  if p = [] then .ok none
  else match normalizeAndValidate p with
    | .error _ => .error .badPath
    | .ok n => if n = dot then .error .badPath else .ok (some n)

/-- `normalizeIgnoreRootPaths`. -/
def normalizeIgnorePaths : List Str → Except RErr (List Str)
  | [] => .ok []
  | p :: rest =>
    match normalizeIgnoreOne p, normalizeIgnorePaths rest with
    | .ok none, .ok r => .ok r
    | .ok (some n), .ok r => .ok (n :: r)
    | _, _ => .error .badPath

/-- `normalizeKeyToIgnoreRootPathMap` on the relation. -/
def normalizeIgnoreOnly : List (Id × Str) → Except RErr (List (Id × Str))
  | [] => .ok []
  | (id, p) :: rest =>
    match normalizeIgnoreOne p, normalizeIgnoreOnly rest with
    | .ok none, .ok r => .ok r
    | .ok (some n), .ok r => .ok ((id, n) :: r)
    | _, _ => .error .badPath

/-- The resolved selection and suppressions (`rulesConfig`). -/
structure RulesConfig where
  ruleIDs : List Id
  ignoreRootPaths : List Str
  /-- `IgnoreRuleIDToRootPaths` as a relation. -/
  ignoreOnly : List (Id × Str)
  deriving DecidableEq, Repr

def defaultIds (rs : List RuleRow) : List Id := (rs.filter (·.isDefault)).map (·.id)

/-- `use` after dedupe/sort/blank removal, with the defaults substituted when empty. -/
def effectiveUse (rs : List RuleRow) (use : List Id) : List Id :=
  let u := uniqueSortedNoBlank use
  if u = [] then defaultIds rs else u

/-- `newRulesConfig` (`allRules` = every rule of the config version, both types; `lint` = the
    requested rule type).  `errOnEmpty = true` is the behaviour before the C06 `fix:` (an empty
    selection was the system error "resultRules was empty"); after the fix an empty selection is
    a valid configuration that runs nothing. -/
def newRulesConfigCore (errOnEmpty : Bool) (allRules : List RuleRow) (lint : Bool) (c : CheckConfig) :
    Except RErr RulesConfig :=
  let rs := rulesForType allRules lint
  if rs = [] then .ok { ruleIDs := [], ignoreRootPaths := [], ignoreOnly := [] }
  else
    let use := effectiveUse rs c.use
    let exc := uniqueSortedNoBlank c.except
    if use = [] ∧ exc = [] then .error .emptyResult
    else
    match transformIds rs use, transformIds rs exc, expandIgnoreOnly rs c.ignoreOnly with
    | .ok useIds, .ok excIds, .ok io =>
      let useIds := undeprecate rs useIds
      let excIds := undeprecate rs excIds
      let io := undeprecateIgnoreOnly rs io
      if !(useIds.all (isRuleId rs)) || !(excIds.all (isRuleId rs)) then .error .unknownAfter
      else
        let result := useIds.filter (fun id => !(excIds.contains id))
        if errOnEmpty && result = [] then .error .emptyResult
        else match normalizeIgnorePaths c.ignore, normalizeIgnoreOnly io with
          | .ok ig, .ok io' => .ok { ruleIDs := result, ignoreRootPaths := usStrs ig, ignoreOnly := io' }
          | _, _ => .error .badPath
    | _, _, _ => .error .unknownId

/-- `newRulesConfig` as coded (after the fix). -/
def newRulesConfig (allRules : List RuleRow) (lint : Bool) (c : CheckConfig) : Except RErr RulesConfig :=
  newRulesConfigCore false allRules lint c

/-- `newRulesConfig` before the fix (kept for the recorded finding). -/
def newRulesConfigOld (allRules : List RuleRow) (lint : Bool) (c : CheckConfig) : Except RErr RulesConfig :=
  newRulesConfigCore true allRules lint c

/-- `rulesForRuleIDs allRules cfg.RuleIDs` — what `Client.ConfiguredRules` returns (ids). -/
def configuredRuleIds (allRules : List RuleRow) (ruleIDs : List Id) : List Id :=
  (allRules.filter (fun r => ruleIDs.contains r.id)).map (·.id)

/-! ## protosourcepath: `GetAssociatedSourcePaths` (excludeChildAssociatedPaths = true) -/

inductive St where
  | start | dependencies | options | reservedRanges | reservedRange | reservedNames
  | messages | message | fields | field | extensions | oneOfs | oneOf
  | extensionRanges | extensionRange | enums | enum | enumValues | enumValue
  | services | service | methods | method
  deriving DecidableEq, Repr

abbrev SPath := List Nat

/-- `currentPath full i`. -/
def curPath (full : SPath) (i : Nat) : SPath := full.take (i + 1)

/-- One transition: next state (`none` = terminal) and the associated paths it adds;
    `.error` = invalid source path. -/
def step (st : St) (tok : Nat) (full : SPath) (i : Nat) : Except Unit (Option St × List SPath) :=
  let needIndex (next : St) : Except Unit (Option St × List SPath) :=
    if full.length < i + 2 then .error () else .ok (some next, [])
  let term (next : St) : Except Unit (Option St × List SPath) :=
    if full.length = i + 1 then .ok (none, [curPath full i]) else .ok (some next, [curPath full i])
  match st with
  | .start =>
    if tok = 2 ∨ tok = 12 ∨ tok = 14 then .ok (none, [curPath full i])
    else if tok = 3 then needIndex .dependencies
    else if tok = 4 then needIndex .messages
    else if tok = 5 then needIndex .enums
    else if tok = 6 then needIndex .services
    else if tok = 8 then .ok (some .options, [full])
    else if tok = 7 then .ok (some .extensions, [curPath full i])
    else .error ()
  | .dependencies => .ok (none, [curPath full i])
  | .options => if full.length = i + 1 then .ok (none, []) else .ok (some .options, [])
  | .reservedRanges => .ok (some .reservedRange, [curPath full i])
  | .reservedRange => if tok = 1 ∨ tok = 2 then .ok (none, []) else .error ()
  | .reservedNames => .ok (none, [curPath full i])
  | .messages => term .message
  | .message =>
    if tok = 1 then .ok (none, [])
    else if tok = 2 then needIndex .fields
    else if tok = 8 then needIndex .oneOfs
    else if tok = 3 then needIndex .messages
    else if tok = 4 then needIndex .enums
    else if tok = 7 then .ok (some .options, [full])
    else if tok = 5 then .ok (some .extensionRanges, [curPath full i])
    else if tok = 6 then .ok (some .extensions, [curPath full i])
    else if tok = 9 then .ok (some .reservedRanges, [curPath full i])
    else if tok = 10 then .ok (some .reservedNames, [curPath full i])
    else .error ()
  | .fields => term .field
  | .extensions => term .field
  | .field =>
    if tok = 1 ∨ tok = 3 ∨ tok = 4 ∨ tok = 5 ∨ tok = 6 ∨ tok = 2 then .ok (none, [])
    else if tok = 8 then .ok (some .options, [full])
    else if tok = 7 then .ok (none, [curPath full i])
    else .error ()
  | .oneOfs => .ok (some .oneOf, [curPath full i])
  | .oneOf =>
    if tok = 1 then .ok (none, [])
    else if tok = 2 then .ok (some .options, [full])
    else .error ()
  | .extensionRanges => term .extensionRange
  | .extensionRange =>
    if tok = 1 ∨ tok = 2 then .ok (none, [])
    else if tok = 3 then .ok (some .options, [full])
    else .error ()
  | .enums => term .enum
  | .enum =>
    if tok = 1 then .ok (none, [])
    else if tok = 2 then needIndex .enumValues
    else if tok = 3 then .ok (some .options, [full])
    else if tok = 4 then .ok (some .reservedRanges, [curPath full i])
    else if tok = 5 then .ok (some .reservedNames, [curPath full i])
    else .error ()
  | .enumValues => term .enumValue
  | .enumValue =>
    if tok = 1 ∨ tok = 2 then .ok (none, [])
    else if tok = 3 then .ok (some .options, [full])
    else .error ()
  | .services =>
    -- as coded: `len(fullSourcePath) == +1` (never true here), so never terminal
    if full.length = 1 then .ok (none, [curPath full i]) else .ok (some .service, [curPath full i])
  | .service =>
    if tok = 1 then .ok (none, [])
    else if tok = 2 then needIndex .methods
    else if tok = 3 then .ok (some .options, [full])
    else .error ()
  | .methods => term .method
  | .method =>
    if tok = 1 ∨ tok = 2 ∨ tok = 3 ∨ tok = 5 ∨ tok = 6 then .ok (none, [])
    else if tok = 4 then .ok (some .options, [full])
    else .error ()

/-- The token loop of `getAssociatedSourcePaths`. -/
def runDfa (full : SPath) : Option St → List Nat → Nat → Except Unit (List SPath)
  | _, [], _ => .ok []
  | none, _ :: _, _ => .error ()
  | some st, t :: ts, i =>
    match step st t full i with
    | .error e => .error e
    | .ok (st', ps) =>
      match runDfa full st' ts (i + 1) with
      | .error e => .error e
      | .ok rest => .ok (ps ++ rest)

/-- `protosourcepath.GetAssociatedSourcePaths`. -/
def associatedSourcePaths (sp : SPath) : Except Unit (List SPath) :=
  runDfa sp (some .start) sp 0

/-! ## images and annotations -/

/-- What `ignoreFileLocation` reads of a file descriptor. -/
structure FileInfo where
  path : Str
  isImport : Bool
  /-- `protoversion.NewPackageVersionForPackage(pkg)` succeeds with a non-stable level
      (protoversion is a parameter of this model). -/
  unstable : Bool
  /-- `SourceLocations().ByPath p`.LeadingComments: first location per path (absent = ""). -/
  comments : List (SPath × Str)
  deriving DecidableEq, Repr

structure Loc where
  /-- index into the image's (or the against image's) file list -/
  file : Nat
  sourcePath : SPath
  startLine : Nat
  startCol : Nat
  endLine : Nat
  endCol : Nat
  deriving DecidableEq, Repr

/-- A `check.Annotation`. -/
structure Annot where
  ruleId : Id
  loc : Option Loc
  against : Option Loc
  message : String
  deriving DecidableEq, Repr

/-- The image pair under check plus, for every rule, the annotations that rule reports on it when
    run alone without any suppression. -/
structure Image where
  files : List FileInfo
  againstFiles : List FileInfo
  annots : List Annot
  deriving Repr

/-- `config` = rulesConfig + optionsConfig. -/
structure Config where
  rules : RulesConfig
  allowCommentIgnores : Bool
  ignoreUnstablePackages : Bool
  commentIgnorePrefix : Str
  excludeImports : Bool
  deriving DecidableEq, Repr

def lintCommentIgnorePrefix : Str := "buf:lint:ignore".toList

/-- `configForLintConfig` / `configForBreakingConfig` given the resolved rules. -/
def mkConfig (lint : Bool) (rc : RulesConfig) (allowCommentIgnores ignoreUnstable excludeImports : Bool) : Config :=
  if lint then
    { rules := rc, allowCommentIgnores := allowCommentIgnores, ignoreUnstablePackages := false,
      commentIgnorePrefix := lintCommentIgnorePrefix, excludeImports := false }
  else
    { rules := rc, allowCommentIgnores := false, ignoreUnstablePackages := ignoreUnstable,
      commentIgnorePrefix := [], excludeImports := excludeImports }

/-! ## `ignoreFileLocation` -/

/-- The walk-up loop of `normalpath.MapHasEqualOrContainingPath` (Relative). -/
def mapHasLoop (m : List Str) : Nat → Str → Bool
  | 0, _ => false
  | fuel + 1, cur =>
    if cur = dot then false
    else if m.contains cur then true
    else mapHasLoop m fuel (dir cur)

/-- `normalpath.MapHasEqualOrContainingPath m path Relative`. -/
def mapHasEqualOrContainingPath (m : List Str) (path : Str) : Bool :=
  if m = [] then false
  else if m.contains dot then true
  else mapHasLoop m (path.length + 2) path

def splitOnChar (sep : Char) : Str → List Str
  | [] => [[]]
  | c :: cs =>
    if c = sep then [] :: splitOnChar sep cs
    else match splitOnChar sep cs with
      | [] => [[c]]
      | h :: t => (c :: h) :: t

/-- `stringutil.SplitTrimLinesNoEmpty`. -/
def splitTrimLinesNoEmpty (s : Str) : List Str :=
  ((splitOnChar '\n' s).map trimSpace).filter (· ≠ [])

/-- `checkCommentLineForCheckIgnore`. -/
def commentLineIgnores (line pre : Str) (ruleId : Id) : Bool :=
  (pre ++ ' ' :: ruleId.toList).isPrefixOf line

/-- Leading comments of the first source location with this path ("" when there is none). -/
def leadingComments (f : FileInfo) (p : SPath) : Str :=
  match f.comments.find? (fun e => e.1 = p) with
  | some e => e.2
  | none => []

/-- Does the leading comment of the element at source path `p` carry an ignore directive for
    `ruleId`? -/
def commentIgnoresAt (f : FileInfo) (pre : Str) (ruleId : Id) (p : SPath) : Bool :=
  (splitTrimLinesNoEmpty (leadingComments f p)).any (fun line => commentLineIgnores line pre ruleId)

/-- The ignore paths that apply to `ruleId` through `ignore_only`. -/
def ignoreOnlyPathsFor (rc : RulesConfig) (ruleId : Id) : List Str :=
  (rc.ignoreOnly.filter (fun e => e.1 = ruleId)).map (·.2)

/-- `ignoreFileLocation`. -/
def ignoreFileLocation (cfg : Config) (ruleId : Id) (f : FileInfo) (sp : SPath) : Except RErr Bool :=
  if cfg.excludeImports && f.isImport then .ok true
  else if mapHasEqualOrContainingPath cfg.rules.ignoreRootPaths f.path then .ok true
  else if mapHasEqualOrContainingPath (ignoreOnlyPathsFor cfg.rules ruleId) f.path then .ok true
  else if cfg.ignoreUnstablePackages && f.unstable then .ok true
  else if cfg.allowCommentIgnores && cfg.commentIgnorePrefix ≠ [] then
    if sp = [] then .ok false
    else match associatedSourcePaths sp with
      | .error _ => .error .sourcePath
      | .ok ps => .ok (ps.any (commentIgnoresAt f cfg.commentIgnorePrefix ruleId))
  else .ok false

def emptyFile : FileInfo := { path := [], isImport := false, unstable := false, comments := [] }

def fileAt (fs : List FileInfo) (i : Nat) : FileInfo := fs.getD i emptyFile

/-- `ignoreAnnotation`. -/
def ignoreAnnotation (cfg : Config) (img : Image) (a : Annot) : Except RErr Bool :=
  let viaAgainst : Except RErr Bool :=
    match a.against with
    | some l => ignoreFileLocation cfg a.ruleId (fileAt img.againstFiles l.file) l.sourcePath
    | none => .ok false
  match a.loc with
  | some l =>
    match ignoreFileLocation cfg a.ruleId (fileAt img.files l.file) l.sourcePath with
    | .error e => .error e
    | .ok true => .ok true
    | .ok false => viaAgainst
  | none => viaAgainst

/-- `filterAnnotations` (`slicesext.FilterError`): first error wins. -/
def filterAnnotations (cfg : Config) (img : Image) : List Annot → Except RErr (List Annot)
  | [] => .ok []
  | a :: rest =>
    match ignoreAnnotation cfg img a with
    | .error e => .error e
    | .ok ig =>
      match filterAnnotations cfg img rest with
      | .error e => .error e
      | .ok r => .ok (if ig then r else a :: r)

/-! ## merge, sort, dedup: the reported `FileAnnotation`s -/

/-- A `bufanalysis.FileAnnotation` as produced by `annotationToFileAnnotation` (lines and
    columns already 1-based; `path = none` when the annotation has no file location). -/
structure FileAnnot where
  path : Option Str
  startLine : Nat
  startCol : Nat
  endLine : Nat
  endCol : Nat
  type : Id
  message : String
  deriving DecidableEq, Repr

/-- `annotationToFileAnnotation`. -/
def toFileAnnot (img : Image) (a : Annot) : FileAnnot :=
  match a.loc with
  | none => { path := none, startLine := 0, startCol := 0, endLine := 0, endCol := 0,
              type := a.ruleId, message := a.message }
  | some l => { path := some (fileAt img.files l.file).path,
                startLine := l.startLine + 1, startCol := l.startCol + 1,
                endLine := l.endLine + 1, endCol := l.endCol + 1,
                type := a.ruleId, message := a.message }

def natStr (n : Nat) : Str := (toString n).toList

/-- UTF-8 byte length (Go's `len` of a string). -/
def utf8LenStr : Str → Nat
  | [] => 0
  | c :: cs => c.utf8Size + utf8LenStr cs

/-- one length-prefixed field: strconv.Itoa(len(field)) ':' field -/
def lpField (s : Str) : Str := natStr (utf8LenStr s) ++ ':' :: s

/-- The string fed to the dedup hash in `bufanalysis.hash` — since fix 16321bc every field is
    written length-prefixed (before, the fields were concatenated without separators; see C20);
    SHA-256 itself is taken as injective. -/
def dedupKey (fa : FileAnnot) : Str :=
  [fa.path.getD [], natStr fa.startLine, natStr fa.startCol, natStr fa.endLine,
    natStr fa.endCol, fa.type.toList, fa.message.toList].flatMap lpField

/-- First-occurrence dedup by key (`deduplicateAndSortFileAnnotations`, first half). -/
def dedupByKey : List FileAnnot → List Str → List FileAnnot
  | [], _ => []
  | fa :: rest, seen =>
    if seen.contains (dedupKey fa) then dedupByKey rest seen
    else fa :: dedupByKey rest (dedupKey fa :: seen)

/-- `fileAnnotationCompareTo a b < 0`. -/
def faLt (a b : FileAnnot) : Bool :=
  match a.path, b.path with
  | none, some _ => true
  | some _, none => false
  | pa, pb =>
    let pa := pa.getD []
    let pb := pb.getD []
    if pa < pb then true else if pb < pa then false
    else if a.startLine < b.startLine then true else if b.startLine < a.startLine then false
    else if a.startCol < b.startCol then true else if b.startCol < a.startCol then false
    else if a.type < b.type then true else if b.type < a.type then false
    else if a.message < b.message then true else if b.message < a.message then false
    else if a.endLine < b.endLine then true else if b.endLine < a.endLine then false
    else decide (a.endCol < b.endCol)

/-- `bufanalysis.NewFileAnnotationSet` (dedup, then stable sort). -/
def fileAnnotationSet (l : List FileAnnot) : List FileAnnot := sortS faLt (dedupByKey l [])

/-- `check.CompareAnnotations a b < 0` restricted to what can differ after `toFileAnnot`-relevant
    data: rule id, then locations, then message (used by `multiClient.Check` to merge the
    per-plugin responses). -/
def locKey (l : Option Loc) : List Nat :=
  match l with
  | none => []
  | some l => [1, l.file, l.startLine, l.startCol, l.endLine, l.endCol]

def annotLt (a b : Annot) : Bool :=
  if a.ruleId < b.ruleId then true else if b.ruleId < a.ruleId then false
  else if locKey a.loc < locKey b.loc then true else if locKey b.loc < locKey a.loc then false
  else if locKey a.against < locKey b.against then true else if locKey b.against < locKey a.against then false
  else decide (a.message < b.message)

/-- The candidates: what the selected rules report (`multiClient.Check`: every selected rule is
    run; the responses are merged and sorted). -/
def candidates (ruleIDs : List Id) (img : Image) : List Annot :=
  sortS annotLt (img.annots.filter (fun a => ruleIDs.contains a.ruleId))

/-- `Client.Lint` / `Client.Breaking` after the configuration has been resolved:
    `annotationsToFilteredFileAnnotationSetOrError`.  (With no selected rule the client returns
    before issuing any request — `candidates [] img = []` here.) -/
def report (cfg : Config) (img : Image) : Except RErr (List FileAnnot) :=
  match filterAnnotations cfg img (candidates cfg.rules.ruleIDs img) with
  | .error e => .error e
  | .ok kept => .ok (fileAnnotationSet (kept.map (toFileAnnot img)))

/-! ## end to end -/

/-- Which layer the check configuration enters through: `validated` = built with
    `bufconfig.NewEnabledCheckConfig` (what buf.yaml parsing does); otherwise the raw lists are
    handed to `newRulesConfig` directly. -/
def resolve (allRules : List RuleRow) (lint validated : Bool) (c : CheckConfig) : Except RErr RulesConfig :=
  let all := if c.disableBuiltin then [] else allRules
  if validated then
    match newEnabledCheckConfig c with
    | .error e => .error e
    | .ok c' => newRulesConfig all lint c'
  else newRulesConfig all lint c

/-- `Client.ConfiguredRules`. -/
def configuredRules (allRules : List RuleRow) (lint validated : Bool) (c : CheckConfig) : Except RErr (List Id) :=
  match resolve allRules lint validated c with
  | .error e => .error e
  | .ok rc => .ok (configuredRuleIds (if c.disableBuiltin then [] else allRules) rc.ruleIDs)

/-- `Client.Lint` (lint = true) / `Client.Breaking` (lint = false). -/
def runCheck (allRules : List RuleRow) (lint validated : Bool) (c : CheckConfig)
    (allowCommentIgnores ignoreUnstable excludeImports : Bool) (img : Image) : Except RErr (List FileAnnot) :=
  match resolve allRules lint validated c with
  | .error e => .error e
  | .ok rc => report (mkConfig lint rc allowCommentIgnores ignoreUnstable excludeImports) img

/-! ## buf.yaml `lint:` / `breaking:` sections → effective configuration
    (bufconfig/buf_yaml_file.go: `readBufYAMLFile`, `getLintConfigForExternalLintV1Beta1V1`,
    `getLintConfigForExternalLintV2`, `getBreakingConfigForExternalBreaking`,
    `isLintOrBreakingDisabledBasedOnIgnores`, `getRelPathsForLintOrBreakingExternalPaths`) -/

/-- One `lint:` or `breaking:` mapping as decoded into the external YAML struct: an absent
    key, an explicit zero value (`use: []`, `service_suffix: ""`, `disallow_comment_ignores:
    false`) and an absent / empty section all decode to the same zero value.  `commentFlag` is
    `allow_comment_ignores` in v1beta1 / v1 and `disallow_comment_ignores` in v2; the lint-only
    keys are never set in a breaking section and vice versa (strict decoding rejects them). -/
structure YSection where
  use : List Id := []
  except : List Id := []
  ignore : List Str := []
  /-- a Go map (unique keys); a key with an empty list still counts for `len(m)` -/
  ignoreOnly : List (Id × List Str) := []
  enumZeroValueSuffix : Str := []
  rpcAllowSameRequestResponse : Bool := false
  rpcAllowGoogleProtobufEmptyRequests : Bool := false
  rpcAllowGoogleProtobufEmptyResponses : Bool := false
  serviceSuffix : Str := []
  commentFlag : Bool := false
  ignoreUnstablePackages : Bool := false
  disableBuiltin : Bool := false
  deriving DecidableEq, Repr

/-- `externalBufYAMLFileLintV2.isEmpty` / `externalBufYAMLFileBreakingV1Beta1V1V2.isEmpty`:
    EVERY key of the schema counts. -/
def YSection.isEmpty (s : YSection) : Bool :=
  s.use.isEmpty && s.except.isEmpty && s.ignore.isEmpty && s.ignoreOnly.isEmpty &&
  s.enumZeroValueSuffix.isEmpty && !s.rpcAllowSameRequestResponse &&
  !s.rpcAllowGoogleProtobufEmptyRequests && !s.rpcAllowGoogleProtobufEmptyResponses &&
  s.serviceSuffix.isEmpty && !s.commentFlag && !s.ignoreUnstablePackages && !s.disableBuiltin

/-- What `bufcheck` reads of a `bufconfig.LintConfig` / `BreakingConfig`. -/
structure EffConfig where
  disabled : Bool
  check : CheckConfig
  allowCommentIgnores : Bool
  ignoreUnstablePackages : Bool
  enumZeroValueSuffix : Str
  rpcAllowSameRequestResponse : Bool
  rpcAllowGoogleProtobufEmptyRequests : Bool
  rpcAllowGoogleProtobufEmptyResponses : Bool
  serviceSuffix : Str
  deriving DecidableEq, Repr

/-- `isLintOrBreakingDisabledBasedOnIgnores`: in list order, an invalid path is an error, a path
    equal to the module directory disables the check. -/
def disabledByIgnores (moduleDir : Str) : List Str → Except RErr Bool
  | [] => .ok false
  | p :: rest =>
    match normalizeAndValidate p with
    | .error _ => .error .config
    | .ok n => if n = moduleDir then .ok true else disabledByIgnores moduleDir rest

/-- `getRelPathsForLintOrBreakingExternalPaths`. -/
def relPathsFor (moduleDir : Str) (requireContained : Bool) : List Str → Except RErr (List Str)
  | [] => .ok []
  | p :: rest =>
    match normalizeAndValidate p with
    | .error _ => .error .config
    | .ok n =>
      if !equalsOrContainsPath moduleDir n then
        (if requireContained then .error .config else relPathsFor moduleDir requireContained rest)
      else match rel moduleDir n, relPathsFor moduleDir requireContained rest with
        | some r, .ok rs => .ok (r :: rs)
        | _, _ => .error .config

/-- The `ignore_only` loop: keys whose path list becomes empty are dropped. -/
def relIgnoreOnlyFor (moduleDir : Str) (requireContained : Bool) :
    List (Id × List Str) → Except RErr (List (Id × List Str))
  | [] => .ok []
  | (k, ps) :: rest =>
    match relPathsFor moduleDir requireContained ps, relIgnoreOnlyFor moduleDir requireContained rest with
    | .ok ps', .ok rest' => .ok (if ps'.isEmpty then rest' else (k, ps') :: rest')
    | _, _ => .error .config

def disabledCheckConfig : CheckConfig :=
  { use := [], except := [], ignore := [], ignoreOnly := [], disableBuiltin := false }

/-- `getLintConfigForExternalLint*` (lint = true) / `getBreakingConfigForExternalBreaking`. -/
def sectionToEff (lint v2 : Bool) (moduleDir : Str) (requireContained : Bool) (s : YSection) :
    Except RErr EffConfig :=
  let mk (disabled : Bool) (c : CheckConfig) : EffConfig :=
    { disabled := disabled, check := c,
      allowCommentIgnores := lint && (if v2 then !s.commentFlag else s.commentFlag),
      ignoreUnstablePackages := !lint && s.ignoreUnstablePackages,
      enumZeroValueSuffix := if lint then s.enumZeroValueSuffix else [],
      rpcAllowSameRequestResponse := lint && s.rpcAllowSameRequestResponse,
      rpcAllowGoogleProtobufEmptyRequests := lint && s.rpcAllowGoogleProtobufEmptyRequests,
      rpcAllowGoogleProtobufEmptyResponses := lint && s.rpcAllowGoogleProtobufEmptyResponses,
      serviceSuffix := if lint then s.serviceSuffix else [] }
  match disabledByIgnores moduleDir s.ignore with
  | .error e => .error e
  | .ok true => .ok (mk true disabledCheckConfig)
  | .ok false =>
    match relPathsFor moduleDir requireContained s.ignore,
          relIgnoreOnlyFor moduleDir requireContained s.ignoreOnly with
    | .ok ig, .ok io =>
      (match newEnabledCheckConfig { use := s.use, except := s.except, ignore := ig, ignoreOnly := io,
                                     disableBuiltin := s.disableBuiltin } with
       | .error e => .error e
       | .ok c => .ok (mk false c))
    | _, _ => .error .config

/-- Which section a module uses (v2): its own when that is not empty — then it REPLACES the
    workspace-level section as a whole and its paths must lie inside the module —, otherwise the
    workspace-level one (paths outside the module are skipped). -/
def pickSection (ws mod : YSection) : YSection × Bool :=
  if mod.isEmpty then (ws, false) else (mod, true)

/-- The `LintConfig` / `BreakingConfig` of one module of a buf.yaml.  v1beta1 / v1: the only
    section, module directory ".".  v2: `pickSection`. -/
def moduleEff (lint v2 : Bool) (moduleDir : Str) (ws mod : YSection) : Except RErr EffConfig :=
  if v2 then
    let (s, req) := pickSection ws mod
    sectionToEff lint true moduleDir req s
  else sectionToEff lint false dot true ws

/-- `BufYAMLFile.TopLevelLintConfig` / `TopLevelBreakingConfig` (v2: `none` when the
    workspace-level section is empty). -/
def topLevelEff (lint v2 : Bool) (ws : YSection) : Except RErr (Option EffConfig) :=
  if v2 then
    if ws.isEmpty then .ok none
    else match sectionToEff lint true dot false ws with
      | .error e => .error e
      | .ok c => .ok (some c)
  else match sectionToEff lint false dot true ws with
    | .error e => .error e
    | .ok c => .ok (some c)

/-- Reading the file converts the module sections AND the top-level section; any error fails
    the read. -/
def readYaml (lint v2 : Bool) (moduleDir : Str) (ws mod : YSection) :
    Except RErr (EffConfig × Option EffConfig) :=
  match moduleEff lint v2 moduleDir ws mod, topLevelEff lint v2 ws with
  | .ok m, .ok t => .ok (m, t)
  | .error e, _ => .error e
  | _, .error e => .error e

/-- `Client.Lint` / `Client.Breaking` on a configuration that came out of a buf.yaml. -/
def runEff (allRules : List RuleRow) (lint : Bool) (eff : EffConfig) (excludeImports : Bool) (img : Image) :
    Except RErr (List FileAnnot) :=
  if eff.disabled then .ok []
  else match newRulesConfig (if eff.check.disableBuiltin then [] else allRules) lint eff.check with
    | .error e => .error e
    | .ok rc =>
      report (mkConfig lint rc eff.allowCommentIgnores eff.ignoreUnstablePackages excludeImports) img

/-! ## lint rule handlers never see import files

    Every builtin lint handler is built on `bufcheckserverutil.NewLintFilesRuleHandler`, which
    hands the rule only the files with `IsImport() = false` (package / directory grouping, the
    per-file and per-element wrappers all sit on top of it); the two handlers that receive all
    files (`PACKAGE_NO_IMPORT_CYCLE`, `PROTOVALIDATE`) skip import files themselves when they
    report.  The handlers stay a parameter of this model (their single-rule annotation sets are
    measured), but this one structural fact is modelled: whatever a lint handler is measured to
    emit, only annotations located outside the import files can come from it.  Breaking handlers
    do not read the flag (only `ignoreFileLocation` does, under exclude-imports). -/

/-- The annotation's file location is not in an import file of the image (no location: true). -/
def locNotImport (img : Image) (a : Annot) : Bool :=
  match a.loc with
  | some l => !(fileAt img.files l.file).isImport
  | none => true

/-- The image as the rule handlers of the given type can annotate it. -/
def handlerView (lint : Bool) (img : Image) : Image :=
  if lint then { img with annots := img.annots.filter (locNotImport img) } else img

/-- `Client.Lint` / `Client.Breaking` as the driver runs it on `check` lines. -/
def runCheckH (allRules : List RuleRow) (lint validated : Bool) (c : CheckConfig)
    (allowCommentIgnores ignoreUnstable excludeImports : Bool) (img : Image) : Except RErr (List FileAnnot) :=
  runCheck allRules lint validated c allowCommentIgnores ignoreUnstable excludeImports (handlerView lint img)

/-- … and on `ycheck` lines. -/
def runEffH (allRules : List RuleRow) (lint : Bool) (eff : EffConfig) (excludeImports : Bool) (img : Image) :
    Except RErr (List FileAnnot) :=
  runEff allRules lint eff excludeImports (handlerView lint img)

/-! ## the accepted-key table (configuration-key family)

    `newRulesConfig` validates every entry of `use`, `except` and every key of `ignore_only`
    against two Go maps built from the rules OF THE REQUESTED TYPE only
    (`allRulesForType`): `ruleIDToCategoryIDs` (keys = rule ids, deprecated ones included) and
    `categoryIDToRuleIDs` (keys = the categories carried by at least one such rule).  The maps
    built from the rules of all types (`allRuleIDToCategoryIDs` …) are only consulted for the
    `use` lists of the related check configs (unused-plugin warning). -/

/-- The keys of `ruleIDToCategoryIDs`. -/
def ruleIdsOf (rs : List RuleRow) : List Id := rs.map (·.id)

/-- The keys of `categoryIDToRuleIDs`. -/
def categoryIdsOf (rs : List RuleRow) : List Id := rs.flatMap (·.categories)

/-- Every id `use` / `except` / `ignore_only` accept (for the table of one rule type). -/
def acceptedKeys (rs : List RuleRow) : List Id := ruleIdsOf rs ++ categoryIdsOf rs

/-- `Client.ConfiguredRules` on a configuration that came out of a buf.yaml (`ykeys` lines). -/
def configuredEff (allRules : List RuleRow) (lint : Bool) (eff : EffConfig) : Except RErr (List Id) :=
  let all := if eff.check.disableBuiltin then [] else allRules
  match newRulesConfig all lint eff.check with
  | .error e => .error e
  | .ok rc => .ok (configuredRuleIds all rc.ruleIDs)

end BufModel.Rules
