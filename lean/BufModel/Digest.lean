import BufModel.Manifest
import BufGen.ConstsC08
/-
  BufModel.Digest — executable model of the module digest of private/bufpkg/bufmodule
  (paths.go: getStorageMatcher / getDocFilePathForStorageReadBucket; digest.go: getB4Digest,
  getFilesDigestForB5Digest, getB5DigestForBucketAndDepDigests; module.go:
  newGetDigestFuncForModuleAndDigestType).

  A bucket is the list of (path, content) pairs in the order its `Walk` happens to yield them;
  paths are unique (a bucket is a path → bytes map).  Nothing in the model depends on the order:
  that is a theorem (BufProofs.C08), not an assumption.

  The constants (LICENSE, the documentation-file precedence list, ".proto", the digest type
  names) come from BufGen.ConstsC08, which is regenerated from /repo on every run.
-/
namespace BufModel.Digest
open BufModel.Path BufModel.Manifest

abbrev Entry := Str × Bytes
abbrev Bucket := List Entry

def licensePath : Str := BufGen.ConstsC08.licenseFilePath.toList
def docPaths : List Str := BufGen.ConstsC08.orderedDocFilePaths.map String.toList
def moduleExts : List Str := BufGen.ConstsC08.moduleFileExts.map String.toList

/-- `filepath.Ext` on a reversed path: scan from the end up to the first '.' or '/'. -/
def extRev : Str → Str → Str
  | [], _ => []
  | c :: rest, acc =>
    if c = '/' then []
    else if c = '.' then '.' :: acc
    else extRev rest (c :: acc)

/-- `normalpath.Ext` = `filepath.Ext`: the suffix starting at the last '.' of the last path
    element, or empty. -/
def ext (p : Str) : Str := extRev p.reverse []

/-- `bucket.Stat(path)` succeeds: the bucket has a file at exactly this path. -/
def has (b : Bucket) (p : Str) : Bool := b.any (fun e => e.1 = p)

/-- `getDocFilePathForStorageReadBucket`: the first present path of the precedence list,
    `""` when there is none. -/
def docPath (b : Bucket) : Str := (docPaths.find? (has b)).getD []

/-- The matcher of `getStorageMatcher` for a chosen documentation path:
    `MatchOr(MatchPathExt(".proto"), MatchPathEqual("LICENSE"), MatchPathEqual(doc))`. -/
def isModuleFile (doc : Str) (p : Str) : Bool :=
  moduleExts.any (fun e => ext p = e) || p = licensePath || p = doc

/-- `storage.FilterReadBucket(bucket, getStorageMatcher(ctx, bucket))`. -/
def filterModule (b : Bucket) : Bucket := b.filter (fun e => isModuleFile (docPath b) e.1)

/-- The walk callback of getFilesDigestForB5Digest / getB4Digest: hash the content, build a
    validated FileNode; the first error aborts the walk.  Since the line-feed fix `NewFileNode`
    rejects a path containing U+000A, so a module file with such a path makes every digest of
    the module an error (`pathLineFeed`) instead of an ambiguous manifest. -/
def walkNodes (H : Bytes → Digest) : Bucket → Except MErr (List FileNode)
  | [] => .ok []
  | (p, c) :: rest =>
    match newFileNode p (H c) with
    | .error e => .error e
    | .ok n => match walkNodes H rest with
      | .error e => .error e
      | .ok ns => .ok (n :: ns)

/-- `bufcas.ManifestToDigest ∘ bufcas.NewManifest`. -/
def manifestDigest (H : Bytes → Digest) (nodes : List FileNode) : Except MErr Digest :=
  match newManifest nodes with
  | .error e => .error e
  | .ok m => .ok (H (utf8 (manifestString m)))

/-- `getFilesDigestForB5Digest(bucketWithStorageMatcherApplied)`: the matcher is computed and
    applied AGAIN on the already filtered bucket ("extreme defensive programming"). -/
def filesDigest (H : Bytes → Digest) (b : Bucket) : Except MErr Digest :=
  match walkNodes H (filterModule b) with
  | .error e => .error e
  | .ok nodes => manifestDigest H nodes

/-- bufmodule.DigestType. -/
inductive DType where
  | b4 | b5
  deriving DecidableEq, Repr

def DType.name : DType → Str
  | .b4 => BufGen.ConstsC08.b4Name.toList
  | .b5 => BufGen.ConstsC08.b5Name.toList

/-- bufmodule.Digest: a type and a 64-byte shake256 value. -/
structure MDigest where
  type : DType
  digest : Digest
  deriving DecidableEq

/-- `digest.String()` = `type:hex`. -/
def mdigestString (d : MDigest) : Str := d.type.name ++ ':' :: hexEncode d.digest.val

def strLe (a b : Str) : Bool := decide (a ≤ b)

def depStrings : List MDigest → Except MErr (List Str)
  | [] => .ok []
  | d :: ds =>
    if d.type ≠ .b5 then .error .depDigestType
    else match depStrings ds with
      | .error e => .error e
      | .ok ss => .ok (mdigestString d :: ss)

/-- The text that the final b5 hash is taken over: the files digest string, then the sorted
    dependency digest strings, joined by "\n" (no trailing newline). -/
def b5Preimage (fd : Digest) (sortedDeps : List Str) : Str :=
  joinC '\n' (digestString fd :: sortedDeps)

/-- `getB5DigestForBucketAndDepDigests`. -/
def b5ForDepDigests (H : Bytes → Digest) (b : Bucket) (deps : List MDigest) : Except MErr MDigest :=
  match filesDigest H b with
  | .error e => .error e
  | .ok fd =>
    match depStrings deps with
    | .error e => .error e
    | .ok ss => .ok ⟨.b5, H (utf8 (b5Preimage fd (sortBy strLe ss)))⟩

/-- `Module.Digest(b5)` for a module constructed over `raw` (any bucket: the constructor wraps
    it in `getSyncOnceValuesGetBucketWithStorageMatcherApplied`) and given dependency digests.
    Module name, commit, bucket ID, description and targeting are not inputs at all. -/
def moduleB5 (H : Bytes → Digest) (raw : Bucket) (deps : List MDigest) : Except MErr MDigest :=
  b5ForDepDigests H (filterModule raw) deps

/-- bufmodule.ObjectData (the v1 buf.yaml / buf.lock that a b4 digest also covers). -/
structure ObjectData where
  name : Str
  data : Bytes
  deriving DecidableEq

def objectNodes (H : Bytes → Digest) : List (Option ObjectData) → Except MErr (List FileNode)
  | [] => .ok []
  | none :: rest => objectNodes H rest
  | some o :: rest =>
    match newFileNode o.name (H o.data) with
    | .error e => .error e
    | .ok n => match objectNodes H rest with
      | .error e => .error e
      | .ok ns => .ok (n :: ns)

/-- `getB4Digest`: the module files (filtered again), then the v1 buf.yaml and buf.lock object
    data when present, in one manifest. -/
def b4Digest (H : Bytes → Digest) (b : Bucket) (yaml lock : Option ObjectData) : Except MErr MDigest :=
  match walkNodes H (filterModule b) with
  | .error e => .error e
  | .ok nodes =>
    match objectNodes H [yaml, lock] with
    | .error e => .error e
    | .ok extra =>
      match manifestDigest H (nodes ++ extra) with
      | .error e => .error e
      | .ok d => .ok ⟨.b4, d⟩

def moduleB4 (H : Bytes → Digest) (raw : Bucket) (yaml lock : Option ObjectData) : Except MErr MDigest :=
  b4Digest H (filterModule raw) yaml lock


/-! ### The byte strings a digest computation feeds to `H` (used by the sensitivity theorem to
    state "H does not collide on the inputs compared", and by the driver to detect a preimage
    missing from the hash table it was given). -/

/-- The manifest text of the module files of an (already filtered) bucket; `[]` on error. -/
def manifestText (H : Bytes → Digest) (b : Bucket) : Str :=
  match walkNodes H (filterModule b) with
  | .error _ => []
  | .ok nodes => match newManifest nodes with
    | .error _ => []
    | .ok m => manifestString m

/-- The final preimage of `b5ForDepDigests`, when it gets that far. -/
def b5FinalText (H : Bytes → Digest) (b : Bucket) (deps : List MDigest) : List Str :=
  match filesDigest H b, depStrings deps with
  | .ok fd, .ok ss => [b5Preimage fd (sortBy strLe ss)]
  | _, _ => []

/-- Everything `moduleB5 H raw deps` hashes: the module file contents, the manifest text, the
    final preimage. -/
def b5Inputs (H : Bytes → Digest) (raw : Bucket) (deps : List MDigest) : List Bytes :=
  (filterModule (filterModule raw)).map (·.2)
    ++ [utf8 (manifestText H (filterModule raw))]
    ++ (b5FinalText H (filterModule raw) deps).map utf8

def b4ManifestText (H : Bytes → Digest) (b : Bucket) (yaml lock : Option ObjectData) : Str :=
  match walkNodes H (filterModule b), objectNodes H [yaml, lock] with
  | .ok nodes, .ok extra => (match newManifest (nodes ++ extra) with
    | .ok m => manifestString m
    | .error _ => [])
  | _, _ => []

/-- Everything `moduleB4 H raw yaml lock` hashes. -/
def b4Inputs (H : Bytes → Digest) (raw : Bucket) (yaml lock : Option ObjectData) : List Bytes :=
  (filterModule (filterModule raw)).map (·.2)
    ++ ([yaml, lock].filterMap (fun o => o.map (·.data)))
    ++ [utf8 (b4ManifestText H (filterModule raw) yaml lock)]

/-! ### Module graph: local modules recurse over their resolved deps, remote modules use the
    digests pinned in their dependency module keys
    (module.go: newGetDigestFuncForModuleAndDigestType). -/

structure Mod where
  bucket : Bucket
  isLocal : Bool
  /-- local: indices (into the module set) of `Module.ModuleDeps()` — all direct and transitive
      dependencies as resolved by getModuleDeps (modelled for C10) -/
  deps : List Nat
  /-- remote: the digests of `getDepModuleKeysB5()` -/
  pinned : List MDigest

def mapExcept {α β ε} (f : α → Except ε β) : List α → Except ε (List β)
  | [] => .ok []
  | a :: as =>
    match f a with
    | .error e => .error e
    | .ok b => match mapExcept f as with
      | .error e => .error e
      | .ok bs => .ok (b :: bs)

/-- `Module.Digest(b5)` inside a module set.  Fuel bounds the recursion through local
    dependencies (the real recursion terminates because ModuleDeps rejects cycles). -/
def moduleDigest (H : Bytes → Digest) (ms : List Mod) : Nat → Nat → Except MErr MDigest
  | 0, _ => .error .moduleCycle
  | fuel + 1, i =>
    match ms[i]? with
    | none => .error .noSuchModule
    | some m =>
      if m.isLocal then
        match mapExcept (moduleDigest H ms fuel) m.deps with
        | .error e => .error e
        | .ok ds => moduleB5 H m.bucket ds
      else moduleB5 H m.bucket m.pinned

/-! ### The b5 computation BEFORE the line-feed fix (`NewFileNode` accepted U+000A).  Kept only
    to state the recorded counterexample `BufProofs.C08.newline_collision_counterexample`. -/

namespace Old

def walkNodes (H : Bytes → Digest) : Bucket → Except MErr (List FileNode)
  | [] => .ok []
  | (p, c) :: rest =>
    match newFileNodeOld p (H c) with
    | .error e => .error e
    | .ok n => match walkNodes H rest with
      | .error e => .error e
      | .ok ns => .ok (n :: ns)

def filesDigest (H : Bytes → Digest) (b : Bucket) : Except MErr Digest :=
  match walkNodes H (filterModule b) with
  | .error e => .error e
  | .ok nodes => manifestDigest H nodes

def moduleB5 (H : Bytes → Digest) (raw : Bucket) (deps : List MDigest) : Except MErr MDigest :=
  match filesDigest H (filterModule raw) with
  | .error e => .error e
  | .ok fd =>
    match depStrings deps with
    | .error e => .error e
    | .ok ss => .ok ⟨.b5, H (utf8 (b5Preimage fd (sortBy strLe ss)))⟩

def manifestText (H : Bytes → Digest) (b : Bucket) : Str :=
  match walkNodes H (filterModule b) with
  | .error _ => []
  | .ok nodes => match newManifest nodes with
    | .error _ => []
    | .ok m => manifestString m

def b5FinalText (H : Bytes → Digest) (b : Bucket) (deps : List MDigest) : List Str :=
  match filesDigest H b, depStrings deps with
  | .ok fd, .ok ss => [b5Preimage fd (sortBy strLe ss)]
  | _, _ => []

/-- everything the pre-fix `moduleB5` hashes -/
def b5Inputs (H : Bytes → Digest) (raw : Bucket) (deps : List MDigest) : List Bytes :=
  (filterModule (filterModule raw)).map (·.2)
    ++ [utf8 (manifestText H (filterModule raw))]
    ++ (b5FinalText H (filterModule raw) deps).map utf8

end Old

end BufModel.Digest
