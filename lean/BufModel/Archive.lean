import BufModel.Path
import BufModel.Bucket
/-
  BufModel.Archive — executable model of private/pkg/storage/storagearchive (Tar, Zip, Untar,
  Unzip) at the ENTRY level.  An archive is the list of entries its reader yields, in archive
  order: (name, content, kind).  The byte codecs (archive/tar, klauspost zip) are library
  parameters: the correspondence harness lists the entries of the real archive bytes with the
  archive readers and compares them with `tarOf`, and runs the real Untar/Unzip on real bytes
  against `extractInto`.

  As coded:
  * Tar and Zip are the same walk: `storage.WalkReadObjects(bucket, "")` = Walk, and for every
    walked path a `Get` of that path on the SAME bucket; one regular entry per object, entry
    name = object path, no mapper/prefix option exists.
  * Untar: per entry — skip "._*" (Apple extended attributes, judged on `FileInfo().Name()`)
    FIRST, then `unmapArchivePath` (error = reject the archive), then skip non-matching /
    non-regular entries, then the max-file-size check, then `CopyReader` = Put.
  * Unzip: per entry — `unmapArchivePath` FIRST (so a hostile "._x" name is an error here, a skip
    in Untar), then the Apple skip, then Put when regular.  No size limit option.
  Entries written before a rejected entry stay written (no rollback).
-/
namespace BufModel.Archive
open BufModel.Path BufModel.Bucket

inductive EKind where
  | reg      -- FileInfo().Mode().IsRegular()
  | dir      -- FileInfo().IsDir()
  | other    -- symlink, device, …
  deriving DecidableEq, Repr

structure Entry where
  name : Str
  content : Content
  kind : EKind
  deriving DecidableEq

abbrev Archive := List Entry

def Entry.isRegular (e : Entry) : Bool := e.kind = .reg

inductive Fmt where
  | tar
  | zip
  deriving DecidableEq, Repr

/-! ### Tar / Zip -/

/-- one regular entry per object, name = path -/
def entriesOf (objs : List (Str × Content)) : Archive :=
  objs.map fun kv => { name := kv.1, content := kv.2, kind := .reg }

/-- `storagearchive.Tar` / `storagearchive.Zip` of a (composite) read bucket: the entries the
    written archive contains (an error leaves a truncated archive behind: not modelled). -/
def tarOf (e : BExpr) (bs : Bases) : Except PErr Archive :=
  match rWalk e bs [] with
  | .error er => .error er
  | .ok objs =>
    match readObjects e bs objs with
    | .error er => .error er
    | .ok objs' => .ok (entriesOf objs')

/-! The memory bucket walks in SORTED path order (`sort.Strings`, bytewise = code-point-wise on
    valid UTF-8) whereas `Mem` keeps insertion order (`memWalk` documents that the order is
    applied when printing).  The order of the entries of an archive is observable — entries
    before a rejected one stay extracted — so the driver tars the bases in sorted order. -/

def strLe (a b : Str) : Bool := decide (String.ofList a ≤ String.ofList b)

def insertMem (x : Str × Content) : Mem → Mem
  | [] => [x]
  | y :: ys => if strLe x.1 y.1 then x :: y :: ys else y :: insertMem x ys

/-- insertion sort by path -/
def sortMem : Mem → Mem
  | [] => []
  | x :: xs => insertMem x (sortMem xs)

/-- Tar/Zip with every base bucket walking in sorted order, as the real memory bucket does. -/
def tarOfSorted (e : BExpr) (bs : Bases) : Except PErr Archive := tarOf e (bs.map sortMem)

/-- Tar of one memory bucket. -/
def tarOfMem (m : Mem) : Except PErr Archive := tarOf (.base 0) [m]

/-! ### Untar / Unzip -/

def applePrefix : Str := ['.', '_']

/-- `isAppleExtendedAttributesFile(FileInfo())`: `FileInfo().Name()` is `path.Base(name)`; the tar
    reader cleans the name of a DIRECTORY entry first.  (`Path.base` = `path.Base` followed by a
    `Clean` that is the identity on a single path element.) -/
def isApple (fmt : Fmt) (e : Entry) : Bool :=
  applePrefix.isPrefixOf (base (match fmt, e.kind with
    | .tar, .dir => clean e.name
    | _, _ => e.name))

/-- One archive entry: `.ok m'` = continue with `m'` (`= m` when the entry is skipped);
    `.error` = abort the extraction.  `maxSize = 0` means no limit (tar only). -/
def extractEntry (fmt : Fmt) (strip : Nat) (matcher : Str → Bool) (maxSize : Nat) (m : Mem) (e : Entry) :
    Except PErr Mem :=
  match fmt with
  | .tar =>
    match unmapArchivePath e.name strip matcher with
    | .error er => .error er
    | .ok none => .ok m
    | .ok (some p) =>
      if !e.isRegular then .ok m
      else if isApple .tar e then .ok m
      else if maxSize ≠ 0 && decide (e.content.utf8ByteSize > maxSize) then .error .other
      else memPut m p e.content
  | .zip =>
    match unmapArchivePath e.name strip matcher with
    | .error er => .error er
    | .ok none => .ok m
    | .ok (some p) =>
      if isApple .zip e then .ok m
      else if e.isRegular then memPut m p e.content
      else .ok m

/-- The extraction loop: the first error aborts, earlier entries stay written. -/
def extractInto (fmt : Fmt) (strip : Nat) (matcher : Str → Bool) (maxSize : Nat) :
    Archive → Mem → Option PErr × Mem
  | [], m => (none, m)
  | e :: rest, m =>
    match extractEntry fmt strip matcher maxSize m e with
    | .error er => (some er, m)
    | .ok m' => extractInto fmt strip matcher maxSize rest m'

/-- `storagearchive.Untar(reader, bucket, WithStripComponentCount(strip), WithFilePathMatcher)` -/
def untarInto (a : Archive) (strip : Nat) (matcher : Str → Bool) (m : Mem) : Option PErr × Mem :=
  extractInto .tar strip matcher 0 a m

/-- `storagearchive.Unzip(…)` -/
def unzipInto (a : Archive) (strip : Nat) (matcher : Str → Bool) (m : Mem) : Option PErr × Mem :=
  extractInto .zip strip matcher 0 a m

/-- What extraction with strip-components `n` and a matcher does to a list of well-named regular
    objects: the stripped, matching ones, in order (a later one overwrites an earlier one). -/
def stripObjs (n : Nat) (matcher : Str → Bool) (objs : List (Str × Content)) : List (Str × Content) :=
  objs.filterMap fun kv =>
    match stripComponents kv.1 n with
    | some p => if matcher p then some (p, kv.2) else none
    | none => none

/-- no object whose last path element starts with "._" -/
def NoApple (objs : List (Str × Content)) : Prop :=
  ∀ kv ∈ objs, applePrefix.isPrefixOf (base kv.1) = false

end BufModel.Archive
