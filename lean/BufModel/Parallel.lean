/-
  BufModel.Parallel — the logic of private/pkg/thread.Parallelize and of the
  "collect concurrently, then sort" idiom used wherever buf fans work out
  (build_image.go checkAndSortFiles, bufcheck multi_client, storage.Copy, …).

  What the Go runtime decides — in which order jobs complete, and whether a cancellation is
  already visible when the next job is dispatched — is the *schedule*, a parameter here.
-/
namespace BufModel.Parallel

/-- One job as the dispatcher sees it: does it fail, and (schedule) is a cancellation caused by
    an earlier failure already visible when this job is about to be dispatched? -/
structure JobSlot where
  fails : Bool
  seesCancel : Bool

/-- The dispatch loop of Parallelize: with cancel-on-failure a visible cancellation stops the
    loop (ctx.Err() is recorded); every started job's error is collected.  Returns whether
    the result is an error. -/
def verdictGo (cancelOnFailure : Bool) (failedSoFar : Bool) : List JobSlot → Bool
  | [] => failedSoFar
  | j :: rest =>
    if cancelOnFailure && j.seesCancel && failedSoFar then true
    else verdictGo cancelOnFailure (failedSoFar || j.fails) rest

def verdict (cancelOnFailure : Bool) (jobs : List JobSlot) : Bool := verdictGo cancelOnFailure false jobs

/-- "Collect then sort": results arrive in completion order (a permutation of the jobs'
    results) and are sorted with a comparison `le`. -/
def collectSorted {α : Type} (le : α → α → Bool) (arrived : List α) : List α := arrived.mergeSort le

end BufModel.Parallel
