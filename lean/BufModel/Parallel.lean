/-
  BufModel.Parallel — the logic of private/pkg/thread.Parallelize and of the
  "collect concurrently, then sort" idiom used wherever buf fans work out
  (build_image.go checkAndSortFiles, bufcheck multi_client, storage.Copy, …).

  What the Go runtime decides — in which order jobs complete, and whether a cancellation is
  already visible when the next job is dispatched — is the *schedule*, a parameter here.
-/
namespace BufModel.Parallel

/-- One job as the dispatcher sees it: does it fail, and (schedule) is a cancellation caused by
    an earlier failure already visible when this job is about to be dispatched? -/
structure JobSlot where
  fails : Bool
  seesCancel : Bool

/-- The dispatch loop of Parallelize: with cancel-on-failure a visible cancellation stops the
    loop (ctx.Err() is recorded); every started job's error is collected.  Returns whether
    the result is an error. -/
def verdictGo (cancelOnFailure : Bool) (failedSoFar : Bool) : List JobSlot → Bool
  | [] => failedSoFar
  | j :: rest =>
    if cancelOnFailure && j.seesCancel && failedSoFar then true
    else verdictGo cancelOnFailure (failedSoFar || j.fails) rest

def verdict (cancelOnFailure : Bool) (jobs : List JobSlot) : Bool := verdictGo cancelOnFailure false jobs

/-- What the combined error of Parallelize lists. -/
inductive PErrItem where
  | job (i : Nat)      -- the error returned by job i
  | ctx                -- ctx.Err() recorded by the dispatch loop
  deriving DecidableEq, Repr

/-- The combined error as coded (after fix 6d16415): every error is stored at the index of its
    job — the context error at the index of the job that was not dispatched because of it — and
    the non-nil entries are joined in index order.  The schedule is `completed` (the jobs that
    ran, in the order they finished) and `stopAt` (where the dispatch loop saw the cancellation,
    if it did). -/
def joinedErrors (fails : List Bool) (completed : List Nat) (stopAt : Option Nat) : List PErrItem :=
  (List.range fails.length).filterMap fun i =>
    if completed.contains i && fails.getD i false then some (.job i)
    else if stopAt = some i then some .ctx else none

/-- The combined error before the fix: appended in completion order. -/
def joinedErrorsOld (fails : List Bool) (completed : List Nat) : List PErrItem :=
  (completed.filter fun i => fails.getD i false).map .job

/-! ### The join: Parallelize returns only after every dispatched job has finished

  What a caller of `thread.Parallelize` observes of one call, as events in the order in which they
  happen: job `i` starts (its goroutine runs, holding a semaphore slot), job `i` finishes (before
  it gives the slot back and before `wg.Done`), the call returns.  The schedule — which event
  comes next — belongs to the Go runtime; the code decides which events are ENABLED:
  a job starts only before the return, only while fewer than `par` jobs are running
  (the semaphore), and at most once; the call returns only when no started job is still running
  (`wg.Wait()` after the dispatch loop).  Events that are not enabled leave the state unchanged,
  so replaying a recorded event list shows at once whether the implementation did something the
  code (as modelled) cannot do. -/

inductive PEv where
  | start (i : Nat)
  | finish (i : Nat)
  | ret
  deriving DecidableEq, Repr

structure PSt where
  started : List Nat     -- every job whose goroutine has begun
  running : List Nat     -- started and not finished
  finished : List Nat
  returned : Bool
  deriving Repr

def PSt.init : PSt := { started := [], running := [], finished := [], returned := false }

/-- One event.  `failFast = some fails` is the VARIANT that does not exist in the code (the stored
    regression): the call may also return as soon as some finished job has failed. -/
def pstepWith (failFast : Option (List Bool)) (par : Nat) (s : PSt) : PEv → PSt
  | .start i =>
    if s.returned || decide (par ≤ s.running.length) || s.started.contains i then s
    else { s with started := i :: s.started, running := i :: s.running }
  | .finish i =>
    if s.running.contains i then { s with running := s.running.erase i, finished := i :: s.finished } else s
  | .ret =>
    if s.returned then s
    else if s.running.isEmpty then { s with returned := true }
    else match failFast with
      | some fails => if s.finished.any (fun i => fails.getD i false) then { s with returned := true } else s
      | none => s

/-- The code that exists: `wg.Wait()`. -/
def pstep (par : Nat) (s : PSt) (e : PEv) : PSt := pstepWith none par s e

def prun (par : Nat) (s : PSt) (evs : List PEv) : PSt := evs.foldl (pstep par) s

def prunWith (failFast : Option (List Bool)) (par : Nat) (s : PSt) (evs : List PEv) : PSt :=
  evs.foldl (pstepWith failFast par) s

/-- "Collect then sort": results arrive in completion order (a permutation of the jobs'
    results) and are sorted with a comparison `le`. -/
def collectSorted {α : Type} (le : α → α → Bool) (arrived : List α) : List α := arrived.mergeSort le

/-- The shared diagnostics collector of one build / check call (the protocompile reporter of
    `bufimage.BuildImage`, the annotation list of a check): concurrent producers append what they
    find in ARRIVAL order, i.e. the schedule.  `cap = some n`: the collector stops after `n`
    entries (a hypothetical `maxBuildErrors`); the code that exists collects everything
    (`cap = none`). -/
def collectCapped {α : Type} (cap : Option Nat) (arrived : List α) : List α :=
  match cap with
  | none => arrived
  | some n => arrived.take n

/-- What is printed: the sorted collection. -/
def reportSorted {α : Type} (le : α → α → Bool) (cap : Option Nat) (arrived : List α) : List α :=
  collectSorted le (collectCapped cap arrived)

end BufModel.Parallel
