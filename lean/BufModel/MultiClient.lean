import BufModel.Parallel
/-
  BufModel.MultiClient — the fan-out of one lint / breaking request over several check clients
  (private/bufpkg/bufcheck/multi_client.go, `multiClient.Check`).

  As coded: the clients are visited in CONFIG order (the builtin client first, then the plugins as
  listed); a client none of whose rules is requested gets no job (`continue`); the jobs go to
  `thread.Parallelize` WITHOUT options, so nothing is ever cancelled and the combined error is
  `BufModel.Parallel.joinedErrors` of the jobs with `stopAt = none`: the errors of the failing
  clients in job (= config) order.  The schedule — in which order the clients finished — is a
  parameter.

  `checkErrCancel` is the variant that does not exist (stored regression C02-m10:
  `thread.ParallelizeWithCancelOnFailure()`): the first failure cancels the shared context, jobs
  not yet dispatched are replaced by a bare context error and clients still running report the
  cancellation instead of their own result — both decided by the schedule.

  Core Lean only.
-/
namespace BufModel.MultiClient
open BufModel.Parallel

/-- What a client does with the request. -/
inductive Outcome where
  | fails    -- its Check call returns an error
  | ok       -- it returns annotations
  | noRule   -- none of its rules is requested: the client is skipped, there is no job
  deriving DecidableEq, Repr

def Outcome.hasJob : Outcome → Bool
  | .noRule => false
  | _ => true

/-- the clients (positions in the config order) that get a job, in job order. -/
def jobClients (os : List Outcome) : List Nat :=
  (List.range os.length).filter fun i => (os.getD i .noRule).hasJob

/-- does job `j` fail? -/
def jobFails (os : List Outcome) : List Bool :=
  (jobClients os).map fun i => os.getD i .noRule == .fails

/-- clients in the order they finished → job indices in the order they finished. -/
def toJobs (os : List Outcome) (finished : List Nat) : List Nat :=
  finished.flatMap fun c => (List.range (jobClients os).length).filter fun j => (jobClients os).getD j os.length == c

/-- One line of the combined error. -/
inductive MCItem where
  | client (i : Nat)      -- the error of client i (`plugin "<name>" failed: …`)
  | ctx                   -- a bare context error recorded by the dispatch loop
  | cancelled (i : Nat)   -- client i reporting the cancellation of its context
  deriving DecidableEq, Repr

def itemOfJob (os : List Outcome) : PErrItem → MCItem
  | .job j => .client ((jobClients os).getD j os.length)
  | .ctx => .ctx

/-- The combined error for a dispatch that stopped at job `stopAt` (never, as coded). -/
def joined (os : List Outcome) (finished : List Nat) (stopAt : Option Nat) : List MCItem :=
  (joinedErrors (jobFails os) (toJobs os finished) stopAt).map (itemOfJob os)

/-- The code that exists: no cancellation. `[]` = no error. -/
def checkErr (os : List Outcome) (finished : List Nat) : List MCItem := joined os finished none

/-- every client with a job runs. -/
def mustRun (os : List Outcome) : List Nat := jobClients os

/-- The variant with cancel-on-failure.  The schedule now also says where the dispatch loop saw
    the cancellation (`stopAt`, a job index) and which running clients were overtaken by it
    (`overtaken`, clients): those report the cancellation, whatever their own outcome. -/
def checkErrCancel (os : List Outcome) (finished : List Nat) (stopAt : Option Nat) (overtaken : List Nat) : List MCItem :=
  (List.range (jobClients os).length).filterMap fun j =>
    let c := (jobClients os).getD j os.length
    if overtaken.contains c then some (.cancelled c)
    else if finished.contains c && (os.getD c .noRule == .fails) then some (.client c)
    else if stopAt = some j then some .ctx else none

/-- A further variant that does not exist: the errors joined in COMPLETION order (what
    `thread.Parallelize` did before fix 6d16415, or a fan-out that collects the errors itself). -/
def checkErrCompletionOrder (os : List Outcome) (finished : List Nat) : List MCItem :=
  (finished.filter fun c => os.getD c .noRule == .fails).map .client

end BufModel.MultiClient
