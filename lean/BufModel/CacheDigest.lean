import BufModel.Cache
import BufModel.Digest
/-
  BufModel.CacheDigest — the reader of the module-data cache WITH the real digest computation
  (links the C09 cache model to the C08 digest model; audit item C09/S1).

  `BufModel.Cache.load` abstracts the tamper-proofing gate of `bufmodule.moduleData.checkDigest`
  to "module-file sets equal and marker token canonical".  `loadD` below instead follows the
  code path as coded:

    bufmodulestore.moduleDataStore.getModuleDataForModuleKey   (module_data_store.go)
      ReadPath(module.yaml)                          absent                → error  (= miss)
      UnmarshalYAMLNonStrict / isValid /
        getDepModuleKeyForExternalModuleDataDep      any failure           → error  (= miss)
      ReadPath(V1BufYAMLFile), ReadPath(V1BufLockFile)  (the side files the marker names)
                                                     absent                → error  (= miss)
      NewModuleData(key, bucket = MapOnPrefix(FilesDir), deps = the marker's dep keys, …)
    bufmodule.moduleData.Bucket() / DepModuleKeys() / V1…ObjectData()      (module_data.go)
      checkDigest (sync.OnceValue): bucket := getBucket()  (storage matcher applied),
        actual := getB5DigestForBucketAndDepModuleKeys(bucket, marker's dep keys)
        DigestEqual(expected = moduleKey.Digest(), actual) ? serve : DigestMismatchError

  Abstractions (stated, not hidden):
  * marker bytes → `depsOf : Content → Option (List MDigest)`: `none` = module.yaml does not
    unmarshal / is not valid / a dep entry does not parse; `some ds` = the digests of the dep
    module keys it declares (names and commits of deps are not digest inputs).  The marker's
    `files_dir` is taken to be "files" (the only value the writer ever writes);
  * `sides` = the entry-relative paths of the v1 buf.yaml / buf.lock files that are read eagerly;
  * only b5 keys (as in BufModel.Cache): `checkDigest` switches on the type of the PINNED digest;
    for a b4 key the real code hashes the side files too — not modelled here;
  * `LoadResult` has no separate constructor for "the digest computation itself failed"
    (a non-b5 dep digest, a path `NewFileNode` rejects): every accessor then returns that error
    and no content, which is reported as `.mismatch` ("accessor error, nothing served").
    Theorem `loadD_mismatch_is_digest_mismatch` shows that on a well-formed entry with b5 deps
    `.mismatch` is a genuine digest inequality.
  * contents are `String`s in the cache model (`Bucket.Content`); the digest model hashes bytes:
    `contentBytes` = the UTF-8 bytes (injective).
-/
namespace BufModel.CacheDigest
open BufModel.Path BufModel.Bucket BufModel.Manifest BufModel.Cache
open BufModel.Digest (MDigest moduleB5 filterModule docPath)

/-- The bytes of a stored object (what `bufcas.NewDigestForContent` reads). -/
def contentBytes (c : Content) : Bytes := utf8 c.toList

/-- A list of stored objects as a digest-model bucket (same walk order). -/
def toBucket (fs : List (Str × Content)) : Digest.Bucket := fs.map fun kv => (kv.1, contentBytes kv.2)

/-- `storage.MapReadBucket(moduleCacheBucket, MapOnPrefix("files"))`: every object under
    `files/`, prefix stripped — module files or not. -/
def entryFiles (entry : Mem) : List (Str × Content) :=
  entry.filterMap fun kv =>
    match stripFiles kv.1 with
    | some rel => some (rel, kv.2)
    | none => none

/-- `getSyncOnceValuesGetBucketWithStorageMatcherApplied`: what `ModuleData.Bucket()` serves —
    the files selected by `getStorageMatcher` computed on that very bucket (`.proto`, LICENSE,
    the first present documentation path of the precedence list). -/
def servedFiles (fs : List (Str × Content)) : List (Str × Content) :=
  fs.filter fun kv => Digest.isModuleFile (docPath (toBucket fs)) kv.1

/-- getModuleDataForModuleKey followed by ModuleData.Bucket() (directory layout), with the b5
    digest recomputed by the C08 model and compared with the digest pinned by the key. -/
def loadD (H : Bytes → Digest) (pinned : MDigest) (depsOf : Content → Option (List MDigest))
    (sides : List Str) (entry : Mem) : LoadResult :=
  match entry.find markerPath with
  | none => .miss
  | some tok =>
    match depsOf tok with
    | none => .miss
    | some deps =>
      if !(sides.all fun s => (entry.find s).isSome) then .miss
      else
        if moduleB5 H (toBucket (entryFiles entry)) deps = .ok pinned
        then .hit (servedFiles (entryFiles entry)) else .mismatch

/-- Tar layout: as `Cache.loadTar`, with `loadD` on the unpacked entry. -/
def loadTarD (H : Bytes → Digest) (pinned : MDigest) (depsOf : Content → Option (List MDigest))
    (sides : List Str) (tarObj : Option (Option Mem)) : LoadResult × Option (Option Mem) :=
  match tarObj with
  | none => (.miss, none)
  | some none => (.miss, none)
  | some (some e) => (loadD H pinned depsOf sides e, some (some e))

/-- `Cache.isModuleFile` knows `buf.md` as the only documentation file; `getStorageMatcher`
    picks the first PRESENT path of `orderedDocFilePaths`.  The two agree on a bucket exactly when
    that choice is `buf.md` or nothing (i.e. README.md / README.markdown occur only next to a
    buf.md).  Decidable; the C09 harness generator only produces such entries. -/
def docOnlyBufMd (fs : List (Str × Content)) : Bool :=
  docPath (toBucket fs) = [] || docPath (toBucket fs) = "buf.md".toList

/-- A simpler sufficient condition for `docOnlyBufMd`: no path is a documentation path other
    than `buf.md`. -/
def noOtherDocPath (fs : List (Str × Content)) : Bool :=
  fs.all fun kv => !(Digest.docPaths.contains kv.1) || kv.1 = "buf.md".toList

/-- Result kind and served files, for stating concrete outcomes (`LoadResult` has no
    `DecidableEq`): 0 = miss, 1 = hit, 2 = mismatch. -/
def kindOf : LoadResult → Nat
  | .miss => 0
  | .hit _ => 1
  | .mismatch => 2

def servedOf : LoadResult → List (Str × Content)
  | .hit fs => fs
  | _ => []

end BufModel.CacheDigest
