/-
  BufModel.Filter — executable model of bufimageutil.FilterImage (property C12).

  Anchors: private/bufpkg/bufimage/bufimageutil/{bufimageutil.go, image_filter.go,
  image_index.go, source_paths_remap.go, tags.go}.

  Representation.  All names (full names of elements, package names and their ancestors, file
  paths) are interned to `Nat` by the harness; file ids are assigned in the order of the sorted
  file paths, so `Nat` order on file ids is `sort.Strings` order on paths.  An element id IS the
  id of its full name (`imageIndex.ByName`).  References (field type, extendee, method
  input/output, option extension, Any payload) are already resolved to ids: the `missing %q`
  error paths of a well-formed image are not modelled.

  Phase 1 (`closure`): `transitiveClosure` — `elements` is the association list `St.modes`
  (key ↦ inclusion mode, first binding wins), `imports` is `St.seen` (keys) + `St.edges`.
  The Go recursion addElement → addFieldType / exploreCustomOptions / addEnclosing → addElement
  is defunctionalised into a depth-first task stack (`Task`, `step`, `run`): a task pops, reads
  the state *at that moment* (exactly where the Go code reads it), and pushes its sub-tasks in
  front of the stack in the order the Go code performs them.  `run` takes fuel = number of
  machine steps; `BufProofs.FilterLemmas.run_fuel_mono` shows more fuel never changes an answer.

  Phase 2 (`remapFile`): `sourcePathsBuilder.remap*` + `remapSlice` over the descriptor tree, the
  source-path trie as the association list of marks it represents (`Marks`, `newPath` = `fix`),
  `remapDependencies` (public imports flattened; extras sorted).

  Quirks kept as coded: enclosing-only messages lose fields/oneofs/ranges/reserved and their
  comments; a field is dropped iff its type is excluded (no special case for map entries);
  `hasType` of an untouched element is true iff no include was given.  When a oneof is dropped
  (no member survives) the `oneof_index` of the kept fields follows the oneofs that move down
  (`newOneofIndexes`, `renumberOneof`; an out-of-range index is left alone, as in the Go code).
  An extension whose value type is excluded is marked excluded BEFORE its extendee is added, so
  it contributes neither the extendee nor the import of the extendee's file.
  `Cfg` selects the pre-fix behaviours: `typelessErr` / `svcMarksInput` / `keepsInputWhenEmpty`
  (defects 9a, 9b, 9f of DESIGN §7), `staleOneofIndex` (9d: oneof indexes not renumbered),
  `extendeeFirst` (the extendee of an extension and its import are recorded before the value
  type is examined), `silentExtDrop` (an included extension whose value type is excluded is
  silently dropped instead of being an error) — `cfgFixed` is the current code, `cfgOld`
  documents the old one.
  Not modelled: weak dependencies, the `dirty`/identity short cuts (no observable difference),
  `UnusedDependencyIndexes`, iteration order of Go maps (includes are processed in the order
  given; `addExtensions` iterates a snapshot of the explicit messages in index order).
-/
namespace BufModel.Filter

abbrev Id := Nat

structure OptUse where
  ext : Option Id          -- the custom option's extension element (if it is in the image)
  anys : List Id           -- message ids of google.protobuf.Any payloads inside the value
deriving DecidableEq, Repr

structure Field where
  id : Id
  ty : Option Id           -- message / enum / group type; none = scalar
  oneof : Option Nat
  extendee : Option Id     -- some _ for extensions
  opts : List OptUse
deriving DecidableEq, Repr

structure Oneof where
  opts : List OptUse
deriving DecidableEq, Repr

structure Enum where
  id : Id
  valueOpts : List (List OptUse)
  opts : List OptUse
deriving DecidableEq, Repr

structure Method where
  id : Id
  input : Id
  output : Id
  opts : List OptUse
deriving DecidableEq, Repr

structure Service where
  id : Id
  methods : List Method
  opts : List OptUse
deriving DecidableEq, Repr

inductive Msg where
  | mk (id : Id) (fields : List Field) (oneofs : List Oneof) (exts : List Field)
       (nested : List Msg) (enums : List Enum) (rangeOpts : List (List OptUse))
       (reserved : Bool) (mapEntry : Bool) (opts : List OptUse)
deriving Repr

def Msg.id : Msg → Id | .mk i .. => i
def Msg.fields : Msg → List Field | .mk _ f .. => f
def Msg.oneofs : Msg → List Oneof | .mk _ _ o .. => o
def Msg.exts : Msg → List Field | .mk _ _ _ e .. => e
def Msg.nested : Msg → List Msg | .mk _ _ _ _ n .. => n
def Msg.enums : Msg → List Enum | .mk _ _ _ _ _ e .. => e
def Msg.rangeOpts : Msg → List (List OptUse) | .mk _ _ _ _ _ _ r .. => r
def Msg.reserved : Msg → Bool | .mk _ _ _ _ _ _ _ r .. => r
def Msg.mapEntry : Msg → Bool | .mk _ _ _ _ _ _ _ _ m _ => m
def Msg.opts : Msg → List OptUse | .mk _ _ _ _ _ _ _ _ _ o => o

structure Dep where
  file : Id
  pub : Bool
deriving DecidableEq, Repr

structure Loc where
  path : List Nat
  tag : Nat                -- interned (leading, trailing, detached) comments; 0 = none
deriving DecidableEq, Repr

structure File where
  id : Id
  pkg : Id
  isImport : Bool
  deps : List Dep
  types : List Id          -- imageIndex.FileTypes (walk order)
  msgs : List Msg
  enums : List Enum
  svcs : List Service
  exts : List Field
  opts : List OptUse
  locs : List Loc
deriving Repr

structure Image where
  files : List File
  pkgs : List Id           -- imageIndex.Packages keys (every file's package and all ancestors)
deriving Repr

structure Opts where
  includes : List Id
  excludes : List Id
  customOpts : Bool := true
  knownExts : Bool := true
  allowImported : Bool := false
deriving Repr

structure Cfg where
  typelessErr : Bool       -- pre-fix 9a: addElement(file) fails when the file declares no type
  svcMarksInput : Bool     -- pre-fix 9b: the service case marks the *input type* excluded and
                           -- remapMethod does not look at the request/response types
  keepsInputWhenEmpty : Bool  -- pre-fix 9f: when no file survives, `dirty` is still false and the
                           -- *unfiltered input image* is returned
  staleOneofIndex : Bool   -- pre-fix 9d: a dropped oneof is removed but `oneof_index` of the kept
                           -- fields of later oneofs is not renumbered
  extendeeFirst : Bool     -- pre-fix: addElement(extension) adds the extendee (recording the import of
                           -- its file) before it looks at the value type; an extension dropped for
                           -- its value type then leaves the extendee and that import behind
  silentExtDrop : Bool     -- pre-fix: includeType checks the extendee of an included extension but not
                           -- its value type; with an excluded value type the filter succeeds and the
                           -- extension is silently absent
deriving Repr

def cfgFixed : Cfg := ⟨false, false, false, false, false, false⟩
def cfgOld : Cfg := ⟨true, true, true, true, true, true⟩
/-- the code before the repair of `oneof-index-not-renumbered` only -/
def cfgStaleOneof : Cfg := { cfgFixed with staleOneofIndex := true }
/-- the code before the repair of `dropped-extension-leaves-extendee-import` only -/
def cfgExtendeeFirst : Cfg := { cfgFixed with extendeeFirst := true }
/-- the code before the repair of `included-extension-silently-dropped` only -/
def cfgSilentExtDrop : Cfg := { cfgFixed with silentExtDrop := true }

inductive Err | notFound | isImport | conflict | missing | fuel | internal | empty
deriving DecidableEq, Repr

def Err.tag : Err → String
  | .notFound => "notfound" | .isImport => "isimport" | .conflict => "conflict"
  | .missing => "missing" | .fuel => "fuel" | .internal => "internal" | .empty => "empty"

instance {ε α} [DecidableEq ε] [DecidableEq α] : DecidableEq (Except ε α)
  | .ok a, .ok b => if h : a = b then isTrue (by rw [h]) else isFalse (by intro e; cases e; exact h rfl)
  | .error a, .error b => if h : a = b then isTrue (by rw [h]) else isFalse (by intro e; cases e; exact h rfl)
  | .ok _, .error _ => isFalse (by intro e; cases e)
  | .error _, .ok _ => isFalse (by intro e; cases e)

/-! ### The index (newImageIndexForImage) -/

inductive Key | el (id : Id) | file (id : Id) | oneof (msg : Id) (idx : Nat)
deriving DecidableEq, Repr

inductive Kind | file | msg | enum | svc | method | ext
deriving DecidableEq, Repr

structure Info where
  key : Key
  kind : Kind
  file : Id
  parent : Option Key
  desc : List Key := []                     -- proper descendants that are indexed elements
  opts : List OptUse := []
  fields : List Field := []                 -- msg
  oneofs : List Oneof := []                 -- msg
  rangeOpts : List (List OptUse) := []      -- msg
  valueOpts : List (List OptUse) := []      -- enum
  methods : List Method := []               -- svc
  input : Id := 0                           -- method
  output : Id := 0                          -- method
  fld : Option Field := none                -- ext
  types : List Id := []                     -- file
deriving Repr

def extInfo (file : Id) (parent : Key) (f : Field) : Info :=
  { key := .el f.id, kind := .ext, file := file, parent := some parent, opts := f.opts, fld := some f }

def enumInfo (file : Id) (parent : Key) (e : Enum) : Info :=
  { key := .el e.id, kind := .enum, file := file, parent := some parent, opts := e.opts, valueOpts := e.valueOpts }

def methodInfo (file : Id) (parent : Key) (m : Method) : Info :=
  { key := .el m.id, kind := .method, file := file, parent := some parent, opts := m.opts, input := m.input, output := m.output }

def svcInfos (file : Id) (s : Service) : List Info :=
  { key := .el s.id, kind := .svc, file := file, parent := some (.file file), opts := s.opts, methods := s.methods,
    desc := s.methods.map (fun m => Key.el m.id) } :: s.methods.map (methodInfo file (.el s.id))

mutual
/-- Index entries of a message and everything nested in it (pre-order, as walk.DescriptorProtos). -/
def msgInfos (file : Id) (parent : Key) : Msg → List Info
  | .mk id fields oneofs exts nested enums rangeOpts _ _ opts =>
    let sub := msgsInfos file (.el id) nested ++ enums.map (enumInfo file (.el id)) ++ exts.map (extInfo file (.el id))
    { key := .el id, kind := .msg, file := file, parent := some parent, opts := opts, fields := fields,
      oneofs := oneofs, rangeOpts := rangeOpts, desc := sub.map (·.key) } :: sub
def msgsInfos (file : Id) (parent : Key) : List Msg → List Info
  | [] => []
  | m :: ms => msgInfos file parent m ++ msgsInfos file parent ms
end

def fileInfos (f : File) : List Info :=
  let sub := msgsInfos f.id (.file f.id) f.msgs ++ f.enums.map (enumInfo f.id (.file f.id)) ++
    (f.svcs.map (svcInfos f.id)).flatten ++ f.exts.map (extInfo f.id (.file f.id))
  { key := .file f.id, kind := .file, file := f.id, parent := none, opts := f.opts, types := f.types,
    desc := sub.map (·.key) } :: sub

abbrev Index := List Info

def buildIndex (img : Image) : Index := (img.files.map fileInfos).flatten

def Index.find (idx : Index) (k : Key) : Option Info := List.find? (fun i => i.key = k) idx

/-! ### Phase 1: the transitive closure -/

inductive Mode | excluded | explicit | enclosing | implicit
deriving DecidableEq, Repr

structure St where
  modes : List (Key × Mode) := []
  seen : List Id := []
  edges : List (Id × Id) := []
deriving Repr

def St.get (st : St) (k : Key) : Option Mode := st.modes.lookup k
def St.set (st : St) (k : Key) (m : Mode) : St := { st with modes := (k, m) :: st.modes }
def St.isExcl (st : St) (k : Key) : Bool := st.get k = some .excluded

/-- transitiveClosure.addImport -/
def St.addImport (st : St) (fr : Option Id) (to : Id) : St :=
  let st := if st.seen.contains to then st else { st with seen := to :: st.seen }
  match fr with
  | none => st
  | some f => if f = to then st else if st.edges.contains (f, to) then st else { st with edges := (f, to) :: st.edges }

inductive Task
  | add (k : Key) (ref : Option Id) (implied : Bool)   -- addElement
  | field (f : Field) (file : Id)                      -- one iteration of the field loop of a message
  | oneofs (k : Key)                                   -- the oneof loop of a message
  | svcMethod (m : Method)                             -- one iteration of the method loop of a service
  | extType (k : Key) (ref : Option Id)                -- addFieldType of an extension + the common tail
  | imp (fr : Option Id) (to : Id)                     -- addImport
  | encl (p : Option Key) (file : Id)                  -- addEnclosing
  | opts (us : List OptUse) (file : Id)                -- exploreCustomOptions
  | opt (u : OptUse) (file : Id)                       -- one option field of options.Range
deriving Repr

structure Ctx where
  cfg : Cfg
  idx : Index
  customOpts : Bool

/-- The common tail of addElement: addImport, addEnclosing, exploreCustomOptions(descriptor). -/
def postTasks (i : Info) (ref : Option Id) : List Task :=
  [.imp ref i.file, .encl i.parent i.file, .opts i.opts i.file]

def fieldIncluded (st : St) (f : Field) : Bool :=
  match f.ty with
  | none => true
  | some t => !st.isExcl (.el t)

/-- the value type of an extension is already excluded -/
def typeExcluded (st : St) (f : Field) : Bool :=
  match f.ty with
  | none => false
  | some t => st.isExcl (.el t)

def oneofsStep (st : St) (i : Info) : List Oneof → Nat → St × List Task
  | [], _ => (st, [])
  | o :: os, n =>
    if (i.fields.filter (fun f => f.oneof = some n && fieldIncluded st f)).isEmpty then
      oneofsStep (st.set (.oneof (match i.key with | .el m => m | _ => 0) n) .excluded) i os (n + 1)
    else
      let (st', ts) := oneofsStep st i os (n + 1)
      (st', .opts o.opts i.file :: ts)

/-- The body of addElement after the element has been given its mode (`st` already has it). -/
def expand (c : Ctx) (st : St) (k : Key) (ref : Option Id) (implied : Bool) (i : Info) : Except Err (St × List Task) :=
  match i.kind with
  | .file =>
    if c.cfg.typelessErr && i.types.isEmpty then .error .missing
    else
      -- (fix of 9b) methods are left to their service
      let tys := if c.cfg.svcMarksInput then i.types
        else i.types.filter (fun t => (c.idx.find (.el t)).map (·.kind) != some Kind.method)
      .ok (st, tys.map (fun t => Task.add (.el t) none false) ++ postTasks i ref)
  | .msg =>
    .ok (st, i.fields.map (fun f => Task.field f i.file) ++ [Task.oneofs k] ++
      i.rangeOpts.map (fun us => Task.opts us i.file) ++ postTasks i ref)
  | .enum => .ok (st, i.valueOpts.map (fun us => Task.opts us i.file) ++ postTasks i ref)
  | .svc => .ok (st, i.methods.map Task.svcMethod ++ postTasks i ref)
  | .method =>
    if st.isExcl (.el i.input) || st.isExcl (.el i.output) then .error .conflict
    else .ok (st, [Task.add (.el i.input) (some i.file) false, Task.add (.el i.output) (some i.file) false] ++ postTasks i ref)
  | .ext =>
    match i.fld with
    | none => .error .internal
    | some f =>
      match f.extendee with
      | none => .error .internal
      | some e =>
        if st.isExcl (.el e) then .ok (st.set k .excluded, [])
        -- (fix) the value type is looked at before the extendee is added
        else if !c.cfg.extendeeFirst && typeExcluded st f then .ok (st.set k .excluded, [])
        else .ok (st, [Task.add (.el e) (some i.file) implied, Task.extType k ref])

def newMode (implied : Bool) : Mode := if implied then .implicit else .explicit

def step (c : Ctx) (st : St) : Task → Except Err (St × List Task)
  | .add k ref implied =>
    match c.idx.find k with
    | none => .error .missing
    | some i =>
      match st.get k with
      | some .excluded => .ok (st, [])
      | some .explicit => .ok (st.addImport ref i.file, [])
      | some .implicit => .ok ((if implied then st else st.set k .explicit).addImport ref i.file, [])
      | some .enclosing => expand c (st.set k (newMode implied)) k ref implied i
      | none => expand c (st.set k (newMode implied)) k ref implied i
  | .field f file =>
    match f.ty with
    | none => .ok (st, [.opts f.opts file])
    | some t => if st.isExcl (.el t) then .ok (st, []) else .ok (st, [.add (.el t) (some file) false, .opts f.opts file])
  | .oneofs k =>
    match c.idx.find k with
    | none => .error .missing
    | some i => .ok (oneofsStep st i i.oneofs 0)
  | .svcMethod m =>
    if st.isExcl (.el m.input) || st.isExcl (.el m.output) then
      .ok (if c.cfg.svcMarksInput then st.set (.el m.input) .excluded else st, [])
    else .ok (st, [.add (.el m.id) none false])
  | .extType k ref =>
    match c.idx.find k with
    | none => .error .missing
    | some i =>
      match i.fld with
      | none => .error .internal
      | some f =>
        match f.ty with
        | none => .ok (st, postTasks i ref)
        | some t =>
          if st.isExcl (.el t) then .ok (st.set k .excluded, [])
          else .ok (st, .add (.el t) (some i.file) false :: postTasks i ref)
  | .imp fr to => .ok (st.addImport fr to, [])
  | .encl p file =>
    match p with
    | none => .ok (st, [])
    | some k =>
      match st.get k with
      | some _ => .ok (st, [])
      | none =>
        match c.idx.find k with
        | none => .error .missing
        | some i => .ok (st.set k .enclosing, [.opts i.opts file, .encl i.parent file])
  | .opts us file => if c.customOpts then .ok (st, us.map (fun u => Task.opt u file)) else .ok (st, [])
  | .opt u file =>
    let skip := match u.ext with
      | some e => st.isExcl (.el e)
      | none => false
    if skip then .ok (st, [])
    else .ok (st, u.anys.map (fun a => Task.add (.el a) (some file) false) ++
      (match u.ext with | some e => [Task.add (.el e) (some file) true] | none => []))

/-- The depth-first machine: pop a task, perform it, push its sub-tasks in front. -/
def run (c : Ctx) : Nat → St → List Task → Except Err St
  | _, st, [] => .ok st
  | 0, _, _ :: _ => .error .fuel
  | n + 1, st, t :: ts =>
    match step c st t with
    | .error e => .error e
    | .ok (st', new) => run c n st' (new ++ ts)

/-- excludeElement: the element and all its indexed descendants become excluded. -/
def exclKeys (st : St) : List Key → St
  | [] => st
  | k :: ks => exclKeys (if (st.get k).isNone then st.set k .excluded else st) ks

def filesOfPkg (img : Image) (p : Id) : List File := img.files.filter (fun f => f.pkg = p)

def isImportFile (img : Image) (fid : Id) : Bool :=
  match img.files.find? (fun f => f.id = fid) with
  | some f => f.isImport
  | none => false

def excludeType (img : Image) (idx : Index) (st : St) (n : Id) : Except Err St :=
  match idx.find (.el n) with
  | some i => .ok (exclKeys st (i.key :: i.desc))
  | none =>
    if img.pkgs.contains n then
      .ok ((filesOfPkg img n).foldl (fun st f =>
        match idx.find (.file f.id) with
        | some i => exclKeys st (i.key :: i.desc)
        | none => st) st)
    else .error .notFound

def foldlE {α β ε} (f : β → α → Except ε β) : β → List α → Except ε β
  | b, [] => .ok b
  | b, a :: as => match f b a with
    | .error e => .error e
    | .ok b' => foldlE f b' as

def includeFile (c : Ctx) (fuel : Nat) (st : St) (f : File) : Except Err St :=
  if st.isExcl (.file f.id) then .error .conflict else run c fuel st [.add (.file f.id) none false]

def extendeeExcluded (st : St) (i : Info) : Bool :=
  match i.fld with
  | some f => (match f.extendee with | some e => st.isExcl (.el e) | none => false)
  | none => false

/-- includeType's second check for an extension: the value type is excluded -/
def extTypeExcluded (st : St) (i : Info) : Bool :=
  match i.fld with
  | some f => f.extendee.isSome && typeExcluded st f
  | none => false

def includeType (c : Ctx) (img : Image) (o : Opts) (fuel : Nat) (st : St) (n : Id) : Except Err St :=
  match c.idx.find (.el n) with
  | some i =>
    if !o.allowImported && isImportFile img i.file then .error .isImport
    else if st.isExcl i.key then .error .conflict
    else if extendeeExcluded st i then .error .conflict
    -- (fix) … and so is an extension whose value type is excluded
    else if !c.cfg.silentExtDrop && extTypeExcluded st i then .error .conflict
    else run c fuel st [.add i.key none false]
  | none =>
    if !img.pkgs.contains n then .error .notFound
    else if !o.allowImported && (filesOfPkg img n).all (·.isImport) then .error .isImport
    else foldlE (includeFile c fuel) st (filesOfPkg img n)

def includeEverything (c : Ctx) (img : Image) (fuel : Nat) (st : St) : Except Err St :=
  foldlE (fun st f =>
    if f.isImport then .ok st
    else if st.isExcl (.file f.id) then .ok st
    else run c fuel st [.add (.file f.id) none false]) st img.files

def isExtOf (m : Key) (i : Info) : Bool :=
  match i.fld with
  | some f => (match f.extendee with | some e => Key.el e = m | none => false)
  | none => false

/-- addExtensions over a snapshot of the explicit messages. -/
def addExtensions (c : Ctx) (fuel : Nat) (st : St) : Except Err St :=
  let snapshot := c.idx.filter (fun i => i.kind = .msg && st.get i.key = some .explicit)
  foldlE (fun st m =>
    foldlE (fun st x => if st.isExcl x.key then .ok st else run c fuel st [.add x.key none false])
      st (c.idx.filter (isExtOf m.key))) st snapshot

def closure (cfg : Cfg) (img : Image) (o : Opts) (fuel : Nat) : Except Err St :=
  let idx := buildIndex img
  let c : Ctx := ⟨cfg, idx, o.customOpts⟩
  match foldlE (excludeType img idx) {} o.excludes with
  | .error e => .error e
  | .ok st =>
    match foldlE (includeType c img o fuel) st o.includes with
    | .error e => .error e
    | .ok st =>
      match (if o.includes.isEmpty then includeEverything c img fuel st else .ok st) with
      | .error e => .error e
      | .ok st => if o.knownExts then addExtensions c fuel st else .ok st

/-! ### Phase 2: rewriting the descriptors -/

inductive Act | moved (to : Nat) | deleted | noComment
deriving DecidableEq, Repr

abbrev Marks := List (List Nat × Act)

/-- transitiveClosure.hasType; `noInc` = `options.includeTypes == nil`. -/
def hasType (st : St) (noInc : Bool) (k : Key) : Bool :=
  match st.get k with
  | some .excluded => false
  | some _ => true
  | none => noInc

structure RCtx where
  st : St
  noInc : Bool
  methodIO : Bool := true   -- remapMethod also filters by request/response type (the fix of 9b)
  renumber : Bool := true   -- remapDescriptor rewrites `oneof_index` of the kept fields (the fix of 9d)

def RCtx.has (c : RCtx) (k : Key) : Bool := hasType c.st c.noInc k

/-- remapSlice for item types whose remap function only keeps or drops (plus nested marks). -/
def remapSlice {α β} (path : List Nat) (f : List Nat → α → Option β × Marks) : List α → Nat → Nat → List β × Marks
  | [], _, to => ([], if to = 0 then [(path, .deleted)] else [])
  | x :: xs, fr, to =>
    let p := path ++ [fr]
    match f p x with
    | (some y, ms) =>
      let r := remapSlice path f xs (fr + 1) (to + 1)
      (y :: r.1, ms ++ (if fr ≠ to then [(p, Act.moved to)] else []) ++ r.2)
    | (none, ms) =>
      let r := remapSlice path f xs (fr + 1) to
      (r.1, ms ++ [(p, Act.deleted)] ++ r.2)

def remapField (c : RCtx) (_ : List Nat) (f : Field) : Option Field × Marks :=
  if f.extendee.isSome && !c.has (.el f.id) then (none, [])
  else match f.ty with
    | some t => if c.has (.el t) then (some f, []) else (none, [])
    | none => (some f, [])

def remapEnum (c : RCtx) (_ : List Nat) (e : Enum) : Option Enum × Marks :=
  if c.has (.el e.id) then (some e, []) else (none, [])

def remapMethod (c : RCtx) (_ : List Nat) (m : Method) : Option Method × Marks :=
  if c.has (.el m.id) && (!c.methodIO || (c.has (.el m.input) && c.has (.el m.output))) then (some m, []) else (none, [])

def remapService (c : RCtx) (path : List Nat) (s : Service) : Option Service × Marks :=
  if !c.has (.el s.id) then (none, [])
  else
    let r := remapSlice (path ++ [2]) (remapMethod c) s.methods 0 0
    (some { s with methods := r.1 }, r.2)

/-- remapOneof gets the oneof's index through the path's last component. -/
def remapOneof (c : RCtx) (msg : Id) (path : List Nat) (o : Oneof) : Option Oneof × Marks :=
  if c.st.get (.oneof msg (path.getLast?.getD 0)) = some .excluded then (none, []) else (some o, [])

/-- remapDescriptor's `newOneofIndexes`: entry `n` is the number of oneofs before `n` that are kept
    (`idx` = index of the head, `next` = its new index). -/
def newOneofIndexes (st : St) (msg : Id) : Nat → Nat → Nat → List Nat
  | 0, _, _ => []
  | n + 1, idx, next =>
    next :: newOneofIndexes st msg n (idx + 1) (if st.get (.oneof msg idx) = some .excluded then next else next + 1)

/-- the wrapper around remapField in remapDescriptor: a kept field gets the new index of its oneof
    (an index outside the table is left alone) -/
def renumberOneof (tbl : List Nat) (f : Field) : Field :=
  match f.oneof with
  | none => f
  | some i => match tbl[i]? with
    | some j => { f with oneof := some j }
    | none => f

mutual
def remapMsg (c : RCtx) (path : List Nat) : Msg → Option Msg × Marks
  | .mk id fields oneofs exts nested enums rangeOpts reserved mapEntry opts =>
    if !c.has (.el id) then (none, [])
    else
      let re := remapSlice (path ++ [6]) (remapField c) exts 0 0
      let rn := remapMsgs c (path ++ [3]) nested 0 0
      let rm := remapSlice (path ++ [4]) (remapEnum c) enums 0 0
      if c.st.get (.el id) = some .enclosing then
        if !fields.isEmpty || !oneofs.isEmpty || !rangeOpts.isEmpty || reserved then
          (some (.mk id [] [] re.1 rn.1 rm.1 [] false mapEntry opts),
            [(path, Act.noComment), (path ++ [2], .deleted), (path ++ [8], .deleted), (path ++ [5], .deleted),
             (path ++ [9], .deleted), (path ++ [10], .deleted)] ++ re.2 ++ rn.2 ++ rm.2)
        else (some (.mk id fields oneofs re.1 rn.1 rm.1 rangeOpts reserved mapEntry opts), re.2 ++ rn.2 ++ rm.2)
      else
        let rf := remapSlice (path ++ [2]) (remapField c) fields 0 0
        let ro := remapSlice (path ++ [8]) (remapOneof c id) oneofs 0 0
        let fs := if c.renumber then rf.1.map (renumberOneof (newOneofIndexes c.st id oneofs.length 0 0)) else rf.1
        (some (.mk id fs ro.1 re.1 rn.1 rm.1 rangeOpts reserved mapEntry opts), rf.2 ++ ro.2 ++ re.2 ++ rn.2 ++ rm.2)
def remapMsgs (c : RCtx) (path : List Nat) : List Msg → Nat → Nat → List Msg × Marks
  | [], _, to => ([], if to = 0 then [(path, .deleted)] else [])
  | x :: xs, fr, to =>
    match remapMsg c (path ++ [fr]) x with
    | (some y, ms) =>
      let r := remapMsgs c path xs (fr + 1) (to + 1)
      (y :: r.1, ms ++ (if fr ≠ to then [(path ++ [fr], Act.moved to)] else []) ++ r.2)
    | (none, ms) =>
      let r := remapMsgs c path xs (fr + 1) to
      (r.1, ms ++ [(path ++ [fr], Act.deleted)] ++ r.2)
end

def insertSorted (x : Nat) : List Nat → List Nat
  | [] => [x]
  | y :: ys => if x ≤ y then x :: y :: ys else y :: insertSorted x ys

def sortNat (l : List Nat) : List Nat := l.foldr insertSorted []

/-- remapDependencies: kept dependencies in order, then the imports that were only reachable
    through a public import, sorted; public_dependency is always cleared. -/
def remapDeps (st : St) (f : File) : List Dep × Marks :=
  let required := (st.edges.filter (fun e => e.1 = f.id)).map (·.2)
  let r := remapSlice [3] (fun _ (d : Dep) => if required.contains d.file then (some (Dep.mk d.file false), []) else (none, [])) f.deps 0 0
  let extras := sortNat ((required.filter (fun x => !(f.deps.map (·.file)).contains x)).eraseDups)
  -- remapSlice also marks the whole list deleted when nothing is kept; the Go loop does not
  let marks := r.2.filter (fun m => m.1 ≠ [3])
  (r.1 ++ extras.map (fun x => Dep.mk x false), marks ++ [([10], Act.deleted)])

/-! #### the source-path trie, as the set of marks it stores -/

def hasNode (ms : Marks) (p : List Nat) : Bool := ms.any (fun m => p.isPrefixOf m.1)

def actAt (ms : Marks) (p : List Nat) : Option Act :=
  match ms.find? (fun m => m.1 = p && m.2 ≠ Act.noComment) with
  | some m => some m.2
  | none => none

def noCommentAt (ms : Marks) (p : List Nat) : Bool := ms.any (fun m => m.1 = p && m.2 = Act.noComment)

/-- sourcePathsRemapTrie.fix: `pre` is the path of the current trie node. -/
def fixPath (ms : Marks) : List Nat → List Nat → Option (List Nat × Bool)
  | _, [] => some ([], false)
  | pre, x :: rest =>
    let p := pre ++ [x]
    if !hasNode ms p then some (x :: rest, false)
    else match actAt ms p with
      | some .deleted => none
      | a =>
        let x' := match a with | some (.moved t) => t | _ => x
        match rest with
        | [] => some ([x'], noCommentAt ms p)
        | _ :: _ => match fixPath ms p rest with
          | some (r, nc) => some (x' :: r, nc)
          | none => none

def newPath (ms : Marks) (old : List Nat) : Option (List Nat × Bool) := fixPath ms [] old

def remapLocs (ms : Marks) (locs : List Loc) : List Loc :=
  locs.filterMap (fun l => match newPath ms l.path with
    | none => none
    | some (p, nc) => some ⟨p, if nc then 0 else l.tag⟩)

structure OFile where
  id : Id
  deps : List Id
  msgs : List Msg
  enums : List Enum
  svcs : List Service
  exts : List Field
  locs : List Loc
deriving Repr

def remapFile (c : RCtx) (f : File) : Option OFile :=
  if !c.has (.file f.id) then none
  else
    let rm := remapMsgs c [4] f.msgs 0 0
    let re := remapSlice [5] (remapEnum c) f.enums 0 0
    let rs := remapSlice [6] (remapService c) f.svcs 0 0
    let rx := remapSlice [7] (remapField c) f.exts 0 0
    let rd := remapDeps c.st f
    let marks := rm.2 ++ re.2 ++ rs.2 ++ rx.2 ++ rd.2
    some ⟨f.id, rd.1.map (·.file), rm.1, re.1, rs.1, rx.1, remapLocs marks f.locs⟩

def unfiltered (f : File) : OFile := ⟨f.id, f.deps.map (·.file), f.msgs, f.enums, f.svcs, f.exts, f.locs⟩

/-- The tail of filterImage: files not in `closure.imports` are dropped; a file that is filtered
    out although another kept file requires it is the syserror. -/
def rewrite (cfg : Cfg) (st : St) (noInc : Bool) (img : Image) : Except Err (List OFile) :=
  let c : RCtx := ⟨st, noInc, !cfg.svcMarksInput, !cfg.staleOneofIndex⟩
  -- `closure.imports[path]` exists when the file was the target of addImport *or* the source of an
  -- import edge (addImport creates `imports[fromPath]` as a side effect)
  let cand := img.files.filter (fun f => st.seen.contains f.id || st.edges.any (fun e => e.1 = f.id))
  if cand.any (fun f => !c.has (.file f.id) && st.edges.any (fun e => e.2 = f.id)) then .error .internal
  else
    let out := cand.filterMap (remapFile c)
    if out.isEmpty then
      -- bufimage.NewImage rejects an image without files
      if cfg.keepsInputWhenEmpty then .ok (img.files.map unfiltered) else .error .empty
    else .ok out

def defaultFuel (img : Image) : Nat :=
  let idx := buildIndex img
  -- every element is expanded at most once; an expansion pushes at most (children + 8) tasks and
  -- each option use at most (anys + 2)
  200 + 40 * idx.length + 8 * (idx.map (fun i => i.fields.length + i.types.length + i.methods.length)).sum

def filterWith (cfg : Cfg) (img : Image) (o : Opts) (fuel : Nat) : Except Err (List OFile) :=
  match closure cfg img o fuel with
  | .error e => .error e
  | .ok st => rewrite cfg st o.includes.isEmpty img

def filter (img : Image) (o : Opts) : Except Err (List OFile) := filterWith cfgFixed img o (defaultFuel img)
def filterOld (img : Image) (o : Opts) : Except Err (List OFile) := filterWith cfgOld img o (defaultFuel img)

/-! ### "links": what protodesc.NewFiles checks on the result -/

structure Present where
  id : Id
  file : Id
  mapEntry : Bool
  nFields : Nat
  extendable : Bool := false

mutual
def presentMsg (file : Id) : Msg → List Present
  | .mk id fields _ exts nested enums rangeOpts _ mapEntry _ =>
    ⟨id, file, mapEntry, fields.length, !rangeOpts.isEmpty⟩ :: (presentMsgs file nested ++ enums.map (fun e => ⟨e.id, file, false, 0, false⟩) ++
      exts.map (fun x => ⟨x.id, file, false, 0, false⟩))
def presentMsgs (file : Id) : List Msg → List Present
  | [] => []
  | m :: ms => presentMsg file m ++ presentMsgs file ms
end

def presentFile (f : OFile) : List Present :=
  presentMsgs f.id f.msgs ++ f.enums.map (fun e => ⟨e.id, f.id, false, 0, false⟩) ++
    (f.svcs.map (fun s => (⟨s.id, f.id, false, 0, false⟩ : Present) :: s.methods.map (fun m => ⟨m.id, f.id, false, 0, false⟩))).flatten ++
    f.exts.map (fun x => ⟨x.id, f.id, false, 0, false⟩)

def refOK (ps : List Present) (f : OFile) (t : Id) : Bool :=
  match ps.find? (fun p => p.id = t) with
  | some p => p.file = f.id || f.deps.contains p.file
  | none => false

def fieldOK (ps : List Present) (f : OFile) (nOneofs : Nat) (x : Field) : Bool :=
  (match x.ty with
    | some t => refOK ps f t && (match ps.find? (fun p => p.id = t) with
        | some p => !p.mapEntry || p.nFields = 2
        | none => false)
    | none => true) &&
  (match x.extendee with
    | some e => refOK ps f e && (match ps.find? (fun p => p.id = e) with
        | some p => p.extendable   -- an enclosing-only message has lost its extension ranges
        | none => false)
    | none => true) &&
  (match x.oneof with | some i => i < nOneofs | none => true)

mutual
def msgOK (ps : List Present) (f : OFile) : Msg → Bool
  | .mk _ fields oneofs exts nested _ _ _ _ _ =>
    fields.all (fieldOK ps f oneofs.length) && exts.all (fieldOK ps f 0) &&
      -- a oneof needs at least one member
      (List.range oneofs.length).all (fun i => fields.any (fun x => x.oneof = some i)) &&
      msgsOK ps f nested
def msgsOK (ps : List Present) (f : OFile) : List Msg → Bool
  | [] => true
  | m :: ms => msgOK ps f m && msgsOK ps f ms
end

def linksB (out : List OFile) : Bool :=
  let ps := (out.map presentFile).flatten
  out.all (fun f =>
    f.deps.all (fun d => out.any (fun g => g.id = d)) &&
    msgsOK ps f f.msgs && f.exts.all (fieldOK ps f 0) &&
    f.svcs.all (fun s => s.methods.all (fun m => refOK ps f m.input && refOK ps f m.output)))

end BufModel.Filter
