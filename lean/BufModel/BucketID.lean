import BufModel.Path
import BufModel.Graph
/-
  BufModel.BucketID — the BucketIDs (= OpaqueIDs of unnamed modules, keys of
  `bucketIDToModuleConfig`) bufworkspace gives the local modules of a workspace, as coded in
  private/buf/bufworkspace/workspace_targeting.go:

  * `bucketIDsForDirPaths moduleDirPaths firstIDHasSuffix` — one pass over the module DirPaths with
    a running count per DirPath (`dirPathToRunningCount`): the k-th module at DirPath p gets
    `fmt.Sprintf("%s-%d", p, k)`, except that the first one keeps the plain DirPath unless
    `firstIDHasSuffix`;
  * `bucketIDsForModuleConfigsV2` — first pass without the suffix on first occurrences; if
    `slicesext.Duplicates` finds any duplicate among the ids (a directory literally named `foo-2`
    next to two modules at `foo`), a second pass that suffixes EVERY DirPath;
  * the order of the module configs the function sees: `bufconfig.NewBufYAMLFile` normalises every
    `path:` and `sort.SliceStable`s the configs by DirPath (`v2Sorted`);
  * the OpaqueID of a local module: its `name:` if it has one, else its BucketID
    (`bufmodule.Module.OpaqueID`);
  * v1: the BucketID of a module is its directory as listed in buf.work.yaml, whose
    `validateBufWorkYAMLDirPaths` rejects a directory listed twice (after normalisation), "."
    and a directory containing another one (`v1Resolve`).

  `seededIDsV2` is the regressed scheme of seed C10-m8 (the second pass keeps the plain DirPath of
  every DirPath that is not repeated), kept for the recorded counterexample.

  Strings are `List Char`; decimal rendering is `Nat.toDigits 10` (`strconv`/`%d` on a positive int).
-/
namespace BufModel.BucketID
open BufModel.Path BufModel.Graph

/-- `%d` of a non-negative int. -/
def dec (n : Nat) : Str := Nat.toDigits 10 n

/-- `dirPathToRunningCount[p]` after the DirPaths `seen` have been processed. -/
def runningCount (p : Str) : List Str → Nat
  | [] => 0
  | q :: qs => (if q = p then 1 else 0) + runningCount p qs

/-- `fmt.Sprintf("%s-%d", p, k)`. -/
def suffixed (p : Str) (k : Nat) : Str := p ++ '-' :: dec k

/-- the bucketID of the `index`-th (1-based) module at DirPath `p`. -/
def bucketIDAt (firstIDHasSuffix : Bool) (p : Str) (index : Nat) : Str :=
  if index = 1 ∧ firstIDHasSuffix = false then p else suffixed p index

/-- the loop of `bucketIDsForDirPaths`; `seen` = the DirPaths already processed (what the
    running-count map has counted). -/
def idsFrom (f : Bool) (seen : List Str) : List Str → List Str
  | [] => []
  | p :: ps => bucketIDAt f p (runningCount p seen + 1) :: idsFrom f (p :: seen) ps

/-- `bucketIDsForDirPaths`. -/
def bucketIDsForDirPaths (paths : List Str) (firstIDHasSuffix : Bool) : List Str :=
  idsFrom firstIDHasSuffix [] paths

/-- `len(slicesext.Duplicates(ids)) != 0`. -/
def hasDuplicates : List Str → Bool
  | [] => false
  | x :: xs => decide (x ∈ xs) || hasDuplicates xs

/-- `bucketIDsForModuleConfigsV2` on the DirPaths of the module configs. -/
def bucketIDsV2 (paths : List Str) : List Str :=
  let ids := bucketIDsForDirPaths paths false
  if hasDuplicates ids then bucketIDsForDirPaths paths true else ids

/-! ### the regressed scheme of seed C10-m8 -/

/-- seed C10-m8: the plain DirPath is kept whenever the DirPath occurs once in the whole list. -/
def seededIDAt (f : Bool) (total : Nat) (p : Str) (index : Nat) : Str :=
  if index = 1 ∧ (f = false ∨ total = 1) then p else suffixed p index

def seededIdsFrom (f : Bool) (all : List Str) (seen : List Str) : List Str → List Str
  | [] => []
  | p :: ps => seededIDAt f (runningCount p all) p (runningCount p seen + 1) :: seededIdsFrom f all (p :: seen) ps

def seededIDsV2 (paths : List Str) : List Str :=
  let ids := seededIdsFrom false paths [] paths
  if hasDuplicates ids then seededIdsFrom true paths [] paths else ids

/-! ### the workspace level: buf.yaml v2 -/

/-- one `modules:` entry of a v2 buf.yaml: the `path:` as written and the `name:`. -/
structure Entry where
  raw : Str
  name : Option Str := none
  deriving DecidableEq, Repr

/-- strict byte-wise order on Go strings. -/
def strLt (a b : Str) : Bool := !strLe b a

/-- insertion keeping `x` BEFORE the elements it does not strictly follow: with `sortStable`
    below, elements with equal keys keep their relative order (`sort.SliceStable`). -/
def insertStable {β : Type} (key : β → Str) (x : β) : List β → List β
  | [] => [x]
  | y :: ys => if strLt (key y) (key x) then y :: insertStable key x ys else x :: y :: ys

def sortStable {β : Type} (key : β → Str) : List β → List β
  | [] => []
  | x :: xs => insertStable key x (sortStable key xs)

/-- `path:` of an external module: "" means ".", then `normalpath.NormalizeAndValidate`. -/
def entryDirPath (raw : Str) : Except PErr Str :=
  normalizeAndValidate (if raw = [] then dot else raw)

def mapE {α β ε : Type} (f : α → Except ε β) : List α → Except ε (List β)
  | [] => .ok []
  | x :: xs =>
    match f x with
    | .error e => .error e
    | .ok y => match mapE f xs with
      | .error e => .error e
      | .ok ys => .ok (y :: ys)

/-- position in buf.yaml, DirPath, name — in the order `BufYAMLFile.ModuleConfigs()` returns
    the configs (stable sort by DirPath). -/
def v2Sorted (dirs : List (Str × Option Str)) : List (Nat × Str × Option Str) :=
  sortStable (fun x => x.2.1) (dirs.zipIdx.map (fun x => (x.2, x.1.1, x.1.2)))

def insertIdx {β : Type} (x : Nat × β) : List (Nat × β) → List (Nat × β)
  | [] => [x]
  | y :: ys => if y.1 < x.1 then y :: insertIdx x ys else x :: y :: ys

def sortIdx {β : Type} : List (Nat × β) → List (Nat × β)
  | [] => []
  | x :: xs => insertIdx x (sortIdx xs)

/-- `Module.OpaqueID()` of the local modules: the `name:` if there is one, else the BucketID. -/
def opaqueIDs : List Str → List (Option Str) → List Str
  | i :: ids, n :: ns => n.getD i :: opaqueIDs ids ns
  | _, _ => []

/-- (BucketID, OpaqueID) of every module in the order of `BufYAMLFile.ModuleConfigs()`. -/
def v2SortedIDs (dirs : List (Str × Option Str)) : List (Str × Str) :=
  let sorted := v2Sorted dirs
  let ids := bucketIDsV2 (sorted.map (fun x => x.2.1))
  ids.zip (opaqueIDs ids (sorted.map (fun x => x.2.2)))

/-- (BucketID, OpaqueID) of every module, in the order of the entries of buf.yaml. -/
def v2IDs (dirs : List (Str × Option Str)) : List (Str × Str) :=
  (sortIdx (((v2Sorted dirs).map (fun x => x.1)).zip (v2SortedIDs dirs))).map (fun x => x.2)

def v2Resolve (entries : List Entry) : Except PErr (List (Str × Str)) :=
  match mapE (fun e => entryDirPath e.raw) entries with
  | .error e => .error e
  | .ok ds => .ok (v2IDs (ds.zip (entries.map (·.name))))

/-! ### the workspace level: buf.work.yaml (v1) -/

inductive WErr where
  | empty       -- "directories is empty"
  | invalid     -- "directory %q is invalid"
  | duplicate   -- "directory %q is listed more than once"
  | dot         -- "." listed
  | contains    -- "directory %q contains directory %q"
  deriving DecidableEq, Repr

def WErr.tag : WErr → String
  | .empty => "empty"
  | .invalid => "invalid"
  | .duplicate => "duplicate"
  | .dot => "dot"
  | .contains => "contains"

/-- the first loop of `validateBufWorkYAMLDirPaths`: `seen` = keys of normalizedDirPathToDirPath. -/
def v1Collect (seen : List Str) : List Str → Except WErr (List Str)
  | [] => .ok seen
  | d :: ds =>
    match normalizeAndValidate d with
    | .error _ => .error .invalid
    | .ok n =>
      if n ∈ seen then .error .duplicate
      else if n = dot then .error .dot
      else v1Collect (n :: seen) ds

/-- `normalpath.ContainsPath dir path Relative`. -/
def containsPath (d p : Str) : Bool := d ≠ p && equalsOrContainsPath d p

/-- some directory contains another one. -/
def anyContains (l : List Str) : Bool :=
  l.any (fun a => l.any (fun b => containsPath a b))

/-- the BucketIDs (= sorted normalised directories) of a buf.work.yaml, or the error. -/
def v1Resolve (dirs : List Str) : Except WErr (List Str) :=
  if dirs = [] then .error .empty else
  match v1Collect [] dirs with
  | .error e => .error e
  | .ok seen =>
    let sorted := sortPaths seen
    if anyContains sorted then .error .contains else .ok sorted

end BufModel.BucketID
