import BufModel.Path
/-
  BufModel.OutFile — what an OUTPUT PATH holds after a history of writes.

  `buf build -o FILE`, `buf convert --to FILE`, `buf alpha protoc -o FILE` (controller.PutImage /
  PutMessage -> buffetch.Writer.PutMessageFile -> internal writer
  `putFileWriteCloserPotentiallyUncompressed`) open a local output with `os.Create(path)`:
  O_RDWR|O_CREATE|O_TRUNC, following symbolic links, and write the (possibly compressed) encoding
  of the image from offset 0.  The model is the file-system fragment that call can see:

    * a flat name space of path ids; a name holds a regular file (its bytes), a symbolic link to
      another name, or a directory;
    * `resolve` follows links (at most `maxLinks`, ELOOP beyond; a missing name or a non-link ends
      the walk - a dangling link resolves to the missing target, which O_CREATE then creates);
    * `create` = os.Create + Write + Close: the resolved name holds EXACTLY the new bytes;
      a directory (EISDIR) or a link loop (ELOOP) is an error and changes nothing;
    * `createNoTrunc` = the same open WITHOUT O_TRUNC (the seeded shape): the old bytes beyond the
      new length stay.

  Bytes are abstract (`α`): the driver instantiates them with (payload id, offset) so that a line
  can say where every byte of the final file came from.  Core Lean only.
-/
namespace BufModel.OutFile

abbrev Name := Nat

inductive Node (α : Type) where
  | file (c : List α)
  | link (t : Name)
  | dir
  deriving Repr, DecidableEq

abbrev FS (α : Type) := List (Name × Node α)

inductive Err where
  | eloop | eisdir | enoent | eexist
  deriving Repr, DecidableEq

def Err.tag : Err → String
  | .eloop => "eloop" | .eisdir => "eisdir" | .enoent => "enoent" | .eexist => "eexist"

variable {α : Type}

def lookup : FS α → Name → Option (Node α)
  | [], _ => none
  | (q, n) :: fs, p => if q = p then some n else lookup fs p

/-- replace the node of `p`, or add it -/
def setNode : FS α → Name → Node α → FS α
  | [], p, n => [(p, n)]
  | (q, m) :: fs, p, n => if q = p then (q, n) :: fs else (q, m) :: setNode fs p n

def remove : FS α → Name → FS α
  | [], _ => []
  | (q, m) :: fs, p => if q = p then fs else (q, m) :: remove fs p

/-- the kernel's limit on nested symbolic links -/
def maxLinks : Nat := 40

/-- follow symbolic links; the answer is the first name that is not a link (it may be missing) -/
def resolve (fs : FS α) : Nat → Name → Except Err Name
  | 0, _ => .error .eloop
  | fuel + 1, p =>
    match lookup fs p with
    | some (.link t) => resolve fs fuel t
    | _ => .ok p

/-- the bytes a write leaves in a file that held `old`: with O_TRUNC, and without -/
def writeTrunc (_old new : List α) : List α := new
def writeNoTrunc (old new : List α) : List α := new ++ old.drop new.length

def oldBytes (fs : FS α) (q : Name) : List α :=
  match lookup fs q with
  | some (.file c) => c
  | _ => []

/-- `os.Create(p)`; Write(c); Close — generalised over what the open does with the old bytes -/
def createWith (wr : List α → List α → List α) (fs : FS α) (p : Name) (c : List α) : Except Err (FS α) :=
  match resolve fs (maxLinks + 1) p with
  | .error e => .error e
  | .ok q =>
    match lookup fs q with
    | some .dir => .error .eisdir
    | _ => .ok (setNode fs q (.file (wr (oldBytes fs q) c)))

/-- as coded -/
def create (fs : FS α) (p : Name) (c : List α) : Except Err (FS α) := createWith writeTrunc fs p c
/-- the seeded shape: `os.OpenFile(path, O_WRONLY|O_CREATE, 0666)` -/
def createNoTrunc (fs : FS α) (p : Name) (c : List α) : Except Err (FS α) := createWith writeNoTrunc fs p c

/-- reading the path back (open follows links the same way) -/
def readBack (fs : FS α) (p : Name) : Except Err (List α) :=
  match resolve fs (maxLinks + 1) p with
  | .error e => .error e
  | .ok q =>
    match lookup fs q with
    | some (.file c) => .ok c
    | some .dir => .error .eisdir
    | _ => .error .enoent

/-- one step of a history.  `put` is buf writing an output; the others are the surroundings
    (the harness itself): a file that already exists, a symbolic link, a directory, a removal. -/
inductive Op (α : Type) where
  | put (p : Name) (c : List α)
  | pre (p : Name) (c : List α)      -- os.WriteFile by somebody else: same semantics as `create`
  | ln (p t : Name)                  -- os.Symlink(t, p): EEXIST when p exists
  | mkdir (p : Name)
  | rm (p : Name)

/-- a failing step changes nothing (the open fails before a byte is written) -/
def stepWith (wr : List α → List α → List α) (fs : FS α) : Op α → FS α × Option Err
  | .put p c => match createWith wr fs p c with
    | .ok fs' => (fs', none)
    | .error e => (fs, some e)
  | .pre p c => match createWith writeTrunc fs p c with
    | .ok fs' => (fs', none)
    | .error e => (fs, some e)
  | .ln p t => match lookup fs p with
    | none => (setNode fs p (.link t), none)
    | some _ => (fs, some .eexist)
  | .mkdir p => match lookup fs p with
    | none => (setNode fs p .dir, none)
    | some _ => (fs, some .eexist)
  | .rm p => match lookup fs p with
    | none => (fs, some .enoent)
    | some _ => (remove fs p, none)

def runWith (wr : List α → List α → List α) : FS α → List (Op α) → FS α × List (Option Err)
  | fs, [] => (fs, [])
  | fs, op :: ops =>
    let (fs', e) := stepWith wr fs op
    let (fs'', es) := runWith wr fs' ops
    (fs'', e :: es)

def run (fs : FS α) (ops : List (Op α)) : FS α × List (Option Err) := runWith writeTrunc fs ops
def runNoTrunc (fs : FS α) (ops : List (Op α)) : FS α × List (Option Err) := runWith writeNoTrunc fs ops

/-! ### what the driver prints: where the bytes of a file come from -/

/-- payload `id` of length `n`: byte k is (id, k) -/
def payload (id n : Nat) : List (Nat × Nat) := (List.range n).map (fun k => (id, k))

/-- maximal runs (id, from offset, to offset exclusive) of consecutive bytes of one payload -/
def segments : List (Nat × Nat) → List (Nat × Nat × Nat)
  | [] => []
  | (i, k) :: rest =>
    match segments rest with
    | (j, lo, hi) :: segs => if j = i ∧ lo = k + 1 then (i, k, hi) :: segs else (i, k, k + 1) :: (j, lo, hi) :: segs
    | [] => [(i, k, k + 1)]

end BufModel.OutFile
