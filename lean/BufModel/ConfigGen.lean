/-
  BufModel.ConfigGen — executable model of reading and writing buf.gen.yaml
  (private/bufpkg/bufconfig: buf_gen_yaml_file.go, generate_config.go, generate_plugin_config.go,
  generate_managed_config.go, generate_managed_option.go, generate_type_config.go,
  input_config.go), at the STRUCTURED level: YAML text <-> external structs is the yaml library
  and is not modelled.  `readGen` is readBufGenYAMLFile after unmarshalling (none = any error;
  errors are not distinguished, so the order of validations is immaterial), `writeGen` is
  writeBufGenYAMLFile before marshalling — it always produces an external **v2** document.

  Library parameters (`Env`, all proofs hold for every Env; the driver builds it from tables the
  harness computed with the real library on the strings of the document):
    remoteHost     bufremotepluginref: PluginIdentityForString / PluginReferenceForString —
                   `some host` iff the string is a plugin identity or reference
                   (= IsPluginReferenceOrIdentity), host = its remote
    validFullName  bufparse.ParseFullName succeeds
    validPath      bufconfig.validatePath: normalpath.NormalizeAndValidate(p) = p
    lookPath       exec.LookPath finds the binary (or returns exec.ErrDot)
  Small faithful tables kept here: file/field option names, value kinds per option, optimize
  modes, JS types, ProtocProxyPluginNames, strategies, allowed input options per input type.
  strings.ToLower / TrimSpace are modelled on ASCII (plus U+0085/U+00A0 for TrimSpace); option
  names with other non-ASCII letters/spaces are outside the modelled domain.
  uint32 / int ranges of the YAML decoder are outside (Nat / Int here).
-/
namespace BufModel.ConfigGen

abbrev Str := List Char

structure Env where
  remoteHost : Str → Option Str
  validFullName : Str → Bool
  validPath : Str → Bool
  lookPath : Str → Bool

/-! ## `any` values of the external structs -/

/-- A YAML `any` that should be a string or a list of strings (opt, path, local, protoc_path). -/
inductive AnyStrs where
  | nil | str (s : Str) | list (l : List Str) | bad
  deriving DecidableEq, Repr, Inhabited

/-- encoding.InterfaceSliceOrStringToStringSlice -/
def AnyStrs.toStrs : AnyStrs → Option (List Str)
  | .nil => some []
  | .str s => some [s]
  | .list l => some l
  | .bad => none

def AnyStrs.isNil : AnyStrs → Bool
  | .nil => true
  | _ => false

/-- The writer's "one string, or a list when more than one, or absent when none". -/
def fromStrs : List Str → AnyStrs
  | [] => .nil
  | [s] => .str s
  | a :: b :: l => .list (a :: b :: l)

/-- A YAML `any` override value. -/
inductive ExtVal where
  | nil | str (s : Str) | bool (b : Bool) | bad
  deriving DecidableEq, Repr, Inhabited

/-! ## Internal configuration -/

inductive PluginType where
  | remote | local_ | protocBuiltin | localOrProtocBuiltin
  deriving DecidableEq, Repr, Inhabited

inductive Strategy where
  | directory | all
  deriving DecidableEq, Repr, Inhabited

structure Plugin where
  type : PluginType
  name : Str
  out : Str
  opts : List Str
  includeImports : Bool
  includeWKT : Bool
  includeTypes : List Str
  excludeTypes : List Str
  strategy : Option Strategy
  path : List Str
  protocPath : List Str
  remoteHost : Str
  revision : Int
  deriving DecidableEq, Repr, Inhabited

inductive FileOption where
  | javaPackage | javaPackagePrefix | javaPackageSuffix | javaOuterClassname
  | javaMultipleFiles | javaStringCheckUtf8 | optimizeFor | goPackage | goPackagePrefix
  | ccEnableArenas | objcClassPrefix | csharpNamespace | csharpNamespacePrefix
  | phpNamespace | phpMetadataNamespace | phpMetadataNamespaceSuffix | rubyPackage
  | rubyPackageSuffix
  deriving DecidableEq, Repr, Inhabited

inductive FieldOption where
  | jsType
  deriving DecidableEq, Repr, Inhabited

/-- A parsed override value: string, bool, FileOptions.OptimizeMode or FieldOptions.JSType
    (the enums are kept by their proto name, which is what `%v` and the writer print). -/
inductive Val where
  | str (s : Str) | bool (b : Bool) | optMode (name : Str) | jsType (name : Str)
  deriving DecidableEq, Repr, Inhabited

structure Disable where
  path : Str
  module : Str
  field : Str
  fileOption : Option FileOption
  fieldOption : Option FieldOption
  deriving DecidableEq, Repr, Inhabited

structure Override where
  path : Str
  module : Str
  field : Str
  fileOption : Option FileOption
  fieldOption : Option FieldOption
  value : Val
  deriving DecidableEq, Repr, Inhabited

structure Managed where
  enabled : Bool
  disables : List Disable
  overrides : List Override
  deriving DecidableEq, Repr, Inhabited

inductive InputType where
  | module | directory | gitRepo | protoFile | tarball | zipArchive
  | binaryImage | jsonImage | textImage | yamlImage
  deriving DecidableEq, Repr, Inhabited

structure Input where
  type : InputType
  location : Str
  compression : Str
  stripComponents : Nat
  subDir : Str
  branch : Str
  commitOrTag : Str
  ref : Str
  depth : Option Nat
  recurseSubmodules : Bool
  includePackageFiles : Bool
  includeTypes : List Str
  excludeTypes : List Str
  targetPaths : List Str
  excludePaths : List Str
  deriving DecidableEq, Repr, Inhabited

/-- What a BufGenYAMLFile exposes: GenerateConfig (clean, plugins, managed, type config — nil is
    the empty include list, newGenerateTypeConfig) and InputConfigs.  FileVersion is not part
    of the configuration (the writer always writes v2). -/
structure GenFile where
  clean : Bool
  plugins : List Plugin
  managed : Managed
  typeInclude : List Str
  inputs : List Input
  deriving DecidableEq, Repr, Inhabited

/-! ## External documents -/

structure ExtPluginV1Beta1 where
  name : Str
  out : Str
  opt : AnyStrs
  path : Str
  strategy : Str
  deriving DecidableEq, Repr, Inhabited

structure ExtOptionsV1Beta1 where
  ccEnableArenas : Option Bool
  javaMultipleFiles : Option Bool
  optimizeFor : Str
  deriving DecidableEq, Repr, Inhabited

structure ExtGenV1Beta1 where
  managed : Bool
  plugins : List ExtPluginV1Beta1
  options : ExtOptionsV1Beta1
  deriving DecidableEq, Repr, Inhabited

structure ExtPluginV1 where
  plugin : Str
  name : Str
  out : Str
  revision : Int
  opt : AnyStrs
  path : AnyStrs
  protocPath : AnyStrs
  strategy : Str
  deriving DecidableEq, Repr, Inhabited

/-- default / except / override of a v1 managed sub-section; `override` is a Go map given as an
    association list (the reader iterates it in sorted key order).  csharp_namespace and
    ruby_package have no `default` (it is ignored for them). -/
structure ExtPrefixV1 where
  default : Str
  except : List Str
  override : List (Str × Str)
  deriving DecidableEq, Repr, Inhabited

structure ExtManagedV1 where
  enabled : Bool
  ccEnableArenas : Option Bool
  javaMultipleFiles : Option Bool
  javaStringCheckUtf8 : Option Bool
  javaPackagePrefix : ExtPrefixV1
  csharpNamespace : ExtPrefixV1
  optimizeFor : ExtPrefixV1
  goPackagePrefix : ExtPrefixV1
  objcClassPrefix : ExtPrefixV1
  rubyPackage : ExtPrefixV1
  override : List (Str × List (Str × Str))
  deriving DecidableEq, Repr, Inhabited

structure ExtGenV1 where
  plugins : List ExtPluginV1
  managed : ExtManagedV1
  typesInclude : List Str
  deriving DecidableEq, Repr, Inhabited

structure ExtPluginV2 where
  remote : Option Str
  revision : Option Int
  local_ : AnyStrs
  protocBuiltin : Option Str
  protocPath : AnyStrs
  out : Str
  opt : AnyStrs
  includeImports : Bool
  includeWKT : Bool
  strategy : Option Str
  types : List Str
  excludeTypes : List Str
  deriving DecidableEq, Repr, Inhabited

structure ExtDisableV2 where
  fileOption : Str
  fieldOption : Str
  module : Str
  path : Str
  field : Str
  deriving DecidableEq, Repr, Inhabited

structure ExtOverrideV2 where
  fileOption : Str
  fieldOption : Str
  module : Str
  path : Str
  field : Str
  value : ExtVal
  deriving DecidableEq, Repr, Inhabited

structure ExtManagedV2 where
  enabled : Bool
  disable : List ExtDisableV2
  override : List ExtOverrideV2
  deriving DecidableEq, Repr, Inhabited

structure ExtInputV2 where
  module : Option Str
  directory : Option Str
  protoFile : Option Str
  tarball : Option Str
  zipArchive : Option Str
  binaryImage : Option Str
  jsonImage : Option Str
  textImage : Option Str
  yamlImage : Option Str
  gitRepo : Option Str
  types : List Str
  excludeTypes : List Str
  targetPaths : List Str
  excludePaths : List Str
  compression : Option Str
  stripComponents : Option Nat
  subdir : Option Str
  branch : Option Str
  commit : Option Str
  tag : Option Str
  ref : Option Str
  depth : Option Nat
  recurseSubmodules : Option Bool
  includePackageFiles : Option Bool
  deriving DecidableEq, Repr, Inhabited

structure ExtGenV2 where
  clean : Bool
  managed : ExtManagedV2
  plugins : List ExtPluginV2
  inputs : List ExtInputV2
  deriving DecidableEq, Repr, Inhabited

inductive ExtGen where
  | v1beta1 (d : ExtGenV1Beta1)
  | v1 (d : ExtGenV1)
  | v2 (d : ExtGenV2)
  deriving DecidableEq, Repr, Inhabited

/-! ## Small tables -/

def FileOption.name : FileOption → Str
  | .javaPackage => "java_package".toList
  | .javaPackagePrefix => "java_package_prefix".toList
  | .javaPackageSuffix => "java_package_suffix".toList
  | .javaOuterClassname => "java_outer_classname".toList
  | .javaMultipleFiles => "java_multiple_files".toList
  | .javaStringCheckUtf8 => "java_string_check_utf8".toList
  | .optimizeFor => "optimize_for".toList
  | .goPackage => "go_package".toList
  | .goPackagePrefix => "go_package_prefix".toList
  | .ccEnableArenas => "cc_enable_arenas".toList
  | .objcClassPrefix => "objc_class_prefix".toList
  | .csharpNamespace => "csharp_namespace".toList
  | .csharpNamespacePrefix => "csharp_namespace_prefix".toList
  | .phpNamespace => "php_namespace".toList
  | .phpMetadataNamespace => "php_metadata_namespace".toList
  | .phpMetadataNamespaceSuffix => "php_metadata_namespace_suffix".toList
  | .rubyPackage => "ruby_package".toList
  | .rubyPackageSuffix => "ruby_package_suffix".toList

def allFileOptions : List FileOption :=
  [.javaPackage, .javaPackagePrefix, .javaPackageSuffix, .javaOuterClassname,
   .javaMultipleFiles, .javaStringCheckUtf8, .optimizeFor, .goPackage, .goPackagePrefix,
   .ccEnableArenas, .objcClassPrefix, .csharpNamespace, .csharpNamespacePrefix,
   .phpNamespace, .phpMetadataNamespace, .phpMetadataNamespaceSuffix, .rubyPackage,
   .rubyPackageSuffix]

/-- The Go constant (iota order), used by the driver's canonical output. -/
def FileOption.code : FileOption → Nat
  | .javaPackage => 1 | .javaPackagePrefix => 2 | .javaPackageSuffix => 3
  | .javaOuterClassname => 4 | .javaMultipleFiles => 5 | .javaStringCheckUtf8 => 6
  | .optimizeFor => 7 | .goPackage => 8 | .goPackagePrefix => 9 | .ccEnableArenas => 10
  | .objcClassPrefix => 11 | .csharpNamespace => 12 | .csharpNamespacePrefix => 13
  | .phpNamespace => 14 | .phpMetadataNamespace => 15 | .phpMetadataNamespaceSuffix => 16
  | .rubyPackage => 17 | .rubyPackageSuffix => 18

def FieldOption.name : FieldOption → Str
  | .jsType => "jstype".toList

inductive ValKind where
  | str | bool | optMode
  deriving DecidableEq, Repr

/-- fileOptionToParseOverrideValueFunc -/
def FileOption.kind : FileOption → ValKind
  | .javaMultipleFiles | .javaStringCheckUtf8 | .ccEnableArenas => .bool
  | .optimizeFor => .optMode
  | _ => .str

/-- descriptorpb.FileOptions_OptimizeMode_value -/
def optModes : List Str := ["SPEED".toList, "CODE_SIZE".toList, "LITE_RUNTIME".toList]
/-- descriptorpb.FieldOptions_JSType_value -/
def jsTypes : List Str := ["JS_NORMAL".toList, "JS_STRING".toList, "JS_NUMBER".toList]

/-- ProtocProxyPluginNames -/
def protocProxyPluginNames : List Str :=
  ["cpp".toList, "csharp".toList, "java".toList, "js".toList, "objc".toList, "php".toList,
   "python".toList, "pyi".toList, "ruby".toList, "kotlin".toList, "rust".toList]

def Strategy.name : Strategy → Str
  | .directory => "directory".toList
  | .all => "all".toList

/-- parseStrategy: none = error, some none = unset. -/
def parseStrategy (s : Str) : Option (Option Strategy) :=
  if s = [] then some none
  else if s = "directory".toList then some (some .directory)
  else if s = "all".toList then some (some .all)
  else none

/-! ## strings helpers (ASCII models of strings.ToLower / strings.TrimSpace / strings.Join) -/

def lowerChar (c : Char) : Char :=
  if 'A' ≤ c ∧ c ≤ 'Z' then Char.ofNat (c.toNat + 32) else c

def toLower (s : Str) : Str := s.map lowerChar

def isSpace (c : Char) : Bool :=
  c = ' ' || c = '\t' || c = '\n' || c = '\r' || c.toNat = 11 || c.toNat = 12
    || c.toNat = 0x85 || c.toNat = 0xA0

def trimSpace (s : Str) : Str :=
  ((s.dropWhile isSpace).reverse.dropWhile isSpace).reverse

def joinWith (sep : Str) : List Str → Str
  | [] => []
  | [s] => s
  | s :: rest => s ++ sep ++ joinWith sep rest

def joinSp (l : List Str) : Str := joinWith [' '] l

/-- stringToFileOption lookup. -/
def lookupFileOption (s : Str) : Option FileOption :=
  allFileOptions.find? (fun f => f.name = s)

/-- parseFileOption -/
def parseFileOption (s : Str) : Option FileOption :=
  lookupFileOption (toLower (trimSpace s))

/-- parseFieldOption -/
def parseFieldOption (s : Str) : Option FieldOption :=
  if toLower (trimSpace s) = FieldOption.name .jsType then some .jsType else none

/-- strconv.ParseBool -/
def parseBool (s : Str) : Option Bool :=
  if s ∈ ["1".toList, "t".toList, "T".toList, "TRUE".toList, "true".toList, "True".toList] then some true
  else if s ∈ ["0".toList, "f".toList, "F".toList, "FALSE".toList, "false".toList, "False".toList] then some false
  else none

/-- Go string comparison (bytewise on UTF-8 = by code point). -/
def strLt : Str → Str → Bool
  | [], [] => false
  | [], _ :: _ => true
  | _ :: _, [] => false
  | a :: as, b :: bs => if a.toNat < b.toNat then true else if b.toNat < a.toNat then false else strLt as bs

def insertByKey {α : Type} (x : Str × α) : List (Str × α) → List (Str × α)
  | [] => [x]
  | y :: ys => if strLt x.1 y.1 then x :: y :: ys else y :: insertByKey x ys

/-- slicesext.MapKeysToSortedSlice + lookup: the entries of a Go map in key order. -/
def sortByKey {α : Type} (l : List (Str × α)) : List (Str × α) :=
  l.foldr insertByKey []

/-! ## Plugin configs -/

/-- newRemoteGeneratePluginConfig -/
def mkRemote (env : Env) (name out : Str) (opt : List Str) (ii iw : Bool) (it et : List Str)
    (revision : Int) : Option Plugin :=
  if iw && !ii then none else
  match env.remoteHost name with
  | none => none
  | some host =>
    if revision < 0 ∨ revision > 2147483647 then none else
    some { type := .remote, name := name, out := out, opts := opt, includeImports := ii,
           includeWKT := iw, includeTypes := it, excludeTypes := et, strategy := none,
           path := [], protocPath := [], remoteHost := host, revision := revision }

/-- newLocalOrProtocBuiltinGeneratePluginConfig -/
def mkLocalOrProtocBuiltin (name out : Str) (opt : List Str) (ii iw : Bool) (it et : List Str)
    (strategy : Option Strategy) : Option Plugin :=
  if iw && !ii then none else
  some { type := .localOrProtocBuiltin, name := name, out := out, opts := opt,
         includeImports := ii, includeWKT := iw, includeTypes := it, excludeTypes := et,
         strategy := strategy, path := [], protocPath := [], remoteHost := [], revision := 0 }

/-- newLocalGeneratePluginConfig -/
def mkLocal (name out : Str) (opt : List Str) (ii iw : Bool) (it et : List Str)
    (strategy : Option Strategy) (path : List Str) : Option Plugin :=
  if path = [] then none else
  if iw && !ii then none else
  some { type := .local_, name := name, out := out, opts := opt, includeImports := ii,
         includeWKT := iw, includeTypes := it, excludeTypes := et, strategy := strategy,
         path := path, protocPath := [], remoteHost := [], revision := 0 }

/-- newProtocBuiltinGeneratePluginConfig -/
def mkProtocBuiltin (name out : Str) (opt : List Str) (ii iw : Bool) (it et : List Str)
    (strategy : Option Strategy) (protocPath : List Str) : Option Plugin :=
  if iw && !ii then none else
  some { type := .protocBuiltin, name := name, out := out, opts := opt, includeImports := ii,
         includeWKT := iw, includeTypes := it, excludeTypes := et, strategy := strategy,
         path := [], protocPath := protocPath, remoteHost := [], revision := 0 }

/-- newGeneratePluginConfigFromExternalV1Beta1 -/
def readPluginV1Beta1 (x : ExtPluginV1Beta1) : Option Plugin :=
  if x.name = [] then none else
  if x.out = [] then none else
  match parseStrategy x.strategy with
  | none => none
  | some strat =>
    match x.opt.toStrs with
    | none => none
    | some opt =>
      if x.path ≠ [] then mkLocal x.name x.out opt false false [] [] strat [x.path]
      else mkLocalOrProtocBuiltin x.name x.out opt false false [] [] strat

/-- newGeneratePluginConfigFromExternalV1 -/
def readPluginV1 (env : Env) (x : ExtPluginV1) : Option Plugin :=
  if x.plugin = [] ∧ x.name = [] then none else
  if x.plugin ≠ [] ∧ x.name ≠ [] then none else
  let ident := if x.plugin ≠ [] then x.plugin else x.name
  if x.plugin = [] ∧ (env.remoteHost x.name).isSome then none else
  if x.out = [] then none else
  match parseStrategy x.strategy with
  | none => none
  | some strat =>
    match x.opt.toStrs with
    | none => none
    | some opt =>
      match x.path.toStrs with
      | none => none
      | some path =>
        match x.protocPath.toStrs with
        | none => none
        | some pp =>
          if x.plugin ≠ [] ∧ (env.remoteHost ident).isSome then
            if !x.path.isNil then none
            else if x.strategy ≠ [] then none
            else if !x.protocPath.isNil then none
            else mkRemote env x.plugin x.out opt false false [] [] x.revision
          else if path ≠ [] then mkLocal ident x.out opt false false [] [] strat path
          else if !x.protocPath.isNil then mkProtocBuiltin ident x.out opt false false [] [] strat pp
          else mkLocalOrProtocBuiltin ident x.out opt false false [] [] strat

def b2n (b : Bool) : Nat := if b then 1 else 0

/-- newGeneratePluginConfigFromExternalV2 -/
def readPluginV2 (env : Env) (x : ExtPluginV2) : Option Plugin :=
  if b2n x.remote.isSome + b2n (!x.local_.isNil) + b2n x.protocBuiltin.isSome ≠ 1 then none else
  if x.out = [] then none else
  match parseStrategy (x.strategy.getD []) with
  | none => none
  | some strat =>
    match x.opt.toStrs with
    | none => none
    | some opt =>
      match x.remote with
      | some r =>
        if x.strategy.isSome then none
        else if !x.protocPath.isNil then none
        else mkRemote env r x.out opt x.includeImports x.includeWKT x.types x.excludeTypes
               (x.revision.getD 0)
      | none =>
        if !x.local_.isNil then
          match x.local_.toStrs with
          | none => none
          | some path =>
            if x.revision.isSome then none
            else if !x.protocPath.isNil then none
            else mkLocal (joinSp path) x.out opt x.includeImports x.includeWKT x.types
                   x.excludeTypes strat path
        else
          match x.protocBuiltin with
          | none => none
          | some b =>
            match x.protocPath.toStrs with
            | none => none
            | some pp =>
              if x.revision.isSome then none
              else mkProtocBuiltin b x.out opt x.includeImports x.includeWKT x.types
                     x.excludeTypes strat pp

def protocGen (name : Str) : Str := "protoc-gen-".toList ++ name

/-- newExternalGeneratePluginConfigV2FromPluginConfig.  NB as coded: Types / ExcludeTypes are
    never written. -/
def writePlugin (env : Env) (p : Plugin) : ExtPluginV2 :=
  let base : ExtPluginV2 :=
    { remote := none, revision := none, local_ := .nil, protocBuiltin := none, protocPath := .nil,
      out := p.out, opt := fromStrs p.opts, includeImports := p.includeImports,
      includeWKT := p.includeWKT, strategy := p.strategy.map Strategy.name, types := [],
      excludeTypes := [] }
  match p.type with
  | .remote =>
    { base with remote := some p.name, revision := if p.revision ≠ 0 then some p.revision else none }
  | .local_ => { base with local_ := fromStrs p.path }
  | .protocBuiltin => { base with protocBuiltin := some p.name, protocPath := fromStrs p.protocPath }
  | .localOrProtocBuiltin =>
    if env.lookPath (protocGen p.name) then { base with local_ := .str (protocGen p.name) }
    else if p.name ∈ protocProxyPluginNames then { base with protocBuiltin := some p.name }
    else { base with local_ := .str (protocGen p.name) }

/-! ## Managed mode -/

/-- newManagedDisableRule -/
def mkDisable (env : Env) (path module field : Str) (fo : Option FileOption)
    (fdo : Option FieldOption) : Option Disable :=
  if path = [] ∧ module = [] ∧ field = [] ∧ fo = none ∧ fdo = none then none else
  if field ≠ [] ∧ fo ≠ none then none else
  if fo ≠ none ∧ fdo ≠ none then none else
  if path ≠ [] ∧ !env.validPath path then none else
  if module ≠ [] ∧ !env.validFullName module then none else
  some { path := path, module := module, field := field, fileOption := fo, fieldOption := fdo }

/-- parseOverrideValue[string|bool] / parseOverrideValueOptimizeMode -/
def parseFileValue (fo : FileOption) (v : ExtVal) : Option Val :=
  match fo.kind, v with
  | .str, .str s => some (.str s)
  | .bool, .bool b => some (.bool b)
  | .optMode, .str s => if s ∈ optModes then some (.optMode s) else none
  | _, _ => none

/-- parseOverrideValueJSType -/
def parseFieldValue (_ : FieldOption) (v : ExtVal) : Option Val :=
  match v with
  | .str s => if s ∈ jsTypes then some (.jsType s) else none
  | _ => none

/-- newFileOptionManagedOverrideRule -/
def mkFileOverride (env : Env) (path module : Str) (fo : FileOption) (v : ExtVal) : Option Override :=
  match parseFileValue fo v with
  | none => none
  | some pv =>
    if module ≠ [] ∧ !env.validFullName module then none else
    if path ≠ [] ∧ !env.validPath path then none else
    some { path := path, module := module, field := [], fileOption := some fo,
           fieldOption := none, value := pv }

/-- newFieldOptionManagedOverrideRule -/
def mkFieldOverride (env : Env) (path module field : Str) (fdo : FieldOption) (v : ExtVal) :
    Option Override :=
  match parseFieldValue fdo v with
  | none => none
  | some pv =>
    if module ≠ [] ∧ !env.validFullName module then none else
    if path ≠ [] ∧ !env.validPath path then none else
    some { path := path, module := module, field := field, fileOption := none,
           fieldOption := some fdo, value := pv }

def optCons {α : Type} (a : Option α) (l : Option (List α)) : Option (List α) :=
  match a, l with
  | some x, some xs => some (x :: xs)
  | _, _ => none

/-- mapM in Option, written structurally. -/
def mapOpt {α β : Type} (f : α → Option β) : List α → Option (List β)
  | [] => some []
  | x :: xs => optCons (f x) (mapOpt f xs)

def boolOverride (env : Env) (fo : FileOption) : Option Bool → Option (List Override)
  | none => some []
  | some b => (mkFileOverride env [] [] fo (.bool b)).map fun o => [o]

/-- newGenerateManagedConfigFromExternalV1Beta1 -/
def readManagedV1Beta1 (env : Env) (enabled : Bool) (x : ExtOptionsV1Beta1) : Option Managed :=
  match boolOverride env .ccEnableArenas x.ccEnableArenas,
        boolOverride env .javaMultipleFiles x.javaMultipleFiles,
        (if x.optimizeFor = [] then some []
         else (mkFileOverride env [] [] .optimizeFor (.str x.optimizeFor)).map fun o => [o]) with
  | some a, some b, some c => some { enabled := enabled, disables := [], overrides := a ++ b ++ c }
  | _, _, _ => none

/-- The except loop of disablesAndOverridesFromExceptAndOverrideV1. -/
def exceptDisables (env : Env) (fo : FileOption) : List Str → List Str → Option (List Disable)
  | [], _ => some []
  | n :: ns, seen =>
    if !env.validFullName n then none
    else if n ∈ seen then none
    else optCons (mkDisable env [] n [] (some fo) none) (exceptDisables env fo ns (n :: seen))

/-- The override loop of disablesAndOverridesFromExceptAndOverrideV1 (entries already sorted). -/
def moduleOverrides (env : Env) (fo : FileOption) (except : List Str) :
    List (Str × Str) → Option (List Override)
  | [] => some []
  | (k, v) :: rest =>
    if !env.validFullName k then none
    else if k ∈ except then none
    else optCons (mkFileOverride env [] k fo (.str v)) (moduleOverrides env fo except rest)

inductive DefaultMode where
  | required | optional | absent
  deriving DecidableEq, Repr

def ExtPrefixV1.isEmpty (mode : DefaultMode) (p : ExtPrefixV1) : Bool :=
  (mode = .absent || p.default = []) && p.except = [] && p.override = []

/-- One `java_package_prefix`-like section of newGenerateManagedConfigFromExternalV1:
    the default override (if any), then except → disables, override → overrides. -/
def prefixSection (env : Env) (mode : DefaultMode) (exceptFO overrideFO : FileOption)
    (p : ExtPrefixV1) : Option (List Disable × List Override) :=
  if p.isEmpty mode then some ([], []) else
  let defOv : Option (List Override) :=
    match mode with
    | .required =>
      if p.default = [] then none
      else (mkFileOverride env [] [] overrideFO (.str p.default)).map fun o => [o]
    | .optional =>
      if p.default = [] then some []
      else (mkFileOverride env [] [] overrideFO (.str p.default)).map fun o => [o]
    | .absent => some []
  match defOv, exceptDisables env exceptFO p.except [],
        moduleOverrides env overrideFO p.except (sortByKey p.override) with
  | some d, some ds, some os => some (ds, d ++ os)
  | _, _, _ => none

/-- Inner loop of overrideRulesForPerFileOverridesV1 (entries sorted by path). -/
def perFileInner (env : Env) (fo : FileOption) : List (Str × Str) → Option (List Override)
  | [] => some []
  | (path, s) :: rest =>
    if !env.validPath path then none else
    let v : Option ExtVal :=
      match fo.kind with
      | .bool => (parseBool s).map ExtVal.bool
      | _ => some (.str s)
    match v with
    | none => none
    | some v => optCons (mkFileOverride env path [] fo v) (perFileInner env fo rest)

/-- overrideRulesForPerFileOverridesV1 (entries sorted by option string). -/
def perFileOverrides (env : Env) : List (Str × List (Str × Str)) → Option (List Override)
  | [] => some []
  | (k, m) :: rest =>
    match lookupFileOption (toLower k) with
    | none => none
    | some fo =>
      match perFileInner env fo (sortByKey m), perFileOverrides env rest with
      | some a, some b => some (a ++ b)
      | _, _ => none

/-- newGenerateManagedConfigFromExternalV1 -/
def readManagedV1 (env : Env) (x : ExtManagedV1) : Option Managed :=
  match boolOverride env .ccEnableArenas x.ccEnableArenas,
        boolOverride env .javaMultipleFiles x.javaMultipleFiles,
        boolOverride env .javaStringCheckUtf8 x.javaStringCheckUtf8,
        prefixSection env .required .javaPackage .javaPackagePrefix x.javaPackagePrefix,
        prefixSection env .absent .csharpNamespace .csharpNamespace x.csharpNamespace,
        prefixSection env .required .optimizeFor .optimizeFor x.optimizeFor,
        prefixSection env .required .goPackage .goPackagePrefix x.goPackagePrefix,
        prefixSection env .optional .objcClassPrefix .objcClassPrefix x.objcClassPrefix,
        prefixSection env .absent .rubyPackage .rubyPackage x.rubyPackage,
        perFileOverrides env (sortByKey x.override) with
  | some o1, some o2, some o3, some (d4, o4), some (d5, o5), some (d6, o6), some (d7, o7),
    some (d8, o8), some (d9, o9), some o10 =>
    some { enabled := x.enabled,
           disables := d4 ++ d5 ++ d6 ++ d7 ++ d8 ++ d9,
           overrides := o1 ++ o2 ++ o3 ++ o4 ++ o5 ++ o6 ++ o7 ++ o8 ++ o9 ++ o10 }
  | _, _, _, _, _, _, _, _, _, _ => none

/-- `if s != "" { parseFileOption(s) }`: none = error, some none = unspecified. -/
def optFileOption (s : Str) : Option (Option FileOption) :=
  if s = [] then some none else (parseFileOption s).map some

def optFieldOption (s : Str) : Option (Option FieldOption) :=
  if s = [] then some none else (parseFieldOption s).map some

/-- One disable rule of newGenerateManagedConfigFromExternalV2. -/
def readDisableV2 (env : Env) (x : ExtDisableV2) : Option Disable :=
  match optFileOption x.fileOption, optFieldOption x.fieldOption with
  | some fo, some fdo => mkDisable env x.path x.module x.field fo fdo
  | _, _ => none

/-- One override rule of newGenerateManagedConfigFromExternalV2. -/
def readOverrideV2 (env : Env) (x : ExtOverrideV2) : Option Override :=
  if x.fileOption = [] ∧ x.fieldOption = [] then none else
  if x.fileOption ≠ [] ∧ x.fieldOption ≠ [] then none else
  if x.value = .nil then none else
  if x.fieldOption ≠ [] then
    match parseFieldOption x.fieldOption with
    | none => none
    | some fdo => mkFieldOverride env x.path x.module x.field fdo x.value
  else if x.field ≠ [] then none
  else
    match parseFileOption x.fileOption with
    | none => none
    | some fo => mkFileOverride env x.path x.module fo x.value

/-- newGenerateManagedConfigFromExternalV2 -/
def readManagedV2 (env : Env) (x : ExtManagedV2) : Option Managed :=
  match mapOpt (readDisableV2 env) x.disable, mapOpt (readOverrideV2 env) x.override with
  | some ds, some os => some { enabled := x.enabled, disables := ds, overrides := os }
  | _, _ => none

/-- getOverrideValue: enums are written by name, strings and bools as they are.  (As coded the
    function can fail for ill-typed values; those are unreachable for configs built by the
    readers — the harness oracle class gen-write-error watches that.) -/
def writeVal : Val → ExtVal
  | .str s => .str s
  | .bool b => .bool b
  | .optMode n => .str n
  | .jsType n => .str n

def foName : Option FileOption → Str
  | none => []
  | some f => f.name

def fdoName : Option FieldOption → Str
  | none => []
  | some f => f.name

def writeDisable (d : Disable) : ExtDisableV2 :=
  { fileOption := foName d.fileOption, fieldOption := fdoName d.fieldOption, module := d.module,
    path := d.path, field := d.field }

def writeOverride (o : Override) : ExtOverrideV2 :=
  { fileOption := foName o.fileOption, fieldOption := fdoName o.fieldOption, module := o.module,
    path := o.path, field := o.field, value := writeVal o.value }

/-- newExternalManagedConfigV2FromGenerateManagedConfig -/
def writeManaged (m : Managed) : ExtManagedV2 :=
  { enabled := m.enabled, disable := m.disables.map writeDisable,
    override := m.overrides.map writeOverride }

/-! ## Inputs -/

inductive OptKey where
  | compression | branch | commit | tag | ref | depth | recurseSubmodules | stripComponents
  | subdir | includePackageFiles
  deriving DecidableEq, Repr

/-- allowedOptionsForInputConfigType -/
def allowed : InputType → OptKey → Bool
  | .gitRepo, .branch | .gitRepo, .commit | .gitRepo, .tag | .gitRepo, .ref | .gitRepo, .depth
  | .gitRepo, .recurseSubmodules | .gitRepo, .subdir => true
  | .protoFile, .includePackageFiles => true
  | .tarball, .compression | .tarball, .stripComponents | .tarball, .subdir => true
  | .zipArchive, .stripComponents | .zipArchive, .subdir => true
  | .binaryImage, .compression | .jsonImage, .compression | .textImage, .compression
  | .yamlImage, .compression => true
  | _, _ => false

def kindOf (t : InputType) : Option Str → List (InputType × Str)
  | none => []
  | some loc => [(t, loc)]

/-- The formats that are set, in the order newInputConfigFromExternalV2 inspects them. -/
def kinds (x : ExtInputV2) : List (InputType × Str) :=
  kindOf .module x.module ++ kindOf .directory x.directory ++ kindOf .protoFile x.protoFile ++
  kindOf .binaryImage x.binaryImage ++ kindOf .tarball x.tarball ++
  kindOf .zipArchive x.zipArchive ++ kindOf .jsonImage x.jsonImage ++
  kindOf .textImage x.textImage ++ kindOf .yamlImage x.yamlImage ++ kindOf .gitRepo x.gitRepo

def okOpt {α : Type} (t : InputType) (k : OptKey) (o : Option α) : Bool :=
  o.isNone || allowed t k

def optsAllowed (t : InputType) (x : ExtInputV2) : Bool :=
  okOpt t .compression x.compression && okOpt t .stripComponents x.stripComponents &&
  okOpt t .subdir x.subdir && okOpt t .branch x.branch && okOpt t .commit x.commit &&
  okOpt t .tag x.tag && okOpt t .ref x.ref && okOpt t .depth x.depth &&
  okOpt t .recurseSubmodules x.recurseSubmodules &&
  okOpt t .includePackageFiles x.includePackageFiles

/-- commit is assigned first, tag after it (they cannot both be set). -/
def commitOrTag (commit tag : Option Str) : Str :=
  match tag with
  | some t => t
  | none => commit.getD []

/-- newInputConfigFromExternalV2 -/
def readInputV2 (x : ExtInputV2) : Option Input :=
  match kinds x with
  | [(t, loc)] =>
    if x.commit.isSome ∧ x.tag.isSome then none else
    if !optsAllowed t x then none else
    some { type := t, location := loc, compression := x.compression.getD [],
           stripComponents := x.stripComponents.getD 0, subDir := x.subdir.getD [],
           branch := x.branch.getD [], commitOrTag := commitOrTag x.commit x.tag,
           ref := x.ref.getD [], depth := x.depth,
           recurseSubmodules := x.recurseSubmodules.getD false,
           includePackageFiles := x.includePackageFiles.getD false,
           includeTypes := x.types, excludeTypes := x.excludeTypes,
           targetPaths := x.targetPaths, excludePaths := x.excludePaths }
  | _ => none

def optStr (s : Str) : Option Str := if s = [] then none else some s

def only (want t : InputType) (loc : Str) : Option Str := if want = t then some loc else none

/-- newExternalInputConfigV2FromInputConfig.  NB as coded: ExcludeTypes is never written and a
    tag is written as `commit`. -/
def writeInput (i : Input) : ExtInputV2 :=
  { module := only .module i.type i.location, directory := only .directory i.type i.location,
    protoFile := only .protoFile i.type i.location, tarball := only .tarball i.type i.location,
    zipArchive := only .zipArchive i.type i.location,
    binaryImage := only .binaryImage i.type i.location,
    jsonImage := only .jsonImage i.type i.location, textImage := only .textImage i.type i.location,
    yamlImage := only .yamlImage i.type i.location, gitRepo := only .gitRepo i.type i.location,
    types := i.includeTypes, excludeTypes := [], targetPaths := i.targetPaths,
    excludePaths := i.excludePaths, compression := optStr i.compression,
    stripComponents := if i.stripComponents = 0 then none else some i.stripComponents,
    subdir := optStr i.subDir, branch := optStr i.branch, commit := optStr i.commitOrTag,
    tag := none, ref := optStr i.ref, depth := i.depth,
    recurseSubmodules := if i.recurseSubmodules then some true else none,
    includePackageFiles := if i.includePackageFiles then some true else none }

/-! ## Files -/

/-- newGenerateConfigFromExternalFileV1Beta1 (no inputs, no type config) -/
def readV1Beta1 (env : Env) (d : ExtGenV1Beta1) : Option GenFile :=
  match readManagedV1Beta1 env d.managed d.options with
  | none => none
  | some m =>
    if d.plugins = [] then none else
    match mapOpt readPluginV1Beta1 d.plugins with
    | none => none
    | some ps => some { clean := false, plugins := ps, managed := m, typeInclude := [], inputs := [] }

/-- newGenerateConfigFromExternalFileV1 -/
def readV1 (env : Env) (d : ExtGenV1) : Option GenFile :=
  match readManagedV1 env d.managed with
  | none => none
  | some m =>
    if d.plugins = [] then none else
    match mapOpt (readPluginV1 env) d.plugins with
    | none => none
    | some ps =>
      some { clean := false, plugins := ps, managed := m, typeInclude := d.typesInclude, inputs := [] }

/-- newGenerateConfigFromExternalFileV2 + inputs.  (As coded: an empty plugin list is accepted
    in v2.) -/
def readV2 (env : Env) (d : ExtGenV2) : Option GenFile :=
  match readManagedV2 env d.managed, mapOpt (readPluginV2 env) d.plugins,
        mapOpt readInputV2 d.inputs with
  | some m, some ps, some is =>
    some { clean := d.clean, plugins := ps, managed := m, typeInclude := [], inputs := is }
  | _, _, _ => none

/-- readBufGenYAMLFile after unmarshalling. -/
def readGen (env : Env) : ExtGen → Option GenFile
  | .v1beta1 d => readV1Beta1 env d
  | .v1 d => readV1 env d
  | .v2 d => readV2 env d

/-- writeBufGenYAMLFile before marshalling: always v2; the type config is not written. -/
def writeGen (env : Env) (c : GenFile) : ExtGenV2 :=
  { clean := c.clean, managed := writeManaged c.managed, plugins := c.plugins.map (writePlugin env),
    inputs := c.inputs.map writeInput }

/-! ## What write + read does to a configuration, as coded

  The writer always produces a v2 document, and that document cannot carry everything a
  configuration may hold.  `normalise` is the exact effect of `read ∘ write` on a configuration
  that a reader produced (theorem `gen_reread_eq_normalise`); every field not mentioned below is
  preserved.
    * a plugin's `types` / `exclude_types` are never written            -> both become empty
    * a Local plugin has no name of its own in v2                       -> name := strings.Join(path, " ")
    * a LocalOrProtocBuiltin plugin (v1beta1 / v1 `name: go` without path / protoc_path) is
      resolved at WRITE time: if exec.LookPath finds protoc-gen-<name>, or <name> is not one of
      protoc's builtin plugins                                          -> Local, name = path[0] = protoc-gen-<name>
      otherwise                                                         -> ProtocBuiltin, same name
    * the v1 top-level `types.include`                                  -> empty
    * an input's `exclude_types` is never written                       -> empty -/

def normPlugin (env : Env) (p : Plugin) : Plugin :=
  match p.type with
  | .remote => { p with includeTypes := [], excludeTypes := [] }
  | .local_ => { p with name := joinSp p.path, includeTypes := [], excludeTypes := [] }
  | .protocBuiltin => { p with includeTypes := [], excludeTypes := [] }
  | .localOrProtocBuiltin =>
    if env.lookPath (protocGen p.name) || !(p.name ∈ protocProxyPluginNames) then
      { p with type := .local_, name := protocGen p.name, path := [protocGen p.name],
               includeTypes := [], excludeTypes := [] }
    else { p with type := .protocBuiltin, includeTypes := [], excludeTypes := [] }

def normInput (i : Input) : Input := { i with excludeTypes := [] }

def normalise (env : Env) (c : GenFile) : GenFile :=
  { c with plugins := c.plugins.map (normPlugin env), typeInclude := [],
           inputs := c.inputs.map normInput }

end BufModel.ConfigGen
