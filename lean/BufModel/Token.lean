import BufModel.Path
/-
  BufModel.Token — executable model of how buf decides which credential goes to which registry.

  Modelled code (as coded, including quirks):
    private/bufpkg/bufconnect/static_token_provider.go   newTokenProviderFromString,
                                                         newSingleTokenProvider, newMultipleTokenProvider,
                                                         RemoteToken / IsFromEnvVar of the three providers
    private/bufpkg/bufconnect/netrc_token_provider.go    netrcTokenProvider.RemoteToken
    private/pkg/netrc/netrc.go                           GetMachineForNameAndFilePath (exact name, else "default")
    github.com/jdx/go-netrc v1.0.0  parse / Machine / Get (the token-grouping parser, NOT its lexer:
                                                         the model starts from the lexed token list)
    private/bufpkg/bufconnect/interceptors.go            NewAuthorizationInterceptorProvider
    private/buf/bufcli/connectclient_config.go           NewConnectClientConfig (env provider first, then netrc)
    private/pkg/connectclient/connectclient.go           Make (auth interceptor is built for the UNMAPPED address)

  Strings are `List Char`.  Everything is total and computable.
-/
namespace BufModel.Token

abbrev Str := List Char

/-! ## strings.Split on a one-character separator -/

def consHead (c : Char) : List Str → List Str
  | [] => [[c]]
  | h :: t => (c :: h) :: t

/-- `strings.Split(s, sep)` for a single-character separator.  Never empty; `splitOn sep [] = [[]]`. -/
def splitOn (sep : Char) : Str → List Str
  | [] => [[]]
  | c :: cs => if c = sep then [] :: splitOn sep cs else consHead c (splitOn sep cs)

/-! ## static_token_provider.go -/

/-- Error classes of `newTokenProviderFromString` (one per `errors.New` / `fmt.Errorf` site). -/
inductive TErr where
  | invalid       -- "invalid token: %s"  (not exactly one '@', or an empty side)
  | colon         -- token part contains ':'
  | comma         -- token part contains ','   (unreachable: entries come from a split on ',')
  | repeated      -- repeated remote address
  | singleAt      -- single token contains '@' (unreachable from newTokenProviderFromString)
  | singleComma   -- single token contains ',' (unreachable)
  | singleEmpty   -- single token empty        (unreachable)
  deriving DecidableEq, Repr

def TErr.tag : TErr → String
  | .invalid => "invalid"
  | .colon => "colon"
  | .comma => "comma"
  | .repeated => "repeated"
  | .singleAt => "single-at"
  | .singleComma => "single-comma"
  | .singleEmpty => "single-empty"

/-- The three provider implementations.  `multi` keeps the Go map as an association list
    (address, token) in insertion order; keys are distinct (theorem `newMultiple_nodup`). -/
inductive Provider where
  | nop
  | single (tok : Str)
  | multi (m : List (Str × Str))
  deriving DecidableEq, Repr

/-- One iteration body of the loop in `newMultipleTokenProvider`, up to (not including) the
    repeated-address check: returns (address, token). -/
def parseEntry (e : Str) : Except TErr (Str × Str) :=
  match splitOn '@' e with
  | [t, h] =>
    if t = [] ∨ h = [] then .error .invalid
    else if ':' ∈ t then .error .colon
    else if ',' ∈ t then .error .comma
    else .ok (h, t)
  | _ => .error .invalid

/-- `newMultipleTokenProvider`: entries are processed in order, the first failing entry aborts. -/
def newMultiple : List Str → List (Str × Str) → Except TErr (List (Str × Str))
  | [], acc => .ok acc
  | e :: es, acc =>
    match parseEntry e with
    | .error x => .error x
    | .ok (h, t) =>
      if (acc.lookup h).isSome then .error .repeated
      else newMultiple es (acc ++ [(h, t)])

/-- `newSingleTokenProvider`. -/
def newSingle (t : Str) : Except TErr Provider :=
  if '@' ∈ t then .error .singleAt
  else if ',' ∈ t then .error .singleComma
  else if t = [] then .error .singleEmpty
  else .ok (.single t)

def multiOf (toks : List Str) : Except TErr Provider :=
  match newMultiple toks [] with
  | .ok m => .ok (.multi m)
  | .error e => .error e

/-- `newTokenProviderFromString` (the `isFromEnvVar` flag is carried separately, see `Source`). -/
def newTokenProvider (s : Str) : Except TErr Provider :=
  if s = [] then .ok .nop
  else
    match splitOn ',' s with
    | [one] => if '@' ∈ one then multiOf [one] else newSingle one
    | toks => multiOf toks

/-- `RemoteToken(address)`; "" (= `[]`) means "no token". -/
def remoteToken : Provider → Str → Str
  | .nop, _ => []
  | .single t, _ => t
  | .multi m, a => (m.lookup a).getD []

/-- `IsFromEnvVar()` for a provider built with flag `flag`: the nop provider always says false. -/
def isFromEnvVar (flag : Bool) : Provider → Bool
  | .nop => false
  | _ => flag

/-- Specification vocabulary: `e` is a well-formed `token@host` entry with token `t`, host `h`. -/
structure WellFormed (e t h : Str) : Prop where
  shape : e = t ++ '@' :: h
  tok_ne : t ≠ []
  host_ne : h ≠ []
  tok_no_at : '@' ∉ t
  host_no_at : '@' ∉ h
  tok_no_colon : ':' ∉ t
  tok_no_comma : ',' ∉ t

/-! ## go-netrc `parse`, `Machine`, `Get` and buf's `GetMachineForNameAndFilePath` -/

structure Machine where
  name : Str
  isDefault : Bool
  tokens : List Str
  deriving DecidableEq, Repr

/-- The only failure the parser has: `tokens[i+2]` out of range (a Go panic). -/
inductive NErr where
  | panic
  deriving DecidableEq, Repr

def kwMachine : Str := ['m', 'a', 'c', 'h', 'i', 'n', 'e']
def kwDefault : Str := ['d', 'e', 'f', 'a', 'u', 'l', 't']
def kwPassword : Str := ['p', 'a', 's', 's', 'w', 'o', 'r', 'd']
def kwLogin : Str := ['l', 'o', 'g', 'i', 'n']

/-- go-netrc `parse` over the lexed tokens (words and whitespace runs alternate).  `acc` is the
    list of machines so far, most recent first (the Go code appends to the last machine through a
    pointer).  EVERY token equal to "machine"/"default" opens a group — also when it is a value. -/
def parseToks : List Str → List Machine → Except NErr (List Machine)
  | [], acc => .ok acc.reverse
  | tok :: rest, acc =>
    if tok = kwMachine then
      match rest[1]? with
      | none => .error .panic
      | some nm => parseToks rest ({ name := nm, isDefault := false, tokens := [tok] } :: acc)
    else if tok = kwDefault then
      parseToks rest ({ name := kwDefault, isDefault := true, tokens := [tok] } :: acc)
    else
      match acc with
      | [] => parseToks rest []
      | m :: ms => parseToks rest ({ m with tokens := m.tokens ++ [tok] } :: ms)

/-- The loop of `Machine.Get` from index `i` on: looks at `tokens[i]`, `tokens[i+2]`, step 4. -/
def getLoop (name : Str) : List Str → Str
  | k :: _ :: v :: _ :: rest => if k = name then v else getLoop name rest
  | [k, _, v] => if k = name then v else []
  | _ => []

/-- `Machine.Get(name)`. -/
def Machine.get (m : Machine) (name : Str) : Str :=
  getLoop name (m.tokens.drop (if m.isDefault then 2 else 4))

/-- `Netrc.Machine(name)`: first machine whose Name equals `name`. -/
def findMachine (ms : List Machine) (name : Str) : Option Machine :=
  ms.find? (fun m => m.name = name)

/-- `GetMachineForNameAndFilePath` on a parsed file: exact name, else the machine named "default". -/
def machineFor (ms : List Machine) (name : Str) : Option Machine :=
  match findMachine ms name with
  | some m => some m
  | none => findMachine ms kwDefault

/-- `netrcTokenProvider.RemoteToken` on parsed machines. -/
def netrcPasswordOf (ms : List Machine) (name : Str) : Str :=
  match machineFor ms name with
  | some m => m.get kwPassword
  | none => []

/-- `netrcTokenProvider.RemoteToken(address)`; `none` = the file does not exist. -/
def netrcRemoteToken (file : Option (List Str)) (address : Str) : Except NErr Str :=
  match file with
  | none => .ok []
  | some toks =>
    match parseToks toks [] with
    | .error e => .error e
    | .ok ms => .ok (netrcPasswordOf ms address)

/-! ### Plain netrc files (what `buf registry login` writes, and what users normally write) -/

/-- A structured netrc entry; `name = none` is the `default` entry. -/
structure Entry where
  name : Option Str
  login : Str
  password : Str
  deriving DecidableEq, Repr

def sp : Str := [' ']
def nl : Str := ['\n']

/-- The token list go-netrc's lexer produces for the plain one-line spelling of an entry. -/
def Entry.render (e : Entry) : List Str :=
  match e.name with
  | some n => [kwMachine, sp, n, sp, kwLogin, sp, e.login, sp, kwPassword, sp, e.password, nl]
  | none => [kwDefault, sp, kwLogin, sp, e.login, sp, kwPassword, sp, e.password, nl]

def renderEntries (es : List Entry) : List Str := es.flatMap Entry.render

/-- The netrc specification of a lookup: first entry for exactly this machine, else the first
    `default` entry. -/
def specLookup (es : List Entry) (host : Str) : Str :=
  match es.find? (fun e => e.name = some host) with
  | some e => e.password
  | none =>
    match es.find? (fun e => e.name = none) with
    | some e => e.password
    | none => []

/-- A plain entry: no name / login / password is spelled like one of the two grouping keywords. -/
def Entry.Plain (e : Entry) : Prop :=
  (∀ n, e.name = some n → n ≠ kwMachine ∧ n ≠ kwDefault) ∧
  e.login ≠ kwMachine ∧ e.login ≠ kwDefault ∧ e.password ≠ kwMachine ∧ e.password ≠ kwDefault

/-- The machine go-netrc builds for a plain entry. -/
def Entry.toMachine (e : Entry) : Machine :=
  { name := e.name.getD kwDefault, isDefault := e.name.isNone, tokens := e.render }

/-! ## interceptors.go: NewAuthorizationInterceptorProvider -/

/-- A `TokenProvider` as the interceptor sees it. -/
structure Source where
  token : Str → Except NErr Str
  fromEnv : Bool

/-- What the interceptor did for one request. -/
structure AuthResult where
  header : Option Str     -- token put into `Authorization: Bearer <token>`; none = header not set
  hasToken : Bool
  usingEnv : Bool
  deriving DecidableEq, Repr

/-- The provider loop: first provider with a non-empty token wins, later ones are not consulted. -/
def authorize : List Source → Str → Except NErr AuthResult
  | [], _ => .ok ⟨none, false, false⟩
  | p :: ps, a =>
    match p.token a with
    | .error e => .error e
    | .ok t => if t ≠ [] then .ok ⟨some t, true, p.fromEnv⟩ else authorize ps a

def staticSource (p : Provider) (flag : Bool) : Source :=
  ⟨fun a => .ok (remoteToken p a), isFromEnvVar flag p⟩

def netrcSource (file : Option (List Str)) : Source :=
  ⟨fun a => netrcRemoteToken file a, false⟩

inductive ChainErr where
  | config (e : TErr)     -- NewConnectClientConfig fails: no client, no request at all
  | panic
  deriving DecidableEq, Repr

/-- `bufcli.NewConnectClientConfig` + `connectclient.Make(cfg, address, …)` + one request:
    BUF_TOKEN provider first, then the netrc provider, for the address the client was made for. -/
def chainAuth (bufToken : Str) (file : Option (List Str)) (address : Str) : Except ChainErr AuthResult :=
  match newTokenProvider bufToken with
  | .error e => .error (.config e)
  | .ok p =>
    match authorize [staticSource p true, netrcSource file] address with
    | .error _ => .error .panic
    | .ok r => .ok r

/-- `bufcli.NewConnectClientConfigWithToken` (the `--token` flag) + `Make` + one request: a single
    provider, not attributed to the environment; .netrc is not consulted. -/
def chainAuthWithToken (token : Str) (address : Str) : Except ChainErr AuthResult :=
  match newTokenProvider token with
  | .error e => .error (.config e)
  | .ok p =>
    match authorize [staticSource p false] address with
    | .error _ => .error .panic
    | .ok r => .ok r

/-! ## connectclient.Make on ONE shared Config, several addresses (strengthening S4C)

`Make(cfg, address, factory)` has two steps that matter here: it APPENDS the authorization
interceptor built for `address` to the configured interceptors, and the stub factory then COPIES
the chain into the client.  As coded the append works on `slices.Clone(cfg.interceptors)` — a
private slice per call.  Seed C19-m5 made `WithInterceptors` keep one slice with spare capacity
and `Make` append onto it: every call writes the same spare slot.  `MStep` are the two steps of
the `i`-th call; a schedule is any interleaving of the calls' steps. -/

inductive MStep where
  | append (i : Nat)   -- Make #i: interceptors = append(…, authInterceptor(address i))
  | build (i : Nat)    -- Make #i: factory(…, WithInterceptors(interceptors...)) copies the chain
  deriving DecidableEq, Repr

structure MState where
  slot : Option Str                -- shared variant: the address whose interceptor sits in the spare slot
  own : List (Nat × Str)           -- cloning variant: the private slice of call i ends in auth(address)
  built : List (Nat × Option Str)  -- client i was built with the authorization interceptor of this address
  deriving DecidableEq, Repr

def MState.init : MState := ⟨none, [], []⟩

def lookupOwn (own : List (Nat × Str)) (i : Nat) : Option Str :=
  match own.find? (fun p => p.1 = i) with
  | some p => some p.2
  | none => none

def mstep (shared : Bool) (addr : Nat → Str) (s : MState) : MStep → MState
  | .append i => if shared then { s with slot := some (addr i) } else { s with own := (i, addr i) :: s.own }
  | .build i => { s with built := (i, if shared then s.slot else lookupOwn s.own i) :: s.built }

def mrun (shared : Bool) (addr : Nat → Str) (steps : List MStep) : MState :=
  steps.foldl (mstep shared addr) MState.init

/-- The Authorization decision of a request sent by a client that was built with the
    authorization interceptor of address `a`: a function of the configuration and `a` ONLY. -/
def clientAuth (bufToken : Str) (file : Option (List Str)) (a : Str) : Except ChainErr AuthResult :=
  chainAuth bufToken file a

/-! ## Redirects (section R of the harness)

A registry may answer with a 3xx; the `http.Client` of `bufcli.NewConnectClientConfig` follows it.
Two mechanisms decide what the NEXT request carries:

* net/http (`shouldCopyHeaderOnRedirect`, go1.26): the Authorization header of the FIRST request is
  copied to a hop whose host is the first host or a subdomain of it (string comparison of the host
  names, no case folding); once a hop lies outside, the header stays stripped for the rest of the
  chain (sticky);
* buf (`bufcli.checkRedirect`, fix 018ad7b): the header is deleted from a hop whose host is not
  the original one (`strings.EqualFold`).  This deletion concerns the one request only. -/

def lowerAscii (c : Char) : Char :=
  if 'A'.toNat ≤ c.toNat ∧ c.toNat ≤ 'Z'.toNat then Char.ofNat (c.toNat + 32) else c

/-- `strings.EqualFold` on host names (ASCII). -/
def eqFoldHost (a b : Str) : Bool := a.map lowerAscii == b.map lowerAscii

/-- net/http `isDomainOrSubdomain sub parent` (host names without brackets). -/
def isDomainOrSubdomain (sub parent : Str) : Bool :=
  sub == parent || ('.' :: parent).isSuffixOf sub

/-- The Authorization header (token) of every hop of a redirect chain, given the header of the
    first request (`first`, for host `orig`).  `stripped`: net/http already left the site. -/
def hopHeaders (first : Option Str) (orig : Str) : List Str → Bool → List (Option Str)
  | [], _ => []
  | h :: rest, stripped =>
    let stripped2 := stripped || !(isDomainOrSubdomain h orig)
    let hdr := if stripped2 then none else if eqFoldHost h orig then first else none
    hdr :: hopHeaders first orig rest stripped2

/-- The same chain WITHOUT buf's `checkRedirect` (the code before fix 018ad7b): net/http alone. -/
def hopHeadersStdlibOnly (first : Option Str) (orig : Str) : List Str → Bool → List (Option Str)
  | [], _ => []
  | h :: rest, stripped =>
    let stripped2 := stripped || !(isDomainOrSubdomain h orig)
    (if stripped2 then none else first) :: hopHeadersStdlibOnly first orig rest stripped2

end BufModel.Token
