/-
  BufModel.Format — model for property C07 (formatting preserves meaning and comments, idempotent).

  The 2.4k-line AST printer (private/buf/bufformat/formatter.go) is NOT modelled.  What is modelled:

  (i)   the proto LEXER (protocompile parser/lexer.go: identifiers, numeric literals with the
        exponent-sign rule, string literals with escapes kept as raw text, single-rune symbols,
        `//` and `/* */` comments, whitespace), `sig` = significant tokens, `comments`;
  (ii)  the token-level rewrites the formatter performs on significant tokens (enumerated from
        formatter.go): empty statements dropped (writeNode EmptyDeclNode / writeFileTypes), message
        literal `<`…`>` printed as `{`…`}` (messageLiteralOpen/Close), the optional `,`/`;` after a
        message-literal field dropped (writeMessageLiteralElements), a missing `:` after a
        message-literal field name added (writeMessageFieldPrefix) — as roles assigned by a bracket
        context automaton (`annotate`) and an explicit inductive relation `Rewrites`.  All other
        tokens are printed with their raw text (writeRaw / identNode.Val): no literal is respelled;
  (ii') protocompile's COMMENT ATTRIBUTION (lexer.setPrevAndAddComments): every comment belongs to
        one significant token (or to EOF) as a leading or trailing comment: `decorate`.  The
        rewrites of (ii) on decorated tokens: `normD` (the trailing comment of a dropped separator
        moves to the token before it, or — when that token has a trailing comment already — in
        front of the token after it; a dropped token must not carry any other comment);
  (iii) file-level statements (`stmts`), their five classes and the header canonicalisation as
        coded in writeFileHeader: syntax/edition, package, imports, options, rest; imports sorted
        by (decoded file name, plain > public > weak, commented first) and an import elided when
        it follows an import of the same file and carries no comment on any of its tokens;
        options sorted built-ins
        before custom, then by printed name.  After the fix (sort.SliceStable) the sort is THE
        stable sort (`isort`); before the fix (sort.Slice) it was any sorted permutation
        (`SortedPermOf`).  `fmtModel` = (ii') ; (iii) on a whole decorated stream;
  (iv)  the executable checker `validFormat inp out` — a relation between the two texts
        (`validFormatFile`: the same on file contents, i.e. behind newLexer's discarding of a
        leading UTF-8 byte order mark);
  (v)   the normal form `isFormatted` (token level: nothing left to rewrite, header canonical;
        layout level: white space between tokens is one space or newline(s) + indentation).
-/
namespace BufModel.Format

abbrev Str := List Char

/-! ## (i) Lexer -/

inductive Kind
  | ident | num | str | sym | lineComment | blockComment | ws
  | bad      -- unterminated string / block comment (protocompile reports an error)
  | fuel     -- never produced when the fuel is the input length (theorem lexer_total)
  deriving DecidableEq, Repr

structure Token where
  kind : Kind
  text : Str
  deriving DecidableEq, Repr

def isWs (c : Char) : Bool := c = ' ' || c = '\t' || c = '\n' || c = '\r' || c = '\x0c' || c = '\x0b'
def isDigit (c : Char) : Bool := '0' ≤ c && c ≤ '9'
def isLetter (c : Char) : Bool := ('a' ≤ c && c ≤ 'z') || ('A' ≤ c && c ≤ 'Z') || c = '_'
def isIdentChar (c : Char) : Bool := isLetter c || isDigit c

/-- longest prefix satisfying `p`, and the rest -/
def spanP (p : Char → Bool) : Str → Str × Str
  | [] => ([], [])
  | c :: cs => if p c then let r := spanP p cs; (c :: r.1, r.2) else ([], c :: cs)

theorem spanP_append (p : Char → Bool) (s : Str) : (spanP p s).1 ++ (spanP p s).2 = s := by
  induction s with
  | nil => rfl
  | cons c cs ih =>
    unfold spanP
    by_cases h : p c
    · simp [h, ih]
    · simp [h]

/-- protocompile readNumber: letters, digits, '.', '_' continue the token; '+'/'-' only right after
    'e'/'E'.  `sign` = a sign is allowed next. -/
def scanNum : Bool → Str → Str × Str
  | _, [] => ([], [])
  | sign, c :: cs =>
    if (c = '-' || c = '+') && !sign then ([], c :: cs)
    else if c = '.' || c = '_' || isIdentChar c || c = '-' || c = '+' then
      let r := scanNum (c = 'e' || c = 'E') cs; (c :: r.1, r.2)
    else ([], c :: cs)

theorem scanNum_append (b : Bool) (s : Str) : (scanNum b s).1 ++ (scanNum b s).2 = s := by
  induction s generalizing b with
  | nil => rfl
  | cons c cs ih =>
    unfold scanNum
    by_cases h1 : ((c = '-' || c = '+') && !b) = true
    · simp [h1]
    · by_cases h2 : (c = '.' || c = '_' || isIdentChar c || c = '-' || c = '+') = true
      · simp [h1, h2, ih]
      · simp [h1, h2]

/-- body of a string literal up to and including the closing quote `q`; a backslash takes the
    next character with it (`esc`); stops (unterminated, `false`) at an unescaped newline or at
    the end of input. -/
def scanStr (q : Char) : Bool → Str → (Str × Str) × Bool
  | _, [] => (([], []), false)
  | esc, c :: cs =>
    if esc then let r := scanStr q false cs; ((c :: r.1.1, r.1.2), r.2)
    else if c = q then (([c], cs), true)
    else if c = '\n' then (([], c :: cs), false)
    else let r := scanStr q (c = '\\') cs; ((c :: r.1.1, r.1.2), r.2)

theorem scanStr_append (q : Char) (e : Bool) (s : Str) :
    (scanStr q e s).1.1 ++ (scanStr q e s).1.2 = s := by
  induction s generalizing e with
  | nil => rfl
  | cons c cs ih =>
    unfold scanStr
    by_cases h0 : e = true
    · simp [h0, ih]
    · by_cases h1 : c = q
      · simp [h0, h1]
      · by_cases h2 : c = '\n'
        · subst h2; simp [h0, h1]
        · simp [h0, h1, h2, ih]

/-- rest of a block comment up to and including "*/" (`true`), or everything (`false`);
    `star` = the previous character was '*'. -/
def scanBlock : Bool → Str → (Str × Str) × Bool
  | _, [] => (([], []), false)
  | star, c :: cs =>
    if star && c = '/' then (([c], cs), true)
    else let r := scanBlock (c = '*') cs; ((c :: r.1.1, r.1.2), r.2)

theorem scanBlock_append (b : Bool) (s : Str) :
    (scanBlock b s).1.1 ++ (scanBlock b s).1.2 = s := by
  induction s generalizing b with
  | nil => rfl
  | cons c cs ih =>
    unfold scanBlock
    by_cases h : (b && c = '/') = true
    · simp [h]
    · simp [h, ih]

/-- One lexer step on a non-empty input `c :: cs`: the token (whose text starts with `c`) and the
    remaining input. -/
def step (c : Char) (cs : Str) : Token × Str :=
  if isWs c then let r := spanP isWs cs; (⟨.ws, c :: r.1⟩, r.2)
  else if isLetter c then let r := spanP isIdentChar cs; (⟨.ident, c :: r.1⟩, r.2)
  else if isDigit c then let r := scanNum false cs; (⟨.num, c :: r.1⟩, r.2)
  else if c = '.' then
    match cs with
    | d :: _ => if isDigit d then let r := scanNum false cs; (⟨.num, c :: r.1⟩, r.2) else (⟨.sym, [c]⟩, cs)
    | [] => (⟨.sym, [c]⟩, cs)
  else if c = '"' || c = '\'' then
    let r := scanStr c false cs; (⟨if r.2 then .str else .bad, c :: r.1.1⟩, r.1.2)
  else if c = '/' then
    match cs with
    | '/' :: ds => let r := spanP (fun x => x ≠ '\n') ds; (⟨.lineComment, c :: '/' :: r.1⟩, r.2)
    | '*' :: ds => let r := scanBlock false ds; (⟨if r.2 then .blockComment else .bad, c :: '*' :: r.1.1⟩, r.1.2)
    | _ => (⟨.sym, [c]⟩, cs)
  else (⟨.sym, [c]⟩, cs)

theorem step_spec (c : Char) (cs : Str) :
    ∃ a, (step c cs).1.text = c :: a ∧ a ++ (step c cs).2 = cs := by
  unfold step
  split
  · exact ⟨_, rfl, spanP_append _ _⟩
  split
  · exact ⟨_, rfl, spanP_append _ _⟩
  split
  · exact ⟨_, rfl, scanNum_append _ _⟩
  split
  · split
    · split
      · exact ⟨_, rfl, scanNum_append _ _⟩
      · exact ⟨[], rfl, rfl⟩
    · exact ⟨[], rfl, rfl⟩
  split
  · exact ⟨_, rfl, scanStr_append _ _ _⟩
  split
  · split
    · exact ⟨_, rfl, by simp [spanP_append]⟩
    · exact ⟨_, rfl, by simp [scanBlock_append]⟩
    · exact ⟨[], rfl, rfl⟩
  · exact ⟨[], rfl, rfl⟩

theorem step_kind_ne_fuel (c : Char) (cs : Str) : (step c cs).1.kind ≠ .fuel := by
  unfold step
  repeat' split
  all_goals first | (simp; done) | (simp only []; split <;> simp)

theorem step_length (c : Char) (cs : Str) : (step c cs).2.length ≤ cs.length := by
  obtain ⟨a, _, h⟩ := step_spec c cs
  have := congrArg List.length h
  simp at this; omega

def lexAux : Nat → Str → List Token
  | _, [] => []
  | 0, s => [⟨.fuel, s⟩]
  | n + 1, c :: cs => (step c cs).1 :: lexAux n (step c cs).2

/-- The lexer: total, fuel = length of the input. -/
def lex (s : Str) : List Token := lexAux s.length s

def Token.isSig (t : Token) : Bool :=
  match t.kind with
  | .ws | .lineComment | .blockComment => false
  | _ => true

def Token.isComment (t : Token) : Bool :=
  match t.kind with
  | .lineComment | .blockComment => true
  | _ => false

/-- significant tokens: everything but whitespace and comments -/
def sig (ts : List Token) : List Token := ts.filter Token.isSig
def comments (ts : List Token) : List Token := ts.filter Token.isComment

def sym (s : String) : Token := ⟨.sym, s.toList⟩
def Token.is (t : Token) (s : String) : Bool := t.text = s.toList

/-! ## (ii) Token rewrites: roles assigned by a bracket-context automaton -/

inductive Role
  | keep
  | dropEmpty      -- `;` that is an empty statement
  | dropSep        -- optional `,` / `;` after a message-literal field
  | toOpenBrace    -- `<` opening a message literal, printed `{`
  | toCloseBrace   -- `>` closing a message literal, printed `}`
  | colonAfter     -- last token of a message-literal field name not followed by `:`; `:` is added
  deriving DecidableEq, Repr

inductive Frame
  | body                      -- `{ }` of a declaration
  | lit (angle : Bool) (inValue : Bool)   -- message literal; inValue = after a field name
  | litName                   -- `[ext.name]` / `[type.url/name]` in field-name position
  | arr                       -- `[ ]` list value inside a message literal
  | bracket                   -- `[ ]` compact options
  | paren
  deriving DecidableEq, Repr

structure AState where
  stack : List Frame := []
  stmtStart : Bool := true    -- at the start of a statement of the enclosing body / file
  prevEq : Bool := false      -- previous significant token was `=`
  deriving Repr

/-- after a value of the enclosing message literal ended -/
def valueDone : List Frame → List Frame
  | .lit a _ :: rest => .lit a false :: rest
  | st => st

def nextIsColon : List Token → Bool
  | t :: _ => t.is ":"
  | [] => false

/-- One automaton step: the role of token `t` (given the tokens after it) and the next state. -/
def roleOf (st : AState) (t : Token) (rest : List Token) : Role × AState :=
  match st.stack with
  | .lit angle inValue :: up =>
    if !inValue then
      if t.is "," || t.is ";" then (.dropSep, st)
      else if t.is "}" || t.is ">" then
        (if t.is ">" && angle then .toCloseBrace else .keep,
         { st with stack := valueDone up, stmtStart := false, prevEq := false })
      else if t.is "[" then (.keep, { st with stack := .litName :: st.stack })
      else if t.kind = .ident then
        (if nextIsColon rest then .keep else .colonAfter, { st with stack := .lit angle true :: up })
      else (.keep, st)
    else
      if t.is ":" || t.is "-" then (.keep, st)
      else if t.is "{" then (.keep, { st with stack := .lit false false :: st.stack })
      else if t.is "<" then (.toOpenBrace, { st with stack := .lit true false :: st.stack })
      else if t.is "[" then (.keep, { st with stack := .arr :: st.stack })
      else (.keep, { st with stack := .lit angle false :: up })
  | .litName :: up =>
    if t.is "]" then
      (if nextIsColon rest then .keep else .colonAfter,
       { st with stack := match up with | .lit a _ :: r => .lit a true :: r | u => u })
    else (.keep, st)
  | .arr :: up =>
    if t.is "{" then (.keep, { st with stack := .lit false false :: st.stack })
    else if t.is "<" then (.toOpenBrace, { st with stack := .lit true false :: st.stack })
    else if t.is "]" then (.keep, { st with stack := valueDone up })
    else (.keep, st)
  | .paren :: up =>
    if t.is ")" then (.keep, { st with stack := up }) else (.keep, st)
  | .bracket :: up =>
    if t.is "]" then (.keep, { st with stack := up, prevEq := false })
    else if t.is "=" then (.keep, { st with prevEq := true })
    else if t.is "{" && st.prevEq then (.keep, { st with stack := .lit false false :: st.stack, prevEq := false })
    else if t.is "(" then (.keep, { st with stack := .paren :: st.stack, prevEq := false })
    else (.keep, { st with prevEq := false })
  | _ =>  -- file level or a declaration body
    if t.is ";" then
      (if st.stmtStart then .dropEmpty else .keep, { st with stmtStart := true, prevEq := false })
    else if t.is "{" then
      if st.prevEq then (.keep, { st with stack := .lit false false :: st.stack, stmtStart := false, prevEq := false })
      else (.keep, { st with stack := .body :: st.stack, stmtStart := true, prevEq := false })
    else if t.is "}" then (.keep, { st with stack := st.stack.tail, stmtStart := true, prevEq := false })
    else if t.is "[" then (.keep, { st with stack := .bracket :: st.stack, stmtStart := false, prevEq := false })
    else if t.is "(" then (.keep, { st with stack := .paren :: st.stack, stmtStart := false, prevEq := false })
    else if t.is "=" then (.keep, { st with stmtStart := false, prevEq := true })
    else (.keep, { st with stmtStart := false, prevEq := false })

def annotateFrom : AState → List Token → List (Token × Role)
  | _, [] => []
  | st, t :: rest => let r := roleOf st t rest; (t, r.1) :: annotateFrom r.2 rest

/-- roles of the significant tokens of a file -/
def annotate (ts : List Token) : List (Token × Role) := annotateFrom {} ts

def normTok : Token × Role → List Token
  | (t, .keep) => [t]
  | (_, .dropEmpty) => []
  | (_, .dropSep) => []
  | (_, .toOpenBrace) => [sym "{"]
  | (_, .toCloseBrace) => [sym "}"]
  | (t, .colonAfter) => [t, sym ":"]

/-- the significant tokens after the body-level rewrites -/
def norm (ts : List Token) : List Token := (annotate ts).flatMap normTok

/-- the roles alone -/
def roles (ts : List Token) : List Role := (annotate ts).map (·.2)

/-- The documented body-level rewrites, as an explicit relation between role-annotated input
    tokens and output tokens. -/
inductive Rewrites : List (Token × Role) → List Token → Prop
  | nil : Rewrites [] []
  | keep (t) {l o} : Rewrites l o → Rewrites ((t, .keep) :: l) (t :: o)
  | dropEmpty (t) {l o} : t.is ";" → Rewrites l o → Rewrites ((t, .dropEmpty) :: l) o
  | dropSep (t) {l o} : (t.is "," ∨ t.is ";") → Rewrites l o → Rewrites ((t, .dropSep) :: l) o
  | openBrace (t) {l o} : t.is "<" → Rewrites l o → Rewrites ((t, .toOpenBrace) :: l) (sym "{" :: o)
  | closeBrace (t) {l o} : t.is ">" → Rewrites l o → Rewrites ((t, .toCloseBrace) :: l) (sym "}" :: o)
  | colonAfter (t) {l o} : Rewrites l o → Rewrites ((t, .colonAfter) :: l) (t :: sym ":" :: o)

/-! ## Significant tokens WITH their comments (protocompile lexer.setPrevAndAddComments)

  protocompile attributes every comment to exactly one significant token (or to the EOF token),
  as a LEADING or as a TRAILING comment.  `decorate` reproduces that attribution; the decorated
  stream is a loss-free re-presentation of (significant tokens, comments): theorems
  `decorate_toks`, `decorate_comments`. -/

/-- comment content up to the layout changes the formatter documents (`// x` ↔ `/* x */`,
    re-indentation of block comment lines): the words between the comment markers -/
def splitWords : Str → Str → List Str
  | [], cur => if cur.isEmpty then [] else [cur.reverse]
  | c :: cs, cur => if isWs c then (if cur.isEmpty then splitWords cs [] else cur.reverse :: splitWords cs []) else splitWords cs (c :: cur)

abbrev CKey := List Str

def commentKey (t : Token) : CKey :=
  let body := if t.kind = .lineComment then t.text.drop 2 else ((t.text.drop 2).reverse.drop 2).reverse
  splitWords body []

/-- a significant token with the comments attributed to it -/
structure DTok where
  tok : Token
  lead : List CKey := []
  trail : List CKey := []
  deriving DecidableEq, Repr

/-- the pseudo token protocompile appends at the end of the file; it owns the comments after the
    last real token.  (The lexer never produces a token with empty text: `lexer_total`.) -/
def eofTok : Token := ⟨.sym, []⟩

def newlines (s : Str) : Nat := (s.filter (· = '\n')).length

/-- a comment waiting for the next significant token -/
structure Pending where
  key : CKey
  start : Nat
  stop : Nat
  line : Bool

structure DState where
  prev : Option DTok := none    -- the last significant token; its trailing comment is not decided yet
  prevEnd : Nat := 0
  pend : List Pending := []
  line : Nat := 0

/-- does the first pending comment become THE trailing comment of the previous token?
    (as coded: at most one comment is donated) -/
def donates (hasPrev : Bool) (prevEnd : Nat) (pend : List Pending) (nStart : Nat) : Bool :=
  match hasPrev, pend with
  | true, c :: cs => nStart > prevEnd && c.start = prevEnd && (c.line || !cs.isEmpty || c.stop < nStart)
  | _, _ => false

/-- finish the previous token (0 or 1 tokens) and return the leading comments of the next one -/
def closePrev (st : DState) (nStart : Nat) : List DTok × List CKey :=
  match st.prev with
  | some p =>
    if donates true st.prevEnd st.pend nStart then
      ([{ p with trail := (st.pend.take 1).map (·.key) }], (st.pend.drop 1).map (·.key))
    else ([{ p with trail := [] }], st.pend.map (·.key))
  | none => ([], st.pend.map (·.key))

def decoAux : DState → List Token → List DTok
  | st, [] =>
    let nStart := if st.line = st.prevEnd then st.line + 1 else st.line   -- EOF pretends to be on its own line
    let r := closePrev st nStart
    r.1 ++ [{ tok := eofTok, lead := r.2 }]
  | st, t :: ts =>
    let nl := newlines t.text
    if t.kind = .ws then decoAux { st with line := st.line + nl } ts
    else if t.isComment then
      decoAux { st with pend := st.pend ++ [⟨commentKey t, st.line, st.line + nl, t.kind = .lineComment⟩], line := st.line + nl } ts
    else
      let r := closePrev st st.line
      r.1 ++ decoAux { prev := some { tok := t, lead := r.2 }, prevEnd := st.line + nl, pend := [], line := st.line + nl } ts

/-- significant tokens (plus the EOF token) with their comments -/
def decorate (ts : List Token) : List DTok := decoAux {} ts

def DTok.comments (d : DTok) : List CKey := d.lead ++ d.trail

/-- all comments of a decorated stream, in source order -/
def commentsOf (ds : List DTok) : List CKey := ds.flatMap DTok.comments

def toks (ds : List DTok) : List Token := ds.map (·.tok)

/-! ### body-level rewrites on decorated tokens -/

/-- the comments `cs` become the first leading comments of the next token (if there is one) -/
def giveLead (cs : List CKey) : List (DTok × Role) → Option (List (DTok × Role))
  | (n, r) :: rest => some (({ n with lead := cs ++ n.lead }, r) :: rest)
  | [] => none

/-- the trailing comment of a dropped message-literal separator moves to the token before it —
    the last token of the field value — when that token has no trailing comment of its own
    (formatter: writeMessageLiteralElements / setTrailingCommentsForValue); otherwise it is printed
    on its own line below the field and so leads the token after the separator
    (writeMessageLiteralElements: writeMultilineComments).  `x` = the token before the separator,
    the argument list starts with the separator. -/
def absorb (x : DTok × Role) : List (DTok × Role) → List (DTok × Role)
  | (s, .dropSep) :: rest =>
    if x.1.trail.isEmpty then
      ({ x.1 with trail := s.trail }, x.2) :: ({ s with trail := [] }, .dropSep) :: rest
    else
      match giveLead s.trail rest with
      | some rest' => x :: ({ s with trail := [] }, .dropSep) :: rest'
      | none => x :: (s, .dropSep) :: rest
  | acc => x :: acc

/-- the rule of the code BEFORE the repair (recorded finding
    `comment-dropped:trailing-comment-on-message-literal-separator-whose-value-has-one`): the
    separator's trailing comment was moved only to a value without a trailing comment, otherwise
    it was lost — `absorbOld` simply forgets it. -/
def absorbOld (x : DTok × Role) : List (DTok × Role) → List (DTok × Role)
  | (s, .dropSep) :: rest =>
    ({ x.1 with trail := if x.1.trail.isEmpty then s.trail else x.1.trail }, x.2) :: ({ s with trail := [] }, .dropSep) :: rest
  | acc => x :: acc

def moveSepTrail (l : List (DTok × Role)) : List (DTok × Role) := l.foldr absorb []

def normTokD : DTok × Role → List DTok
  | (d, .keep) => [d]
  | (_, .dropEmpty) => []
  | (_, .dropSep) => []
  | (d, .toOpenBrace) => [{ d with tok := sym "{" }]
  | (d, .toCloseBrace) => [{ d with tok := sym "}" }]
  | (d, .colonAfter) => [d, { tok := sym ":" }]   -- the comments of the name stay in front of the new `:`

/-- role-annotated decorated tokens, separator comments moved -/
def annotateD (ds : List DTok) : List (DTok × Role) := moveSepTrail (ds.zip (roles (toks ds)))

/-- a token that is dropped must not carry a comment (the formatter would lose it: recorded
    findings `comment-on-empty-statement`, `leading-comment-on-message-literal-separator`) -/
def dropsClean (l : List (DTok × Role)) : Bool :=
  l.all fun p => !(p.2 = .dropEmpty || p.2 = .dropSep) || (p.1.lead.isEmpty && p.1.trail.isEmpty)

/-- the decorated tokens after the body-level rewrites -/
def normD (ds : List DTok) : List DTok := (annotateD ds).flatMap normTokD

/-! ## (iii) File-level statements and header canonicalisation -/

def hexVal (c : Char) : Option Nat :=
  if '0' ≤ c ∧ c ≤ '9' then some (c.toNat - 48)
  else if 'a' ≤ c ∧ c ≤ 'f' then some (c.toNat - 87)
  else if 'A' ≤ c ∧ c ≤ 'F' then some (c.toNat - 55)
  else none

def utf8 (n : Nat) : List Nat :=
  if n < 0x80 then [n]
  else if n < 0x800 then [0xC0 + n / 64, 0x80 + n % 64]
  else if n < 0x10000 then [0xE0 + n / 4096, 0x80 + n / 64 % 64, 0x80 + n % 64]
  else [0xF0 + n / 262144, 0x80 + n / 4096 % 64, 0x80 + n / 64 % 64, 0x80 + n % 64]

def takeHex : Nat → Str → List Nat × Str
  | 0, s => ([], s)
  | _, [] => ([], [])
  | n + 1, c :: cs => match hexVal c with
    | some v => let r := takeHex n cs; (v :: r.1, r.2)
    | none => ([], c :: cs)

def takeOct : Nat → Str → List Nat × Str
  | 0, s => ([], s)
  | _, [] => ([], [])
  | n + 1, c :: cs => if '0' ≤ c ∧ c ≤ '7' then let r := takeOct n cs; ((c.toNat - 48) :: r.1, r.2) else ([], c :: cs)

def fromDigits (base : Nat) (ds : List Nat) : Nat := ds.foldl (fun a d => a * base + d) 0

/-- bytes denoted by the inside of a string literal (escapes as in protocompile readStringLiteral) -/
def decodeBody : Nat → Str → List Nat
  | 0, _ => []
  | _, [] => []
  | n + 1, c :: cs =>
    if c = '\\' then
      match cs with
      | [] => []
      | e :: es =>
        if e = 'x' || e = 'X' then let r := takeHex 2 es; fromDigits 16 r.1 :: decodeBody n r.2
        else if '0' ≤ e ∧ e ≤ '7' then let r := takeOct 3 cs; fromDigits 8 r.1 :: decodeBody n r.2
        else if e = 'u' then let r := takeHex 4 es; utf8 (fromDigits 16 r.1) ++ decodeBody n r.2
        else if e = 'U' then let r := takeHex 8 es; utf8 (fromDigits 16 r.1) ++ decodeBody n r.2
        else
          let b := if e = 'a' then 7 else if e = 'b' then 8 else if e = 'f' then 12 else if e = 'n' then 10
            else if e = 'r' then 13 else if e = 't' then 9 else if e = 'v' then 11 else e.toNat
          b :: decodeBody n es
    else utf8 c.toNat ++ decodeBody n cs

/-- value of one string-literal token (quotes stripped) -/
def decodeLit (text : Str) : List Nat :=
  let body := (text.drop 1).dropLast
  decodeBody body.length body

/-- a file-level statement (declaration): its decorated tokens -/
abbrev Stmt := List DTok

def stmtText (s : Stmt) : List Token := s.map (·.tok)

def firstIs (s : Stmt) (w : String) : Bool :=
  match s with
  | t :: _ => t.tok.is w
  | [] => false

/-- split the (normalised) tokens of a file into file-level statements: a statement ends at `;`
    at brace depth 0, or at the `}` that returns to depth 0 unless it is an `option` statement
    (whose message-literal value is followed by `;`).  `cur` = the current statement, reversed.
    Nothing is lost or duplicated: theorem `splitStmts_flatten`. -/
def splitStmts : List DTok → Nat → Stmt → List Stmt
  | [], _, cur => if cur.isEmpty then [] else [cur.reverse]
  | t :: ts, depth, cur =>
    let cur' := t :: cur
    if t.tok.is "{" then splitStmts ts (depth + 1) cur'
    else if t.tok.is "}" then
      if depth ≤ 1 && !(firstIs cur'.reverse "option") then cur'.reverse :: splitStmts ts 0 []
      else splitStmts ts (depth - 1) cur'
    else if t.tok.is ";" && depth = 0 then cur'.reverse :: splitStmts ts 0 []
    else splitStmts ts depth cur'

def stmts (ds : List DTok) : List Stmt := splitStmts ds 0 []

/-- the five classes of writeFileHeader -/
inductive Cls
  | syn | pkg | imp | opt | rest
  deriving DecidableEq, Repr

def cls (s : Stmt) : Cls :=
  if firstIs s "syntax" || firstIs s "edition" then .syn
  else if firstIs s "package" then .pkg
  else if firstIs s "import" then .imp
  else if firstIs s "option" then .opt
  else .rest

def ofCls (c : Cls) (ss : List Stmt) : List Stmt := ss.filter (cls · = c)

structure Header where
  syn : List Stmt := []        -- syntax / edition
  pkg : List Stmt := []        -- package statements (a second one does not parse)
  imports : List Stmt := []
  options : List Stmt := []
  rest : List Stmt := []       -- everything else, including the EOF token

/-- partition by class, keeping the order inside each class -/
def parseHeader (ss : List Stmt) : Header :=
  { syn := ofCls .syn ss, pkg := ofCls .pkg ss, imports := ofCls .imp ss, options := ofCls .opt ss,
    rest := ofCls .rest ss }

/-- lexicographic `<` on keys -/
def lexLt : List Nat → List Nat → Bool
  | _, [] => false
  | [], _ :: _ => true
  | a :: as, b :: bs => a < b || (a = b && lexLt as bs)

def insertBy {α} (lt : α → α → Bool) (x : α) : List α → List α
  | [] => [x]
  | y :: ys => if lt y x then y :: insertBy lt x ys else x :: y :: ys

/-- THE stable sort (sort.SliceStable): insertion from the right, an element goes before the
    first element that is not smaller — so earlier equal elements stay earlier. -/
def isort {α} (lt : α → α → Bool) (l : List α) : List α := l.foldr (insertBy lt) []

def Sorted {α} (lt : α → α → Bool) (l : List α) : Prop := l.Pairwise (fun a b => lt b a = false)

/-- what sort.Slice (unstable) may return: any sorted permutation -/
def SortedPermOf {α} (lt : α → α → Bool) (l out : List α) : Prop := out.Perm l ∧ Sorted lt out

-- imports
def strToks (s : Stmt) : List DTok := s.filter (·.tok.kind = .str)

def importName (s : Stmt) : List Nat := (strToks s).flatMap (fun t => decodeLit t.tok.text)

/-- importSortOrder: plain 3, public 2, weak 1 -/
def importOrder (s : Stmt) : Nat :=
  match s with
  | _ :: m :: _ => if m.tok.is "public" then 2 else if m.tok.is "weak" then 1 else 3
  | _ => 3

def DTok.hasComment (t : DTok) : Bool := !t.lead.isEmpty || !t.trail.isEmpty

/-- importHasComment BEFORE the repair (recorded finding
    `comment-dropped:comment-inside-concatenated-string`): comments on the keyword, the modifier,
    the semicolon, before the first or after the last part of the name — NOT between the parts of
    a concatenated name. -/
def importHasCommentOld (s : Stmt) : Bool :=
  let strs := strToks s
  let others := s.filter (·.tok.kind ≠ .str)
  others.any DTok.hasComment ||
    (match strs.head? with | some t => !t.lead.isEmpty | none => false) ||
    (match strs.getLast? with | some t => !t.trail.isEmpty | none => false)

/-- importHasComment (repaired): a comment on ANY token of the statement, the parts of a
    concatenated file name included. -/
def importHasComment (s : Stmt) : Bool := s.any DTok.hasComment

/-- sort key: (name, public > plain > weak as coded: larger order first, commented first) -/
def importKey (s : Stmt) : List Nat :=
  (importName s).map (· + 1) ++ [0, 3 - importOrder s, if importHasComment s then 0 else 1]

def ltImport (a b : Stmt) : Bool := lexLt (importKey a) (importKey b)

/-- duplicate-import elision as coded: skip an import that has the same file name as the import
    BEFORE it in the sorted list and carries no comment. -/
def elide : Option (List Nat) → List Stmt → List Stmt
  | _, [] => []
  | prev, x :: xs =>
    if prev = some (importName x) && !importHasComment x then elide (some (importName x)) xs
    else x :: elide (some (importName x)) xs

def canonImports (l : List Stmt) : List Stmt := elide none (isort ltImport l)

-- options
def optionNameToks : List Token → List Token
  | [] => []
  | t :: ts => if t.is "=" then [] else t :: optionNameToks ts

/-- stringForOptionName: the printed option name = the texts of the name tokens (between the
    `option` keyword and `=`) -/
def optionNameT (ts : List Token) : Str := (optionNameToks (ts.drop 1)).flatMap (·.text)

/-- built-ins before custom options (leading '('), then by name -/
def optionKeyT (ts : List Token) : List Nat :=
  let n := optionNameT ts
  (if n.head? = some '(' then 1 else 0) :: n.map Char.toNat

def optionName (s : Stmt) : Str := optionNameT (stmtText s)
def optionKey (s : Stmt) : List Nat := optionKeyT (stmtText s)

def ltOption (a b : Stmt) : Bool := lexLt (optionKey a) (optionKey b)

def canonOptions (l : List Stmt) : List Stmt := isort ltOption l

/-- header canonicalisation of writeFileHeader (fixed version: stable sorts) -/
def canon (h : Header) : Header :=
  { h with imports := canonImports h.imports, options := canonOptions h.options }

def Header.render (h : Header) : List Stmt :=
  h.syn ++ h.pkg ++ h.imports ++ h.options ++ h.rest

/-- The MODELLED token-level formatter: body rewrites, split into statements, hoist and sort the
    header, concatenate.  (The real printer additionally chooses the layout; it is not modelled.) -/
def fmtModel (ds : List DTok) : List DTok := (canon (parseHeader (stmts (normD ds)))).render.flatten

/-! ## (iv) The checker -/

def stmtComments (s : Stmt) : List CKey := commentsOf s

/-- `subtract ins outs`: remove every statement of `outs` once from `ins`; what is left over -/
def subtract : List Stmt → List Stmt → Option (List Stmt)
  | ins, [] => some ins
  | ins, o :: os => if o ∈ ins then subtract (ins.erase o) os else none

/-- the output imports are the input imports (tokens AND comments) in any order, minus elided
    ones; an elided import carries no comment at all and imports a file that a kept statement
    imports -/
def importsOK (ins outs : List Stmt) : Bool :=
  match subtract ins outs with
  | some elided => elided.all fun e => (stmtComments e).isEmpty && outs.any (fun k => importName k = importName e)
  | none => false

/-- the output options are a STABLE reordering of the input options: a permutation that keeps
    the relative order of the statements of every option name -/
def optionsOK (ins outs : List Stmt) : Bool :=
  outs.isPerm ins &&
    (ins.map optionKey).all fun k => outs.filter (optionKey · = k) == ins.filter (optionKey · = k)

/-- tokens after which the leading/trailing distinction of a comment is kept: the end of a
    declaration or of a body line — `;`, `{`, and a `}` that is not directly followed by `;` `,`
    `]` (such a `}` closes a message-literal VALUE in the middle of a declaration) -/
def isBoundary (t : Token) (next : List DTok) : Bool :=
  t.is ";" || t.is "{" ||
    (t.is "}" && !(match next with | n :: _ => n.tok.is ";" || n.tok.is "," || n.tok.is "]" | [] => false))

/-- Inside a declaration a comment between two tokens is the same comment whether protocompile
    calls it "trailing" for the left or "leading" for the right token (the formatter prints
    `x // c⏎ y` as `x /* c */ y`): it is moved to the leading comments of the right token —
    except after a boundary token and at the end of the statement. `carry` = comments handed on. -/
def gapNormAux : List CKey → List DTok → List DTok
  | _, [] => []
  | carry, d :: rest =>
    if isBoundary d.tok rest || rest.isEmpty then { d with lead := carry ++ d.lead } :: gapNormAux [] rest
    else { d with lead := carry ++ d.lead, trail := [] } :: gapNormAux d.trail rest

def gapNorm (s : Stmt) : Stmt := gapNormAux [] s

/-- the header relation the checker decides, on the statement lists of input and output -/
def headerOK (si so : List Stmt) : Bool :=
  ofCls .syn so == ofCls .syn si && ofCls .pkg so == ofCls .pkg si && ofCls .rest so == ofCls .rest si &&
    importsOK (ofCls .imp si) (ofCls .imp so) && optionsOK (ofCls .opt si) (ofCls .opt so)

/-- the checker on decorated streams -/
def validD (di dout : List DTok) : Bool :=
  dropsClean (annotateD di) && headerOK ((stmts (normD di)).map gapNorm) ((stmts dout).map gapNorm)

/-- the translation validator for one formatter run: the decorated significant-token stream of
    `out` (tokens with the comments attributed to them) is the one of `inp` after the body-level
    rewrites, with the file-level statements rearranged as `headerOK` allows. -/
def validFormat (inp out : Str) : Bool := validD (decorate (lex inp)) (decorate (lex out))

/-- protocompile `newLexer` (parser/lexer.go, `utf8Bom`): a UTF-8 byte order mark at the very
    beginning of a file is consumed before the first token is read; it is in no token, no comment
    and not in the AST the formatter prints from, so the output never has one.  (Anywhere else in
    a file U+FEFF is an invalid character: such a text does not parse and is never formatted.) -/
def bomChar : Char := Char.ofNat 0xFEFF

def stripBOM : Str → Str
  | [] => []
  | c :: cs => if c = bomChar then cs else c :: cs

/-- the translation validator on FILE CONTENTS: `validFormat` behind the byte-order-mark rule of
    the lexer.  This is what the driver runs (degenerate-file family: a file that is a byte order
    mark plus comments formats to just the comments). -/
def validFormatFile (inp out : Str) : Bool := validFormat (stripBOM inp) out

/-! ## (v) The normal form `isFormatted` -/

/-- layout: the text does not start with white space, ends with exactly one newline, and every
    white-space token is either one space or newlines (at most one blank line) followed by an
    indentation of spaces -/
def wsTokOK (s : Str) : Bool :=
  s = [' '] ||
    (let nl := s.takeWhile (· = '\n')
     let ind := s.dropWhile (· = '\n')
     (nl.length = 1 || nl.length = 2) && ind.all (· = ' ') && ind.length % 2 = 0)

def layoutOK : List Token → Bool
  | [] => true
  | [t] => t.kind = .ws && t.text = ['\n']
  | t :: u :: ts => (t.kind != .ws || wsTokOK t.text) && layoutOK (u :: ts)

def startsOK (ts : List Token) : Bool :=
  match ts with
  | t :: _ => t.kind != .ws
  | [] => true

/-- normal form on token level: no token the formatter would rewrite, header hoisted and sorted -/
def formattedD (ds : List DTok) : Bool :=
  (roles (toks ds)).all (· = .keep) &&
    (let ss := stmts ds; (canon (parseHeader ss)).render == ss)

def isFormatted (x : Str) : Bool :=
  let ts := lex x
  formattedD (decorate ts) && startsOK ts && layoutOK ts

end BufModel.Format
