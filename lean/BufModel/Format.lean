/-
  BufModel.Format — model for property C07 (formatting preserves meaning and comments, idempotent).

  The 2.4k-line AST printer (private/buf/bufformat/formatter.go) is NOT modelled.  What is modelled:

  (i)   the proto LEXER (protocompile parser/lexer.go: identifiers, numeric literals with the
        exponent-sign rule, string literals with escapes kept as raw text, single-rune symbols,
        `//` and `/* */` comments, whitespace), `sig` = significant tokens, `comments`;
  (ii)  the token-level rewrites the formatter performs on significant tokens (enumerated from
        formatter.go): empty statements dropped (writeNode EmptyDeclNode / writeFileTypes), message
        literal `<`…`>` printed as `{`…`}` (messageLiteralOpen/Close), the optional `,`/`;` after a
        message-literal field dropped (writeMessageLiteralElements), a missing `:` after a
        message-literal field name added (writeMessageFieldPrefix) — as roles assigned by a bracket
        context automaton (`annotate`) and an explicit inductive relation `Rewrites`;
  (iii) header canonicalisation as coded in writeFileHeader: statements are partitioned into
        syntax/edition, package (last one wins), imports, options, rest; imports sorted by
        (decoded file name, plain > public > weak, commented first) and an import elided when it
        follows an import of the same file and carries no comment; options sorted built-ins before
        custom, then by printed name.  After the fix (sort.SliceStable) the sort is THE stable sort
        (`isort`); before the fix (sort.Slice) it was any sorted permutation (`SortedPermOf`);
  (iv)  the executable checker `validFormat inp out`.
-/
namespace BufModel.Format

abbrev Str := List Char

/-! ## (i) Lexer -/

inductive Kind
  | ident | num | str | sym | lineComment | blockComment | ws
  | bad      -- unterminated string / block comment (protocompile reports an error)
  | fuel     -- never produced when the fuel is the input length (theorem lexer_total)
  deriving DecidableEq, Repr

structure Token where
  kind : Kind
  text : Str
  deriving DecidableEq, Repr

def isWs (c : Char) : Bool := c = ' ' || c = '\t' || c = '\n' || c = '\r' || c = '\x0c' || c = '\x0b'
def isDigit (c : Char) : Bool := '0' ≤ c && c ≤ '9'
def isLetter (c : Char) : Bool := ('a' ≤ c && c ≤ 'z') || ('A' ≤ c && c ≤ 'Z') || c = '_'
def isIdentChar (c : Char) : Bool := isLetter c || isDigit c

/-- longest prefix satisfying `p`, and the rest -/
def spanP (p : Char → Bool) : Str → Str × Str
  | [] => ([], [])
  | c :: cs => if p c then let r := spanP p cs; (c :: r.1, r.2) else ([], c :: cs)

theorem spanP_append (p : Char → Bool) (s : Str) : (spanP p s).1 ++ (spanP p s).2 = s := by
  induction s with
  | nil => rfl
  | cons c cs ih =>
    unfold spanP
    by_cases h : p c
    · simp [h, ih]
    · simp [h]

/-- protocompile readNumber: letters, digits, '.', '_' continue the token; '+'/'-' only right after
    'e'/'E'.  `sign` = a sign is allowed next. -/
def scanNum : Bool → Str → Str × Str
  | _, [] => ([], [])
  | sign, c :: cs =>
    if (c = '-' || c = '+') && !sign then ([], c :: cs)
    else if c = '.' || c = '_' || isIdentChar c || c = '-' || c = '+' then
      let r := scanNum (c = 'e' || c = 'E') cs; (c :: r.1, r.2)
    else ([], c :: cs)

theorem scanNum_append (b : Bool) (s : Str) : (scanNum b s).1 ++ (scanNum b s).2 = s := by
  induction s generalizing b with
  | nil => rfl
  | cons c cs ih =>
    unfold scanNum
    by_cases h1 : ((c = '-' || c = '+') && !b) = true
    · simp [h1]
    · by_cases h2 : (c = '.' || c = '_' || isIdentChar c || c = '-' || c = '+') = true
      · simp [h1, h2, ih]
      · simp [h1, h2]

/-- body of a string literal up to and including the closing quote `q`; a backslash takes the
    next character with it (`esc`); stops (unterminated, `false`) at an unescaped newline or at
    the end of input. -/
def scanStr (q : Char) : Bool → Str → (Str × Str) × Bool
  | _, [] => (([], []), false)
  | esc, c :: cs =>
    if esc then let r := scanStr q false cs; ((c :: r.1.1, r.1.2), r.2)
    else if c = q then (([c], cs), true)
    else if c = '\n' then (([], c :: cs), false)
    else let r := scanStr q (c = '\\') cs; ((c :: r.1.1, r.1.2), r.2)

theorem scanStr_append (q : Char) (e : Bool) (s : Str) :
    (scanStr q e s).1.1 ++ (scanStr q e s).1.2 = s := by
  induction s generalizing e with
  | nil => rfl
  | cons c cs ih =>
    unfold scanStr
    by_cases h0 : e = true
    · simp [h0, ih]
    · by_cases h1 : c = q
      · simp [h0, h1]
      · by_cases h2 : c = '\n'
        · subst h2; simp [h0, h1]
        · simp [h0, h1, h2, ih]

/-- rest of a block comment up to and including "*/" (`true`), or everything (`false`);
    `star` = the previous character was '*'. -/
def scanBlock : Bool → Str → (Str × Str) × Bool
  | _, [] => (([], []), false)
  | star, c :: cs =>
    if star && c = '/' then (([c], cs), true)
    else let r := scanBlock (c = '*') cs; ((c :: r.1.1, r.1.2), r.2)

theorem scanBlock_append (b : Bool) (s : Str) :
    (scanBlock b s).1.1 ++ (scanBlock b s).1.2 = s := by
  induction s generalizing b with
  | nil => rfl
  | cons c cs ih =>
    unfold scanBlock
    by_cases h : (b && c = '/') = true
    · simp [h]
    · simp [h, ih]

/-- One lexer step on a non-empty input `c :: cs`: the token (whose text starts with `c`) and the
    remaining input. -/
def step (c : Char) (cs : Str) : Token × Str :=
  if isWs c then let r := spanP isWs cs; (⟨.ws, c :: r.1⟩, r.2)
  else if isLetter c then let r := spanP isIdentChar cs; (⟨.ident, c :: r.1⟩, r.2)
  else if isDigit c then let r := scanNum false cs; (⟨.num, c :: r.1⟩, r.2)
  else if c = '.' then
    match cs with
    | d :: _ => if isDigit d then let r := scanNum false cs; (⟨.num, c :: r.1⟩, r.2) else (⟨.sym, [c]⟩, cs)
    | [] => (⟨.sym, [c]⟩, cs)
  else if c = '"' || c = '\'' then
    let r := scanStr c false cs; (⟨if r.2 then .str else .bad, c :: r.1.1⟩, r.1.2)
  else if c = '/' then
    match cs with
    | '/' :: ds => let r := spanP (fun x => x ≠ '\n') ds; (⟨.lineComment, c :: '/' :: r.1⟩, r.2)
    | '*' :: ds => let r := scanBlock false ds; (⟨if r.2 then .blockComment else .bad, c :: '*' :: r.1.1⟩, r.1.2)
    | _ => (⟨.sym, [c]⟩, cs)
  else (⟨.sym, [c]⟩, cs)

theorem step_spec (c : Char) (cs : Str) :
    ∃ a, (step c cs).1.text = c :: a ∧ a ++ (step c cs).2 = cs := by
  unfold step
  split
  · exact ⟨_, rfl, spanP_append _ _⟩
  split
  · exact ⟨_, rfl, spanP_append _ _⟩
  split
  · exact ⟨_, rfl, scanNum_append _ _⟩
  split
  · split
    · split
      · exact ⟨_, rfl, scanNum_append _ _⟩
      · exact ⟨[], rfl, rfl⟩
    · exact ⟨[], rfl, rfl⟩
  split
  · exact ⟨_, rfl, scanStr_append _ _ _⟩
  split
  · split
    · exact ⟨_, rfl, by simp [spanP_append]⟩
    · exact ⟨_, rfl, by simp [scanBlock_append]⟩
    · exact ⟨[], rfl, rfl⟩
  · exact ⟨[], rfl, rfl⟩

theorem step_kind_ne_fuel (c : Char) (cs : Str) : (step c cs).1.kind ≠ .fuel := by
  unfold step
  repeat' split
  all_goals first | (simp; done) | (simp only []; split <;> simp)

theorem step_length (c : Char) (cs : Str) : (step c cs).2.length ≤ cs.length := by
  obtain ⟨a, _, h⟩ := step_spec c cs
  have := congrArg List.length h
  simp at this; omega

def lexAux : Nat → Str → List Token
  | _, [] => []
  | 0, s => [⟨.fuel, s⟩]
  | n + 1, c :: cs => (step c cs).1 :: lexAux n (step c cs).2

/-- The lexer: total, fuel = length of the input. -/
def lex (s : Str) : List Token := lexAux s.length s

def Token.isSig (t : Token) : Bool :=
  match t.kind with
  | .ws | .lineComment | .blockComment => false
  | _ => true

def Token.isComment (t : Token) : Bool :=
  match t.kind with
  | .lineComment | .blockComment => true
  | _ => false

/-- significant tokens: everything but whitespace and comments -/
def sig (ts : List Token) : List Token := ts.filter Token.isSig
def comments (ts : List Token) : List Token := ts.filter Token.isComment

def sym (s : String) : Token := ⟨.sym, s.toList⟩
def Token.is (t : Token) (s : String) : Bool := t.text = s.toList

/-! ## (ii) Token rewrites: roles assigned by a bracket-context automaton -/

inductive Role
  | keep
  | dropEmpty      -- `;` that is an empty statement
  | dropSep        -- optional `,` / `;` after a message-literal field
  | toOpenBrace    -- `<` opening a message literal, printed `{`
  | toCloseBrace   -- `>` closing a message literal, printed `}`
  | colonAfter     -- last token of a message-literal field name not followed by `:`; `:` is added
  deriving DecidableEq, Repr

inductive Frame
  | body                      -- `{ }` of a declaration
  | lit (angle : Bool) (inValue : Bool)   -- message literal; inValue = after a field name
  | litName                   -- `[ext.name]` / `[type.url/name]` in field-name position
  | arr                       -- `[ ]` list value inside a message literal
  | bracket                   -- `[ ]` compact options
  | paren
  deriving DecidableEq, Repr

structure AState where
  stack : List Frame := []
  stmtStart : Bool := true    -- at the start of a statement of the enclosing body / file
  prevEq : Bool := false      -- previous significant token was `=`
  deriving Repr

/-- after a value of the enclosing message literal ended -/
def valueDone : List Frame → List Frame
  | .lit a _ :: rest => .lit a false :: rest
  | st => st

def nextIsColon : List Token → Bool
  | t :: _ => t.is ":"
  | [] => false

/-- One automaton step: the role of token `t` (given the tokens after it) and the next state. -/
def roleOf (st : AState) (t : Token) (rest : List Token) : Role × AState :=
  match st.stack with
  | .lit angle inValue :: up =>
    if !inValue then
      if t.is "," || t.is ";" then (.dropSep, st)
      else if t.is "}" || t.is ">" then
        (if t.is ">" && angle then .toCloseBrace else .keep,
         { st with stack := valueDone up, stmtStart := false, prevEq := false })
      else if t.is "[" then (.keep, { st with stack := .litName :: st.stack })
      else if t.kind = .ident then
        (if nextIsColon rest then .keep else .colonAfter, { st with stack := .lit angle true :: up })
      else (.keep, st)
    else
      if t.is ":" || t.is "-" then (.keep, st)
      else if t.is "{" then (.keep, { st with stack := .lit false false :: st.stack })
      else if t.is "<" then (.toOpenBrace, { st with stack := .lit true false :: st.stack })
      else if t.is "[" then (.keep, { st with stack := .arr :: st.stack })
      else (.keep, { st with stack := .lit angle false :: up })
  | .litName :: up =>
    if t.is "]" then
      (if nextIsColon rest then .keep else .colonAfter,
       { st with stack := match up with | .lit a _ :: r => .lit a true :: r | u => u })
    else (.keep, st)
  | .arr :: up =>
    if t.is "{" then (.keep, { st with stack := .lit false false :: st.stack })
    else if t.is "<" then (.toOpenBrace, { st with stack := .lit true false :: st.stack })
    else if t.is "]" then (.keep, { st with stack := valueDone up })
    else (.keep, st)
  | .paren :: up =>
    if t.is ")" then (.keep, { st with stack := up }) else (.keep, st)
  | .bracket :: up =>
    if t.is "]" then (.keep, { st with stack := up, prevEq := false })
    else if t.is "=" then (.keep, { st with prevEq := true })
    else if t.is "{" && st.prevEq then (.keep, { st with stack := .lit false false :: st.stack, prevEq := false })
    else if t.is "(" then (.keep, { st with stack := .paren :: st.stack, prevEq := false })
    else (.keep, { st with prevEq := false })
  | _ =>  -- file level or a declaration body
    if t.is ";" then
      (if st.stmtStart then .dropEmpty else .keep, { st with stmtStart := true, prevEq := false })
    else if t.is "{" then
      if st.prevEq then (.keep, { st with stack := .lit false false :: st.stack, stmtStart := false, prevEq := false })
      else (.keep, { st with stack := .body :: st.stack, stmtStart := true, prevEq := false })
    else if t.is "}" then (.keep, { st with stack := st.stack.tail, stmtStart := true, prevEq := false })
    else if t.is "[" then (.keep, { st with stack := .bracket :: st.stack, stmtStart := false, prevEq := false })
    else if t.is "(" then (.keep, { st with stack := .paren :: st.stack, stmtStart := false, prevEq := false })
    else if t.is "=" then (.keep, { st with stmtStart := false, prevEq := true })
    else (.keep, { st with stmtStart := false, prevEq := false })

def annotateFrom : AState → List Token → List (Token × Role)
  | _, [] => []
  | st, t :: rest => let r := roleOf st t rest; (t, r.1) :: annotateFrom r.2 rest

/-- roles of the significant tokens of a file -/
def annotate (ts : List Token) : List (Token × Role) := annotateFrom {} ts

def normTok : Token × Role → List Token
  | (t, .keep) => [t]
  | (_, .dropEmpty) => []
  | (_, .dropSep) => []
  | (_, .toOpenBrace) => [sym "{"]
  | (_, .toCloseBrace) => [sym "}"]
  | (t, .colonAfter) => [t, sym ":"]

/-- the significant tokens after the body-level rewrites -/
def norm (ts : List Token) : List Token := (annotate ts).flatMap normTok

/-- The documented body-level rewrites, as an explicit relation between role-annotated input
    tokens and output tokens. -/
inductive Rewrites : List (Token × Role) → List Token → Prop
  | nil : Rewrites [] []
  | keep (t) {l o} : Rewrites l o → Rewrites ((t, .keep) :: l) (t :: o)
  | dropEmpty (t) {l o} : t.is ";" → Rewrites l o → Rewrites ((t, .dropEmpty) :: l) o
  | dropSep (t) {l o} : (t.is "," ∨ t.is ";") → Rewrites l o → Rewrites ((t, .dropSep) :: l) o
  | openBrace (t) {l o} : t.is "<" → Rewrites l o → Rewrites ((t, .toOpenBrace) :: l) (sym "{" :: o)
  | closeBrace (t) {l o} : t.is ">" → Rewrites l o → Rewrites ((t, .toCloseBrace) :: l) (sym "}" :: o)
  | colonAfter (t) {l o} : Rewrites l o → Rewrites ((t, .colonAfter) :: l) (t :: sym ":" :: o)


theorem norm_rewrites_aux (l : List (Token × Role))
    (h : ∀ p ∈ l, (p.2 = .dropEmpty → p.1.is ";") ∧ (p.2 = .dropSep → (p.1.is "," ∨ p.1.is ";")) ∧
      (p.2 = .toOpenBrace → p.1.is "<") ∧ (p.2 = .toCloseBrace → p.1.is ">")) :
    Rewrites l (l.flatMap normTok) := by
  induction l with
  | nil => exact .nil
  | cons p l ih =>
    have hp := h p (List.mem_cons_self ..)
    have ih' := ih (fun q hq => h q (List.mem_cons_of_mem _ hq))
    obtain ⟨t, r⟩ := p
    cases r with
    | keep => exact .keep t ih'
    | dropEmpty => exact .dropEmpty t (hp.1 rfl) ih'
    | dropSep => exact .dropSep t (hp.2.1 rfl) ih'
    | toOpenBrace => exact .openBrace t (hp.2.2.1 rfl) ih'
    | toCloseBrace => exact .closeBrace t (hp.2.2.2 rfl) ih'
    | colonAfter => exact .colonAfter t ih'

/-! ## Comment attribution (protocompile lexer.setPrevAndAddComments) -/

/-- significant token with "has a leading / trailing comment attributed to it" -/
structure STok where
  tok : Token
  lead : Bool := false
  trail : Bool := false
  deriving DecidableEq, Repr

def newlines (s : Str) : Nat := (s.filter (· = '\n')).length

structure Pending where
  start : Nat
  stop : Nat
  line : Bool

structure AttrState where
  out : List STok := []          -- reversed
  prev : Option STok := none
  prevEnd : Nat := 0
  pend : List Pending := []
  line : Nat := 0

/-- does the first pending comment become a trailing comment of the previous token? -/
def donates (prev : Option STok) (prevEnd : Nat) (pend : List Pending) (nStart : Nat) : Bool :=
  match prev, pend with
  | some _, c :: cs => nStart > prevEnd && c.start = prevEnd && (c.line || !cs.isEmpty || c.stop < nStart)
  | _, _ => false

def flush (st : AttrState) (nStart : Nat) : List STok × Bool :=
  let d := donates st.prev st.prevEnd st.pend nStart
  let out := match st.prev with
    | some p => { p with trail := p.trail || d } :: st.out
    | none => st.out
  (out, if d then st.pend.length > 1 else !st.pend.isEmpty)

def attrStep (st : AttrState) (t : Token) : AttrState :=
  let nl := newlines t.text
  match t.kind with
  | .ws => { st with line := st.line + nl }
  | .lineComment => { st with pend := st.pend ++ [⟨st.line, st.line + nl, true⟩], line := st.line + nl }
  | .blockComment => { st with pend := st.pend ++ [⟨st.line, st.line + nl, false⟩], line := st.line + nl }
  | _ =>
    let r := flush st st.line
    { out := r.1, prev := some { tok := t, lead := r.2 }, prevEnd := st.line + nl, pend := [], line := st.line + nl }

/-- significant tokens with their comment flags -/
def attributeComments (ts : List Token) : List STok :=
  let st := ts.foldl attrStep {}
  let nStart := if st.line = st.prevEnd then st.line + 1 else st.line   -- EOF pretends to be on its own line
  (flush st nStart).1.reverse

/-! ## (iii) Header canonicalisation -/

def hexVal (c : Char) : Option Nat :=
  if '0' ≤ c ∧ c ≤ '9' then some (c.toNat - 48)
  else if 'a' ≤ c ∧ c ≤ 'f' then some (c.toNat - 87)
  else if 'A' ≤ c ∧ c ≤ 'F' then some (c.toNat - 55)
  else none

def utf8 (n : Nat) : List Nat :=
  if n < 0x80 then [n]
  else if n < 0x800 then [0xC0 + n / 64, 0x80 + n % 64]
  else if n < 0x10000 then [0xE0 + n / 4096, 0x80 + n / 64 % 64, 0x80 + n % 64]
  else [0xF0 + n / 262144, 0x80 + n / 4096 % 64, 0x80 + n / 64 % 64, 0x80 + n % 64]

def takeHex : Nat → Str → List Nat × Str
  | 0, s => ([], s)
  | _, [] => ([], [])
  | n + 1, c :: cs => match hexVal c with
    | some v => let r := takeHex n cs; (v :: r.1, r.2)
    | none => ([], c :: cs)

def takeOct : Nat → Str → List Nat × Str
  | 0, s => ([], s)
  | _, [] => ([], [])
  | n + 1, c :: cs => if '0' ≤ c ∧ c ≤ '7' then let r := takeOct n cs; ((c.toNat - 48) :: r.1, r.2) else ([], c :: cs)

def fromDigits (base : Nat) (ds : List Nat) : Nat := ds.foldl (fun a d => a * base + d) 0

/-- bytes denoted by the inside of a string literal (escapes as in protocompile readStringLiteral) -/
def decodeBody : Nat → Str → List Nat
  | 0, _ => []
  | _, [] => []
  | n + 1, c :: cs =>
    if c = '\\' then
      match cs with
      | [] => []
      | e :: es =>
        if e = 'x' || e = 'X' then let r := takeHex 2 es; fromDigits 16 r.1 :: decodeBody n r.2
        else if '0' ≤ e ∧ e ≤ '7' then let r := takeOct 3 cs; fromDigits 8 r.1 :: decodeBody n r.2
        else if e = 'u' then let r := takeHex 4 es; utf8 (fromDigits 16 r.1) ++ decodeBody n r.2
        else if e = 'U' then let r := takeHex 8 es; utf8 (fromDigits 16 r.1) ++ decodeBody n r.2
        else
          let b := if e = 'a' then 7 else if e = 'b' then 8 else if e = 'f' then 12 else if e = 'n' then 10
            else if e = 'r' then 13 else if e = 't' then 9 else if e = 'v' then 11 else e.toNat
          b :: decodeBody n es
    else utf8 c.toNat ++ decodeBody n cs

/-- value of one string-literal token (quotes stripped) -/
def decodeLit (text : Str) : List Nat :=
  let body := (text.drop 1).dropLast
  decodeBody body.length body

/-- file-level statement: its tokens after the body-level rewrites -/
abbrev Stmt := List STok

def stmtText (s : Stmt) : List Token := s.map (·.tok)

def firstIs (s : Stmt) (w : String) : Bool :=
  match s with
  | t :: _ => t.tok.is w
  | [] => false

/-- split the (normalised) significant tokens of a file into file-level statements: a statement
    ends at `;` at brace depth 0, or at the `}` that returns to depth 0 unless it is an `option`
    statement (whose message-literal value is followed by `;`). -/
def splitStmts : List STok → Nat → Stmt → List Stmt
  | [], _, cur => if cur.isEmpty then [] else [cur.reverse]
  | t :: ts, depth, cur =>
    let cur' := t :: cur
    if t.tok.is "{" then splitStmts ts (depth + 1) cur'
    else if t.tok.is "}" then
      if depth ≤ 1 && !(firstIs cur'.reverse "option") then cur'.reverse :: splitStmts ts 0 []
      else splitStmts ts (depth - 1) cur'
    else if t.tok.is ";" && depth = 0 then cur'.reverse :: splitStmts ts 0 []
    else splitStmts ts depth cur'

structure Header where
  syn : List Stmt := []        -- syntax / edition
  pkg : Option Stmt := none    -- the LAST package statement (writeFileHeader overwrites)
  imports : List Stmt := []
  options : List Stmt := []
  rest : List Stmt := []

def parseHeader (ss : List Stmt) : Header :=
  ss.foldl (fun h s =>
    if firstIs s "syntax" || firstIs s "edition" then { h with syn := h.syn ++ [s] }
    else if firstIs s "package" then { h with pkg := some s }
    else if firstIs s "import" then { h with imports := h.imports ++ [s] }
    else if firstIs s "option" then { h with options := h.options ++ [s] }
    else { h with rest := h.rest ++ [s] }) {}

/-- lexicographic `<` on keys -/
def lexLt : List Nat → List Nat → Bool
  | _, [] => false
  | [], _ :: _ => true
  | a :: as, b :: bs => a < b || (a = b && lexLt as bs)

def insertBy {α} (lt : α → α → Bool) (x : α) : List α → List α
  | [] => [x]
  | y :: ys => if lt y x then y :: insertBy lt x ys else x :: y :: ys

/-- THE stable sort (sort.SliceStable): insertion from the right, an element goes before the
    first element that is not smaller — so earlier equal elements stay earlier. -/
def isort {α} (lt : α → α → Bool) (l : List α) : List α := l.foldr (insertBy lt) []

def Sorted {α} (lt : α → α → Bool) (l : List α) : Prop := l.Pairwise (fun a b => lt b a = false)

/-- what sort.Slice (unstable) may return: any sorted permutation -/
def SortedPermOf {α} (lt : α → α → Bool) (l out : List α) : Prop := out.Perm l ∧ Sorted lt out

-- imports
def strToks (s : Stmt) : List STok := s.filter (·.tok.kind = .str)

def importName (s : Stmt) : List Nat := (strToks s).flatMap (fun t => decodeLit t.tok.text)

/-- importSortOrder: plain 3, public 2, weak 1 -/
def importOrder (s : Stmt) : Nat :=
  match s with
  | _ :: m :: _ => if m.tok.is "public" then 2 else if m.tok.is "weak" then 1 else 3
  | _ => 3

/-- importHasComment: comments on the keyword, the modifier, the semicolon, before the first or
    after the last part of the name — NOT between the parts of a concatenated name. -/
def importHasComment (s : Stmt) : Bool :=
  let strs := strToks s
  let others := s.filter (·.tok.kind ≠ .str)
  others.any (fun t => t.lead || t.trail) ||
    (match strs.head? with | some t => t.lead | none => false) ||
    (match strs.getLast? with | some t => t.trail | none => false)

/-- sort key: (name, public > plain > weak as coded: larger order first, commented first) -/
def importKey (s : Stmt) : List Nat :=
  (importName s).map (· + 1) ++ [0, 3 - importOrder s, if importHasComment s then 0 else 1]

def ltImport (a b : Stmt) : Bool := lexLt (importKey a) (importKey b)

/-- duplicate-import elision as coded: skip an import that has the same file name as the import
    BEFORE it in the sorted list and carries no comment. -/
def elide : Option (List Nat) → List Stmt → List Stmt
  | _, [] => []
  | prev, x :: xs =>
    if prev = some (importName x) && !importHasComment x then elide (some (importName x)) xs
    else x :: elide (some (importName x)) xs

def canonImports (l : List Stmt) : List Stmt := elide none (isort ltImport l)

-- options
def optionNameToks : List Token → List Token
  | [] => []
  | t :: ts => if t.is "=" then [] else t :: optionNameToks ts

/-- stringForOptionName: the printed option name = the texts of the name tokens (between the
    `option` keyword and `=`) -/
def optionNameT (ts : List Token) : Str := (optionNameToks (ts.drop 1)).flatMap (·.text)

/-- built-ins before custom options (leading '('), then by name -/
def optionKeyT (ts : List Token) : List Nat :=
  let n := optionNameT ts
  (if n.head? = some '(' then 1 else 0) :: n.map Char.toNat

def optionName (s : Stmt) : Str := optionNameT (stmtText s)
def optionKey (s : Stmt) : List Nat := optionKeyT (stmtText s)

def ltOption (a b : Stmt) : Bool := lexLt (optionKey a) (optionKey b)

def canonOptions (l : List Stmt) : List Stmt := isort ltOption l

/-- header canonicalisation of writeFileHeader (fixed version: stable sorts) -/
def canon (h : Header) : Header :=
  { h with imports := canonImports h.imports, options := canonOptions h.options }

def Header.render (h : Header) : List Stmt :=
  h.syn ++ h.pkg.toList ++ h.imports ++ h.options ++ h.rest

/-! ## (iv) The checker -/

/-- normalised significant tokens with comment flags (the flag of a rewritten token stays on its
    first output token) -/
def normA (ts : List STok) : List STok :=
  let roles := annotate (ts.map (·.tok))
  (ts.zip roles).flatMap fun (s, (_, r)) =>
    match normTok (s.tok, r) with
    | [] => []
    | t :: more => { s with tok := t } :: more.map (fun u => { tok := u })

def headerOf (src : Str) : Header := parseHeader (splitStmts (normA (attributeComments (lex src))) 0 [])

def sameToks (a b : List Stmt) : Bool := a.map stmtText == b.map stmtText

/-- remove the first statement satisfying `p` -/
def eraseStmt (p : Stmt → Bool) : List Stmt → Option (List Stmt)
  | [] => none
  | y :: ys => if p y then some ys else (eraseStmt p ys).map (y :: ·)

/-- match every output import against a distinct input import with the same tokens; the
    unmatched input imports are returned -/
def matchImports : List Stmt → List Stmt → Option (List Stmt)
  | ins, [] => some ins
  | ins, o :: os =>
    -- prefer a commented input statement: the ones left over must be comment-free
    match eraseStmt (fun y => stmtText y = stmtText o && importHasComment y) ins with
    | some ins' => matchImports ins' os
    | none => match eraseStmt (fun y => stmtText y = stmtText o) ins with
      | some ins' => matchImports ins' os
      | none => none

def importsOK (ins outs : List Stmt) : Bool :=
  match matchImports ins outs with
  | some elided => elided.all fun e => !importHasComment e && outs.any (fun k => importName k = importName e)
  | none => false

def optionsOKT (ins outs : List (List Token)) : Bool :=
  outs.isPerm ins &&
    (ins.map optionKeyT).all fun k => outs.filter (optionKeyT · = k) == ins.filter (optionKeyT · = k)

/-- the output options are a STABLE reordering of the input options: a permutation that keeps
    the relative order of the statements of every option name -/
def optionsOK (ins outs : List Stmt) : Bool := optionsOKT (ins.map stmtText) (outs.map stmtText)

/-- comment content up to the layout changes the formatter documents: the words between the
    comment markers -/
def splitWords : Str → Str → List Str
  | [], cur => if cur.isEmpty then [] else [cur.reverse]
  | c :: cs, cur => if isWs c then (if cur.isEmpty then splitWords cs [] else cur.reverse :: splitWords cs []) else splitWords cs (c :: cur)

def commentKey (t : Token) : List Str :=
  let body := if t.kind = .lineComment then t.text.drop 2 else ((t.text.drop 2).reverse.drop 2).reverse
  splitWords body []

def commentsOK (inp out : List Token) : Bool :=
  ((comments out).map commentKey).isPerm ((comments inp).map commentKey)

/-- nearest significant neighbours of every comment: (text of the previous significant token,
    text of the next one), `<`/`>` read as `{`/`}` -/
def braceText (t : Token) : Str := if t.is "<" then "{".toList else if t.is ">" then "}".toList else t.text

def neighbours : List Token → Str → List (List Str × Str × Str)
  | [], _ => []
  | t :: ts, prev =>
    if t.isComment then
      let next := match ts.find? Token.isSig with | some n => braceText n | none => []
      (commentKey t, prev, next) :: neighbours ts prev
    else if t.isSig then neighbours ts (braceText t) else neighbours ts prev

/-- every comment of the input (with a unique text) keeps its preceding or its following
    significant token -/
def neighboursOK (inp out : List Token) : Bool :=
  let ni := neighbours inp []
  let no := neighbours out []
  ni.all fun (k, p, n) =>
    match no.filter (·.1 = k) with
    | [(_, p', n')] => (ni.filter (·.1 = k)).length != 1 || p' = p || n' = n
    | _ => true

/-- the translation validator for one formatter run -/
def validFormat (inp out : Str) : Bool :=
  let ti := lex inp
  let to := lex out
  let hi := headerOf inp
  let ho := headerOf out
  sameToks hi.syn ho.syn && sameToks hi.pkg.toList ho.pkg.toList && sameToks hi.rest ho.rest &&
    importsOK hi.imports ho.imports && optionsOK hi.options ho.options &&
    commentsOK ti to

/-! ## (iii) The pending-space automaton of formatter.WriteString -/

structure WState where
  pendingSpace : Bool := false
  inline : Bool := false
  last : Char := '\x00'        -- lastWritten (0 = nothing written yet)
  out : List Char := []         -- reversed output

/-- does WriteString(elem) first emit the pending space? (as coded: block lists) -/
def emitsSpace (st : WState) (elem : Str) : Bool :=
  let first := elem.headD '\x00'    -- utf8.DecodeRuneInString of "" is RuneError; never in a block list either way
  let prevBlock : List Char := if st.inline then ['\x00', ' ', '\t', '\n', '<', '[', '{', '('] else ['\x00', ' ', '\t', '\n']
  let nextBlock : List Char := if st.inline then ['\n', ';', ',', ')', ']', '}', '>'] else ['\n', ';', ',']
  st.pendingSpace && !prevBlock.contains st.last && !(elem ≠ [] && nextBlock.contains first)

def writeString (st : WState) (elem : Str) : WState :=
  let out1 := if emitsSpace st elem then ' ' :: st.out else st.out
  match elem.getLast? with
  | none => { st with pendingSpace := false, out := out1 }
  | some l => { st with pendingSpace := false, last := l, out := elem.reverse ++ out1 }

def space (st : WState) : WState := { st with pendingSpace := true }

end BufModel.Format
