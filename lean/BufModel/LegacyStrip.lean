/-
  BufModel.LegacyStrip — executable model of `stripLegacyOptions`
  (private/pkg/protoencoding/strip_legacy_options.go), the pass that makes the descriptors of an
  image acceptable to the Go protobuf runtime before a resolver is built from them (property C11:
  the resolver is built WHILE an image is read back, from descriptors the image shares).

  What the code does, on a tree  file → messages → nested messages:
    * a message with `message_set_wire_format = true` loses that option,
    * a field / extension with option `weak = true` loses that option,
    * an extension whose number is above 2^29-1 is dropped,
    * an extension range whose start is above 2^29-1 is dropped, one whose (exclusive) end is above
      2^29 gets end 2^29,
  and its contract: "This does not actually mutate the given descriptors … If any of the descriptors
  needs to be modified, it is first cloned".

  Everything the pass does not look at is an opaque `rest : Nat` per node (the harness fills it
  with a hash of the remaining bytes), so "touches nothing else" is visible in the model.

  POINTERS.  Go descriptors are heap objects; "never mutates its input" is a statement about
  them.  The descriptor tree is exclusively owned (no node has two parents), so a function call
  `f(node)` is modelled as returning the pair  (the caller's node AS IT IS AFTER THE CALL, result).
  Inside `stripLegacyOptionsFromMessage` the local variable `message` refers either to the caller's
  object or, after `message = proto.CloneOf(message)`, to a private deep copy: state `St` keeps both
  (`orig`, `clone`), a write through `message` (`St.write`) lands in the clone if there is one and in
  the CALLER'S OBJECT otherwise.  The code as written calls `ensure` (the `if !cloned { clone }`
  block) before every write; the flag `faithful = false` omits it for `message.NestedType[i] = …`,
  which is the regression this model exists to exclude (`Props/C11Legacy.lean`).
  A `for i, x := range message.X` loop ranges over the slice `message.X` had WHEN THE LOOP
  STARTED; whether that slice belongs to the caller's object or to the clone is `ownerIsOrig`.
-/
namespace BufModel.LegacyStrip

/-- 2^29 - 1, `maxTagNumber` in resolver.go -/
def maxTag : Int := 536870911

structure FOpts where
  weak : Option Bool
  rest : Nat
deriving DecidableEq, Repr

/-- a field or an extension (FieldDescriptorProto) -/
structure Fld where
  number : Option Int
  opts : Option FOpts
  rest : Nat
deriving DecidableEq, Repr

structure ERange where
  start : Option Int
  stop : Option Int
  rest : Nat
deriving DecidableEq, Repr

structure MOpts where
  mset : Option Bool
  rest : Nat
deriving DecidableEq, Repr

inductive Msg where
  | mk (rest : Nat) (opts : Option MOpts) (fields : List Fld) (nested : List Msg)
       (ranges : List ERange) (exts : List Fld)
deriving Repr

structure File where
  rest : Nat
  msgs : List Msg
  exts : List Fld
deriving Repr

/-- `GetOptions().GetMessageSetWireFormat()` on a possibly-nil options message -/
def optsMset (o : Option MOpts) : Bool := match o with | some o => o.mset == some true | none => false

namespace Msg
def opts : Msg → Option MOpts | .mk _ o _ _ _ _ => o
def fields : Msg → List Fld | .mk _ _ f _ _ _ => f
def nested : Msg → List Msg | .mk _ _ _ n _ _ => n
def ranges : Msg → List ERange | .mk _ _ _ _ r _ => r
def exts : Msg → List Fld | .mk _ _ _ _ _ e => e
def putOpts (o : Option MOpts) : Msg → Msg | .mk r _ f n g e => .mk r o f n g e
def putFields (f : List Fld) : Msg → Msg | .mk r o _ n g e => .mk r o f n g e
def putNested (n : List Msg) : Msg → Msg | .mk r o f _ g e => .mk r o f n g e
def putRanges (g : List ERange) : Msg → Msg | .mk r o f n _ e => .mk r o f n g e
def putExts (e : List Fld) : Msg → Msg | .mk r o f n g _ => .mk r o f n g e
/-- `message.GetOptions().GetMessageSetWireFormat()` -/
def isMset (m : Msg) : Bool := optsMset m.opts
/-- `message.Options.MessageSetWireFormat = nil` -/
def clearMset (m : Msg) : Msg := m.putOpts (m.opts.map fun o => { o with mset := none })
end Msg

/-! ## fields, extensions, extension ranges (no pointers involved: results are fresh values) -/

def Fld.getNumber (f : Fld) : Int := f.number.getD 0
/-- `field.GetOptions().GetWeak()` -/
def Fld.isWeak (f : Fld) : Bool := match f.opts with | some o => o.weak == some true | none => false
/-- the clone with `Options.Weak = nil` -/
def Fld.clearWeak (f : Fld) : Fld := { f with opts := f.opts.map fun o => { o with weak := none } }

/-- `stripLegacyOptionsFromField`: `none` = nil = unchanged -/
def stripField (f : Fld) : Option Fld := if f.isWeak then some f.clearWeak else none

/-- loop of `stripLegacyOptionsFromExtensions`; `seen` = exts[:i], `acc` = newExts (`none` = nil) -/
def stripExtsGo : List Fld → List Fld → Option (List Fld) → Option (List Fld)
  | _, [], acc => acc
  | seen, e :: rest, acc =>
    if e.getNumber > maxTag then
      stripExtsGo (seen ++ [e]) rest (some (acc.getD seen))
    else match stripField e with
      | some d => stripExtsGo (seen ++ [e]) rest (some (acc.getD seen ++ [d]))
      | none => stripExtsGo (seen ++ [e]) rest (acc.map (· ++ [e]))

def stripExts (l : List Fld) : Option (List Fld) := stripExtsGo [] l none

def ERange.getStart (r : ERange) : Int := r.start.getD 0
def ERange.getStop (r : ERange) : Int := r.stop.getD 0

/-- loop of `stripLegacyOptionsFromExtensionRanges` -/
def stripRangesGo : List ERange → List ERange → Option (List ERange) → Option (List ERange)
  | _, [], acc => acc
  | seen, e :: rest, acc =>
    if e.getStart > maxTag then
      stripRangesGo (seen ++ [e]) rest (some (acc.getD seen))
    else if e.getStop > maxTag + 1 then
      stripRangesGo (seen ++ [e]) rest (some (acc.getD seen ++ [{ e with stop := some (maxTag + 1) }]))
    else
      stripRangesGo (seen ++ [e]) rest (acc.map (· ++ [e]))

def stripRanges (l : List ERange) : Option (List ERange) := stripRangesGo [] l none

/-! ## the pointer discipline -/

/-- what the local variable of a strip function refers to: the caller's object `orig`, or a
    private deep copy `clone` (then `cloned = true` in the code) -/
structure St (α : Type) where
  orig : α
  clone : Option α

namespace St
variable {α : Type}
/-- the object the local variable points to -/
def cur (s : St α) : α := s.clone.getD s.orig
/-- `if !cloned { x = proto.CloneOf(x); cloned = true }` -/
def ensure (s : St α) : St α := match s.clone with | some _ => s | none => { s with clone := some s.orig }
/-- an assignment through the local variable -/
def write (s : St α) (f : α → α) : St α :=
  match s.clone with
  | some c => { s with clone := some (f c) }
  | none => { s with orig := f s.orig }
/-- `if res != nil { if !cloned { clone }; x.F = res }` -/
def writeIf {γ : Type} (s : St α) (res : Option γ) (put : γ → α → α) : St α :=
  match res with
  | none => s
  | some e => s.ensure.write (put e)
end St

/-- a repeated child field of a container: how to read it and how to replace it -/
structure Lens (α β : Type) where
  get : α → List β
  put : List β → α → α

/-- `x.Children[i] = b` -/
def Lens.setAt {α β : Type} (L : Lens α β) (i : Nat) (b : β) (a : α) : α := L.put ((L.get a).set i b) a

def fieldsL : Lens Msg Fld := ⟨Msg.fields, Msg.putFields⟩
def nestedL : Lens Msg Msg := ⟨Msg.nested, Msg.putNested⟩
def msgsL : Lens File Msg := ⟨File.msgs, fun l f => { f with msgs := l }⟩

/-- `for i, c := range x.Children { d := strip(c); if d == nil { continue }; [ensure clone;]
    x.Children[i] = d }` where `strip c` returns (c as it is after the call, result).
    The ranged-over slice belongs to the caller's object iff `ownerIsOrig`; a child that `strip`
    changed in place is changed in that owner. -/
def childLoop {α β : Type} (L : Lens α β) (strip : β → β × Option β) (faithful ownerIsOrig : Bool) :
    Nat → List β → St α → St α
  | _, [], s => s
  | i, c :: cs, s =>
    let r := strip c
    let s1 : St α := if ownerIsOrig then { s with orig := L.setAt i r.1 s.orig }
                     else { s with clone := s.clone.map (L.setAt i r.1) }
    let s2 : St α := match r.2 with
      | none => s1
      | some d => (if faithful then s1.ensure else s1).write (L.setAt i d)
    childLoop L strip faithful ownerIsOrig (i + 1) cs s2

/-- phases of `stripLegacyOptionsFromMessage` that involve no recursion -/
def msgHead (m : Msg) : St Msg :=
  let s0 : St Msg := ⟨m, none⟩
  -- if message.GetOptions().GetMessageSetWireFormat() { clone; message.Options.MessageSetWireFormat = nil }
  let s1 := if m.isMset then s0.ensure.write Msg.clearMset else s0
  -- for i, field := range message.Field
  childLoop fieldsL (fun f => (f, stripField f)) true s1.clone.isNone 0 s1.cur.fields s1

def msgTail (s3 : St Msg) : Msg × Option Msg :=
  let s4 := s3.writeIf (stripRanges s3.cur.ranges) Msg.putRanges
  let s5 := s4.writeIf (stripExts s4.cur.exts) Msg.putExts
  -- if cloned { return message }; return nil
  (s5.orig, s5.clone)

mutual
/-- `stripLegacyOptionsFromMessage`: (the caller's message after the call, result or nil).
    `faithful = true` is the code as written; `false` stores a stripped nested message without
    cloning the enclosing one first. -/
def stripMsg (faithful : Bool) : Msg → Msg × Option Msg
  | .mk rest opts fields nested ranges exts =>
    let s2 := msgHead (.mk rest opts fields nested ranges exts)
    -- for i, nested := range message.NestedType   (the slice `message` has at this point)
    msgTail (nestedLoop faithful s2.clone.isNone 0 nested s2)

/-- `childLoop nestedL (stripMsg faithful)`, unfolded so that the recursion is structural -/
def nestedLoop (faithful ownerIsOrig : Bool) : Nat → List Msg → St Msg → St Msg
  | _, [], s => s
  | i, c :: cs, s =>
    let r := stripMsg faithful c
    let s1 : St Msg := if ownerIsOrig then { s with orig := nestedL.setAt i r.1 s.orig }
                       else { s with clone := s.clone.map (nestedL.setAt i r.1) }
    let s2 : St Msg := match r.2 with
      | none => s1
      | some d => (if faithful then s1.ensure else s1).write (nestedL.setAt i d)
    nestedLoop faithful ownerIsOrig (i + 1) cs s2
end

/-- `stripLegacyOptionsFromFile` -/
def stripFile (faithful : Bool) (f : File) : File × Option File :=
  let s0 : St File := ⟨f, none⟩
  let s1 := childLoop msgsL (stripMsg faithful) true true 0 f.msgs s0
  let s2 := s1.writeIf (stripExts s1.cur.exts) (fun e x => { x with exts := e })
  (s2.orig, s2.clone)

/-- `stripLegacyOptions`: (the caller's descriptors after the call, the slice after the call) -/
def stripFiles (faithful : Bool) (fs : List File) : List File × List File :=
  (fs.map fun f => (stripFile faithful f).1,
   fs.map fun f => (stripFile faithful f).2.getD (stripFile faithful f).1)

/-! ## the specification: what "strips exactly the legacy options" means -/

def Fld.legacyExt (f : Fld) : Bool := decide (f.getNumber > maxTag) || f.isWeak
def ERange.legacy (r : ERange) : Bool := decide (r.getStart > maxTag) || decide (r.getStop > maxTag + 1)

def clearMsetO (o : MOpts) : MOpts := if o.mset = some true then { o with mset := none } else o
def specFld (f : Fld) : Fld := if f.isWeak then f.clearWeak else f
def specExts (l : List Fld) : List Fld := (l.filter fun e => decide (e.getNumber ≤ maxTag)).map specFld
def specRange (r : ERange) : ERange := if r.getStop > maxTag + 1 then { r with stop := some (maxTag + 1) } else r
def specRanges (l : List ERange) : List ERange := (l.filter fun r => decide (r.getStart ≤ maxTag)).map specRange

mutual
def specMsg : Msg → Msg
  | .mk rest opts fields nested ranges exts =>
    .mk rest (opts.map clearMsetO) (fields.map specFld) (specMsgs nested) (specRanges ranges) (specExts exts)
def specMsgs : List Msg → List Msg
  | [] => []
  | m :: ms => specMsg m :: specMsgs ms
end

mutual
/-- the message holds something the pass removes -/
def legacyMsg : Msg → Bool
  | .mk _ opts fields nested ranges exts =>
    optsMset opts || fields.any Fld.isWeak || legacyMsgs nested
      || ranges.any ERange.legacy || exts.any Fld.legacyExt
def legacyMsgs : List Msg → Bool
  | [] => false
  | m :: ms => legacyMsg m || legacyMsgs ms
end

def specFile (f : File) : File := { f with msgs := specMsgs f.msgs, exts := specExts f.exts }
def legacyFile (f : File) : Bool := legacyMsgs f.msgs || f.exts.any Fld.legacyExt

end BufModel.LegacyStrip
