import BufModel.Targeting
/-
  BufModel.WorkspaceTargeting — how ONE `buf build <input> --path … --exclude-path …` is turned
  into per-module targeting (C01, sections E/F of the harness), as coded in

    private/buf/bufworkspace/workspace_targeting.go   validateBucketTargeting, v1/v2WorkspaceTargeting
                                                      (isTentativelyTargetModule, hadIsTargetModule)
    private/buf/bufworkspace/module_targeting.go      newModuleTargeting
    private/bufpkg/bufmodule/module_set_builder.go    AddLocalModule's guard ("cannot set TargetPaths
                                                      for a non-target Module": a system error)

  All paths are normalized and relative to the workspace root (what buftarget hands over).
  Not modelled: proto-file references (exclusive with both flags), `roots` of v1beta1 modules
  (v1 / v2 modules have the single root "."), checkForOverlap (an input inside a module).
-/
namespace BufModel.WorkspaceTargeting
open BufModel.Path BufModel.Targeting

/-- `normalpath.ContainsPath dir path Relative`: strictly below. -/
def containsPath (d p : Str) : Bool := d ≠ p && equalsOrContainsPath d (dir p)

inductive WErr where
  | user        -- a flag combination / value the workspace layer rejects (plain error)
  | noTargets   -- bufmodule.ErrNoTargetProtoFiles: no module is targeted
  | overlap     -- the input is not (above) a module of the workspace
  | sys         -- syserror: AddLocalModule called with paths for a non-target module
  deriving DecidableEq, Repr

def WErr.tag : WErr → String
  | .user => "user" | .noTargets => "notargets" | .overlap => "user" | .sys => "sys"

/-- `validateBucketTargeting` (without a proto-file reference). -/
def validate (input : Str) (ps es : List Str) : Bool :=
  ps.all (fun p => p ≠ input && es.all (fun e => p ≠ e && !equalsOrContainsPath e p)) &&
  es.all (fun e => e ≠ input)

/-- what `newModuleTargeting` hands to AddLocalModule for one module. -/
structure MT where
  isTarget : Bool := false
  paths : List Str := []
  excludes : List Str := []
  deriving DecidableEq, Repr

/-- the values lying strictly below the module root, made relative to it. -/
def below (d : Str) (vs : List Str) : List Str :=
  (vs.filter (containsPath d)).filterMap (rel d)

/-- `newModuleTargeting` for a module at `d`. -/
def moduleTargeting (d : Str) (tentative : Bool) (ps es : List Str) : Except WErr MT :=
  if !tentative then .ok {}
  else if d ∈ ps then .error .user               -- "specify this module path directly as an input"
  else
    let mp := below d ps
    let isT := ps.isEmpty || !(ps.filter (containsPath d)).isEmpty
    if !isT then .ok {}                          -- exclude paths do not apply to a module that is not targeted
    else if d ∈ es then .error .user             -- "this flag cannot be used to specify module directories"
    else .ok { isTarget := true, paths := mp, excludes := below d es }

def allModules (input : Str) (ps es : List Str) : List Str → Except WErr (List MT)
  | [] => .ok []
  | d :: ds =>
    match moduleTargeting d (equalsOrContainsPath input d) ps es with
    | .error e => .error e
    | .ok mt => match allModules input ps es ds with
      | .error e => .error e
      | .ok mts => .ok (mt :: mts)

/-- v1 / v2 `WorkspaceTargeting`: validation, every module in configuration order, then the two
    "had" checks. -/
def workspaceTargeting (input : Str) (ps es : List Str) (dirs : List Str) : Except WErr (List MT) :=
  if !validate input ps es then .error .user
  else match allModules input ps es dirs with
    | .error e => .error e
    | .ok mts =>
      if !dirs.any (equalsOrContainsPath input) then .error .overlap
      else if !mts.any (·.isTarget) then .error .noTargets
      else .ok mts

/-- the guard of `ModuleSetBuilder.AddLocalModule`. -/
def addLocalOk (mt : MT) : Bool := mt.isTarget || (mt.paths.isEmpty && mt.excludes.isEmpty)

/-- what the workspace provider does with the result: one AddLocalModule per module. -/
def addAll (mts : List MT) : Except WErr (List MT) :=
  if mts.all addLocalOk then .ok mts else .error .sys

def toCfg (mt : MT) : TCfg := { paths := mt.paths, excludes := mt.excludes }

/-! ### the regression of seed C01-m10, for documentation: exclude paths collected for every
    tentatively targeted module -/

def moduleTargetingAlways (d : Str) (tentative : Bool) (ps es : List Str) : Except WErr MT :=
  if !tentative then .ok {}
  else if d ∈ ps then .error .user
  else if d ∈ es then .error .user
  else .ok { isTarget := ps.isEmpty || !(ps.filter (containsPath d)).isEmpty, paths := below d ps, excludes := below d es }

end BufModel.WorkspaceTargeting
