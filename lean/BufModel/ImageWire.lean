import BufModel.ImagePaths
/-
  BufModel.ImageWire — the SERIALISED form of an image file, one slot per field number
  (property C01: "an image is the exact compilation": what `buf build -o` writes and what
  `NewImageForProto` reads back is the descriptor the compiler produced, field by field).

  As coded in
    private/bufpkg/bufimage/util.go        imageFileToProtoImageFile / fileDescriptorProtoToProtoImageFile
                                           (the field list of the imagev1.ImageFile builder)
    private/bufpkg/bufimage/bufimage.go    ImageToProtoImage, NewImageForProto (buf extension -> flags)
    private/bufpkg/bufimage/validate.go    validateProtoImageFile
    private/pkg/protodescriptor            FileDescriptorProtoForFileDescriptor (the field list of the
                                           way back; name / package / syntax "" and edition 0 become unset)

  This refines part (iii) of BufModel.ImagePaths (C11), where the whole descriptor except its
  dependency list is one opaque `payload`: here every field of `google.protobuf.FileDescriptorProto`
  has its own slot, so "a field is not copied" is expressible.  The buf extension, the module-name
  validation, the commit-id parsing and `stripBufExtensionField` are REUSED from ImagePaths
  (`PExt`, `ModName`, `stripBufExtensionField`, `validDashless`); `eraseI` / `eraseP` project this
  model onto C11's (theorem `BufProofs.C01.wire_refines_image_paths`).

  The contents of sub-messages (message_type … source_code_info, options) are opaque `Blob`s:
  both conversions copy the Go pointers, they never look inside.
-/
namespace BufModel.ImageWire
open BufModel.Path BufModel.ImagePaths

/-- fingerprint of one sub-message (the conversions copy it by reference). -/
abbrev Blob := Str

/-- `descriptorpb.FileDescriptorProto`, one slot per field number (1–12, 14) plus the unknown
    bytes.  `none` = the proto2 optional field is unset. -/
structure FDesc where
  name : Option Str                 -- 1
  package : Option Str              -- 2
  dependency : List Str             -- 3
  messageType : List Blob           -- 4
  enumType : List Blob              -- 5
  service : List Blob               -- 6
  extension : List Blob             -- 7
  options : Option Blob             -- 8
  sourceCodeInfo : Option Blob      -- 9
  publicDependency : List Nat       -- 10
  weakDependency : List Nat         -- 11
  syntaxStr : Option Str               -- 12
  edition : Option Nat              -- 14
  unknown : Bytes
  deriving DecidableEq, Repr

/-- `bufimage.ImageFile`: the descriptor and the facts buf keeps next to it. -/
structure IFileW where
  d : FDesc
  isImport : Bool
  syntaxUnspecified : Bool
  unusedDeps : List Nat
  modName : Option ModName
  /-- dashless commit id; `none` = `uuid.Nil`. -/
  commit : Option Str
  deriving DecidableEq, Repr

/-- `imagev1.ImageFile`: the same thirteen field numbers, and the buf extension (8042). -/
structure PFileW where
  d : FDesc
  ext : Option PExt
  deriving DecidableEq, Repr

/-- `fileDescriptorProtoToProtoImageFile`: the builder's field list, as coded — every field of
    the descriptor under its own number; the unknown bytes minus a stray field 8042; the
    extension always present with both booleans set. -/
def toWire (f : IFileW) : PFileW :=
  { d :=
      { name := f.d.name
        package := f.d.package
        dependency := f.d.dependency
        messageType := f.d.messageType
        enumType := f.d.enumType
        service := f.d.service
        extension := f.d.extension
        options := f.d.options
        sourceCodeInfo := f.d.sourceCodeInfo
        publicDependency := f.d.publicDependency
        weakDependency := f.d.weakDependency
        syntaxStr := f.d.syntaxStr
        edition := f.d.edition
        unknown := stripBufExtensionField f.d.unknown }
    ext := some
      { isImport := some f.isImport
        syntaxUnspecified := some f.syntaxUnspecified
        unused := f.unusedDeps
        moduleInfo := match f.modName with
          | none => none
          | some n => some { name := some n, commit := f.commit } } }

/-- proto2 getter of an optional string, then "set only when non-empty". -/
def nonEmpty (s : Option Str) : Option Str :=
  match s with
  | some (c :: cs) => some (c :: cs)
  | _ => none

/-- `GetEdition() != EDITION_UNKNOWN`. -/
def nonZero (e : Option Nat) : Option Nat :=
  match e with
  | some (n + 1) => some (n + 1)
  | _ => none

/-- `protodescriptor.FileDescriptorProtoForFileDescriptor` on an `*imagev1.ImageFile` (not a
    `*descriptorpb.FileDescriptorProto`, so the field-by-field branch runs). -/
def descOfWire (d : FDesc) : FDesc :=
  { name := nonEmpty d.name
    package := nonEmpty d.package
    dependency := d.dependency
    messageType := d.messageType
    enumType := d.enumType
    service := d.service
    extension := d.extension
    options := d.options
    sourceCodeInfo := d.sourceCodeInfo
    publicDependency := d.publicDependency
    weakDependency := d.weakDependency
    syntaxStr := nonEmpty d.syntaxStr
    edition := nonZero d.edition
    unknown := d.unknown }

/-- `validateProtoImageFile` + the per-file part of `NewImageForProto` (same checks, in the same
    order, as `ImagePaths.toImage`). -/
def fromWire (p : PFileW) : Except Err IFileW :=
  let d := descOfWire p.d
  match p.ext with
  | none =>
    .ok { d := d, isImport := false, syntaxUnspecified := false, unusedDeps := [], modName := none,
          commit := none }
  | some e =>
    if !(e.unused.all (fun i => i < p.d.dependency.length)) then .error .badProto
    else
      let base : IFileW :=
        { d := d, isImport := e.isImport.getD false, syntaxUnspecified := e.syntaxUnspecified.getD false,
          unusedDeps := e.unused, modName := none, commit := none }
      match e.moduleInfo with
      | none => .ok base
      | some mi =>
        match mi.name with
        | none => .ok base
        | some n =>
          if n.registry = [] || n.owner = [] || n.name = [] || n.owner.contains '/' || n.name.contains '/' then
            .error .badProto
          else match mi.commit with
            | none => .ok { base with modName := some n }
            | some c =>
              if c = [] then .ok { base with modName := some n }
              else if !validDashless c then .error .badProto
              else .ok { base with modName := some n,
                                   commit := if c = nilDashless then none else some (c.map Char.toLower) }

/-- `ImageToFileDescriptorSet` / `ImageToFileDescriptorProtos`: the descriptor itself. -/
def toFileDescriptor (f : IFileW) : FDesc := f.d

/-! ### projection onto C11's model (descriptor = path + dependencies + opaque payload) -/

/-- everything of the descriptor that C11's model keeps opaque. -/
structure Rest where
  package : Option Str
  messageType : List Blob
  enumType : List Blob
  service : List Blob
  extension : List Blob
  options : Option Blob
  sourceCodeInfo : Option Blob
  publicDependency : List Nat
  weakDependency : List Nat
  syntaxStr : Option Str
  edition : Option Nat

def restOf (d : FDesc) : Rest :=
  ⟨d.package, d.messageType, d.enumType, d.service, d.extension, d.options, d.sourceCodeInfo,
   d.publicDependency, d.weakDependency, d.syntaxStr, d.edition⟩

def eraseI (pay : Rest → Str) (f : IFileW) : IFile :=
  { path := f.d.name.getD [], deps := f.d.dependency, payload := pay (restOf f.d), unknown := f.d.unknown,
    isImport := f.isImport, syntaxUnspecified := f.syntaxUnspecified, unusedDeps := f.unusedDeps,
    modName := f.modName, commit := f.commit }

def eraseP (pay : Rest → Str) (p : PFileW) : PFile :=
  { path := p.d.name.getD [], deps := p.d.dependency, payload := pay (restOf p.d), unknown := p.d.unknown,
    ext := p.ext }

/-! ### the regression this model was widened for, as a counter-model -/

/-- `toWire` with the `WeakDependency:` line of the builder deleted (seed C01-m6). -/
def toWireNoWeak (f : IFileW) : PFileW :=
  let p := toWire f
  { p with d := { p.d with weakDependency := [] } }

end BufModel.ImageWire
