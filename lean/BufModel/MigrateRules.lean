import BufModel.Rules
/-
  BufModel.MigrateRules — executable model of what `buf config migrate` does to the rule
  selection of a `lint:` / `breaking:` section when a v1beta1 / v1 buf.yaml becomes v2 (C16), as
  coded in private/buf/bufmigrate/migrator.go:

    * `equivalentCheckConfigInV2`            -> `migrateCheck`
    * `getIDToReplacementIDsInV2`            -> `replacementInV2` (the map as a lookup function)
    * `undeprecateSlice` / `undeprecateMap`  -> `translateIds` / `translateIgnoreOnly`

  built on the C06 model of `bufconfig.NewEnabledCheckConfig` (`newEnabledCheckConfig`),
  `newRulesConfig` and `Client.ConfiguredRules` (`configuredRules`) in BufModel.Rules and on the
  REGENERATED rule tables `BufGen.RuleTables` (ids, categories, deprecated flags and replacement
  ids per config version: what `client.AllRules(ctx, ruleType, fileVersion)` returns).

  Go maps: `ignore_only` is an association list with unique keys.  `undeprecateMap` RANGES over
  that map and writes `newIDs[replacement] = val`; when two keys translate to the same v2 id the
  entry that is visited last wins, i.e. the result depends on Go's map iteration order.  The
  model iterates in LIST ORDER, so the list order of `CheckConfig.ignoreOnly` is the iteration
  order and theorems about all orders quantify over permutations of that list.
-/
namespace BufModel.MigrateRules
open BufModel.Path BufModel.Rules BufGen.RuleTables

/-! ## `getIDToReplacementIDsInV2` -/

/-- `existsInV2[id]`: a rule id of `new` or a category carried by a rule of `new`
    (`new` = `client.AllRules(ctx, ruleType, FileVersionV2)`). -/
def existsIn (new : List RuleRow) (id : Id) : Bool :=
  new.any (fun r => r.id = id || r.categories.contains id)

/-- `ruleIDs` in the loop of `getIDToReplacementIDsInV2`: the rule itself, or its replacements
    when it is deprecated (`deprecations[rule.ID()]`, `GetDeprecatedIDToReplacementIDs`). -/
def ruleIDsFor (r : RuleRow) : List Id := if r.deprecated then r.replacements else [r.id]

/-- `idToReplacementIDs[id]` (`none` = no entry): `old` = all rules of the rule type in the
    version that is migrated, `new` = those of v2.
      * a deprecated rule            -> its replacements that exist in v2
      * a rule that v2 does not have -> nothing
      * a category that v2 does not have -> the (replacements of the) rules carrying it that
        exist in v2, in rule order
    Rule ids and category ids are disjoint within a version (bufplugin validates it; checked on
    the tables, `tables_ok`), so an id has at most one of the two kinds of entry. -/
def replacementInV2 (old new : List RuleRow) (id : Id) : Option (List Id) :=
  match old.find? (fun r => r.id = id) with
  | some r =>
    if r.deprecated then some (r.replacements.filter (existsIn new))
    else if existsIn new id then none else some []
  | none =>
    if existsIn new id then none
    else match old.filter (fun r => r.categories.contains id) with
      | [] => none
      | rs => some (rs.flatMap fun r => (ruleIDsFor r).filter (existsIn new))

/-- One iteration of `undeprecateSlice`. -/
def translateId (old new : List RuleRow) (id : Id) : List Id :=
  match replacementInV2 old new id with
  | some l => l
  | none => [id]

/-- `undeprecateSlice(ids, replacements)`. -/
def translateIds (old new : List RuleRow) (ids : List Id) : List Id :=
  ids.flatMap (translateId old new)

/-- `m[k] = v` on an association list (keeps the position of an existing key). -/
def assocSet {β} (m : List (Id × β)) (k : Id) (v : β) : List (Id × β) :=
  match m with
  | [] => [(k, v)]
  | (k', v') :: rest => if k' = k then (k, v) :: rest else (k', v') :: assocSet rest k v

/-- `undeprecateMap(idMap, replacements)`, ranging over `idMap` in list order. -/
def translateIgnoreOnly {β} (old new : List RuleRow) (m : List (Id × β)) : List (Id × β) :=
  m.foldl (fun acc e => (translateId old new e.1).foldl (fun acc k' => assocSet acc k' e.2) acc) []

/-! ## `equivalentCheckConfigInV2` -/

/-- `rule.Deprecated()` of the rule with this id. -/
def isDeprecatedIn (rs : List RuleRow) (id : Id) : Bool :=
  match rs.find? (fun r => r.id = id) with
  | some r => r.deprecated
  | none => false

/-- `expectedIDs`: the rules the configuration selects in its own version
    (`client.ConfiguredRules`), without the deprecated ones and without those v2 does not have
    (for which the code logs "The … rule … does not exist in v2 and is not migrated."). -/
def expectedIds (oldAll newAll : List RuleRow) (lint : Bool) (c : CheckConfig) : Except RErr (List Id) :=
  match configuredRules oldAll lint false c with
  | .error e => .error e
  | .ok ids =>
    .ok (ids.filter fun id => !(isDeprecatedIn (rulesForType oldAll lint) id) && isRuleId (rulesForType newAll lint) id)

/-- `simplyTranslatedCheckConfig`: the same lists with every id translated; `tio` is the
    translation of the `ignore_only` map (`undeprecateMap`). -/
def simpleConfigW (tio : List (Id × List Str) → List (Id × List Str))
    (oldAll newAll : List RuleRow) (lint : Bool) (c : CheckConfig) : Except RErr CheckConfig :=
  let old := rulesForType oldAll lint
  let new := rulesForType newAll lint
  newEnabledCheckConfig
    { use := translateIds old new c.use, except := translateIds old new c.except, ignore := c.ignore,
      ignoreOnly := tio c.ignoreOnly, disableBuiltin := c.disableBuiltin }

/-- `equivalentCheckConfigInV2` with the `ignore_only` translation as a parameter. -/
def migrateCheckW (tio : List (Id × List Str) → List (Id × List Str))
    (oldAll newAll : List RuleRow) (lint : Bool) (c : CheckConfig) : Except RErr CheckConfig :=
  match expectedIds oldAll newAll lint c with
  | .error e => .error e
  | .ok expected =>
    match simpleConfigW tio oldAll newAll lint c with
    | .error e => .error e
    | .ok simple =>
      match configuredRules newAll lint false simple with
      | .error e => .error e
      | .ok simpleIds =>
        if expected = simpleIds then .ok simple
        else
          let missing := expected.filter fun id => !(simpleIds.contains id)
          let extra := simpleIds.filter fun id => !(expected.contains id)
          newEnabledCheckConfig { simple with use := simple.use ++ missing, except := simple.except ++ extra }

/-- `simplyTranslatedCheckConfig` as coded. -/
def simpleConfig (oldAll newAll : List RuleRow) (lint : Bool) (c : CheckConfig) : Except RErr CheckConfig :=
  simpleConfigW (translateIgnoreOnly (rulesForType oldAll lint) (rulesForType newAll lint)) oldAll newAll lint c

/-- `equivalentCheckConfigInV2` as coded, for an ENABLED check config `c` of the version whose
    rules (both types) are `oldAll`; `newAll` = the v2 rules. -/
def migrateCheck (oldAll newAll : List RuleRow) (lint : Bool) (c : CheckConfig) : Except RErr CheckConfig :=
  migrateCheckW (translateIgnoreOnly (rulesForType oldAll lint) (rulesForType newAll lint)) oldAll newAll lint c

/-- The migrated section: `disabled` (checks switched off by `ignore: [<module dir>]`) stays
    disabled (`NewDisabledCheckConfig(FileVersionV2)`, fix 9bb046e), otherwise `migrateCheck`. -/
def migrateEff (oldAll newAll : List RuleRow) (lint : Bool) (e : EffConfig) : Except RErr EffConfig :=
  if e.disabled then .ok { e with check := disabledCheckConfig }
  else match migrateCheck oldAll newAll lint e.check with
    | .error err => .error err
    | .ok c => .ok { e with check := c }

/-- A v1beta1 / v1 `lint:` / `breaking:` section as the v1 reader decodes it (`sectionToEff`,
    module directory "."), migrated.  An absent section is the zero `YSection` (what a directory
    without buf.yaml gets as well, fix 22ccdea: `DefaultLintConfigV1`). -/
def migrateSection (v : Version) (lint : Bool) (s : YSection) : Except RErr EffConfig :=
  match sectionToEff lint false dot true s with
  | .error e => .error e
  | .ok eff => migrateEff (rulesOf v) (rulesOf .v2) lint eff

/-- The rule ids a check configuration selects (`rulesConfig.RuleIDs`, sorted by id). -/
def selectedIds (all : List RuleRow) (lint : Bool) (c : CheckConfig) : Except RErr (List Id) :=
  match newRulesConfig (if c.disableBuiltin then [] else all) lint c with
  | .error e => .error e
  | .ok rc => .ok rc.ruleIDs

/-- Canonical form of an `ignore_only` map: sorted by key (how yaml.v3 writes a map). -/
def sortIgnoreOnly {β} (m : List (Id × β)) : List (Id × β) :=
  sortS (fun a b => idLt a.1 b.1) m

/-! ## the repaired translation (handoff/prove6-C16-fix-migrate-rule-selection.diff)

    Two defects of `equivalentCheckConfigInV2` as coded:
      1. the repair step appends the missing rule ids to `use` — which REPLACES the default rule
         set when `use` was empty, and cannot re-select a rule that the v2 meaning of an `except`
         entry covers (category membership grew in v2);
      2. `undeprecateMap` lets the last visited key win when two `ignore_only` keys translate
         to the same v2 id (paths lost, map-order dependent).
    The repaired function checks the repaired configuration once more and, when it still does not
    select the expected rules, names them explicitly (`fixSel`); the repaired `undeprecateMap`
    unions the path lists and drops a path that another path of the list contains (`fixIo`).
    The driver evaluates the variant the tree under test implements (the harness probes both
    witnesses and sends the two flags with every `migchk` line). -/

/-- `newIDs[k] = append(newIDs[k], v...)` on an association list -/
def assocAppend {β} (m : List (Id × List β)) (k : Id) (v : List β) : List (Id × List β) :=
  match m with
  | [] => [(k, v)]
  | (k', v') :: rest => if k' = k then (k, v' ++ v) :: rest else (k', v') :: assocAppend rest k v

/-- the paths of the sorted, duplicate-free list that no OTHER path of the list equals or contains -/
def dropContained (ps : List Str) : List Str :=
  let u := usStrs ps
  u.filter fun p => !(u.any fun q => q ≠ p && equalsOrContainsPath q p)

/-- the repaired `undeprecateMap` -/
def translateIgnoreOnlyFixed (old new : List RuleRow) (m : List (Id × List Str)) : List (Id × List Str) :=
  (m.foldl (fun acc e => (translateId old new e.1).foldl (fun acc k' => assocAppend acc k' e.2) acc) []).map
    fun e => (e.1, dropContained e.2)

/-- The `ignore_only` translation of the variant. -/
def tioOf (fixIo : Bool) (old new : List RuleRow) : List (Id × List Str) → List (Id × List Str) :=
  if fixIo then translateIgnoreOnlyFixed old new else translateIgnoreOnly old new

/-- `equivalentCheckConfigInV2` after the repair of the rule selection: the configuration built as
    before is checked against the expected rules; if it does not select them, they are named. -/
def migrateCheckFixed (fixIo : Bool) (oldAll newAll : List RuleRow) (lint : Bool) (c : CheckConfig) :
    Except RErr CheckConfig :=
  let tio := tioOf fixIo (rulesForType oldAll lint) (rulesForType newAll lint)
  match expectedIds oldAll newAll lint c with
  | .error e => .error e
  | .ok expected =>
    match migrateCheckW tio oldAll newAll lint c with
    | .error e => .error e
    | .ok repaired =>
      match configuredRules newAll lint false repaired with
      | .error e => .error e
      | .ok ids =>
        if ids = expected then .ok repaired
        else match simpleConfigW tio oldAll newAll lint c with
          | .error e => .error e
          | .ok simple => newEnabledCheckConfig { simple with use := expected, except := [] }

/-- The variant of `equivalentCheckConfigInV2` selected by the two flags (`false false` = as coded). -/
def migrateCheckV (fixSel fixIo : Bool) (oldAll newAll : List RuleRow) (lint : Bool) (c : CheckConfig) :
    Except RErr CheckConfig :=
  if fixSel then migrateCheckFixed fixIo oldAll newAll lint c
  else migrateCheckW (tioOf fixIo (rulesForType oldAll lint) (rulesForType newAll lint)) oldAll newAll lint c

def migrateEffV (fixSel fixIo : Bool) (oldAll newAll : List RuleRow) (lint : Bool) (e : EffConfig) : Except RErr EffConfig :=
  if e.disabled then .ok { e with check := disabledCheckConfig }
  else match migrateCheckV fixSel fixIo oldAll newAll lint e.check with
    | .error err => .error err
    | .ok c => .ok { e with check := c }

end BufModel.MigrateRules
