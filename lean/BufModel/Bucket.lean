import BufModel.Path
/-
  BufModel.Bucket — executable model of private/pkg/storage buckets:
  the memory bucket (storagemem), prefix-mapped views (map.go/mapper.go), filtered views
  (filter.go/matcher.go), union / overlay buckets (multi.go).  The disk bucket (storageos) is
  modelled by the same path→content map under the hypothesis that the stored path set is
  prefix-free (a file and a directory cannot share a name); the correspondence check keeps
  its generated path sets prefix-free for disk-backed runs.

  Contents are opaque strings.  Keys are normalized+validated paths (List Char).
-/
namespace BufModel.Bucket
open BufModel.Path

abbrev Content := String

/-- The memory bucket's `pathToImmutableObject` map as an association list.
    Invariant (separate theorem): keys are pairwise distinct. -/
abbrev Mem := List (Str × Content)

def Mem.find (m : Mem) (p : Str) : Option Content :=
  match m with
  | [] => none
  | (k, v) :: rest => if k = p then some v else Mem.find rest p

def Mem.erase (m : Mem) (p : Str) : Mem := m.filter (fun kv => kv.1 ≠ p)

def Mem.keys (m : Mem) : List Str := m.map (·.1)

/-! ### storagemem.bucket -/

def memGet (m : Mem) (path : Str) : Except PErr Content :=
  match validatePath path with
  | .error e => .error e
  | .ok p => match m.find p with
    | some c => .ok c
    | none => .error .notExist

/-- Put followed by Write(content) and a successful Close. -/
def memPut (m : Mem) (path : Str) (c : Content) : Except PErr Mem :=
  match validatePath path with
  | .error e => .error e
  | .ok p => .ok ((p, c) :: m.erase p)

def memDelete (m : Mem) (path : Str) : Except PErr Mem :=
  match validatePath path with
  | .error e => .error e
  | .ok p => match m.find p with
    | some _ => .ok (m.erase p)
    | none => .error .notExist

def memDeleteAll (m : Mem) (pfx : Str) : Except PErr Mem :=
  match validatePrefix pfx with
  | .error e => .error e
  | .ok p => .ok (m.filter fun kv => !equalsOrContainsPath p kv.1)

/-- Walk: the (path, content) pairs under the prefix (the real bucket visits them in sorted
    order; ordering is applied by the driver when printing). -/
def memWalk (m : Mem) (pfx : Str) : Except PErr (List (Str × Content)) :=
  match validatePrefix pfx with
  | .error e => .error e
  | .ok p => .ok (m.filter fun kv => equalsOrContainsPath p kv.1)

/-! ### matcher.go -/

inductive Matcher where
  | ext (e : Str)
  | base (b : Str)
  | equal (p : Str)
  | eqOrContained (p : Str)
  | contained (p : Str)
  | not (m : Matcher)
  | and (a b : Matcher)
  | or (a b : Matcher)

/-- `filepath.Ext`: suffix starting at the final dot of the final path element. -/
def extOf (s : Str) : Str :=
  let last := (splitSlash s).getLast?.getD []
  let rec go : Str → Option Str → Option Str
    | [], acc => acc
    | c :: cs, acc => if c = '.' then go cs (some (c :: cs)) else go cs acc
  (go last none).getD []

def containsPath (dirPath path : Str) : Bool :=
  if dirPath = path then false else equalsOrContainsPath dirPath (dir path)

def Matcher.matches : Matcher → Str → Bool
  | .ext e, p => extOf p = e
  | .base b, p => Path.base p = b
  | .equal q, p => p = q
  | .eqOrContained q, p => equalsOrContainsPath q p
  | .contained q, p => containsPath q p
  | .not m, p => !m.matches p
  | .and a b, p => a.matches p && b.matches p
  | .or a b, p => a.matches p || b.matches p

/-! ### map.go / mapper.go / filter.go -/

inductive Layer where
  | pre (pfx : Str)       -- MapOnPrefix(prefix)
  | filt (m : Matcher)       -- FilterReadBucket (read-only layer)

/-- prefixMapper.UnmapFullPath: (matches?, path) or error. -/
def unmapPrefix (pfx full : Str) : Except PErr (Option Str) :=
  if !equalsOrContainsPath pfx full then .ok none
  else match rel pfx full with
    | some r => .ok (some r)
    | none => .error .other

/-- getFullPath of the map views. -/
def mapFullPath (pfx path : Str) : Except PErr Str :=
  match normalizeAndValidate path with
  | .error e => .error e
  | .ok q => if q = dot then .error .root else .ok (join [pfx, q])

/-- A view = layers (outermost first) over a memory bucket. -/
def vGet : List Layer → Mem → Str → Except PErr Content
  | [], m, path => memGet m path
  | .pre p :: ls, m, path =>
    match mapFullPath p path with
    | .error e => .error e
    | .ok full => vGet ls m full
  | .filt f :: ls, m, path =>
    match normalizeAndValidate path with
    | .error e => .error e
    | .ok q => if !f.matches q then .error .notExist else vGet ls m q

def vPut : List Layer → Mem → Str → Content → Except PErr Mem
  | [], m, path, c => memPut m path c
  | .pre p :: ls, m, path, c =>
    match mapFullPath p path with
    | .error e => .error e
    | .ok full => vPut ls m full c
  | .filt _ :: _, _, _, _ => .error .other   -- filtered views are read-only

def vDelete : List Layer → Mem → Str → Except PErr Mem
  | [], m, path => memDelete m path
  | .pre p :: ls, m, path =>
    match mapFullPath p path with
    | .error e => .error e
    | .ok full => vDelete ls m full
  | .filt _ :: _, _, _ => .error .other

def vDeleteAll : List Layer → Mem → Str → Except PErr Mem
  | [], m, pfx => memDeleteAll m pfx
  | .pre p :: ls, m, pfx =>
    match normalizeAndValidate pfx with
    | .error e => .error e
    | .ok q => vDeleteAll ls m (join [p, q])
  | .filt _ :: _, _, _ => .error .other

def unmapAll (p : Str) : List (Str × Content) → Except PErr (List (Str × Content))
  | [] => .ok []
  | (k, v) :: rest =>
    match unmapPrefix p k with
    | .error e => .error e
    | .ok none => unmapAll p rest
    | .ok (some r) =>
      match unmapAll p rest with
      | .error e => .error e
      | .ok out => .ok ((r, v) :: out)

def vWalk : List Layer → Mem → Str → Except PErr (List (Str × Content))
  | [], m, pfx => memWalk m pfx
  | .pre p :: ls, m, pfx =>
    match normalizeAndValidate pfx with
    | .error e => .error e
    | .ok q =>
      match vWalk ls m (join [p, q]) with
      | .error e => .error e
      | .ok objs => unmapAll p objs
  | .filt f :: ls, m, pfx =>
    match normalizeAndValidate pfx with
    | .error e => .error e
    | .ok q =>
      match vWalk ls m q with
      | .error e => .error e
      | .ok objs => .ok (objs.filter fun kv => f.matches kv.1)

/-! ### Composite read buckets (multi.go) over several base buckets -/

/-- A read-bucket expression over base buckets `0, 1, …`. `multi`/`overlay` are the binary
    forms of `storage.MultiReadBucket` / `storage.OverlayReadBucket`. -/
inductive BExpr where
  | base (i : Nat)
  | pre (pfx : Str) (b : BExpr)
  | filt (m : Matcher) (b : BExpr)
  | multi (a b : BExpr)
  | overlay (a b : BExpr)
  | strip (b : BExpr)      -- storage.StripReadBucketExternalPaths (strip.go)

abbrev Bases := List Mem

def Bases.get (bs : Bases) (i : Nat) : Mem := bs.getD i []

def rGet : BExpr → Bases → Str → Except PErr Content
  | .base i, bs, path => memGet (bs.get i) path
  | .pre p b, bs, path =>
    match mapFullPath p path with
    | .error e => .error e
    | .ok full => rGet b bs full
  | .filt f b, bs, path =>
    match normalizeAndValidate path with
    | .error e => .error e
    | .ok q => if !f.matches q then .error .notExist else rGet b bs q
  | .multi a b, bs, path =>
    -- Stat every delegate in order; the first error other than not-exist is returned
    match rGet a bs path with
    | .error .notExist =>
      (match rGet b bs path with
        | .error e => .error e
        | .ok cb => .ok cb)
    | .error e => .error e
    | .ok ca =>
      (match rGet b bs path with
        | .error .notExist => .ok ca
        | .error e => .error e
        | .ok _ => .error .multiple)
  | .overlay a b, bs, path =>
    match rGet a bs path with
    | .ok ca => .ok ca
    | .error .notExist => rGet b bs path
    | .error e => .error e
  -- strip.go: Get/Stat delegate unchanged; only the ExternalPath METADATA of the returned object
  -- is replaced by its Path (the model has no ExternalPath: objects are (path, content))
  | .strip b, bs, path => rGet b bs path

def hasKey (objs : List (Str × Content)) (k : Str) : Bool := objs.any (fun kv => kv.1 = k)

/-- second delegate's walk under `multi`: a path already seen is an error -/
def mergeMulti (seen : List (Str × Content)) : List (Str × Content) → Except PErr (List (Str × Content))
  | [] => .ok []
  | kv :: rest =>
    if hasKey seen kv.1 then .error .multiple
    else match mergeMulti seen rest with
      | .error e => .error e
      | .ok out => .ok (kv :: out)

def rWalk : BExpr → Bases → Str → Except PErr (List (Str × Content))
  | .base i, bs, pfx => memWalk (bs.get i) pfx
  | .pre p b, bs, pfx =>
    match normalizeAndValidate pfx with
    | .error e => .error e
    | .ok q =>
      match rWalk b bs (join [p, q]) with
      | .error e => .error e
      | .ok objs => unmapAll p objs
  | .filt f b, bs, pfx =>
    match normalizeAndValidate pfx with
    | .error e => .error e
    | .ok q =>
      match rWalk b bs q with
      | .error e => .error e
      | .ok objs => .ok (objs.filter fun kv => f.matches kv.1)
  | .multi a b, bs, pfx =>
    match rWalk a bs pfx with
    | .error e => .error e
    | .ok oa =>
      match rWalk b bs pfx with
      | .error e => .error e
      | .ok ob =>
        match mergeMulti oa ob with
        | .error e => .error e
        | .ok ob' => .ok (oa ++ ob')
  | .overlay a b, bs, pfx =>
    match rWalk a bs pfx with
    | .error e => .error e
    | .ok oa =>
      match rWalk b bs pfx with
      | .error e => .error e
      | .ok ob => .ok (oa ++ ob.filter fun kv => !hasKey oa kv.1)
  -- strip.go: Walk delegates with the same prefix, same objects, same order
  | .strip b, bs, pfx => rWalk b bs pfx

/-- `storage.WalkReadObjects` / `copyPaths`: every walked path is read back with `Get` on the same
    bucket (the walk only supplies the PATHS); the first failing `Get` aborts. -/
def readObjects (e : BExpr) (bs : Bases) : List (Str × Content) → Except PErr (List (Str × Content))
  | [] => .ok []
  | kv :: rest =>
    match rGet e bs kv.1 with
    | .error er => .error er
    | .ok c =>
      match readObjects e bs rest with
      | .error er => .error er
      | .ok out => .ok ((kv.1, c) :: out)

def Bases.set (bs : Bases) (i : Nat) (m : Mem) : Bases :=
  (List.range (max bs.length (i + 1))).map fun j => if j = i then m else bs.get j

def putAll : Mem → List (Str × Content) → Except PErr Mem
  | m, [] => .ok m
  | m, (k, v) :: rest =>
    match memPut m k v with
    | .error e => .error e
    | .ok m' => putAll m' rest

/-- `storage.Copy(from, to)` (also the net effect of Tar→Untar and Zip→Unzip into `to`):
    walk everything, put each object under the same path. Returns the count too. -/
def rCopy (e : BExpr) (bs : Bases) (target : Nat) : Except PErr (Nat × Bases) :=
  match rWalk e bs [] with
  | .error er => .error er
  | .ok objs =>
    match putAll (bs.get target) objs with
    | .error er => .error er
    | .ok m' => .ok (objs.length, bs.set target m')

/-! ### The abstract spec: a finite map from component lists to contents. -/

abbrev Spec := List (Key × Content)

/-- The path argument of an operation as the abstract map sees it: an error class, or the key
    (list of proper components; `[]` for the root ".") the path denotes. -/
def keyOf (s : Str) : Except PErr Key :=
  match normalizeAndValidate s with
  | .ok p => .ok (cleanComps p)
  | .error e => .error e

end BufModel.Bucket
