import BufModel.Path
/-
  BufModel.Manifest — executable model of private/bufpkg/bufcas (digest.go, file_node.go,
  manifest.go) and of the byte-level contract of private/pkg/shake256.

  * The hash itself (SHAKE256, 64 output bytes) is NOT modelled: every function that hashes
    takes `H : Bytes → Digest` as a parameter.  `Digest` carries the invariant that
    `shake256.NewDigest` enforces (exactly 64 bytes).
  * Text is `Str = List Char` (a Go string restricted to valid UTF-8); `utf8` is the byte
    string that Go actually hashes.  File contents are arbitrary `Bytes`.
  * `parseFileNode` is the code AFTER the proposed `fix:` (split at the FIRST double space);
    `parseFileNodeOld` is the pre-fix behaviour (`strings.Split(s, "  ")` must give 2 parts).
  * `validateNodePath` / `newFileNode` are the code AFTER the second `fix:` (a path containing
    U+000A is rejected: the line-based manifest format cannot represent it);
    `validateNodePathOld` / `newFileNodeOld` are the pre-fix behaviour (line feed accepted), kept
    for the recorded counterexamples.
-/
namespace BufModel.Manifest
open BufModel.Path

abbrev Bytes := List UInt8

/-- The UTF-8 bytes of a text (what `strings.NewReader(s)` feeds to the hash). -/
def utf8 (s : Str) : Bytes := (String.ofList s).toUTF8.data.toList

/-- `shake256.Digest` / `bufcas.Digest` of type shake256: exactly 64 bytes
    (`shake256.newDigest` rejects every other length). -/
abbrev Digest := { v : Bytes // v.length = 64 }

/-- Errors of the bufcas parsers/constructors (error texts are never compared). -/
inductive MErr where
  | digestEmpty        -- "empty string passed to ParseDigest"
  | digestForm         -- no ':' in the digest string
  | digestType         -- unknown digest type
  | digestHex          -- hex.DecodeString failed
  | digestLen          -- not 64 bytes
  | nodeForm           -- file node not of the form digest[SP][SP]path
  | pathEmpty
  | pathInvalid        -- NormalizeAndValidate failed
  | pathNotNormal      -- path ≠ normalized path
  | pathLineFeed       -- path contains U+000A (the line-based manifest cannot represent it)
  | noTrailingNewline
  | duplicatePath
  | depDigestType      -- b5: dependency digest is not b5
  | moduleCycle        -- module graph: dependency cycle (ModuleDeps fails) / recursion fuel exhausted
  | noSuchModule       -- module graph: dangling dependency index
  deriving DecidableEq, Repr

def MErr.tag : MErr → String
  | .digestEmpty => "digest-empty"
  | .digestForm => "digest-form"
  | .digestType => "digest-type"
  | .digestHex => "digest-hex"
  | .digestLen => "digest-len"
  | .nodeForm => "node-form"
  | .pathEmpty => "path-empty"
  | .pathInvalid => "path-invalid"
  | .pathNotNormal => "path-not-normal"
  | .pathLineFeed => "path-line-feed"
  | .noTrailingNewline => "no-trailing-newline"
  | .duplicatePath => "duplicate-path"
  | .depDigestType => "dep-digest-type"
  | .moduleCycle => "module-cycle"
  | .noSuchModule => "no-such-module"

/-! ### hex (encoding/hex) -/

def hexDigit (n : Nat) : Char :=
  if n < 10 then Char.ofNat (48 + n) else Char.ofNat (87 + n)

def hexByte (b : UInt8) : Str := [hexDigit (b.toNat / 16), hexDigit (b.toNat % 16)]

/-- `hex.EncodeToString` (lower case). -/
def hexEncode : Bytes → Str
  | [] => []
  | b :: bs => hexDigit (b.toNat / 16) :: hexDigit (b.toNat % 16) :: hexEncode bs

/-- `hex.fromHexChar`: both cases are accepted. -/
def hexVal (c : Char) : Option Nat :=
  if '0' ≤ c ∧ c ≤ '9' then some (c.toNat - 48)
  else if 'a' ≤ c ∧ c ≤ 'f' then some (c.toNat - 87)
  else if 'A' ≤ c ∧ c ≤ 'F' then some (c.toNat - 55)
  else none

/-- `hex.DecodeString`; an odd length or a non-hex character is an error (`none`). -/
def hexDecode : Str → Option Bytes
  | [] => some []
  | [_] => none
  | a :: b :: rest =>
    match hexVal a, hexVal b, hexDecode rest with
    | some x, some y, some bs => some (UInt8.ofNat (x * 16 + y) :: bs)
    | _, _, _ => none

/-! ### split / join on one character (strings.Split / strings.Join / strings.Cut) -/

/-- `strings.Split(s, string(sep))`: always non-empty. -/
def splitOnC (sep : Char) : Str → List Str
  | [] => [[]]
  | c :: cs =>
    if c = sep then [] :: splitOnC sep cs
    else match splitOnC sep cs with
      | [] => [[c]]
      | h :: t => (c :: h) :: t

/-- `strings.Join(parts, string(sep))`. -/
def joinC (sep : Char) : List Str → Str
  | [] => []
  | [p] => p
  | p :: ps => p ++ sep :: joinC sep ps

/-- `strings.Cut(s, string(sep))`: split at the first `sep`. -/
def cutC (sep : Char) : Str → Option (Str × Str)
  | [] => none
  | c :: cs =>
    if c = sep then some ([], cs)
    else match cutC sep cs with
      | none => none
      | some (a, b) => some (c :: a, b)

/-- `strings.Cut(s, "  ")`: split at the FIRST occurrence of two consecutive spaces. -/
def cut2sp : Str → Option (Str × Str)
  | [] => none
  | [_] => none
  | c :: d :: rest =>
    if c = ' ' ∧ d = ' ' then some ([], rest)
    else match cut2sp (d :: rest) with
      | none => none
      | some (a, b) => some (c :: a, b)

/-- `strings.Split(s, "  ")`: non-overlapping occurrences, left to right. -/
def split2sp : Str → List Str
  | [] => [[]]
  | [c] => [[c]]
  | c :: d :: rest =>
    if c = ' ' ∧ d = ' ' then [] :: split2sp rest
    else match split2sp (d :: rest) with
      | [] => [[c]]
      | h :: t => (c :: h) :: t

/-! ### sorting (sort.Slice / sort.Strings).  Insertion sort: structural, so that concrete
    instances reduce by `decide`; the result is THE sorted permutation whenever the keys are
    totally ordered (theorem `sortBy_eq_of_perm`), so the algorithm Go uses is irrelevant. -/

def insertBy {α} (le : α → α → Bool) (a : α) : List α → List α
  | [] => [a]
  | b :: bs => if le a b then a :: b :: bs else b :: insertBy le a bs

def sortBy {α} (le : α → α → Bool) : List α → List α
  | [] => []
  | a :: as => insertBy le a (sortBy le as)

/-! ### bufcas.Digest -/

def shake256Name : Str := "shake256".toList

/-- `digest.String()` = `"shake256:" + hex(value)`. -/
def digestString (d : Digest) : Str := shake256Name ++ ':' :: hexEncode d.val

/-- `bufcas.ParseDigest`. -/
def parseDigest (s : Str) : Except MErr Digest :=
  if s = [] then .error .digestEmpty
  else match cutC ':' s with
    | none => .error .digestForm
    | some (ty, hx) =>
      if ty ≠ shake256Name then .error .digestType
      else match hexDecode hx with
        | none => .error .digestHex
        | some v => if h : v.length = 64 then .ok ⟨v, h⟩ else .error .digestLen

/-! ### bufcas.FileNode -/

structure FileNode where
  path : Str
  digest : Digest
  deriving DecidableEq

/-- `validateFileNodeParameters` BEFORE the line-feed fix (the digest is never nil in the
    model): non-empty, valid, equal to its normal form.  These are also the checks every storage
    bucket applies to its paths. -/
def validateNodePathOld (path : Str) : Except MErr Unit :=
  if path = [] then .error .pathEmpty
  else match normalizeAndValidate path with
    | .error _ => .error .pathInvalid
    | .ok n => if path ≠ n then .error .pathNotNormal else .ok ()

/-- `validateFileNodeParameters` as coded after the fix: the three checks above, in that order,
    then `strings.Contains(path, "\n")` → error. -/
def validateNodePath (path : Str) : Except MErr Unit :=
  match validateNodePathOld path with
  | .error e => .error e
  | .ok () => if '\n' ∈ path then .error .pathLineFeed else .ok ()

/-- `bufcas.NewFileNode`. -/
def newFileNode (path : Str) (d : Digest) : Except MErr FileNode :=
  match validateNodePath path with
  | .error e => .error e
  | .ok () => .ok ⟨path, d⟩

/-- `bufcas.NewFileNode` before the line-feed fix. -/
def newFileNodeOld (path : Str) (d : Digest) : Except MErr FileNode :=
  match validateNodePathOld path with
  | .error e => .error e
  | .ok () => .ok ⟨path, d⟩

/-- `fileNode.String()` = `digest[SP][SP]path`. -/
def fileNodeString (n : FileNode) : Str := digestString n.digest ++ ' ' :: ' ' :: n.path

def finishNode (ds path : Str) : Except MErr FileNode :=
  match parseDigest ds with
  | .error e => .error e
  | .ok d => newFileNode path d

/-- `bufcas.ParseFileNode` after the fix: the digest is everything before the first double
    space, the path everything after it (a path may itself contain double spaces). -/
def parseFileNode (s : Str) : Except MErr FileNode :=
  match cut2sp s with
  | none => .error .nodeForm
  | some (ds, path) => finishNode ds path

/-- `bufcas.ParseFileNode` before the fix: `strings.Split(s, "  ")` must give exactly 2 parts. -/
def parseFileNodeOld (s : Str) : Except MErr FileNode :=
  match split2sp s with
  | [ds, path] => finishNode ds path
  | _ => .error .nodeForm

/-! ### bufcas.Manifest -/

def pathLe (a b : FileNode) : Bool := decide (a.path ≤ b.path)

/-- `getAndValidateManifestPathToFileNode`: a repeated path is an error (whatever the digests). -/
def hasDupPath : List FileNode → Bool
  | [] => false
  | n :: ns => ns.any (fun m => m.path = n.path) || hasDupPath ns

/-- A manifest is its `sortedUniqueFileNodes` (the path → node map holds nothing more). -/
abbrev Manifest := List FileNode

/-- `bufcas.NewManifest`: reject duplicates, sort by path (Go string `<` = byte order = code
    point order on valid UTF-8). -/
def newManifest (nodes : List FileNode) : Except MErr Manifest :=
  if hasDupPath nodes then .error .duplicatePath else .ok (sortBy pathLe nodes)

/-- `manifest.String()`: one `digest[SP][SP]path\n` line per node, in path order. -/
def manifestString : Manifest → Str
  | [] => []
  | n :: ns => fileNodeString n ++ '\n' :: manifestString ns

def parseLines (parse : Str → Except MErr FileNode) : List Str → Except MErr (List FileNode)
  | [] => .ok []
  | l :: ls =>
    match parse l with
    | .error e => .error e
    | .ok n => match parseLines parse ls with
      | .error e => .error e
      | .ok ns => .ok (n :: ns)

/-- `bufcas.ParseManifest`, parameterised by the file-node parser. -/
def parseManifestWith (parse : Str → Except MErr FileNode) (s : Str) : Except MErr Manifest :=
  if s = [] then newManifest []
  else if s.getLast? ≠ some '\n' then .error .noTrailingNewline
  else match parseLines parse (splitOnC '\n' s.dropLast) with
    | .error e => .error e
    | .ok nodes => newManifest nodes

def parseManifest := parseManifestWith parseFileNode
def parseManifestOld := parseManifestWith parseFileNodeOld

end BufModel.Manifest
