import BufModel.Generate
/-
  BufModel.GenBatch — which type filter reaches which plugin in `buf generate` (property C12,
  per-plugin `types` / `exclude_types`), as coded in

    private/buf/bufgen/generator.go   execPlugins, pluginConfigKeyForImage,
                                      createPluginConfigKeyForImage
    private/pkg/slicesext             ToIndexedValuesMap

  `execPlugins` groups the plugin configurations by a key and filters the input image ONCE per
  group, with the `types` / `exclude_types` of the group's FIRST plugin (configuration order); all
  plugins of the group receive that image, split by the first plugin's strategy.  The key is

      includeTypes : fmt.Sprintf("%v", sorted types)          -- "[a b c]"
      excludeTypes : fmt.Sprintf("%v", sorted exclude_types)
      strategy, remoteHost

  Names are arbitrary strings (`bufconfig` does not validate them); `%v` of a `[]string` writes
  the elements separated by ONE blank between brackets, so the rendering is injective exactly on
  lists of non-empty names without blanks — every name that can denote something in an image is
  one (`BufProofs.C12.render_injective`); `[""]` and `[]`, or `["a b"]` and `["a","b"]`, collide
  (`BufProofs.C12.key_collision_empty_name_counterexample`, recorded as an as-coded quirk).

  The filter itself is a parameter here (`BufModel.Filter` models it): the only thing used about
  it is that it is a function of the SETS of names (Go: `WithIncludeTypes` / `WithExcludeTypes`
  store the names in maps).
-/
namespace BufModel.GenBatch
open BufModel.Path BufModel.Generate

/-- The part of a `GeneratePluginConfig` that `execPlugins` looks at for the image. -/
structure PCfg where
  types : List Str
  excludes : List Str
  strategyAll : Bool
  remote : Str
  deriving DecidableEq, Repr

/-- Elements separated by one blank. -/
def joinSp : List Str → Str
  | [] => []
  | [x] => x
  | x :: y :: rest => x ++ ' ' :: joinSp (y :: rest)

/-- `fmt.Sprintf("%v", l)` for `l : []string`. -/
def render (l : List Str) : Str := '[' :: (joinSp l ++ [']'])

/-- `pluginConfigKeyForImage`. -/
structure Key where
  includeTypes : Str
  excludeTypes : Str
  strategyAll : Bool
  remoteHost : Str
  deriving DecidableEq, Repr

/-- `createPluginConfigKeyForImage` (it sorts the two name lists first). -/
def key (p : PCfg) : Key :=
  ⟨render (sortStrs p.types), render (sortStrs p.excludes), p.strategyAll, p.remote⟩

/-- `ToIndexedValuesMap(pluginConfigs, k)` followed by `indexedPluginConfigs[0].Value`: the
    configuration that lends its filter and strategy to `p` is the first one, in configuration
    order, with the same key. -/
def repWith {κ : Type} [DecidableEq κ] (k : PCfg → κ) (ps : List PCfg) (p : PCfg) : PCfg :=
  (ps.find? fun q => decide (k q = k p)).getD p

def rep (ps : List PCfg) (p : PCfg) : PCfg := repWith key ps p

/-- What plugin `p` of the configuration `ps` gets: the image filtered with the representative's
    names, and the representative's strategy. -/
def receivedWith {κ α : Type} [DecidableEq κ] (k : PCfg → κ) (filter : List Str → List Str → α)
    (ps : List PCfg) (p : PCfg) : α × Bool :=
  let r := repWith k ps p
  (filter r.types r.excludes, r.strategyAll)

def received {α : Type} (filter : List Str → List Str → α) (ps : List PCfg) (p : PCfg) : α × Bool :=
  receivedWith key filter ps p

/-! ### The folded key of a rejected change (kept for the counterexample) -/

def joinComma : List Str → Str
  | [] => []
  | [x] => x
  | x :: y :: rest => x ++ ',' :: joinComma (y :: rest)

/-- sorted types and sorted exclude_types appended and joined with "," : the boundary between
    the two lists is lost. -/
def foldedKey (p : PCfg) : Str × Bool × Str :=
  (joinComma (sortStrs p.types ++ sortStrs p.excludes), p.strategyAll, p.remote)

/-! ### Driver side: which filter CLASS reaches plugin i

  The harness gives every plugin the class of its own filter result (`cls`); the class observed at
  plugin i is the class of its representative. -/

def observedClasses (ps : List (PCfg × Nat)) : List Nat :=
  ps.map fun pc =>
    match ps.find? fun qc => decide (key qc.1 = key pc.1) with
    | some qc => qc.2
    | none => pc.2

end BufModel.GenBatch
