/-
  BufModel.Case — executable model of private/pkg/stringutil (case conversions, line
  splitting) and private/pkg/protoversion (package-version parser), AS CODED.

  Strings are `List Char` (`Str`).  Character classes are modelled on ASCII:
    unicode.IsUpper / IsLower / IsDigit  ->  [A-Z] / [a-z] / [0-9]
    unicode.ToUpper / ToLower            ->  ASCII case mapping, identity elsewhere
    unicode.IsSpace (strings.TrimSpace)  ->  \t \n \v \f \r ' ' U+0085 U+00A0
  Every non-ASCII letter is therefore "other" (neither upper, lower, digit; unchanged by the
  case mappings).  The generator keeps identifiers ASCII (as the proto grammar requires); the
  Go code additionally indexes BYTES (`s[i+1]`, `s[i-1]`) inside a rune loop, which on
  multi-byte input reads continuation bytes as Latin-1 runes — outside the modelled domain.
-/
namespace BufModel.Case

abbrev Str := List Char

/-- All character classes are stated on the code point (`Char.toNat`) so that proofs are plain
    natural-number arithmetic. -/
def isUpper (c : Char) : Bool := decide (65 ≤ c.toNat) && decide (c.toNat ≤ 90)
def isLower (c : Char) : Bool := decide (97 ≤ c.toNat) && decide (c.toNat ≤ 122)
def isDigit (c : Char) : Bool := decide (48 ≤ c.toNat) && decide (c.toNat ≤ 57)
def isAlnum (c : Char) : Bool := isUpper c || isLower c || isDigit c

def toUpper (c : Char) : Char := if isLower c then Char.ofNat (c.toNat - 32) else c
def toLower (c : Char) : Char := if isUpper c then Char.ofNat (c.toNat + 32) else c

/-- c == '_' -/
def isUnderscore (c : Char) : Bool := c.toNat == 95

/-- stringutil.isDelimiter: '.', '-', '_', ' ', '\t', '\n', '\r'. -/
def isDelimiter (c : Char) : Bool :=
  c.toNat == 46 || c.toNat == 45 || c.toNat == 95 || c.toNat == 32 || c.toNat == 9 || c.toNat == 10
    || c.toNat == 13

/-- unicode.IsSpace restricted to Latin-1 (what strings.TrimSpace trims):
    \t \n \v \f \r ' ' U+0085 U+00A0. -/
def isSpace (c : Char) : Bool :=
  c.toNat == 9 || c.toNat == 10 || c.toNat == 11 || c.toNat == 12 || c.toNat == 13 || c.toNat == 32
    || c.toNat == 0x85 || c.toNat == 0xA0

/-- Drop the longest suffix whose characters all satisfy `p`. -/
def dropEnd (p : Char → Bool) : Str → Str
  | [] => []
  | c :: cs =>
    match dropEnd p cs with
    | [] => if p c then [] else [c]
    | r => c :: r

/-- strings.TrimFunc(s, p). -/
def trimBoth (p : Char → Bool) (s : Str) : Str := dropEnd p (s.dropWhile p)

/-- strings.TrimSpace. -/
def trimSpace (s : Str) : Str := trimBoth isSpace s

/-! ### ToPascalCase -/

/-- The loop of ToPascalCase; `cap` = (i == 0 || isDelimiter(previous)). -/
def pascalGo : Bool → Str → Str
  | _, [] => []
  | cap, c :: cs =>
    if isDelimiter c then pascalGo true cs
    else (if cap || isUpper c then toUpper c else toLower c) :: pascalGo false cs

/-- stringutil.ToPascalCase. -/
def toPascalCase (s : Str) : Str := pascalGo true (trimSpace s)

/-! ### toSnakeCase / ToLowerSnakeCase / ToUpperSnakeCase -/

/-- isSnakeCaseNewWord(r, newWordOnDigits). -/
def isNewWord (nwod : Bool) (c : Char) : Bool := isUpper c || (nwod && isDigit c)

/-- `s[i+1]` is neither a new word (with digits) nor a delimiter; false at the end of input. -/
def nextOk : Str → Bool
  | [] => false
  | n :: _ => !(isNewWord true n) && !(isDelimiter n)

/-- The loop of toSnakeCase for i ≥ 1.  `prev` = s[i-1] (raw), `last` = output[len-1]. -/
def snakeGo (nwod : Bool) : Char → Char → Str → Str
  | _, _, [] => []
  | prev, last, c0 :: cs =>
    let c := if isDelimiter c0 then '_' else c0
    if isNewWord nwod c && !(isUnderscore last) && (nextOk cs || (nwod && isDigit c) || isLower prev) then
      '_' :: c :: snakeGo nwod c0 c cs
    else if !(isDelimiter c && isUnderscore last) then
      c :: snakeGo nwod c0 c cs
    else
      snakeGo nwod c0 last cs

/-- stringutil.toSnakeCase(s, options). -/
def toSnakeCase (nwod : Bool) (s : Str) : Str :=
  match trimBoth isDelimiter s with
  | [] => []
  | c :: cs => c :: snakeGo nwod c c cs

def toLowerSnakeCase (nwod : Bool) (s : Str) : Str := (toSnakeCase nwod s).map toLower
def toUpperSnakeCase (nwod : Bool) (s : Str) : Str := (toSnakeCase nwod s).map toUpper

/-! ### the naming grammars (syntactic; no conversion function involved) -/

def headIs (p : Char → Bool) : Str → Bool
  | [] => false
  | c :: _ => p c

def lastIs (p : Char → Bool) : Str → Bool
  | [] => false
  | [c] => p c
  | _ :: cs => lastIs p cs

/-- `[A-Z][A-Za-z0-9]*` -/
def isPascalIdent : Str → Bool
  | [] => false
  | c :: cs => isUpper c && cs.all isAlnum

def isLowerSnakeChar (c : Char) : Bool := isLower c || isDigit c || isUnderscore c
def isUpperSnakeChar (c : Char) : Bool := isUpper c || isDigit c || isUnderscore c

/-- no two consecutive underscores -/
def noDoubleUnderscore : Str → Bool
  | a :: b :: rest => !(isUnderscore a && isUnderscore b) && noDoubleUnderscore (b :: rest)
  | _ => true

/-- `[a-z0-9]+(_[a-z0-9]+)*` -/
def isLowerSnakeIdent (s : Str) : Bool :=
  !s.isEmpty && s.all isLowerSnakeChar && !headIs isUnderscore s && !lastIs isUnderscore s
    && noDoubleUnderscore s

/-- `[A-Z0-9]+(_[A-Z0-9]+)*` -/
def isUpperSnakeIdent (s : Str) : Bool :=
  !s.isEmpty && s.all isUpperSnakeChar && !headIs isUnderscore s && !lastIs isUnderscore s
    && noDoubleUnderscore s

/-! ### line splitting -/

/-- strings.Split(s, "\n"). -/
def splitLines : Str → List Str
  | [] => [[]]
  | c :: cs =>
    match splitLines cs with
    | [] => [[c]]   -- unreachable: splitLines is never empty
    | l :: ls => if c == '\n' then [] :: l :: ls else (c :: l) :: ls

/-- stringutil.SplitTrimLines. -/
def splitTrimLines (s : Str) : List Str := (splitLines s).map trimSpace

/-- stringutil.SplitTrimLinesNoEmpty. -/
def splitTrimLinesNoEmpty (s : Str) : List Str := (splitTrimLines s).filter (fun l => !l.isEmpty)

/-- strings.Join. -/
def joinWith (sep : Str) : List Str → Str
  | [] => []
  | [a] => a
  | a :: rest => a ++ sep ++ joinWith sep rest

/-- stringutil.TrimLines. -/
def trimLines (s : Str) : Str := trimSpace (joinWith ['\n'] (splitTrimLines s))

/-! ### substring helpers (strings.Contains / SplitN(…, 2) / Split on '.') -/

/-- strings.SplitN(s, pat, 2) when `pat` occurs (first occurrence); `none` when it does not. -/
def splitFirst (pat : Str) : Str → Option (Str × Str)
  | [] => if pat.isEmpty then some ([], []) else none
  | c :: cs =>
    if pat.isPrefixOf (c :: cs) then some ([], (c :: cs).drop pat.length)
    else match splitFirst pat cs with
      | some (a, b) => some (c :: a, b)
      | none => none

def contains (pat s : Str) : Bool := (splitFirst pat s).isSome

/-- strings.Split(s, ".") -/
def splitDots : Str → List Str
  | [] => [[]]
  | c :: cs =>
    match splitDots cs with
    | [] => [[c]]
    | l :: ls => if c == '.' then [] :: l :: ls else (c :: l) :: ls

/-! ### protoversion -/

inductive Stability where
  | stable | alpha | beta | test
  deriving DecidableEq, Repr

def Stability.str : Stability → Str
  | .stable => [] | .alpha => "alpha".toList | .beta => "beta".toList | .test => "test".toList

structure PackageVersion where
  major : Nat
  stability : Stability
  minor : Nat
  patch : Nat
  suffix : Str
  deriving DecidableEq, Repr

/-- value of a digit string (no validation). -/
def digitsVal (ds : Str) : Nat := ds.foldl (fun acc c => acc * 10 + (c.toNat - 48)) 0

/-- strconv.ParseInt(s, 10, 32): optional sign, non-empty decimal digits, in int32 range. -/
def parseInt32 (s : Str) : Option Int :=
  let body (neg : Bool) (ds : Str) : Option Int :=
    if ds.isEmpty || !(ds.all isDigit) then none
    else
      let v := digitsVal ds
      if neg then (if v ≤ 2147483648 then some (-(Int.ofNat v)) else none)
      else (if v ≤ 2147483647 then some (Int.ofNat v) else none)
  match s with
  | [] => none
  | '+' :: ds => body false ds
  | '-' :: ds => body true ds
  | ds => body false ds

/-- protoversion.getNumber. -/
def getNumber (s : Str) (minimum : Nat) : Option Nat :=
  match parseInt32 s with
  | some v => if v < Int.ofNat minimum then none else some v.toNat
  | none => none

/-- protoversion.getAlphaBetaMajorPatch. -/
def getAlphaBetaMajorPatch (rem : Str) (minMajor : Nat) : Option (Nat × Nat) :=
  match splitFirst ['p'] rem with
  | some (a, b) =>
    match getNumber a minMajor, getNumber b 1 with
    | some major, some patch => some (major, patch)
    | _, _ => none
  | none =>
    match getNumber rem minMajor with
    | some major => some (major, 0)
    | none => none

/-- protoversion.newPackageVersionForComponent. -/
def versionForComponent (allowV0 : Bool) (component : Str) : Option PackageVersion :=
  let minMajor := if allowV0 then 0 else 1
  if contains ['.'] component then none else
  match component with
  | [] => none
  | [_] => none
  | c0 :: version =>
    if c0 != 'v' then none else
    match splitFirst "test".toList version with
    | some (a, b) =>
      (match getNumber a minMajor with
       | some major => some ⟨major, .test, 0, 0, b⟩
       | none => none)
    | none =>
      let hasAlpha := contains "alpha".toList version
      let hasBeta := contains "beta".toList version
      if hasAlpha && hasBeta then none
      else if hasAlpha || hasBeta then
        let st := if hasAlpha then Stability.alpha else Stability.beta
        match splitFirst st.str version with
        | none => none
        | some (a, b) =>
          let minor? : Option Nat := if b.isEmpty then some 0 else getNumber b 1
          match minor? with
          | none => none
          | some minor =>
            match getAlphaBetaMajorPatch a minMajor with
            | some (major, patch) => some ⟨major, st, minor, patch, []⟩
            | none => none
      else
        match getNumber version minMajor with
        | some major => some ⟨major, .stable, 0, 0, []⟩
        | none => none

/-- protoversion.newPackageVersionForPackage. -/
def versionForPackage (allowV0 : Bool) (pkg : Str) : Option PackageVersion :=
  if pkg.isEmpty then none else
  let parts := splitDots pkg
  if parts.length < 2 then none else
  match parts.getLast? with
  | some last => versionForComponent allowV0 last
  | none => none

end BufModel.Case
