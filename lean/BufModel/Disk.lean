import BufModel.Path
import BufModel.Bucket
/-
  BufModel.Disk — the disk bucket (private/pkg/storage/storageos) as a file TREE: regular files
  plus the directories that exist.  Unlike the abstract map, a tree cannot hold a file and a
  directory under one name, `Put` fails below a file or onto a directory, `Delete` of a
  non-empty directory fails and `Delete` of an empty leftover directory succeeds.  Property C14
  quantifies over prefix-free path sets; `BufProofs.C14.disk_refines_map` (Props/C14.lean) proves that on such
  histories the tree gives exactly the outputs of the memory bucket and holds the same objects.
  Symlinks are not modelled.
-/
namespace BufModel.Disk
open BufModel.Path BufModel.Bucket

structure Disk where
  files : Mem          -- regular files, keyed by rendered key
  dirs : List Key      -- existing directories below the root (closed under ancestors)

def empty : Disk := { files := [], dirs := [] }

/-- the proper, non-empty ancestors of a key: its prefixes of length 1 … len-1 -/
def ancestors (k : Key) : List Key := (List.range k.length).filterMap fun n =>
  if n = 0 then none else some (k.take n)

def isFile (d : Disk) (k : Key) : Bool := (d.files.find (renderKey k)).isSome

def isDir (d : Disk) (k : Key) : Bool := d.dirs.contains k

def addDirs (ds : List Key) : List Key → List Key
  | [] => ds
  | a :: rest => if ds.contains a then addDirs ds rest else addDirs (a :: ds) rest

/-- the key a validated path denotes -/
def keyOfPath (p : Str) : Key := cleanComps p

/-- storageos.bucket.Put (+ Write + Close), atomic or not: fails (class "other") when an
    ancestor is a regular file (ENOTDIR / errNotDir) or the path is a directory (EISDIR; for an
    atomic put the rename onto a directory fails). -/
def diskPut (d : Disk) (path : Str) (c : Content) : Except PErr Disk :=
  match validatePath path with
  | .error e => .error e
  | .ok p =>
    let k := keyOfPath p
    if (ancestors k).any (isFile d) then .error .other
    else if isDir d k then .error .other
    else .ok { files := (p, c) :: d.files.erase p, dirs := addDirs d.dirs (ancestors k) }

def diskGet (d : Disk) (path : Str) : Except PErr Content := memGet d.files path

/-- anything (file or directory) strictly below k? -/
def hasBelow (d : Disk) (k : Key) : Bool :=
  d.files.any (fun kv => k.isPrefixOf (keyOfPath kv.1) && keyOfPath kv.1 != k) ||
    d.dirs.any (fun x => k.isPrefixOf x && x != k)

/-- storageos.bucket.Delete = os.Remove: a file is removed; an EMPTY directory is removed too
    (and nil is returned); a non-empty directory is an error; nothing there = not-exist. -/
def diskDelete (d : Disk) (path : Str) : Except PErr Disk :=
  match validatePath path with
  | .error e => .error e
  | .ok p =>
    let k := keyOfPath p
    if isFile d k then .ok { d with files := d.files.erase p }
    else if (ancestors k).any (isFile d) then .error .other      -- ENOTDIR from os.Remove
    else if isDir d k then
      if hasBelow d k then .error .other
      else .ok { d with dirs := d.dirs.filter (· != k) }
    else .error .notExist

/-- does a proper ancestor of the (validated) prefix name a regular file? -/
def underFile (files : Mem) (pfx : Str) : Bool :=
  match validatePrefix pfx with
  | .error _ => false
  | .ok p => (ancestors (keyOfPath p)).any fun a => (files.find (renderKey a)).isSome

/-- os.RemoveAll: the file or the whole subtree; the root prefix clears everything; a prefix
    BELOW a regular file is an error (ENOTDIR). -/
def diskDeleteAll (d : Disk) (pfx : Str) : Except PErr Disk :=
  match validatePrefix pfx with
  | .error e => .error e
  | .ok p =>
    let k := keyOfPath p
    if underFile d.files pfx then .error .other
    else .ok { files := d.files.filter (fun kv => !equalsOrContainsPath p kv.1),
               dirs := d.dirs.filter (fun x => !k.isPrefixOf x) }

/-- storageos.bucket.Walk: a prefix BELOW a regular file is an error (ENOTDIR is not a
    not-exist error); otherwise the files under the prefix. -/
def diskWalk (d : Disk) (pfx : Str) : Except PErr (List (Str × Content)) :=
  if underFile d.files pfx then .error .other else memWalk d.files pfx

/-! ### The walk of a composite as the implementation performs it: STREAMING

  Every bucket's `Walk` hands each object to its caller's callback as it is visited; an error
  — a failing delegate, or the union's duplicate check inside the callback — stops the walk at
  that moment.  Which error is reported therefore depends on the visiting order: in
  `multi(x, multi(y, z))` a path of `y` already seen in `x` is reported as "multiple locations"
  before `z` is ever walked, even if walking `z` would fail (ENOTDIR on a disk bucket).
  `rWalk` (BufModel/Bucket.lean) evaluates members one after the other as whole lists, which
  gives the same RESULT whenever the walk succeeds (`rWalkD_ok`, `rWalkD_of_rWalk_ok` in
  DiskLemmas) but not always the same error class when two different errors compete — which
  needs a disk base.  `rWalkD` is the streaming walk: it returns the objects visited before
  the walk stopped, and the error that stopped it (`none` = completed). -/

abbrev WalkRes := List (Str × Content) × Option PErr

/-- the prefix view's callback: objects are unmapped as they are visited -/
def unmapPartial (p : Str) : List (Str × Content) → WalkRes
  | [] => ([], none)
  | kv :: rest =>
    match unmapPrefix p kv.1 with
    | .error e => ([], some e)
    | .ok none => unmapPartial p rest
    | .ok (some r) =>
      let res := unmapPartial p rest
      ((r, kv.2) :: res.1, res.2)

/-- the union's callback on its second member: a path already seen stops the walk -/
def mergePartial (seen : List (Str × Content)) : List (Str × Content) → WalkRes
  | [] => ([], none)
  | kv :: rest =>
    if hasKey seen kv.1 then ([], some .multiple)
    else
      let res := mergePartial seen rest
      (kv :: res.1, res.2)

/-- The streaming walk; `flags[i] = true` marks base `i` as a disk bucket (a prefix BELOW a
    regular file is ENOTDIR there, reported before anything is visited). -/
def rWalkD (flags : List Bool) : BExpr → Bases → Str → WalkRes
  | .base i, bs, pfx =>
    if flags.getD i false && underFile (bs.get i) pfx then ([], some .other)
    else match memWalk (bs.get i) pfx with
      | .ok l => (l, none)
      | .error e => ([], some e)
  | .pre p b, bs, pfx =>
    match normalizeAndValidate pfx with
    | .error e => ([], some e)
    | .ok q =>
      let inner := rWalkD flags b bs (join [p, q])
      let res := unmapPartial p inner.1
      -- an unmap failure on a visited object comes before the delegate's own later failure
      (res.1, match res.2 with | some ue => some ue | none => inner.2)
  | .filt f b, bs, pfx =>
    match normalizeAndValidate pfx with
    | .error e => ([], some e)
    | .ok q =>
      let inner := rWalkD flags b bs q
      (inner.1.filter fun kv => f.matches kv.1, inner.2)
  | .multi a b, bs, pfx =>
    let ra := rWalkD flags a bs pfx
    match ra.2 with
    | some ea => (ra.1, some ea)
    | none =>
      let rb := rWalkD flags b bs pfx
      let res := mergePartial ra.1 rb.1
      -- a duplicate among the objects the second member visited comes before its later failure
      (ra.1 ++ res.1, match res.2 with | some em => some em | none => rb.2)
  | .overlay a b, bs, pfx =>
    let ra := rWalkD flags a bs pfx
    match ra.2 with
    | some ea => (ra.1, some ea)
    | none =>
      let rb := rWalkD flags b bs pfx
      (ra.1 ++ rb.1.filter fun kv => !hasKey ra.1 kv.1, rb.2)
  | .strip b, bs, pfx => rWalkD flags b bs pfx

/-! ### A base bucket of either kind (what the C14 driver steps) -/

/-- Put on a base bucket: the tree for a disk base, the plain map (`files`) for a memory base. -/
def basePut (isDisk : Bool) (d : Disk) (path : Str) (c : Content) : Except PErr Disk :=
  if isDisk then diskPut d path c
  else match memPut d.files path c with
    | .ok m' => .ok { d with files := m' }
    | .error er => .error er

def baseDelete (isDisk : Bool) (d : Disk) (path : Str) : Except PErr Disk :=
  if isDisk then diskDelete d path
  else match memDelete d.files path with
    | .ok m' => .ok { d with files := m' }
    | .error er => .error er

def baseDeleteAll (isDisk : Bool) (d : Disk) (pfx : Str) : Except PErr Disk :=
  if isDisk then diskDeleteAll d pfx
  else match memDeleteAll d.files pfx with
    | .ok m' => .ok { d with files := m' }
    | .error er => .error er

/-! ### An atomic put IN FLIGHT (writer still open)

  `storageos.bucket.Put` with `PutWithAtomic` creates `os.CreateTemp(dir, ".tmp"+base+"*")` NEXT TO
  the final path and renames it on `Close`.  Between the two the temp file is an ordinary regular
  file of the directory: as coded `Walk` lists it and `Get`/`Stat` serve it — the tree has one more
  object, and stays one path→bytes map (`Props/C14.inflight_*`).  The property does not say
  whether the temp file should be shown; this models what the code does.  The temp file's base
  name (`tmp`, chosen by the OS: pattern + random digits) is a parameter; `none` = the
  implementation shows no file (the memory bucket buffers the bytes until `Close`).
  NOTE the walk does not look at names: a real object called `.tmpl.proto`, `.tmp` or
  `conf/.tmpfiles.d` is listed like any other (seed C14-m5 made `Walk` skip `.tmp*`). -/

/-- the bucket path of the temp file of an atomic put of (validated) path `p` -/
def tempPath (p : Str) (tmp : Comp) : Str := renderKey ((keyOfPath p).dropLast ++ [tmp])

/-- `Put(path, Atomic)` + `Write c`, writer left open. -/
def diskBeginAtomic (d : Disk) (path : Str) (tmp : Option Comp) (c : Content) : Except PErr Disk :=
  match validatePath path with
  | .error e => .error e
  | .ok p =>
    let k := keyOfPath p
    if (ancestors k).any (isFile d) then .error .other
    else
      let dirs' := addDirs d.dirs (ancestors k)
      match tmp with
      | none => .ok { d with dirs := dirs' }
      | some t => .ok { files := (tempPath p t, c) :: d.files.erase (tempPath p t), dirs := dirs' }

/-- `Close` of the open writer: rename the temp file onto the final path; onto a DIRECTORY the
    rename fails, the temp file is removed and the error is returned.  Returns the new tree and
    the error. -/
def diskCommitAtomic (d : Disk) (path : Str) (tmp : Option Comp) (c : Content) : Disk × Option PErr :=
  match validatePath path with
  | .error e => (d, some e)
  | .ok p =>
    let k := keyOfPath p
    let files' := match tmp with
      | none => d.files
      | some t => d.files.erase (tempPath p t)
    if isDir d k then ({ d with files := files' }, some .other)
    else ({ d with files := (p, c) :: files'.erase p }, none)

/-- begin/commit on a base of either kind; a memory bucket shows nothing until `Close`. -/
def baseBeginAtomic (isDisk : Bool) (d : Disk) (path : Str) (tmp : Option Comp) (c : Content) : Except PErr Disk :=
  if isDisk then diskBeginAtomic d path tmp c
  else match memPut d.files path c with
    | .ok _ => .ok d
    | .error er => .error er

def baseCommitAtomic (isDisk : Bool) (d : Disk) (path : Str) (tmp : Option Comp) (c : Content) : Disk × Option PErr :=
  if isDisk then diskCommitAtomic d path tmp c
  else match memPut d.files path c with
    | .ok m' => ({ d with files := m' }, none)
    | .error er => (d, some er)

/-- `putAll` onto a base bucket of either kind. -/
def putAllD (isDisk : Bool) : Disk → List (Str × Content) → Except PErr Disk
  | d, [] => .ok d
  | d, kv :: rest =>
    match basePut isDisk d kv.1 kv.2 with
    | .error e => .error e
    | .ok d' => putAllD isDisk d' rest

/-- `storage.Copy` (and the net effect of Tar→Untar, Zip→Unzip) as coded, onto a base of either
    kind: list the paths by walking, read each back with `Get`, put it under the same path. -/
def copyD (flags : List Bool) (e : BExpr) (bs : Bases) (isDisk : Bool) (d0 : Disk) :
    Except PErr (Nat × Disk) :=
  match rWalkD flags e bs [] with
  | (_, some er) => .error er
  | (paths, none) =>
    match readObjects e bs paths with
    | .error er => .error er
    | .ok objs =>
      match putAllD isDisk d0 objs with
      | .error er => .error er
      | .ok d' => .ok (objs.length, d')

end BufModel.Disk
