import BufModel.Path
import BufModel.Bucket
/-
  BufModel.Disk — the disk bucket (private/pkg/storage/storageos) as a file TREE: regular files
  plus the directories that exist.  Unlike the abstract map, a tree cannot hold a file and a
  directory under one name, `Put` fails below a file or onto a directory, `Delete` of a
  non-empty directory fails and `Delete` of an empty leftover directory succeeds.  Property C14
  quantifies over prefix-free path sets; the theorem in Props/C14 shows that on such histories
  the tree behaves exactly like the memory bucket.  Symlinks are not modelled.
-/
namespace BufModel.Disk
open BufModel.Path BufModel.Bucket

structure Disk where
  files : Mem          -- regular files, keyed by rendered key
  dirs : List Key      -- existing directories below the root (closed under ancestors)

def empty : Disk := { files := [], dirs := [] }

/-- the proper, non-empty ancestors of a key: its prefixes of length 1 … len-1 -/
def ancestors (k : Key) : List Key := (List.range k.length).filterMap fun n =>
  if n = 0 then none else some (k.take n)

def isFile (d : Disk) (k : Key) : Bool := (d.files.find (renderKey k)).isSome

def isDir (d : Disk) (k : Key) : Bool := d.dirs.contains k

def addDirs (ds : List Key) : List Key → List Key
  | [] => ds
  | a :: rest => if ds.contains a then addDirs ds rest else addDirs (a :: ds) rest

/-- the key a validated path denotes -/
def keyOfPath (p : Str) : Key := cleanComps p

/-- storageos.bucket.Put (+ Write + Close), atomic or not: fails (class "other") when an
    ancestor is a regular file (ENOTDIR / errNotDir) or the path is a directory (EISDIR; for an
    atomic put the rename onto a directory fails). -/
def diskPut (d : Disk) (path : Str) (c : Content) : Except PErr Disk :=
  match validatePath path with
  | .error e => .error e
  | .ok p =>
    let k := keyOfPath p
    if (ancestors k).any (isFile d) then .error .other
    else if isDir d k then .error .other
    else .ok { files := (p, c) :: d.files.erase p, dirs := addDirs d.dirs (ancestors k) }

def diskGet (d : Disk) (path : Str) : Except PErr Content := memGet d.files path

/-- anything (file or directory) strictly below k? -/
def hasBelow (d : Disk) (k : Key) : Bool :=
  d.files.any (fun kv => k.isPrefixOf (keyOfPath kv.1) && keyOfPath kv.1 != k) ||
    d.dirs.any (fun x => k.isPrefixOf x && x != k)

/-- storageos.bucket.Delete = os.Remove: a file is removed; an EMPTY directory is removed too
    (and nil is returned); a non-empty directory is an error; nothing there = not-exist. -/
def diskDelete (d : Disk) (path : Str) : Except PErr Disk :=
  match validatePath path with
  | .error e => .error e
  | .ok p =>
    let k := keyOfPath p
    if isFile d k then .ok { d with files := d.files.erase p }
    else if (ancestors k).any (isFile d) then .error .other      -- ENOTDIR from os.Remove
    else if isDir d k then
      if hasBelow d k then .error .other
      else .ok { d with dirs := d.dirs.filter (· != k) }
    else .error .notExist

/-- does a proper ancestor of the (validated) prefix name a regular file? -/
def underFile (files : Mem) (pfx : Str) : Bool :=
  match validatePrefix pfx with
  | .error _ => false
  | .ok p => (ancestors (keyOfPath p)).any fun a => (files.find (renderKey a)).isSome

/-- os.RemoveAll: the file or the whole subtree; the root prefix clears everything; a prefix
    BELOW a regular file is an error (ENOTDIR). -/
def diskDeleteAll (d : Disk) (pfx : Str) : Except PErr Disk :=
  match validatePrefix pfx with
  | .error e => .error e
  | .ok p =>
    let k := keyOfPath p
    if underFile d.files pfx then .error .other
    else .ok { files := d.files.filter (fun kv => !equalsOrContainsPath p kv.1),
               dirs := d.dirs.filter (fun x => !k.isPrefixOf x) }

/-- storageos.bucket.Walk: a prefix BELOW a regular file is an error (ENOTDIR is not a
    not-exist error); otherwise the files under the prefix. -/
def diskWalk (d : Disk) (pfx : Str) : Except PErr (List (Str × Content)) :=
  if underFile d.files pfx then .error .other else memWalk d.files pfx

/-- `rWalk` where some base buckets are disk buckets (`flags[i] = true`). -/
def rWalkD (flags : List Bool) : BExpr → Bases → Str → Except PErr (List (Str × Content))
  | .base i, bs, pfx =>
    if flags.getD i false && underFile (bs.get i) pfx then .error .other else memWalk (bs.get i) pfx
  | .pre p b, bs, pfx =>
    match normalizeAndValidate pfx with
    | .error e => .error e
    | .ok q =>
      match rWalkD flags b bs (join [p, q]) with
      | .error e => .error e
      | .ok objs => unmapAll p objs
  | .filt f b, bs, pfx =>
    match normalizeAndValidate pfx with
    | .error e => .error e
    | .ok q =>
      match rWalkD flags b bs q with
      | .error e => .error e
      | .ok objs => .ok (objs.filter fun kv => f.matches kv.1)
  | .multi a b, bs, pfx =>
    match rWalkD flags a bs pfx with
    | .error e => .error e
    | .ok oa =>
      match rWalkD flags b bs pfx with
      | .error e => .error e
      | .ok ob =>
        match mergeMulti oa ob with
        | .error e => .error e
        | .ok ob' => .ok (oa ++ ob')
  | .overlay a b, bs, pfx =>
    match rWalkD flags a bs pfx with
    | .error e => .error e
    | .ok oa =>
      match rWalkD flags b bs pfx with
      | .error e => .error e
      | .ok ob => .ok (oa ++ ob.filter fun kv => !hasKey oa kv.1)

end BufModel.Disk
