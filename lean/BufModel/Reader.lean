import BufModel.Path
import BufModel.Bucket
import BufModel.Disk
import BufModel.Archive
/-
  BufModel.Reader — (1) READER HANDLES of the base buckets and (2) the "which member wins"
  function of an archive extraction.  Both belong to property C14 (one path→bytes map):

  (1) `Get` returns a ReadObjectCloser that is read LATER, after other writes.
      * storagemem: the reader wraps `bytes.NewReader(immutableObject.Data())`; an object is never
        modified after `Close` of its writer, a replaced object stays referenced by its readers.
        So a memory handle IS the content at Get time (`snap = some c`).  (Seed C15-m10 recycled the
        backing array of a replaced object through a sync.Pool: the model has no such sharing.)
      * storageos, as coded = POSIX open-file semantics: the handle is an open descriptor of the
        inode at `path` (`snap = none` = "attached").  `os.Rename` over the path (atomic put),
        `os.Remove` (Delete) and `os.RemoveAll` (DeleteAll) leave the descriptor on the OLD inode:
        the handle is detached with the content the file had (`detach`).  A NON-atomic put is
        `os.Create` = O_TRUNC on the SAME inode followed by writes: an attached handle continues at
        its offset in the new content (nothing if the new content is not longer than the offset).
      Operations of a history are sequential (a put is Put+Write+Close before the next read).

  (2) Untar/Unzip are a fold of puts over the members in archive order (`extractInto`), so when
      several members map to one path (repeated member, collision after strip-components or
      normalisation) the LAST one wins — `lastMember`; theorem `extract_last_member_wins`
      (Props/C14).  (Seed C11-m10 made Untar keep the first.)
-/
namespace BufModel.Reader
open BufModel.Path BufModel.Bucket BufModel.Disk BufModel.Archive

/-! ### (1) reader handles -/

/-- the bytes of a content from offset `n` on / up to offset `n` (contents are byte strings; the
    driver feeds ASCII, so characters = bytes) -/
def dropC (c : Content) (n : Nat) : Content := String.ofList (c.toList.drop n)
def takeC (c : Content) (n : Nat) : Content := String.ofList (c.toList.take n)

structure Handle where
  base : Nat
  path : Str               -- validated path
  off : Nat                -- bytes consumed so far
  snap : Option Content    -- `some c`: bound to immutable bytes `c`; `none`: the disk file at `path`

/-- `Get(path)` on base `i` followed by reading (up to) `n` bytes: the handle and the bytes read. -/
def openReader (isDisk : Bool) (d : Disk) (i : Nat) (path : Str) (n : Nat) : Except PErr (Handle × Content) :=
  match validatePath path with
  | .error e => .error e
  | .ok p =>
    match d.files.find p with
    | none => .error .notExist
    | some c =>
      .ok ({ base := i, path := p, off := min n c.toList.length, snap := if isDisk then none else some c },
           takeC c n)

/-- reading the handle to the end, `d` = the CURRENT tree of the handle's base -/
def finishReader (d : Disk) (h : Handle) : Content :=
  match h.snap with
  | some c => dropC c h.off
  | none => dropC ((d.files.find h.path).getD "") h.off

/-- the inode of the selected paths of disk base `i` is replaced / unlinked; `d` = the tree BEFORE -/
def detach (d : Disk) (i : Nat) (sel : Str → Bool) (hs : List Handle) : List Handle :=
  hs.map fun h =>
    if h.base = i && h.snap.isNone && sel h.path then { h with snap := some ((d.files.find h.path).getD "") }
    else h

/-- the writes of a history, as far as open readers are concerned -/
inductive Write where
  | putPlain (path : Str)                       -- os.Create: same inode
  | putAtomic (path : Str)                      -- CreateTemp + Rename: new inode
  | commit (path : Str) (tmp : Option Comp)     -- Close of an in-flight atomic put (rename, or removal of the temp file)
  | delete (path : Str)
  | deleteAll (pfx : Str)

def pathIs (path : Str) : Str → Bool :=
  match validatePath path with
  | .ok p => fun q => q = p
  | .error _ => fun _ => false

def Write.sel : Write → Str → Bool
  | .putPlain _ => fun _ => false
  | .putAtomic path => pathIs path
  | .commit path tmp => fun q => pathIs path q ||
      (match validatePath path, tmp with
       | .ok p, some t => q = tempPath p t
       | _, _ => false)
  | .delete path => pathIs path
  | .deleteAll pfx =>
    match validatePrefix pfx with
    | .ok p => fun q => equalsOrContainsPath p q
    | .error _ => fun _ => false

/-- a (successful) write on base `i`, whose tree was `d` before it -/
def afterWrite (d : Disk) (i : Nat) (w : Write) (hs : List Handle) : List Handle := detach d i w.sel hs

/-- any number of writes, each with the base it goes to and that base's tree before it -/
def afterWrites : List (Disk × Nat × Write) → List Handle → List Handle
  | [], hs => hs
  | (d, i, w) :: rest, hs => afterWrites rest (afterWrite d i w hs)

/-! ### (2) archives: which member wins -/

/-- the key `memPut` stores a path under -/
def putKey (q : Str) : Option Str :=
  match validatePath q with
  | .ok p => some p
  | .error _ => none

/-- the path an entry is written to by `extractEntry` (`none` = skipped), for an entry that does
    not abort the extraction -/
def entryTarget (fmt : Fmt) (strip : Nat) (matcher : Str → Bool) (e : Entry) : Option Str :=
  match fmt with
  | .tar =>
    match unmapArchivePath e.name strip matcher with
    | .ok (some p) => if !e.isRegular then none else if isApple .tar e then none else putKey p
    | _ => none
  | .zip =>
    match unmapArchivePath e.name strip matcher with
    | .ok (some p) => if isApple .zip e then none else if e.isRegular then putKey p else none
    | _ => none

/-- the content of the LAST member written to `q`, if any -/
def lastMember (fmt : Fmt) (strip : Nat) (matcher : Str → Bool) (q : Str) : Archive → Option Content
  | [] => none
  | e :: rest =>
    match lastMember fmt strip matcher q rest with
    | some c => some c
    | none => if entryTarget fmt strip matcher e = some q then some e.content else none

end BufModel.Reader
