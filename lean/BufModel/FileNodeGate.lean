import BufModel.Path
import BufModel.Manifest
/-
  BufModel.FileNodeGate — the path gate of private/bufpkg/bufcas/file_node.go
  (`validateFileNodeParameters`), the single check behind `NewFileNode`, `ParseFileNode` and
  therefore `ParseManifest` / `BlobToManifest` / `NewFileSetForBucket`, stated on top of
  `BufModel.Path.normalizeAndValidate` so that the exact-shape theorems of C13 cover it.

  As coded (the digest is never nil in the model):
    1. path == ""                               → error
    2. NormalizeAndValidate(path) fails         → error (absolute / ".." / "../…")
    3. path != its normalized form              → error
    4. strings.Contains(path, "\n")             → error
  Note: "." passes all four checks (it is its own normal form and does not leave the root); the
  model keeps that.

  `BufModel.Manifest.validateNodePath` (C08's model of the same function) has the same verdict;
  `BufProofs.C13.fileNodeGate_iff_validateNodePath` proves it, which is what lets the manifest
  theorems speak about `BufModel.Manifest.parseManifest`.
-/
namespace BufModel.FileNodeGate
open BufModel.Path

/-- Why the gate refused a path, in the order of the checks. -/
inductive GErr where
  | empty
  | invalid (e : PErr)
  | notNormal
  | lineFeed
  deriving DecidableEq, Repr

def GErr.tag : GErr → String
  | .empty => "path-empty"
  | .invalid e => "path-invalid:" ++ e.tag
  | .notNormal => "path-not-normal"
  | .lineFeed => "path-line-feed"

/-- `validateFileNodeParameters`, as coded, with the reason of a refusal. -/
def fileNodeGateE (p : Str) : Except GErr Unit :=
  if p = [] then .error .empty
  else match normalizeAndValidate p with
    | .error e => .error (.invalid e)
    | .ok n =>
      if p ≠ n then .error .notNormal
      else if '\n' ∈ p then .error .lineFeed
      else .ok ()

/-- The gate as a predicate: non-empty ∧ `NormalizeAndValidate p = p` ∧ no line feed. -/
def fileNodeGate (p : Str) : Bool :=
  decide (p ≠ []) && decide (normalizeAndValidate p = .ok p) && !decide ('\n' ∈ p)

/-- The "simplified" gate of seed C13-m10: `Normalize` + equality instead of
    `NormalizeAndValidate` + equality.  Kept for the counterexample theorem only. -/
def normalizeOnlyGate (p : Str) : Bool :=
  decide (p ≠ []) && decide (normalize p = p) && !decide ('\n' ∈ p)

/-- A gate that forgets only the absolute-path test (a sibling mutation; counterexample only). -/
def noAbsTestGate (p : Str) : Bool :=
  decide (p ≠ []) && decide (clean p = p) && !(decide (p = dotdot) || jumpPrefix.isPrefixOf p) &&
    !decide ('\n' ∈ p)

/-- The paths of a manifest as `ParseManifest` / `NewManifest` see them, at the path level: every
    path passes the gate and no path occurs twice. -/
def manifestPathsGate (paths : List Str) : Bool :=
  paths.all fileNodeGate && decide paths.Nodup

end BufModel.FileNodeGate
