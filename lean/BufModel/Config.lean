import BufModel.Path
/-
  BufModel.Config — executable model of the configuration-file readers and writers of
  private/bufpkg/bufconfig (buf.yaml v1beta1 / v1 / v2, buf.lock, buf.work.yaml) at the
  STRUCTURED level: YAML text <-> external structs is the yaml library; the model starts at
  the external structs (`ExtV1`, `ExtV2`, …) and ends at the accessor values of the internal
  objects (`BufYAML`, `Module`, `Lint`, `Breaking`, `Check`, …).

  Paths.  Every path that occurs in a document is passed through
  `normalpath.NormalizeAndValidate` by the reader before anything else is done with it, and
  that happens lazily (a document whose lint section is disabled never validates the other
  ignore paths).  The model therefore carries an external path as `P` — the result of the
  normalisation attempt: `empty` (the empty string, which NormalizeAndValidate maps to "."
  but normalizeAndCheckPaths rejects), `bad` (rejected), or `ok k` with `k` the component list
  of the normalised path ("." = []).  `normP` (bottom of the file) is that attempt, built from
  BufModel.Path; on component lists `Join` is `++`, `Rel` is dropping the prefix and
  `EqualsOrContainsPath` is `List.isPrefixOf` (tied to BufModel.Path by the lemmas
  join_keys / rel_keys / ecp_keys of PathLemmas and to the Go functions by the C13
  correspondence).  The ORDER used by sort.Strings is the byte order of the rendered path,
  not the component-wise order ("a-b" < "a/b"), hence `keyLt`.

  Module names and dependency references are parsed by bufparse (library): the structured
  input carries them already split, with a validity flag.

  Also here: buf.lock with its v2 `plugins:` section (`readLockFile` / `writeLockFile`), the
  workspace targeting shared by v1 and v2 workspaces (`owners`) with the path part of
  `buf config migrate` (`migrateWorkspace`, `migrateFile`), and `mapP` / `reparse` (an external
  document as the reader meets it again through the strings that were written).

  The model describes the tree AFTER the two `fix:` commits of C16 (writer keeps a single "."
  module that has includes; a disabled check config is written back as `ignore: [<module
  dir>]`).  The pre-fix writer is kept as `writeV2Old` / `extCheckOfOld` for the recorded
  counterexamples.
-/
namespace BufModel.Config
open BufModel.Path

/-! ### order, sorting -/

/-- Lexicographic `<` of lists over a strict order `lt` of the elements. -/
def lexLt {α : Type} (lt : α → α → Bool) : List α → List α → Bool
  | [], [] => false
  | [], _ :: _ => true
  | _ :: _, [] => false
  | a :: as, b :: bs =>
    if lt a b then true
    else if lt b a then false
    else lexLt lt as bs

def charLt (a b : Char) : Bool := a.toNat < b.toNat

/-- Byte-wise (= code-point-wise for valid UTF-8) lexicographic `<` of Go strings. -/
def strLt : Str → Str → Bool := lexLt charLt

/-- The order `sort.Strings` puts paths in: the string order of the rendered path.  For
    component lists that render to the same string (impossible for validated paths, see
    `renderKey_inj`) the tie is broken component-wise, which makes `keyLt` a strict total
    order on all component lists. -/
def keyLt (a b : Key) : Bool :=
  strLt (renderKey a) (renderKey b) || (decide (renderKey a = renderKey b) && lexLt strLt a b)

/-- Insert into a strictly sorted list, dropping `x` if an equal element is present. -/
def insertU {α : Type} (lt : α → α → Bool) (x : α) : List α → List α
  | [] => [x]
  | y :: ys =>
    if lt x y then x :: y :: ys
    else if lt y x then y :: insertU lt x ys
    else y :: ys

/-- `slicesext.ToUniqueSorted` / `sort.Strings` on a duplicate-free slice. -/
def sortU {α : Type} (lt : α → α → Bool) (l : List α) : List α := l.foldr (insertU lt) []

/-- Stable insertion by a key (`x` goes in front of the first element whose key is not smaller). -/
def insertS {α : Type} (lt : α → α → Bool) (x : α) : List α → List α
  | [] => [x]
  | y :: ys => if lt y x then y :: insertS lt x ys else x :: y :: ys

/-- `sort.SliceStable` with `less = lt`. -/
def sortStable {α : Type} (lt : α → α → Bool) (l : List α) : List α := l.foldr (insertS lt) []

/-! ### external paths -/

inductive P where
  | empty
  | bad
  | ok (k : Key)
  deriving DecidableEq, Repr

/-- `normalpath.NormalizeAndValidate` ("" ↦ "."). -/
def P.nv : P → Option Key
  | .empty => some []
  | .bad => none
  | .ok k => some k

/-- The per-path part of `normalizeAndCheckPaths` (an empty path is an error). -/
def P.strict : P → Option Key
  | .ok k => some k
  | _ => none

def protoSuffix : Str := ['.', 'p', 'r', 'o', 't', 'o']

/-- `normalpath.Ext(p) == ".proto"`. -/
def protoExt (k : Key) : Bool :=
  match k.getLast? with
  | some c => protoSuffix.isSuffixOf c
  | none => false

def unrelated (a b : Key) : Bool := !(a.isPrefixOf b) && !(b.isPrefixOf a)

/-- No two paths of the list are equal or contain one another (all pairs; the relation is
    symmetric, so the order of the list does not matter). -/
def antichain : List Key → Bool
  | [] => true
  | a :: rest => rest.all (unrelated a) && antichain rest

/-- `normalizeAndCheckPaths` on already normalised paths: pairwise check, sorted result. -/
def normCheckKeys (ks : List Key) : Option (List Key) :=
  if antichain ks then some (sortU keyLt ks) else none

/-- `normalizeAndCheckPaths`. -/
def normCheckPaths (ps : List P) : Option (List Key) :=
  match ps.mapM P.strict with
  | some ks => normCheckKeys ks
  | none => none

/-! ### check configurations -/

structure ExtCheck where
  use : List Str
  except : List Str
  ignore : List P
  /-- a Go map: keys unique, presented sorted by key -/
  ignoreOnly : List (Str × List P)
  disableBuiltin : Bool
  deriving DecidableEq, Repr

structure ExtLint where
  chk : ExtCheck
  enumZeroValueSuffix : Str
  rpcAllowSameRequestResponse : Bool
  rpcAllowGoogleProtobufEmptyRequests : Bool
  rpcAllowGoogleProtobufEmptyResponses : Bool
  serviceSuffix : Str
  /-- v1beta1/v1: `allow_comment_ignores`; v2: `disallow_comment_ignores` -/
  commentFlag : Bool
  deriving DecidableEq, Repr

structure ExtBreaking where
  chk : ExtCheck
  ignoreUnstablePackages : Bool
  deriving DecidableEq, Repr

def ExtCheck.zero : ExtCheck := ⟨[], [], [], [], false⟩
def ExtLint.zero : ExtLint := ⟨ExtCheck.zero, [], false, false, false, [], false⟩
def ExtBreaking.zero : ExtBreaking := ⟨ExtCheck.zero, false⟩

/-- `isEmpty` of the external structs: all slices/maps have length 0, strings empty, flags off —
    which on this representation is equality with the zero value. -/
def ExtLint.isEmpty (l : ExtLint) : Bool := l == ExtLint.zero
def ExtBreaking.isEmpty (b : ExtBreaking) : Bool := b == ExtBreaking.zero

structure Check where
  disabled : Bool
  use : List Str
  except : List Str
  ignore : List Key
  ignoreOnly : List (Str × List Key)
  disableBuiltin : Bool
  deriving DecidableEq, Repr

structure Lint where
  chk : Check
  enumZeroValueSuffix : Str
  rpcAllowSameRequestResponse : Bool
  rpcAllowGoogleProtobufEmptyRequests : Bool
  rpcAllowGoogleProtobufEmptyResponses : Bool
  serviceSuffix : Str
  allowCommentIgnores : Bool
  deriving DecidableEq, Repr

structure Breaking where
  chk : Check
  ignoreUnstablePackages : Bool
  deriving DecidableEq, Repr

def Check.disabledCfg : Check := ⟨true, [], [], [], [], false⟩

/-- `isLintOrBreakingDisabledBasedOnIgnores`: walks the ignore list, validating each path until
    one equals the module directory (later paths are then never validated). -/
def isDisabled (dir : Key) : List P → Option Bool
  | [] => some false
  | p :: rest =>
    match p.nv with
    | none => none
    | some k => if k = dir then some true else isDisabled dir rest

/-- `getRelPathsForLintOrBreakingExternalPaths`. -/
def relPaths (dir : Key) (require : Bool) : List P → Option (List Key)
  | [] => some []
  | p :: rest =>
    match p.nv with
    | none => none
    | some k =>
      if dir.isPrefixOf k then
        match relPaths dir require rest with
        | some ks => some (k.drop dir.length :: ks)
        | none => none
      else if require then none
      else relPaths dir require rest

/-- The `ignore_only` loop of the readers: re-base every entry, keep the non-empty ones. -/
def relIgnoreOnly (dir : Key) (require : Bool) : List (Str × List P) → Option (List (Str × List Key))
  | [] => some []
  | (id, ps) :: rest =>
    match relPaths dir require ps, relIgnoreOnly dir require rest with
    | some ks, some out => some (if ks = [] then out else (id, ks) :: out)
    | _, _ => none

/-- The `ignore_only` loop of `newEnabledCheckConfig`. -/
def checkIgnoreOnly : List (Str × List Key) → Option (List (Str × List Key))
  | [] => some []
  | (id, ks) :: rest =>
    match normCheckKeys (sortU keyLt ks), checkIgnoreOnly rest with
    | some ks', some out => some ((id, ks') :: out)
    | _, _ => none

/-- `newEnabledCheckConfig`. -/
def newEnabledCheck (use except : List Str) (ignore : List Key) (ignoreOnly : List (Str × List Key))
    (disableBuiltin : Bool) : Option Check :=
  match normCheckKeys (sortU keyLt ignore), checkIgnoreOnly ignoreOnly with
  | some ig, some io => some ⟨false, sortU strLt use, sortU strLt except, ig, io, disableBuiltin⟩
  | _, _ => none

/-- The common part of getLintConfigForExternalLint* / getBreakingConfigForExternalBreaking. -/
def readCheck (e : ExtCheck) (dir : Key) (require : Bool) : Option Check :=
  match isDisabled dir e.ignore with
  | none => none
  | some true => some Check.disabledCfg
  | some false =>
    match relPaths dir require e.ignore, relIgnoreOnly dir require e.ignoreOnly with
    | some ig, some io => newEnabledCheck e.use e.except ig io e.disableBuiltin
    | _, _ => none

/-- `v2 = true`: the external flag is `disallow_comment_ignores`. -/
def readLint (v2 : Bool) (e : ExtLint) (dir : Key) (require : Bool) : Option Lint :=
  match readCheck e.chk dir require with
  | some c => some ⟨c, e.enumZeroValueSuffix, e.rpcAllowSameRequestResponse,
      e.rpcAllowGoogleProtobufEmptyRequests, e.rpcAllowGoogleProtobufEmptyResponses,
      e.serviceSuffix, if v2 then !e.commentFlag else e.commentFlag⟩
  | none => none

def readBreaking (e : ExtBreaking) (dir : Key) (require : Bool) : Option Breaking :=
  match readCheck e.chk dir require with
  | some c => some ⟨c, e.ignoreUnstablePackages⟩
  | none => none

/-- `getExternal…ForLintConfig/BreakingConfig`, common part, AFTER the fix: a disabled config is
    written as `ignore: [<module dir>]`. -/
def extCheckOf (c : Check) (dir : Key) : ExtCheck :=
  { use := c.use, except := c.except,
    ignore := if c.disabled then [P.ok dir] else c.ignore.map fun k => P.ok (dir ++ k),
    ignoreOnly := c.ignoreOnly.map fun (id, ks) => (id, ks.map fun k => P.ok (dir ++ k)),
    disableBuiltin := c.disableBuiltin }

/-- The pre-fix behaviour: a disabled config has no ignore paths, so nothing is written. -/
def extCheckOfOld (c : Check) (dir : Key) : ExtCheck :=
  { use := c.use, except := c.except,
    ignore := c.ignore.map fun k => P.ok (dir ++ k),
    ignoreOnly := c.ignoreOnly.map fun (id, ks) => (id, ks.map fun k => P.ok (dir ++ k)),
    disableBuiltin := c.disableBuiltin }

def extLintOfWith (f : Check → Key → ExtCheck) (v2 : Bool) (l : Lint) (dir : Key) : ExtLint :=
  ⟨f l.chk dir, l.enumZeroValueSuffix, l.rpcAllowSameRequestResponse,
    l.rpcAllowGoogleProtobufEmptyRequests, l.rpcAllowGoogleProtobufEmptyResponses,
    l.serviceSuffix, if v2 then !l.allowCommentIgnores else l.allowCommentIgnores⟩

def extBreakingOfWith (f : Check → Key → ExtCheck) (b : Breaking) (dir : Key) : ExtBreaking :=
  ⟨f b.chk dir, b.ignoreUnstablePackages⟩

abbrev extLintOf := extLintOfWith extCheckOf
abbrev extBreakingOf := extBreakingOfWith extCheckOf

/-! ### modules, files -/

inductive Ver where
  | v1beta1 | v1 | v2
  deriving DecidableEq, Repr

/-- A module name / dependency reference as parsed by bufparse: `full` = registry/owner/name,
    `ref` = the part after ':' ("" = none), `valid` = bufparse accepted the string. -/
structure ExtRef where
  full : Str
  ref : Str
  valid : Bool
  deriving DecidableEq, Repr

/-- A module name ("" = absent). -/
structure ExtName where
  name : Str
  valid : Bool
  deriving DecidableEq, Repr

structure Root where
  root : Key
  includes : List Key
  excludes : List Key
  deriving DecidableEq, Repr

structure Module where
  dirPath : Key
  name : Str
  /-- RootToIncludes / RootToExcludes (same key set), sorted by root -/
  roots : List Root
  lint : Lint
  breaking : Breaking
  deriving DecidableEq, Repr

inductive PluginKind where
  | local | localWasm | remoteWasm
  deriving DecidableEq, Repr

/-- buf.yaml `plugins:` entry.  `path` is the string-or-list `plugin` key, `isRef` says that
    bufparse.ParseRef accepts path[0] and no such file exists on disk, `options` is the Go map
    (key-sorted, values rendered with their type). -/
structure ExtPlugin where
  path : List Str
  isRef : Bool
  options : List (Str × Str)
  /-- some option value is null -/
  nullOption : Bool
  deriving DecidableEq, Repr

structure Plugin where
  kind : PluginKind
  name : Str
  args : List Str
  options : List (Str × Str)
  deriving DecidableEq, Repr

structure Dep where
  full : Str
  ref : Str
  deriving DecidableEq, Repr

structure BufYAML where
  version : Ver
  modules : List Module
  deps : List Dep
  plugins : List Plugin
  deriving DecidableEq, Repr

structure ExtV1 where
  name : ExtName
  deps : List ExtRef
  roots : List P
  excludes : List P
  lint : ExtLint
  breaking : ExtBreaking
  deriving DecidableEq, Repr

structure ExtModule where
  path : P
  name : ExtName
  includes : List P
  excludes : List P
  lint : ExtLint
  breaking : ExtBreaking
  deriving DecidableEq, Repr

structure ExtV2 where
  name : ExtName
  modules : List ExtModule
  deps : List ExtRef
  lint : ExtLint
  breaking : ExtBreaking
  plugins : List ExtPlugin
  deriving DecidableEq, Repr

/-- The roots that equal or contain `e` (`MapAllEqualOrContainingPaths`). -/
def matchingRoots (rs : List Key) (e : Key) : List Key := rs.filter fun r => r.isPrefixOf e

def assignExcludes (rs : List Key) : List Key → Option (List (Key × Key))
  | [] => some []
  | e :: rest =>
    match matchingRoots rs e, assignExcludes rs rest with
    | [r], some out => some ((r, e.drop r.length) :: out)
    | _, _ => none

/-- `getRootToExcludes`.  (The final uniqueness re-check of the Go code cannot fail: the full
    excludes are unique and each lies in exactly one root.) -/
def getRootToExcludes (roots excludes : List P) : Option (List (Key × List Key)) :=
  match normCheckPaths (if roots = [] then [P.ok []] else roots) with
  | none => none
  | some rs =>
    if excludes = [] then some (rs.map fun r => (r, []))
    else
      match normCheckPaths excludes with
      | none => none
      | some es =>
        if es.any protoExt then none
        else if es.any (fun e => rs.contains e) then none
        else
          match assignExcludes rs es with
          | none => none
          | some as => some (rs.map fun r => (r, sortU keyLt ((as.filter fun a => a.1 = r).map (·.2))))

def readName (n : ExtName) : Option Str :=
  if n.name = [] then some [] else if n.valid then some n.name else none

def readDeps : List ExtRef → Option (List Dep)
  | [] => some []
  | d :: rest =>
    if d.valid then
      match readDeps rest with
      | some out => some (⟨d.full, d.ref⟩ :: out)
      | none => none
    else none

/-- no two equal non-empty strings -/
def uniqueNonEmpty : List Str → Bool
  | [] => true
  | x :: rest => (x = [] || !rest.contains x) && uniqueNonEmpty rest

def moduleLt (a b : Module) : Bool := keyLt a.dirPath b.dirPath
def depLt (a b : Dep) : Bool := strLt a.full b.full

/-- `newBufYAMLFile` (the validations that depend on values; version/shape checks are done by
    the callers). -/
def newBufYAML (ver : Ver) (mods : List Module) (plugins : List Plugin) (deps : List Dep) : Option BufYAML :=
  if mods = [] then none
  else if !uniqueNonEmpty (mods.map (·.name)) then none
  else if !uniqueNonEmpty (deps.map (·.full)) then none
  else some ⟨ver, sortStable moduleLt mods, sortU depLt deps, plugins⟩

def readV1 (ver : Ver) (e : ExtV1) : Option BufYAML :=
  if ver = .v1 && e.roots ≠ [] then none
  else
    match readName e.name, getRootToExcludes e.roots e.excludes, readDeps e.deps,
          readLint false e.lint [] true, readBreaking e.breaking [] true with
    | some name, some rte, some deps, some lint, some brk =>
      newBufYAML ver [⟨[], name, rte.map fun (r, ex) => ⟨r, [], sortU keyLt ex⟩, lint, brk⟩] [] deps
    | _, _, _, _, _ => none

def relInclude (dir : Key) (i : Key) : Option Key :=
  if i = dir then none
  else if !dir.isPrefixOf i then none
  else if protoExt i then none
  else some (i.drop dir.length)

/-- strict containment (`normalpath.ContainsPath`) -/
def containsStrict (a b : Key) : Bool := a.isPrefixOf b && a != b

def relExclude (dir : Key) (incs : List Key) (p : P) : Option Key :=
  match p.nv with
  | none => none
  | some e =>
    if e = dir then none
    else if !dir.isPrefixOf e then none
    else if incs ≠ [] &&
        (incs.any (fun i => i == e || containsStrict e i) || !incs.any (fun i => containsStrict i e)) then none
    else some (e.drop dir.length)

def readModuleV2 (defLint : ExtLint) (defBrk : ExtBreaking) (m : ExtModule) : Option Module :=
  match m.path.nv, readName m.name, normCheckPaths m.includes with
  | some dir, some name, some incs =>
    match incs.mapM (relInclude dir), m.excludes.mapM (relExclude dir incs) with
    | some relIncs, some relExcl =>
      match getRootToExcludes [P.ok []] (relExcl.map P.ok) with
      | some [(_, ex)] =>
        let useModLint := !m.lint.isEmpty
        let useModBrk := !m.breaking.isEmpty
        match readLint true (if useModLint then m.lint else defLint) dir useModLint,
              readBreaking (if useModBrk then m.breaking else defBrk) dir useModBrk with
        | some lint, some brk =>
          some ⟨dir, name, [⟨[], sortU keyLt relIncs, sortU keyLt ex⟩], lint, brk⟩
        | _, _ => none
      | _ => none
    | _, _ => none
  | _, _, _ => none

def wasmSuffix : Str := ['.', 'w', 'a', 's', 'm']

/-- `filepath.Ext(name) == ".wasm"` -/
def wasmExt (name : Str) : Bool :=
  wasmSuffix.isSuffixOf ((splitSlash name).getLast?.getD [])

/-- `newPluginConfigForExternalV2`. -/
def readPlugin (e : ExtPlugin) : Option Plugin :=
  if e.nullOption || e.options.any (fun kv => kv.1 = []) then none
  else
    match e.path with
    | [] => none
    | name :: args =>
      if e.isRef then some ⟨.remoteWasm, name, args, e.options⟩
      else if wasmExt name then (if name = [] then none else some ⟨.localWasm, name, args, e.options⟩)
      else if name = [] then none
      else some ⟨.local, name, args, e.options⟩

def readV2 (e : ExtV2) : Option BufYAML :=
  let mods : Option (List ExtModule) :=
    if e.modules = [] then some [⟨P.ok [], e.name, [], [], ExtLint.zero, ExtBreaking.zero⟩]
    else if e.name.name ≠ [] then none
    else some e.modules
  match mods with
  | none => none
  | some ms =>
    match ms.mapM (readModuleV2 e.lint e.breaking) with
    | none => none
    | some modules =>
      -- the top-level configs are built as well (with module directory "."); only failure matters
      if !e.lint.isEmpty && (readLint true e.lint [] false).isNone then none
      else if !e.breaking.isEmpty && (readBreaking e.breaking [] false).isNone then none
      else
        match e.plugins.mapM readPlugin, readDeps e.deps with
        | some plugins, some deps => newBufYAML .v2 modules plugins deps
        | _, _ => none

/-! ### writers -/

def extPluginOf (p : Plugin) : ExtPlugin :=
  ⟨p.name :: p.args, p.kind == .remoteWasm, p.options, false⟩

def extDepOf (d : Dep) : ExtRef := ⟨d.full, d.ref, true⟩

def extNameOf (n : Str) : ExtName := ⟨n, true⟩

def allEq {α : Type} [DecidableEq α] : List α → Bool
  | [] => true
  | x :: rest => rest.all (· = x)

def extModuleOfWith (f : Check → Key → ExtCheck) (m : Module) : ExtModule :=
  let r : Root := m.roots.headD ⟨[], [], []⟩
  ⟨P.ok m.dirPath, extNameOf m.name,
    r.includes.map (fun k => P.ok (m.dirPath ++ k)),
    r.excludes.map (fun k => P.ok (m.dirPath ++ k)),
    extLintOfWith f true m.lint m.dirPath, extBreakingOfWith f m.breaking m.dirPath⟩

def ExtModule.clearChecks (m : ExtModule) : ExtModule := { m with lint := ExtLint.zero, breaking := ExtBreaking.zero }

/-- `writeBufYAMLFile`, v2 case, parameterised by the check-config writer and by whether a
    single "." module with includes may be collapsed (`collapseIncludes = true` is the pre-fix
    behaviour). -/
def writeV2With (f : Check → Key → ExtCheck) (collapseIncludes : Bool) (c : BufYAML) : ExtV2 :=
  let ms := c.modules.map (extModuleOfWith f)
  let hoist := allEq (ms.map (·.lint)) && allEq (ms.map (·.breaking))
  let topLint := if hoist then (ms.map (·.lint)).headD ExtLint.zero else ExtLint.zero
  let topBrk := if hoist then (ms.map (·.breaking)).headD ExtBreaking.zero else ExtBreaking.zero
  let ms' := if hoist then ms.map ExtModule.clearChecks else ms
  let deps := c.deps.map extDepOf
  let plugins := c.plugins.map extPluginOf
  match ms' with
  | [m] =>
    if m.path = P.ok [] && m.excludes = [] && (collapseIncludes || m.includes = []) then
      ⟨m.name, [], deps, topLint, topBrk, plugins⟩
    else ⟨extNameOf [], ms', deps, topLint, topBrk, plugins⟩
  | _ => ⟨extNameOf [], ms', deps, topLint, topBrk, plugins⟩

/-- As coded after the two fixes. -/
def writeV2 : BufYAML → ExtV2 := writeV2With extCheckOf false
/-- As coded before the fixes. -/
def writeV2Old : BufYAML → ExtV2 := writeV2With extCheckOfOld true

/-- `writeBufYAMLFile`, v1beta1 / v1 case. -/
def writeV1With (f : Check → Key → ExtCheck) (c : BufYAML) : ExtV1 :=
  match c.modules with
  | m :: _ =>
    let trivial : Bool := match m.roots with
      | [r] => r.root = [] && r.excludes = []
      | _ => false
    let roots : List P :=
      if c.version = .v1 || trivial then [] else m.roots.map fun r => P.ok r.root
    let excludes : List P :=
      if c.version = .v1 then (m.roots.headD ⟨[], [], []⟩).excludes.map P.ok
      else if trivial then []
      else m.roots.flatMap fun r => r.excludes.map fun x => P.ok (r.root ++ x)
    ⟨extNameOf m.name, c.deps.map extDepOf, roots, excludes,
      extLintOfWith f false m.lint [], extBreakingOfWith f m.breaking []⟩
  | [] => ⟨extNameOf [], [], [], [], ExtLint.zero, ExtBreaking.zero⟩

def writeV1 : BufYAML → ExtV1 := writeV1With extCheckOf
def writeV1Old : BufYAML → ExtV1 := writeV1With extCheckOfOld

/-! ### buf.work.yaml -/

/-- `validateBufWorkYAMLDirPaths`: non-empty, each valid, no duplicates, none ".", no
    containment; sorted. -/
def readWork (dirs : List P) : Option (List Key) :=
  if dirs = [] then none
  else
    match dirs.mapM P.nv with
    | none => none
    | some ks =>
      if ks.contains [] then none
      else if antichain ks then some (sortU keyLt ks) else none

def writeWork (dirs : List Key) : List P := dirs.map P.ok

/-! ### buf.lock -/

inductive DigestType where
  | b4 | b5 | other
  deriving DecidableEq, Repr

/-- An external lock entry.  v1beta1/v1 files spell the name as remote/owner/repository, v2 as
    one string; bufparse + uuid + digest parsing are library parameters: `nameValid`,
    `commitValid` (32 hex digits, dashless) and `digestType` are their verdicts. -/
structure ExtLockDep where
  remote : Str
  owner : Str
  repository : Str
  nameValid : Bool
  commit : Str
  commitValid : Bool
  digest : Str
  digestType : DigestType
  deriving DecidableEq, Repr

structure LockDep where
  remote : Str
  owner : Str
  repository : Str
  commit : Str
  digest : Str
  deriving DecidableEq, Repr

def slash : Str := ['/']
def LockDep.full (d : LockDep) : Str := d.remote ++ slash ++ d.owner ++ slash ++ d.repository
def lockLt (a b : LockDep) : Bool := strLt a.full b.full

structure BufLock where
  version : Ver
  deps : List LockDep
  deriving DecidableEq, Repr

def readLockDep (ver : Ver) (d : ExtLockDep) : Option LockDep :=
  if d.remote = [] || d.owner = [] || d.repository = [] then none
  else if !d.nameValid then none
  else if d.commit = [] || !d.commitValid then none
  else if d.digest = [] then none            -- no digest resolver is configured
  else if d.digestType ≠ (if ver = .v2 then .b5 else .b4) then none
  else some ⟨d.remote, d.owner, d.repository, d.commit, d.digest⟩

def readLock (ver : Ver) (ds : List ExtLockDep) : Option BufLock :=
  match ds.mapM (readLockDep ver) with
  | none => none
  | some deps =>
    if !uniqueNonEmpty (deps.map (·.full)) then none
    else some ⟨ver, sortU lockLt deps⟩

def writeLock (l : BufLock) : List ExtLockDep :=
  l.deps.map fun d => ⟨d.remote, d.owner, d.repository, true, d.commit, true, d.digest,
    if l.version = .v2 then .b5 else .b4⟩

/-! ### buf.lock `plugins:` (v2 files only) -/

/-- An external `plugins:` entry of a v2 buf.lock (`externalBufLockFileDepV2`: name, commit,
    digest).  `nameValid` = bufparse.ParseFullName accepts, `commitValid` = uuidutil.FromDashless
    accepts, `digestValid` = bufplugin.ParseDigest accepts (there is one digest type, p1, so a
    parsed digest always has the expected type). -/
structure ExtLockPlugin where
  name : Str
  nameValid : Bool
  commit : Str
  commitValid : Bool
  digest : Str
  digestValid : Bool
  deriving DecidableEq, Repr

structure LockPlugin where
  name : Str
  commit : Str
  digest : Str
  deriving DecidableEq, Repr

def pluginLt (a b : LockPlugin) : Bool := strLt a.name b.name

def readLockPlugin (p : ExtLockPlugin) : Option LockPlugin :=
  if p.name = [] then none
  else if !p.nameValid then none
  else if p.commit = [] then none
  else if p.digest = [] then none
  else if !p.commitValid then none
  else if !p.digestValid then none       -- validatePluginExpectedDigestType forces the lazy digest
  else some ⟨p.name, p.commit, p.digest⟩

/-- The plugin half of `newBufLockFile`: unique by full name, sorted by full name. -/
def readLockPlugins (ps : List ExtLockPlugin) : Option (List LockPlugin) :=
  match ps.mapM readLockPlugin with
  | none => none
  | some pl => if !uniqueNonEmpty (pl.map (·.name)) then none else some (sortU pluginLt pl)

def writeLockPlugins (pl : List LockPlugin) : List ExtLockPlugin :=
  pl.map fun p => ⟨p.name, true, p.commit, true, p.digest, true⟩

/-- A whole buf.lock: dependencies (`BufLock`, above) and remote plugin keys. -/
structure BufLockFile where
  lock : BufLock
  plugins : List LockPlugin
  deriving DecidableEq, Repr

/-- `readBufLockFile` after unmarshalling.  The v1beta1/v1 external struct has no `plugins` key
    (strict unmarshalling rejects the document), so a non-empty plugin list is an error there. -/
def readLockFile (ver : Ver) (ds : List ExtLockDep) (ps : List ExtLockPlugin) : Option BufLockFile :=
  if ver ≠ .v2 ∧ ps ≠ [] then none
  else
    match readLock ver ds, readLockPlugins ps with
    | some l, some pl => some ⟨l, pl⟩
    | _, _ => none

/-- `writeBufLockFile` before marshalling: (deps, plugins); v1beta1/v1 files have no plugins key. -/
def writeLockFile (f : BufLockFile) : List ExtLockDep × List ExtLockPlugin :=
  (writeLock f.lock, if f.lock.version = .v2 then writeLockPlugins f.plugins else [])

/-! ### workspace targeting and migration (path level)

  `bufworkspace.getMappedModuleBucketAndModuleTargeting` is ONE function for v1beta1/v1 and v2
  workspaces: the workspace bucket is mapped on the module directory (`storage.MapOnPrefix`), and
  for every root of the module config the result is mapped on the root and filtered
  (`.proto` extension; not contained in an exclude of that root; contained in an include of that
  root if there are any — includes and excludes are relative to the root).  A file is then known
  to the module by its root-relative path.  `owners` is that computation for a list of module
  configs (v1 workspace: one config per buf.work.yaml directory, `dirPath` = the directory;
  v2 workspace: the modules of the buf.yaml). -/

/-- `storage.MapOnPrefix(d)`: the path below directory `d`, if the path is below it. -/
def stripPrefix (d f : Key) : Option Key :=
  if d.isPrefixOf f then some (f.drop d.length) else none

/-- The matchers put on one root bucket (paths relative to the root). -/
def rootAccepts (includes excludes : List Key) (p : Key) : Bool :=
  protoExt p && !(excludes.any fun x => x.isPrefixOf p) &&
    (includes.isEmpty || includes.any fun i => i.isPrefixOf p)

/-- The (module directory, root, root-relative path) triples under which module config `m`
    knows workspace file `f`. -/
def ownersOf (m : Module) (f : Key) : List (Key × Key × Key) :=
  match stripPrefix m.dirPath f with
  | none => []
  | some g =>
    m.roots.filterMap fun r =>
      match stripPrefix r.root g with
      | none => none
      | some p => if rootAccepts r.includes r.excludes p then some (m.dirPath, r.root, p) else none

def owners (ms : List Module) (f : Key) : List (Key × Key × Key) := ms.flatMap (ownersOf · f)

/-- `migrateBuilder.addModule` (path part): every root of a v1beta1/v1 module found at `dirPath`
    (relative to the destination directory) becomes a v2 module at `dirPath/root` whose only root
    is "." with the root's includes and excludes unchanged (they are root-relative in both
    worlds).  A v1beta1 module with several roots loses its name.  `trL` / `trB` stand for
    `equivalentLintConfigInV2` / `equivalentBreakingConfigInV2` (rule-id translation, not
    modelled; `equivLint` / `equivBreaking` below are their shape as far as the "switched off"
    flag goes). -/
def migrateModule (trL : Lint → Lint) (trB : Breaking → Breaking) (m : Module) : List Module :=
  m.roots.map fun r =>
    ⟨m.dirPath ++ r.root, if m.roots.length > 1 then [] else m.name,
      [⟨[], r.includes, r.excludes⟩], trL m.lint, trB m.breaking⟩

def migrateWorkspace (trL : Lint → Lint) (trB : Breaking → Breaking) (ws : List Module) : List Module :=
  ws.flatMap (migrateModule trL trB)

/-- The buf.yaml v2 the migrator builds (`NewBufYAMLFile(FileVersionV2, moduleConfigs, nil, deps)`). -/
def migrateFile (trL : Lint → Lint) (trB : Breaking → Breaking) (ws : List Module) (deps : List Dep) :
    Option BufYAML :=
  newBufYAML .v2 (migrateWorkspace trL trB ws) [] deps

/-- How a v1 owner triple is named after migration: module `dir/root`, root ".", same path. -/
def migratedOwner (o : Key × Key × Key) : Key × Key × Key := (o.1 ++ o.2.1, [], o.2.2)

/-! ### migration of a check config: the "switched off" flag

  `equivalentCheckConfigInV2` (bufmigrate/migrator.go) AFTER the fix
  handoff/C16-fix-migrate-disabled-module.diff: a check config that is disabled (an ignore path
  named the module directory itself) stays disabled — `NewDisabledCheckConfig(FileVersionV2)` —
  and only an enabled config goes through the rule-id translation.  `tr` stands for that
  translation (`NewEnabledCheckConfig(FileVersionV2, …)`, rule tables not modelled); what matters
  here is that it builds an ENABLED config (`enabledOf` is the simplest such function).
  Before the fix every config went through the translation (`equivCheckOld`), so a module whose
  checks were switched off had them switched on by `buf config migrate`. -/

def equivCheck (tr : Check → Check) (c : Check) : Check :=
  if c.disabled then Check.disabledCfg else tr c

/-- pre-fix behaviour -/
def equivCheckOld (tr : Check → Check) (c : Check) : Check := tr c

/-- `equivalentLintConfigInV2`: the other lint settings are copied. -/
def equivLint (tr : Check → Check) (l : Lint) : Lint := { l with chk := equivCheck tr l.chk }
/-- `equivalentBreakingConfigInV2` -/
def equivBreaking (tr : Check → Check) (b : Breaking) : Breaking := { b with chk := equivCheck tr b.chk }

def equivLintOld (tr : Check → Check) (l : Lint) : Lint := { l with chk := equivCheckOld tr l.chk }
def equivBreakingOld (tr : Check → Check) (b : Breaking) : Breaking := { b with chk := equivCheckOld tr b.chk }

/-- `NewEnabledCheckConfig` as far as the flag goes. -/
def enabledOf (c : Check) : Check := { c with disabled := false }

/-! ### strings -> model values -/

def normP (s : Str) : P :=
  if s = [] then .empty
  else match normalizeAndValidate s with
    | .ok p => .ok (cleanComps p)
    | .error _ => .bad

def P.render : P → Str
  | .empty => []
  | .bad => ['?']
  | .ok k => renderKey k

/-! ### the written document as the reader meets it again: through strings

  The writers put `normalpath.Join(moduleDirPath, relPath)` — a string — into the external
  document and the readers call `NormalizeAndValidate` on that string.  On the model's values:
  a written path `p` becomes the string `p.render` and is read as `normP p.render`.  `mapP`
  applies a function to every path of an external document. -/

def reparse (p : P) : P := normP p.render

def ExtCheck.mapP (f : P → P) (c : ExtCheck) : ExtCheck :=
  { c with ignore := c.ignore.map f, ignoreOnly := c.ignoreOnly.map fun e => (e.1, e.2.map f) }

def ExtLint.mapP (f : P → P) (l : ExtLint) : ExtLint := { l with chk := l.chk.mapP f }

def ExtBreaking.mapP (f : P → P) (b : ExtBreaking) : ExtBreaking := { b with chk := b.chk.mapP f }

def ExtModule.mapP (f : P → P) (m : ExtModule) : ExtModule :=
  { m with path := f m.path, includes := m.includes.map f, excludes := m.excludes.map f,
           lint := m.lint.mapP f, breaking := m.breaking.mapP f }

def ExtV2.mapP (f : P → P) (e : ExtV2) : ExtV2 :=
  { e with modules := e.modules.map (·.mapP f), lint := e.lint.mapP f, breaking := e.breaking.mapP f }

end BufModel.Config
