import BufModel.Path
import BufModel.Bucket
/-
  BufModel.Cache — the module-data cache entry of one module key
  (bufmodulestore.moduleDataStore, directory layout and tar layout; bufmodule.moduleData's
  lazy digest check; bufmodulecache.baseProvider).

  An entry is a bucket of entry-relative paths: `module.yaml` (the commit marker),
  `files/<module file>`, `v1_buf_yaml/<name>`, `v1_buf_lock/<name>`.  Marker bytes are
  abstracted to a token: "M:canonical" (valid, the deps the key's honest content has),
  "M:otherdeps" (valid YAML, valid marker, different deps), anything else = invalid.
  The digest is modelled as a collision-free function of (module-file set, deps): two digests
  are equal iff the module-file sets and the dep lists are equal — collision resistance of
  SHAKE256 is the stated assumption (DESIGN.md §3); only b5 keys are modelled.
-/
namespace BufModel.Cache
open BufModel.Path BufModel.Bucket

def markerPath : Str := "module.yaml".toList
def filesPrefix : Str := "files/".toList
def markerCanonical : Content := "M:canonical"
def markerOtherDeps : Content := "M:otherdeps"

/-- What the requesting key pins: the honest content of the module. -/
structure Expected where
  files : List (Str × Content)   -- path relative to files/ ↦ content; distinct paths
  sides : List (Str × Content)   -- entry-relative path of v1 buf.yaml / buf.lock ↦ content

/-- Module files as the digest sees them: `.proto`, `LICENSE`, and the documentation file.
    (The generator only ever uses `buf.md` as documentation file; the full precedence list is
    property C08's business.) -/
def isModuleFile (p : Str) : Bool :=
  extOf p = ".proto".toList || p = "LICENSE".toList || p = "buf.md".toList

def stripFiles (p : Str) : Option Str :=
  if filesPrefix.isPrefixOf p then some (p.drop filesPrefix.length) else none

/-- The module files found under files/ in an entry. -/
def moduleFilesOf (entry : Mem) : List (Str × Content) :=
  entry.filterMap fun kv =>
    match stripFiles kv.1 with
    | some rel => if isModuleFile rel then some (rel, kv.2) else none
    | none => none

def subsetOf (a b : List (Str × Content)) : Bool := a.all fun x => b.contains x

def sameSet (a b : List (Str × Content)) : Bool := subsetOf a b && subsetOf b a

inductive LoadResult where
  | miss                                   -- "not cached"
  | hit (files : List (Str × Content))     -- ModuleData whose accessors succeed
  | mismatch                               -- DigestMismatchError from every accessor
  deriving Repr

def markerValid (tok : Content) : Bool := tok = markerCanonical || tok = markerOtherDeps

/-- getModuleDataForModuleKey followed by ModuleData.Bucket() (directory layout). -/
def load (exp : Expected) (entry : Mem) : LoadResult :=
  match entry.find markerPath with
  | none => .miss
  | some tok =>
    if !markerValid tok then .miss
    else if !(exp.sides.all fun s => (entry.find s.1).isSome) then .miss
    else
      let got := moduleFilesOf entry
      -- b5 digest = H(files digest, dep digests): equal iff same module files and same deps
      if sameSet got (exp.files.filter fun f => isModuleFile f.1) && tok = markerCanonical
      then .hit got else .mismatch

/-- Tar layout: the whole entry is one object; `none` = absent, `some none` = not a valid tar
    (the reader deletes it and reports a miss), `some (some e)` = a tar holding entry `e`. -/
def loadTar (exp : Expected) (tarObj : Option (Option Mem)) : LoadResult × Option (Option Mem) :=
  match tarObj with
  | none => (.miss, none)
  | some none => (.miss, none)
  | some (some e) => (load exp e, some (some e))

/-! ### The writer as a step machine (directory layout), for all interleavings -/

/-- Everything a store writes before the marker, in order: files then side files. -/
def Expected.payload (exp : Expected) : List (Str × Content) :=
  exp.files.map (fun f => (filesPrefix ++ f.1, f.2)) ++ exp.sides

inductive WPc where
  | start                    -- not holding the lock
  | writing (i : Nat) (torn : Bool)   -- holds the exclusive lock; payload[0..i) written; torn: payload[i] truncated
  | finished (ok : Bool)     -- returned (nil / error); lock released
  | crashed                  -- process died; lock released
  deriving DecidableEq, Repr

structure Sys where
  entry : Mem
  lock : Option Nat          -- index of the writer holding the exclusive lock
  writers : List WPc

inductive Act where
  | acquire (w : Nat)        -- Lock + re-read marker
  | truncate (w : Nat)       -- os.Create of payload[i]
  | fill (w : Nat)           -- writes + close of payload[i] succeed
  | fail (w : Nat)           -- any Put/Write/Close of payload[i] fails: the store returns an error
  | commit (w : Nat)         -- atomic put of the marker
  | commitFail (w : Nat)     -- the atomic marker put fails: nothing visible, error
  | crash (w : Nat)          -- SIGKILL / power cut of the process
  deriving Repr

def setPc (ws : List WPc) (w : Nat) (pc : WPc) : List WPc := ws.set w pc

def markerOK (entry : Mem) : Bool :=
  match entry.find markerPath with
  | some tok => markerValid tok
  | none => false

def putObj (m : Mem) (p : Str) (c : Content) : Mem := (p, c) :: m.erase p

/-- One step; actions that are not enabled leave the system unchanged. -/
def step (exp : Expected) (s : Sys) : Act → Sys
  | .acquire w =>
    match s.writers[w]?, s.lock with
    | some .start, none =>
      if markerOK s.entry then { s with writers := setPc s.writers w (.finished true) }
      else { s with lock := some w, writers := setPc s.writers w (.writing 0 false) }
    | _, _ => s
  | .truncate w =>
    match s.writers[w]? with
    | some (.writing i false) =>
      (match exp.payload[i]? with
        | some (p, _) => { s with entry := putObj s.entry p "", writers := setPc s.writers w (.writing i true) }
        | none => s)
    | _ => s
  | .fill w =>
    match s.writers[w]? with
    | some (.writing i true) =>
      (match exp.payload[i]? with
        | some (p, c) => { s with entry := putObj s.entry p c, writers := setPc s.writers w (.writing (i + 1) false) }
        | none => s)
    | _ => s
  | .fail w =>
    match s.writers[w]? with
    | some (.writing i _) =>
      if i < exp.payload.length then { s with lock := none, writers := setPc s.writers w (.finished false) } else s
    | _ => s
  | .commit w =>
    match s.writers[w]? with
    | some (.writing i false) =>
      if i = exp.payload.length then
        { entry := putObj s.entry markerPath markerCanonical, lock := none, writers := setPc s.writers w (.finished true) }
      else s
    | _ => s
  | .commitFail w =>
    match s.writers[w]? with
    | some (.writing i false) =>
      if i = exp.payload.length then { s with lock := none, writers := setPc s.writers w (.finished false) } else s
    | _ => s
  | .crash w =>
    match s.writers[w]? with
    | some (.writing _ _) => { s with lock := none, writers := setPc s.writers w .crashed }
    | some .start => { s with writers := setPc s.writers w .crashed }
    | _ => s

def runActs (exp : Expected) (s : Sys) (acts : List Act) : Sys := acts.foldl (step exp) s

/-- baseProvider.getValuesForKeys for one key: store miss → delegate → put → re-get; a key
    still missing after the put is an error, never a silent absence. -/
inductive ProviderResult where
  | value (r : LoadResult)
  | error
  deriving Repr

def provider (firstGet : LoadResult) (putOk : Bool) (secondGet : LoadResult) : ProviderResult :=
  match firstGet with
  | .miss =>
    if !putOk then .error
    else (match secondGet with
      | .miss => .error
      | r => .value r)
  | r => .value r

end BufModel.Cache
