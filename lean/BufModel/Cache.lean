import BufModel.Path
import BufModel.Bucket
import BufModel.Faults
/-
  BufModel.Cache — the module-data cache entry of one module key
  (bufmodulestore.moduleDataStore, directory layout and tar layout; bufmodule.moduleData's
  lazy digest check; bufmodulecache.baseProvider).

  An entry is a bucket of entry-relative paths: `module.yaml` (the commit marker),
  `files/<module file>`, `v1_buf_yaml/<name>`, `v1_buf_lock/<name>`.  Marker bytes are
  abstracted to a token: "M:canonical" (valid, the deps the key's honest content has),
  "M:otherdeps" (valid YAML, valid marker, different deps), "M:unparsable" (not YAML at all: the
  writer returns the YAML error), anything else = parses but `isValid()` rejects it.
  The digest is modelled as a collision-free function of (module-file set, deps): two digests
  are equal iff the module-file sets and the dep lists are equal — collision resistance of
  SHAKE256 is the stated assumption (DESIGN.md §3); only b5 keys are modelled.
-/
namespace BufModel.Cache
open BufModel.Path BufModel.Bucket

def markerPath : Str := "module.yaml".toList
def filesPrefix : Str := "files/".toList
def markerCanonical : Content := "M:canonical"
def markerOtherDeps : Content := "M:otherdeps"

/-- What the requesting key pins: the honest content of the module. -/
structure Expected where
  files : List (Str × Content)   -- path relative to files/ ↦ content; distinct paths
  sides : List (Str × Content)   -- entry-relative path of v1 buf.yaml / buf.lock ↦ content

/-- Module files as the digest sees them: `.proto`, `LICENSE`, and the documentation file.
    (The generator only ever uses `buf.md` as documentation file; the full precedence list is
    property C08's business.) -/
def isModuleFile (p : Str) : Bool :=
  extOf p = ".proto".toList || p = "LICENSE".toList || p = "buf.md".toList

def stripFiles (p : Str) : Option Str :=
  if filesPrefix.isPrefixOf p then some (p.drop filesPrefix.length) else none

/-- The module files found under files/ in an entry. -/
def moduleFilesOf (entry : Mem) : List (Str × Content) :=
  entry.filterMap fun kv =>
    match stripFiles kv.1 with
    | some rel => if isModuleFile rel then some (rel, kv.2) else none
    | none => none

def subsetOf (a b : List (Str × Content)) : Bool := a.all fun x => b.contains x

def sameSet (a b : List (Str × Content)) : Bool := subsetOf a b && subsetOf b a

inductive LoadResult where
  | miss                                   -- "not cached"
  | hit (files : List (Str × Content))     -- ModuleData whose accessors succeed
  | mismatch                               -- DigestMismatchError from every accessor
  deriving Repr

def markerValid (tok : Content) : Bool := tok = markerCanonical || tok = markerOtherDeps

/-- getModuleDataForModuleKey followed by ModuleData.Bucket() (directory layout). -/
def load (exp : Expected) (entry : Mem) : LoadResult :=
  match entry.find markerPath with
  | none => .miss
  | some tok =>
    if !markerValid tok then .miss
    else if !(exp.sides.all fun s => (entry.find s.1).isSome) then .miss
    else
      let got := moduleFilesOf entry
      -- b5 digest = H(files digest, dep digests): equal iff same module files and same deps
      if sameSet got (exp.files.filter fun f => isModuleFile f.1) && tok = markerCanonical
      then .hit got else .mismatch

/-- Tar layout: the whole entry is one object; `none` = absent, `some none` = not a valid tar
    (the reader deletes it and reports a miss), `some (some e)` = a tar holding entry `e`. -/
def loadTar (exp : Expected) (tarObj : Option (Option Mem)) : LoadResult × Option (Option Mem) :=
  match tarObj with
  | none => (.miss, none)
  | some none => (.miss, none)
  | some (some e) => (load exp e, some (some e))

/-! ### The writer as a step machine (directory layout), for all interleavings

  `putModuleData` (module_data_store.go): shared lock + read marker, exclusive lock + re-read
  marker, `storage.Copy` of the files (one job per file through `thread.Parallelize`: the
  files are written IN PARALLEL, in any order, several in flight at once, each one truncated by
  its Put and growing with every Write), the side files, then the ATOMIC put of `module.yaml`.
  The machine over-approximates the order: any not-yet-written payload object (file or side
  file) may be started at any time while the writer holds the lock. -/

/-- Everything a store writes before the marker: files then side files. -/
def Expected.payload (exp : Expected) : List (Str × Content) :=
  exp.files.map (fun f => (filesPrefix ++ f.1, f.2)) ++ exp.sides

/-- A `module.yaml` that is not even YAML (`encoding.UnmarshalYAMLNonStrict` fails).  Any other
    token that is not `markerValid` stands for a marker that parses but `isValid()` rejects. -/
def markerUnparsable : Content := "M:unparsable"

/-- The first `k` characters of a content: what a torn (half-written) file holds. -/
def takeStr (k : Nat) (c : Content) : Content := String.ofList (c.toList.take k)

inductive WPc where
  | start                    -- not holding the lock
  /-- holds the exclusive lock; `done`: indices into `exp.payload` written in full and closed;
      `inflight`: (index, number of characters written so far) of the objects being written -/
  | writing (done : List Nat) (inflight : List (Nat × Nat))
  | finished (ok : Bool)     -- returned (nil / error); lock released
  | crashed                  -- process died; lock released
  deriving DecidableEq, Repr

structure Sys where
  entry : Mem
  lock : Option Nat          -- index of the writer holding the exclusive lock
  writers : List WPc

inductive Act where
  | acquire (w : Nat)        -- Lock + re-read marker (valid → return nil; unparsable → return the YAML error)
  | truncate (w i : Nat)     -- Put (os.Create) of payload[i]: the object exists and is empty
  | grow (w i k : Nat)       -- a Write: payload[i] now holds the first k characters
  | fill (w i : Nat)         -- the remaining writes and the Close of payload[i] succeed
  | fail (w : Nat)           -- some Put/Write/Close failed: the store returns an error (any time while writing)
  | commit (w : Nat)         -- atomic put of the marker (only when everything is done, nothing in flight)
  | commitFail (w : Nat)     -- the atomic marker put fails: nothing visible, error
  | crash (w : Nat)          -- SIGKILL / power cut of the process
  deriving Repr

def setPc (ws : List WPc) (w : Nat) (pc : WPc) : List WPc := ws.set w pc

def markerOK (entry : Mem) : Bool :=
  match entry.find markerPath with
  | some tok => markerValid tok
  | none => false

/-- The entry carries a `module.yaml` that does not parse. -/
def markerGarbled (entry : Mem) : Bool :=
  match entry.find markerPath with
  | some tok => tok = markerUnparsable
  | none => false

def putObj (m : Mem) (p : Str) (c : Content) : Mem := (p, c) :: m.erase p

/-- How far the in-flight object `i` has been written. -/
def inflK : List (Nat × Nat) → Nat → Option Nat
  | [], _ => none
  | (j, k) :: rest, i => if j = i then some k else inflK rest i

def dropIdx (infl : List (Nat × Nat)) (i : Nat) : List (Nat × Nat) := infl.filter fun jk => jk.1 ≠ i

/-- Every payload index below `n` is done. -/
def allDone (n : Nat) (done : List Nat) : Bool := (List.range n).all fun i => done.contains i

/-- One step; actions that are not enabled leave the system unchanged. -/
def step (exp : Expected) (s : Sys) : Act → Sys
  | .acquire w =>
    match s.writers[w]?, s.lock with
    | some .start, none =>
      if markerOK s.entry then { s with writers := setPc s.writers w (.finished true) }
      else if markerGarbled s.entry then { s with writers := setPc s.writers w (.finished false) }
      else { s with lock := some w, writers := setPc s.writers w (.writing [] []) }
    | _, _ => s
  | .truncate w i =>
    match s.writers[w]? with
    | some (.writing done infl) =>
      (match exp.payload[i]? with
        | some (p, _) =>
          if done.contains i || (inflK infl i).isSome then s
          else { s with entry := putObj s.entry p "", writers := setPc s.writers w (.writing done ((i, 0) :: infl)) }
        | none => s)
    | _ => s
  | .grow w i k =>
    match s.writers[w]? with
    | some (.writing done infl) =>
      (match exp.payload[i]?, inflK infl i with
        | some (p, c), some k0 =>
          if k0 ≤ k ∧ k ≤ c.length then
            { s with entry := putObj s.entry p (takeStr k c),
                     writers := setPc s.writers w (.writing done ((i, k) :: dropIdx infl i)) }
          else s
        | _, _ => s)
    | _ => s
  | .fill w i =>
    match s.writers[w]? with
    | some (.writing done infl) =>
      (match exp.payload[i]?, inflK infl i with
        | some (p, c), some _ =>
          { s with entry := putObj s.entry p c, writers := setPc s.writers w (.writing (i :: done) (dropIdx infl i)) }
        | _, _ => s)
    | _ => s
  | .fail w =>
    match s.writers[w]? with
    | some (.writing _ _) => { s with lock := none, writers := setPc s.writers w (.finished false) }
    | _ => s
  | .commit w =>
    match s.writers[w]? with
    | some (.writing done infl) =>
      if infl.isEmpty && allDone exp.payload.length done then
        { entry := putObj s.entry markerPath markerCanonical, lock := none, writers := setPc s.writers w (.finished true) }
      else s
    | _ => s
  | .commitFail w =>
    match s.writers[w]? with
    | some (.writing done infl) =>
      if infl.isEmpty && allDone exp.payload.length done then
        { s with lock := none, writers := setPc s.writers w (.finished false) }
      else s
    | _ => s
  | .crash w =>
    match s.writers[w]? with
    | some (.writing _ _) => { s with lock := none, writers := setPc s.writers w .crashed }
    | some .start => { s with writers := setPc s.writers w .crashed }
    | _ => s

def runActs (exp : Expected) (s : Sys) (acts : List Act) : Sys := acts.foldl (step exp) s

/-! ### The write phase as a function of a fault schedule (on top of the C15 model)

  What `putModuleData` does once it holds the lock, with the error plumbing of the storage
  helpers (BufModel.Faults): `storage.Copy` of the files (`copyAll`: every job runs, the result
  is an error iff some job failed), `storage.PutPath` of each side file (the first failure
  returns), `storage.PutPath(…, PutWithAtomic())` of the marker (`atomicRun`).  The store
  returns at the first phase that reports an error — the marker is put only when every earlier
  phase reported success. -/
open BufModel.Faults in
/-- The side files, one `PutPath` after the other; the first error returns. -/
def putSides (fx : Facts) (s : Sched) (d : Dest) : List (Str × List Content) → Bool × Dest
  | [] => (false, d)
  | (p, cs) :: rest =>
    let r := putPath fx s d p cs
    if r.1 then (true, r.2) else putSides fx s r.2 rest

open BufModel.Faults in
/-- Returns (error?, destination).  `markerChunks`/`markerFailAt`: the atomic put of the marker
    and the index of its failing step (C15 `atomicRun`). -/
def storeRun (fx : Facts) (s : Sched) (markerChunks : List Content) (markerFailAt : Option Nat) (d : Dest)
    (files sides : List (Str × List Content)) : Bool × Dest :=
  let r := copyAll fx s d files
  if r.1 then (true, r.2.1)
  else
    let r2 := putSides fx s r.2.1 sides
    if r2.1 then (true, r2.2)
    else
      let m := atomicRun (r2.2.mem.find markerPath) markerChunks markerFailAt
      let mem' := match m.2.final with
        | some c => putObj r2.2.mem markerPath c
        | none => r2.2.mem.erase markerPath
      (m.1, { r2.2 with mem := mem' })

/-- The jobs of the file phase / the side-file phase for a chunking of the contents. -/
def fileJobs (exp : Expected) (chunk : Content → List Content) : List (Str × List Content) :=
  exp.files.map fun f => (filesPrefix ++ f.1, chunk f.2)

def sideJobs (exp : Expected) (chunk : Content → List Content) : List (Str × List Content) :=
  exp.sides.map fun f => (f.1, chunk f.2)

/-! ### Tar layout writer

  `putModuleData` with the tar option writes the very same objects into a private memory bucket
  (nobody can see it), and the callback serialises that bucket into ONE object put with
  `PutWithAtomic` (C15 `atomicRun` / `atomicPrefix`).  There is no lock and no marker re-check:
  the archive is simply replaced.  The tar codec is a library parameter (`decode`). -/

/-- The entry that is serialised. -/
def tarEntry (exp : Expected) : Mem := (markerPath, markerCanonical) :: exp.payload

/-- A tar store whose `failAt`-th step fails (none: fault-free): (error?, directory). -/
def tarStore (old : Option Content) (chunks : List Content) (failAt : Option Nat) : Bool × Faults.ADir :=
  Faults.atomicRun old chunks failAt

/-- The directory a reader or a crash survivor sees after `j` steps of a tar store. -/
def tarCrash (old : Option Content) (chunks : List Content) (j : Nat) : Faults.ADir :=
  Faults.atomicPrefix old chunks j

/-- What the reader decodes from the object at the tar path. -/
def tarView (decode : Content → Option Mem) (d : Faults.ADir) : Option (Option Mem) := d.final.map decode

/-- baseProvider.getValuesForKeys for one key: store miss → delegate → put → re-get; a key
    still missing after the put is an error, never a silent absence. -/
inductive ProviderResult where
  | value (r : LoadResult)
  | error
  deriving Repr

def provider (firstGet : LoadResult) (putOk : Bool) (secondGet : LoadResult) : ProviderResult :=
  match firstGet with
  | .miss =>
    if !putOk then .error
    else (match secondGet with
      | .miss => .error
      | r => .value r)
  | r => .value r

end BufModel.Cache
