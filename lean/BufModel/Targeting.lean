import BufModel.Graph
/-
  BufModel.Targeting — which files are targets, and how the image is assembled from what the
  compiler returned (C01; also used by C10's ls-files leg).

  * `isTargetFile`        moduleReadBucket.getIsTargetFileForPathUncached
  * `targetList`          GetTargetFileInfos over the multi-module bucket (sorted, duplicate check)
  * `openFile`            parserAccessorHandler.Open: workspace file (unique) | WKT | error
  * `checkAndSortFiles`   build_image.go
  * `getImageFiles`       getImage / getImageFilesRec (post-order DFS = Graph.dfs)
  * `newImage`            image.go duplicate-path / two-commits validation
  * `buildImage`          the whole pipeline; the compiler (protocompile) is a parameter:
                          `Compiler.imports` (descriptor dependency list per opened file),
                          `unused`, `syntaxUnspecified`, and the order `perm` in which it returns
                          the root files
-/
namespace BufModel.Targeting
open BufModel.Path BufModel.Graph

/-- per-module targeting options given to AddLocalModule / AddRemoteModule. -/
structure TCfg where
  paths : List Str := []           -- targetPaths (normalized)
  excludes : List Str := []        -- targetExcludePaths (normalized)
  protoFile : Str := []            -- protoFileTargetPath ("" = unset)
  includePackageFiles : Bool := false
  deriving DecidableEq, Repr

/-- `normalpath.MapHasEqualOrContainingPath m path Relative` as coded (unix): walk up with Dir. -/
def mapHasLoop (m : List Str) : Nat → Str → Bool
  | 0, _ => false
  | fuel + 1, cur =>
    if cur = dot then false
    else if cur ∈ m then true
    else mapHasLoop m fuel (dir cur)

def mapHasEqualOrContainingPath (m : List Str) (path : Str) : Bool :=
  if m = [] then false
  else if dot ∈ m then true
  else mapHasLoop m (path.length + 2) path

/-- `getIsTargetFileForPathUncached` for a .proto file `f` of a module with files `files`. -/
def isTargetFile (modIsTarget : Bool) (cfg : TCfg) (files : List PFile) (f : PFile) : Bool :=
  if !modIsTarget then false
  else if cfg.protoFile ≠ [] then
    if f.path = cfg.protoFile then true
    else if !cfg.includePackageFiles then false
    else
      match files.find? (fun g => g.path == cfg.protoFile) with
      | none => false                                  -- fs.ErrNotExist → false
      | some t => if t.pkg = [] then false else t.pkg == f.pkg
  else if cfg.paths = [] && cfg.excludes = [] then true
  else if cfg.paths = [] then !mapHasEqualOrContainingPath cfg.excludes f.path
  else if cfg.excludes = [] then mapHasEqualOrContainingPath cfg.paths f.path
  else mapHasEqualOrContainingPath cfg.paths f.path && !mapHasEqualOrContainingPath cfg.excludes f.path

/-- a workspace plus the targeting options of each module (by module index). -/
structure TWS where
  ws : WS
  cfgs : List TCfg

def cfgOf (t : TWS) (m : Nat) : TCfg := t.cfgs[m]?.getD {}

def modIsTarget (t : TWS) (m : Nat) : Bool := (t.ws.mods[m]?.map (·.isTarget)).getD false

def isTargetIn (t : TWS) (m : Nat) (f : PFile) : Bool :=
  isTargetFile (modIsTarget t m) (cfgOf t m) (modFiles t.ws m) f

inductive BErr where
  | dupPath          -- DuplicateProtoPathError
  | noProtoFiles     -- NoProtoFilesError
  | noTargets        -- ErrNoTargetProtoFiles
  | compile          -- FileAnnotationSet from the compiler (unresolvable import, import cycle, …)
  | sortMismatch     -- checkAndSortFiles errors
  | dupImageFile     -- newImage: duplicate file
  | twoCommits       -- newImage: files with different commits for the same module
  | fuel
  deriving DecidableEq, Repr

def BErr.tag : BErr → String
  | .dupPath => "dup" | .noProtoFiles => "noproto" | .noTargets => "notargets" | .compile => "compile"
  | .sortMismatch => "sortmismatch" | .dupImageFile => "dupfile" | .twoCommits => "twocommits" | .fuel => "fuel"

/-- target files of one module, as `moduleReadBucket.WalkFileInfos(onlyTargetFiles)` yields them:
    with targetPaths the walk visits each target path in order (a file once); otherwise the whole
    bucket.  The bool says whether the walk ends with `protoFileTracker.validate()`. -/
def moduleTargetFiles (t : TWS) (m : Nat) : List PFile × Bool :=
  let cfg := cfgOf t m
  let files := modFiles t.ws m
  if cfg.paths ≠ [] then
    let walked := dedup ((cfg.paths.flatMap (fun tp => files.filter (fun f => equalsOrContainsPath tp f.path))).reverse)
    (walked.reverse.filter (isTargetIn t m), false)
  else (files.filter (isTargetIn t m), true)

/-- `multiProtoFileModuleReadBucket.WalkFileInfos(WithOnlyTargetFiles)` over all modules. -/
def walkTargets (t : TWS) : List Nat → List (Nat × PFile) → Except BErr (List (Nat × PFile))
  | [], acc => .ok acc
  | m :: ms, acc =>
    let (tfs, validates) := moduleTargetFiles t m
    let rec go : List PFile → List (Nat × PFile) → Except BErr (List (Nat × PFile))
      | [], acc => .ok acc
      | f :: fs, acc => if acc.any (fun x => x.2.path == f.path) then .error .dupPath else go fs (acc ++ [(m, f)])
    match go tfs acc with
    | .error e => .error e
    | .ok acc' =>
      if validates && modIsTarget t m && (modFiles t.ws m).isEmpty then .error .noProtoFiles
      else walkTargets t ms acc'

/-- `GetTargetFileInfos` → `FileInfoPaths`: the sorted root paths given to the compiler. -/
def targetList (t : TWS) : Except BErr (List Str) :=
  match walkTargets t (List.range t.ws.mods.length) [] with
  | .error e => .error e
  | .ok acc => if acc = [] then .error .noTargets else .ok (sortPaths (acc.map (·.2.path)))

/-- where an opened path comes from. -/
inductive Src where
  | mod (m : Nat)
  | wkt
  deriving DecidableEq, Repr

/-- `parserAccessorHandler.Open`: the unique module file, else the built-in WKT; a path in two
    modules is an error, a path nowhere is fs.ErrNotExist. -/
def openFile (ws : WS) (p : Str) : Except BErr Src :=
  match owner ws p with
  | .one m => .ok (.mod m)
  | .dup => .error .dupPath
  | .none => if isWkt ws p then .ok .wkt else .error .compile

/-- What the compiler reports; all of it is library behaviour and therefore a parameter. -/
structure Compiler where
  imports : Str → List Str                 -- descriptor dependency list, in source order
  unused : Str → List Str                  -- ErrorUnusedImport warnings per file
  syntaxUnspecified : Str → Bool           -- ErrNoSyntax warning

/-- successor function of the compile graph: the file must open, its successors are what the
    compiler says it imports. -/
def csucc (ws : WS) (c : Compiler) (p : Str) : Option (List Str) :=
  match openFile ws p with
  | .ok _ => some (c.imports p)
  | .error _ => none

/-- first `openFile` error among a list of paths (which error the compiler run dies of). -/
def firstOpenErr (ws : WS) : List Str → Option BErr
  | [] => none
  | p :: ps => match openFile ws p with
    | .error e => some e
    | .ok _ => firstOpenErr ws ps

structure ImgFile where
  path : Str
  isImport : Bool
  syntaxUnspecified : Bool
  unusedIdx : List Nat
  modName : Option Nat
  commit : Nat
  deriving DecidableEq, Repr

/-- `checkAndSortFiles`: put what the compiler returned back into the order of the input paths. -/
def checkAndSortFiles (compiled : List Str) (roots : List Str) : Except BErr (List Str) :=
  if compiled.length ≠ roots.length then .error .sortMismatch
  else if compiled.any (· = []) then .error .sortMismatch
  else if (dedup compiled).length ≠ compiled.length then .error .sortMismatch
  else if roots.all (fun r => decide (r ∈ compiled)) then .ok roots
  else .error .sortMismatch

/-- indexes `i` with `imports[i]` among the unused ones (`unusedDependencyIndexes`). -/
def unusedIndexes (imports unused : List Str) : List Nat :=
  (List.range imports.length).filter (fun i => match imports[i]? with
    | some d => decide (d ∈ unused)
    | none => false)

def mkImgFile (ws : WS) (c : Compiler) (nonImports : List Str) (p : Str) : ImgFile :=
  let src := match openFile ws p with | .ok (.mod m) => ws.mods[m]? | _ => none
  { path := p
    isImport := !decide (p ∈ nonImports)
    syntaxUnspecified := c.syntaxUnspecified p
    unusedIdx := if c.unused p = [] then [] else unusedIndexes (c.imports p) (c.unused p)
    modName := src.bind (·.name)
    commit := (src.map (·.commit)).getD 0 }

/-- `newImage` validation. -/
def newImage (files : List ImgFile) : Except BErr (List ImgFile) :=
  let rec go : List ImgFile → List Str → List (Nat × Nat) → Except BErr Unit
    | [], _, _ => .ok ()
    | f :: fs, seen, commits =>
      if f.path ∈ seen then .error .dupImageFile
      else match f.modName with
        | none => go fs (f.path :: seen) commits
        | some n => match commits.find? (fun x => x.1 == n) with
          | some x => if x.2 ≠ f.commit then .error .twoCommits else go fs (f.path :: seen) commits
          | none => go fs (f.path :: seen) ((n, f.commit) :: commits)
  if files = [] then .error .noTargets
  else match go files [] [] with
    | .error e => .error e
    | .ok _ => .ok files

/-- number of distinct paths the compile graph can touch: fuel for the DFS. -/
def allPaths (ws : WS) : List Str :=
  dedup ((ws.mods.flatMap (fun m => m.files.map (·.path))) ++ ws.wkt.map (·.path))

/-- `bufimage.BuildImage(ModuleSetToModuleReadBucketWithOnlyProtoFiles(moduleSet))`.
    `perm` is the order in which the compiler hands back the root files. -/
def buildImage (t : TWS) (c : Compiler) (perm : List Str → List Str) : Except BErr (List ImgFile) :=
  match targetList t with
  | .error e => .error e
  | .ok roots =>
    -- the compiler run: opens the roots and everything they import
    match dfsRoots (csucc t.ws c) ((allPaths t.ws).length + roots.length + 1) roots with
    | .error .fuel => .error .fuel
    -- a path that cannot be opened (nobody provides it, or two modules do) is reported by the
    -- compiler as a diagnostic; only a duplicate among the *target* files surfaces as
    -- DuplicateProtoPathError (from `targetList` above)
    | .error (.missing _) => .error .compile
    | .ok (_, closure) =>
      if !isTopo (csucc t.ws c) [] closure then .error .compile      -- import cycle
      else
        match checkAndSortFiles (perm roots) roots with
        | .error e => .error e
        | .ok sorted =>
          match dfsRoots (csucc t.ws c) ((allPaths t.ws).length + roots.length + 1) sorted with
          | .error _ => .error .fuel
          | .ok (_, order) => newImage (order.map (mkImgFile t.ws c sorted))

end BufModel.Targeting

namespace BufModel.Targeting
open BufModel.Path BufModel.Graph

/-- a compiler error with its position (library output) and the diagnostic buf reports. -/
structure CompilerError where
  file : Str
  line : Nat
  col : Nat
  deriving DecidableEq, Repr

structure Annotation where
  externalPath : Str
  line : Nat
  col : Nat
  deriving DecidableEq, Repr

/-- `bufprotocompile.FileAnnotationForErrorWithPos` with `parserAccessorHandler.ExternalPath` as
    resolver: the position is kept, the path becomes the external path recorded when the file
    was opened (the path itself if none is known). -/
def annotate (externalOf : Str → Option Str) (e : CompilerError) : Annotation :=
  { externalPath := match externalOf e.file with
      | some x => if x = [] then e.file else x
      | none => e.file
    line := e.line, col := e.col }

end BufModel.Targeting
