import BufModel.Schema
import BufGen.BreakingTables
/-
  BufModel.Breaking — the breaking-change detector as coded in
    private/bufpkg/bufcheck/bufcheckserver/internal/bufcheckserverutil/breaking.go   (pair handlers)
    private/bufpkg/bufcheck/bufcheckserver/internal/bufcheckserverhandle/breaking.go (rule handlers)
    …/breaking_util.go, cardinality.go, field_default.go, tag_ranges.go
    private/bufpkg/bufprotosource/bufprotosource.go                                  (the lookup maps)
  Category membership and the compatibility groups come from the REGENERATED BufGen.BreakingTables.

  An annotation is (rule id, file path, source path of the element it is located at).
  file = "" : the annotation has no file location at all (FILE_NO_DELETE, PACKAGE_NO_DELETE,
  PACKAGE_*_NO_DELETE when the file is gone); path = [] : file-level, no element location.

  Go maps are association lists here; "first entry with the key" stands for the map lookup, which
  coincides with it whenever keys are unique (`WF`), and that is what a compiled image guarantees
  (the Go code returns an error on duplicates).  Iteration order of Go maps is irrelevant:
  the result is compared / reasoned about as a set.
-/
namespace BufModel.Breaking
open BufModel.Schema BufGen.BreakingTables

structure Ann where
  rule : String
  file : String
  path : SPath
deriving DecidableEq, Repr, Inhabited

/-! ### locations (location_store.go, response_writer.go) -/

/-- `AddProtosourceAnnotation(withBackupLocation(cands…), _, fallbackFile, …)`: the first candidate
    path that has a location; otherwise only the file name. -/
def annAt (rule : String) (file : String) (locs : List SPath) (cands : List SPath) (fallback : String) : Ann :=
  match cands.find? (fun p => decide (p ∈ locs)) with
  | some p => ⟨rule, file, p⟩
  | none => ⟨rule, fallback, []⟩

/-- option_extension_descriptor.go `OptionLocation` + location_store.go
    `getBestMatchOptionExtensionLocation`: exact path, else the longest location that is a prefix of
    `path` and at least `extLen` long, unless a location *below* `path` is met first. -/
def bestMatch (path : SPath) (extLen : Nat) : List SPath → Option SPath → Option SPath
  | [], best => best
  | l :: ls, best =>
    if l.length ≥ extLen ∧ l.isPrefixOf path ∧ l.length > (best.map List.length).getD 0 then
      bestMatch path extLen ls (some l)
    else if path.isPrefixOf l then some l
    else bestMatch path extLen ls best

def optLoc (locs : List SPath) (optsPath : SPath) (tag : Nat) (extra : List Nat) : Option SPath :=
  let path := optsPath ++ [tag] ++ extra
  if path ∈ locs then some path else bestMatch path (optsPath.length + 1) locs none

/-- annotation at the first available of: an (optional) option location, then exact candidates -/
def annOpt (rule file : String) (locs : List SPath) (o : Option SPath) (cands : List SPath) (fallback : String) : Ann :=
  match o with
  | some p => ⟨rule, file, p⟩
  | none => annAt rule file locs cands fallback

/-! ### pair handlers (bufcheckserverutil/breaking.go) -/

/-- for every PREVIOUS element: look its key up among the current ones -/
def pairwise {α κ : Type} [DecidableEq κ] (key : α → κ) (cur prev : List α)
    (onMissing : α → List Ann) (onPair : α → α → List Ann) : List Ann :=
  prev.flatMap fun p =>
    match cur.find? (fun c => decide (key c = key p)) with
    | none => onMissing p
    | some c => onPair c p

def filePairs (cur prev : Schema) (f : File → File → List Ann) : List Ann :=
  pairwise File.path cur prev (fun _ => []) f

def enumPairs (cur prev : Schema) (f : FlatEnum → FlatEnum → List Ann) : List Ann :=
  pairwise FlatEnum.fullName (allEnums cur) (allEnums prev) (fun _ => []) f

def msgPairs (cur prev : Schema) (f : FlatMsg → FlatMsg → List Ann) : List Ann :=
  pairwise FlatMsg.fullName (allMsgs cur) (allMsgs prev) (fun _ => []) f

def svcPairs (cur prev : Schema) (f : FlatSvc → FlatSvc → List Ann) : List Ann :=
  pairwise FlatSvc.fullName (allSvcs cur) (allSvcs prev) (fun _ => []) f

/-- a field (of a message or an extension) with its position -/
structure FlatField where
  file : String
  locs : List SPath
  path : SPath
  /-- field.go maybeMapEntryLocation fallback of Location/NameLocation/TypeLocation/TypeNameLocation -/
  mapLoc : Option SPath
  field : Field
deriving Repr, Inhabited

def msgFields (m : FlatMsg) : List FlatField :=
  (indexed m.info.fields).map fun p => ⟨m.file, m.locs, m.path ++ [2, p.1], m.mapLoc, p.2⟩

def extFields (s : Schema) : List FlatField :=
  (allExts s).map fun e => ⟨e.file, e.locs, e.path, none, e.field⟩

/-- NewBreakingFieldPairRuleHandler: fields of same-named messages by number, then extensions by
    (extendee, number) over all files -/
def fieldPairs (cur prev : Schema) (f : FlatField → FlatField → List Ann) : List Ann :=
  msgPairs cur prev (fun c p =>
    pairwise (fun x => x.field.number) (msgFields c) (msgFields p) (fun _ => []) f) ++
  pairwise (fun x => (x.field.extendee, x.field.number)) (extFields cur) (extFields prev) (fun _ => []) f

structure FlatMethod where
  file : String
  locs : List SPath
  path : SPath
  m : Method
deriving Repr, Inhabited

def svcMethods (s : FlatSvc) : List FlatMethod :=
  (indexed s.svc.methods).map fun p => ⟨s.file, s.locs, s.path ++ [2, p.1], p.2⟩

def methodPairs (cur prev : Schema) (f : FlatMethod → FlatMethod → List Ann) : List Ann :=
  svcPairs cur prev fun c p =>
    pairwise (fun x => x.m.name) (svcMethods c) (svcMethods p) (fun _ => []) f

/-! ### deletions located at the nearest surviving enclosing message (breaking_util.go) -/

/-- getDescriptorAndLocationForDeletedElement / …ForDeletedMessage: for i = len-1 … 1 the first
    prefix `nested[0:i]` that is a message of the current file; otherwise the file. -/
def enclosing (c : File) (nested : QName) : Option FlatMsg :=
  (((List.range nested.length).reverse).filter (fun i => decide (1 ≤ i))).findSome? fun i =>
    c.flatMsgs.find? (fun m => decide (m.nested = nested.take i))

def deletedAnn (rule : String) (c : File) (nested : QName) : Ann :=
  match enclosing c nested with
  | some m => annAt rule c.path c.locs ([m.path] ++ m.mapLoc.toList) c.path
  | none => ⟨rule, c.path, []⟩

/-! ### file rules -/

def ruleEnumNoDelete (cur prev : Schema) : List Ann :=
  filePairs cur prev fun c p =>
    pairwise FlatEnum.nested c.flatEnums p.flatEnums
      (fun pe => [deletedAnn "ENUM_NO_DELETE" c pe.nested]) (fun _ _ => [])

def ruleExtensionNoDelete (cur prev : Schema) : List Ann :=
  filePairs cur prev fun c p =>
    pairwise FlatExt.nested c.flatExts p.flatExts
      (fun pe => [deletedAnn "EXTENSION_NO_DELETE" c pe.nested]) (fun _ _ => [])

def ruleMessageNoDelete (cur prev : Schema) : List Ann :=
  filePairs cur prev fun c p =>
    pairwise FlatMsg.nested c.flatMsgs p.flatMsgs
      (fun pm => [deletedAnn "MESSAGE_NO_DELETE" c pm.nested]) (fun _ _ => [])

def ruleServiceNoDelete (cur prev : Schema) : List Ann :=
  filePairs cur prev fun c p =>
    pairwise (fun s => s.svc.name) c.flatSvcs p.flatSvcs
      (fun _ => [⟨"SERVICE_NO_DELETE", c.path, []⟩]) (fun _ _ => [])

def ruleFileNoDelete (cur prev : Schema) : List Ann :=
  pairwise File.path cur prev (fun _ => [⟨"FILE_NO_DELETE", "", []⟩]) (fun _ _ => [])

/-- checkFileSameValue: all "file same X" rules are this one definition -/
def fileSame {β : Type} [DecidableEq β] (rule : String) (get : File → β) (locPath : SPath) (cur prev : Schema) : List Ann :=
  filePairs cur prev fun c p =>
    if get p ≠ get c then [annAt rule c.path c.locs [locPath] c.path] else []

def _root_.BufModel.Schema.File.opt (f : File) (n : Nat) : String := (f.opts.lookup n).getD ""

/-- FILE_SAME_<option> rule id ↦ FileOptions field number (breaking.go + descriptor.proto) -/
def fileOptRules : List (String × Nat) := [
  ("FILE_SAME_CC_ENABLE_ARENAS", 31), ("FILE_SAME_CC_GENERIC_SERVICES", 16),
  ("FILE_SAME_CSHARP_NAMESPACE", 37), ("FILE_SAME_GO_PACKAGE", 11),
  ("FILE_SAME_JAVA_GENERIC_SERVICES", 17), ("FILE_SAME_JAVA_MULTIPLE_FILES", 10),
  ("FILE_SAME_JAVA_OUTER_CLASSNAME", 8), ("FILE_SAME_JAVA_PACKAGE", 1),
  ("FILE_SAME_OBJC_CLASS_PREFIX", 36), ("FILE_SAME_OPTIMIZE_FOR", 9),
  ("FILE_SAME_PHP_CLASS_PREFIX", 40), ("FILE_SAME_PHP_METADATA_NAMESPACE", 44),
  ("FILE_SAME_PHP_NAMESPACE", 41), ("FILE_SAME_PY_GENERIC_SERVICES", 18),
  ("FILE_SAME_RUBY_PACKAGE", 45), ("FILE_SAME_SWIFT_PREFIX", 39)]

def ruleFileSameOption (rule : String) (n : Nat) (cur prev : Schema) : List Ann :=
  fileSame rule (fun f => f.opt n) [8, n] cur prev

/-- handleBreakingFileSameSyntax: unspecified counts as proto2; editions are one value -/
def _root_.BufModel.Schema.Syn.norm : Syn → Syn
  | .unspecified => .proto2
  | s => s

def ruleFileSameSyntax (cur prev : Schema) : List Ann :=
  fileSame "FILE_SAME_SYNTAX" (fun f => f.syn.norm) [12] cur prev

def ruleFileSamePackage (cur prev : Schema) : List Ann :=
  fileSame "FILE_SAME_PACKAGE" File.pkg [2] cur prev

/-! ### package rules (whole-image handlers) -/

/-- PACKAGE_ENUM_NO_DELETE as coded BEFORE the fix `C03-package-last-element.diff`: the "package
    still exists" test looked the package up in PackageToNestedNameToEnum, whose keys were only
    the packages that still contain ≥ 1 enum — deleting the last enum(s) of a surviving package
    went unreported (see `BufProofs.C03.package_enum_old_counterexample`). -/
def rulePackageEnumNoDeleteOld (cur prev : Schema) : List Ann :=
  (allEnums prev).flatMap fun pe =>
    if pe.pkg ∈ (allEnums cur).map (·.pkg) then
      match (allEnums cur).find? (fun ce => decide (ce.pkg = pe.pkg ∧ ce.nested = pe.nested)) with
      | some _ => []
      | none =>
        match cur.find? (fun f => decide (f.path = pe.file)) with
        | some f => [deletedAnn "PACKAGE_ENUM_NO_DELETE" f pe.nested]
        | none => [⟨"PACKAGE_ENUM_NO_DELETE", "", []⟩]
    else []

/-- PACKAGE_ENUM_NO_DELETE (fixed tree): every package of a current file is a key of
    PackageToNestedNameToEnum. -/
def rulePackageEnumNoDelete (cur prev : Schema) : List Ann :=
  (allEnums prev).flatMap fun pe =>
    if pe.pkg ∈ cur.map File.pkg then
      match (allEnums cur).find? (fun ce => decide (ce.pkg = pe.pkg ∧ ce.nested = pe.nested)) with
      | some _ => []
      | none =>
        match cur.find? (fun f => decide (f.path = pe.file)) with
        | some f => [deletedAnn "PACKAGE_ENUM_NO_DELETE" f pe.nested]
        | none => [⟨"PACKAGE_ENUM_NO_DELETE", "", []⟩]
    else []

def rulePackageExtensionNoDelete (cur prev : Schema) : List Ann :=
  (allExts prev).flatMap fun pe =>
    if pe.pkg ∈ cur.map File.pkg then
      match (allExts cur).find? (fun ce => decide (ce.pkg = pe.pkg ∧ ce.nested = pe.nested)) with
      | some _ => []
      | none =>
        match cur.find? (fun f => decide (f.path = pe.file)) with
        | some f => [deletedAnn "PACKAGE_EXTENSION_NO_DELETE" f pe.nested]
        | none => [⟨"PACKAGE_EXTENSION_NO_DELETE", "", []⟩]
    else []

/-- getDescriptorAndLocationForDeletedMessage is given the PACKAGE's nested-name map, but returns
    a message only for a prefix found there; the annotation's fallback file is that message's or
    the file's path. -/
def enclosingIn (ms : List FlatMsg) (nested : QName) : Option FlatMsg :=
  (((List.range nested.length).reverse).filter (fun i => decide (1 ≤ i))).findSome? fun i =>
    ms.find? (fun m => decide (m.nested = nested.take i))

def rulePackageMessageNoDelete (cur prev : Schema) : List Ann :=
  (allMsgs prev).flatMap fun pm =>
    if pm.pkg ∈ cur.map File.pkg then
      let inPkg := (allMsgs cur).filter (fun cm => decide (cm.pkg = pm.pkg))
      match inPkg.find? (fun cm => decide (cm.nested = pm.nested)) with
      | some _ => []
      | none =>
        match cur.find? (fun f => decide (f.path = pm.file)) with
        | some f =>
          match enclosingIn inPkg pm.nested with
          | some m => [annAt "PACKAGE_MESSAGE_NO_DELETE" m.file m.locs ([m.path] ++ m.mapLoc.toList) m.file]
          | none => [⟨"PACKAGE_MESSAGE_NO_DELETE", f.path, []⟩]
        | none => [⟨"PACKAGE_MESSAGE_NO_DELETE", "", []⟩]
    else []

def rulePackageServiceNoDelete (cur prev : Schema) : List Ann :=
  (allSvcs prev).flatMap fun ps =>
    if ps.pkg ∈ cur.map File.pkg then
      match (allSvcs cur).find? (fun cs => decide (cs.pkg = ps.pkg ∧ cs.svc.name = ps.svc.name)) with
      | some _ => []
      | none =>
        match cur.find? (fun f => decide (f.path = ps.file)) with
        | some f => [⟨"PACKAGE_SERVICE_NO_DELETE", f.path, []⟩]
        | none => [⟨"PACKAGE_SERVICE_NO_DELETE", "", []⟩]
    else []

def rulePackageNoDelete (cur prev : Schema) : List Ann :=
  prev.flatMap fun pf =>
    if pf.pkg ∈ cur.map File.pkg then [] else [⟨"PACKAGE_NO_DELETE", "", []⟩]

/-! ### tag ranges (tag_ranges.go) -/

def rangeHas (r : Range) (n : Int) : Bool := decide (r.1 ≤ n ∧ n ≤ r.2)

/-- every integer of [lo, hi] lies in some range of `rs`
    (= `len(findMissing(lo, hi, collapseRanges(rs))) == 0`).  Each step jumps past the end of a
    range containing `lo` and discards the ranges that end no later, so `fuel > rs.length` suffices. -/
def covers : Nat → List Range → Int → Int → Bool
  | 0, _, lo, hi => decide (hi < lo)
  | fuel + 1, rs, lo, hi =>
    if hi < lo then true else
    match rs.find? (fun r => rangeHas r lo) with
    | none => false
    | some r => covers fuel (rs.filter fun q => decide (r.2 < q.2)) (r.2 + 1) hi

def rangeMissing (curRanges : List Range) (r : Range) : Bool :=
  !covers (curRanges.length + 1) curRanges r.1 r.2

/-! ### enum rules -/

def enumLoc (e : FlatEnum) (rule : String) (fallback : String := e.file) : Ann :=
  annAt rule e.file e.locs [e.path] fallback

def ruleEnumSameType (cur prev : Schema) : List Ann :=
  enumPairs cur prev fun c p =>
    if p.enum.closed ≠ c.enum.closed then
      [annOpt "ENUM_SAME_TYPE" c.file c.locs (optLoc c.locs (c.path ++ [3]) 7 [2]) [c.path] c.file]
    else []

def ruleEnumSameJsonFormat (cur prev : Schema) : List Ann :=
  enumPairs cur prev fun c p =>
    if p.enum.jsonAllow ∧ ¬ c.enum.jsonAllow then
      [annOpt "ENUM_SAME_JSON_FORMAT" c.file c.locs (optLoc c.locs (c.path ++ [3]) 7 [6]) [c.path] c.file]
    else []

def _root_.BufModel.Schema.Enum.hasNumber (e : Enum) (n : Int) : Bool := e.values.any fun v => decide (v.number = n)

def numberReserved (rs : List Range) (n : Int) : Bool := rs.any fun r => rangeHas r n

/-- checkEnumValueNoDeleteWithRules / isDeletedEnumValueAllowedWithRules -/
def enumValueNoDelete (rule : String) (allowNumber allowName : Bool) (cur prev : Schema) : List Ann :=
  enumPairs cur prev fun c p =>
    p.enum.values.flatMap fun pv =>
      if c.enum.hasNumber pv.number then [] else
      let allowed :=
        if allowNumber then numberReserved c.enum.reservedRanges pv.number
        else if allowName then
          (p.enum.values.filter fun w => decide (w.number = pv.number)).all fun w => decide (w.name ∈ c.enum.reservedNames)
        else false
      if allowed then [] else [enumLoc c rule p.file]

/-- NewBreakingEnumValuePairRuleHandler + handleBreakingEnumValueSameName: for a number present on
    both sides, `slicesext.ElementsContained(superset := names, subset := previousNames)` — every
    PREVIOUS name of the number must still be one of its names (adding an alias is fine, removing
    or renaming one is not); the annotations sit on the number of every current value of it. -/
def ruleEnumValueSameName (cur prev : Schema) : List Ann :=
  enumPairs cur prev fun c p =>
    p.enum.values.flatMap fun pv =>
      let names := (c.enum.values.filter fun w => decide (w.number = pv.number)).map (·.name)
      let prevNames := (p.enum.values.filter fun w => decide (w.number = pv.number)).map (·.name)
      if prevNames.all (fun n => decide (n ∈ names)) then [] else
        ((indexed c.enum.values).filter fun iw => decide (iw.2.number = pv.number)).map fun iw =>
          annAt "ENUM_VALUE_SAME_NAME" c.file c.locs [c.path ++ [2, iw.1, 2]] c.file

def ruleReservedEnumNoDelete (cur prev : Schema) : List Ann :=
  enumPairs cur prev fun c p =>
    (p.enum.reservedRanges.flatMap fun r =>
      if rangeMissing c.enum.reservedRanges r then [enumLoc c "RESERVED_ENUM_NO_DELETE"] else []) ++
    (p.enum.reservedNames.flatMap fun n =>
      if n ∈ c.enum.reservedNames then [] else [enumLoc c "RESERVED_ENUM_NO_DELETE"])

/-! ### message rules -/

def msgLoc (m : FlatMsg) (rule : String) : Ann := annAt rule m.file m.locs ([m.path] ++ m.mapLoc.toList) m.file

def _root_.BufModel.Schema.MsgInfo.hasNumber (m : MsgInfo) (n : Int) : Bool := m.fields.any fun f => decide (f.number = n)

/-- checkFieldNoDeleteWithRules / isDeletedFieldAllowedWithRules -/
def fieldNoDelete (rule : String) (allowNumber allowName : Bool) (cur prev : Schema) : List Ann :=
  msgPairs cur prev fun c p =>
    p.info.fields.flatMap fun pf =>
      if c.info.hasNumber pf.number then [] else
      if (allowNumber && numberReserved c.info.reservedRanges pf.number) ||
         (allowName && decide (pf.name ∈ c.info.reservedNames)) then []
      else [msgLoc c rule]

def ruleExtensionMessageNoDelete (cur prev : Schema) : List Ann :=
  msgPairs cur prev fun c p =>
    p.info.extRanges.flatMap fun r =>
      if rangeMissing c.info.extRanges r then [msgLoc c "EXTENSION_MESSAGE_NO_DELETE"] else []

def ruleMessageNoRemoveStdAccessor (cur prev : Schema) : List Ann :=
  msgPairs cur prev fun c p =>
    if !p.info.noStdAccessor && c.info.noStdAccessor then
      [annAt "MESSAGE_NO_REMOVE_STANDARD_DESCRIPTOR_ACCESSOR" c.file c.locs [c.path ++ [7, 2]] c.file]
    else []

def ruleOneofNoDelete (cur prev : Schema) : List Ann :=
  msgPairs cur prev fun c p =>
    p.info.oneofs.flatMap fun po =>
      if po.name ∈ c.info.oneofs.map (·.name) then [] else
      if po.synthetic then [] else [msgLoc c "ONEOF_NO_DELETE"]

def ruleMessageSameJsonFormat (cur prev : Schema) : List Ann :=
  msgPairs cur prev fun c p =>
    if p.info.jsonAllow ∧ ¬ c.info.jsonAllow then
      [annOpt "MESSAGE_SAME_JSON_FORMAT" c.file c.locs (optLoc c.locs (c.path ++ [7]) 12 [6]) ([c.path] ++ c.mapLoc.toList) c.file]
    else []

def _root_.BufModel.Schema.MsgInfo.requiredNumbers (m : MsgInfo) : List Int :=
  (m.fields.filter fun f => decide (f.label = .required)).map (·.number)

def ruleMessageSameRequiredFields (cur prev : Schema) : List Ann :=
  msgPairs cur prev fun c p =>
    (p.info.requiredNumbers.flatMap fun n =>
      if n ∈ c.info.requiredNumbers then [] else [msgLoc c "MESSAGE_SAME_REQUIRED_FIELDS"]) ++
    ((indexed c.info.fields).flatMap fun jf =>
      if jf.2.label = .required ∧ jf.2.number ∉ p.info.requiredNumbers then
        [annAt "MESSAGE_SAME_REQUIRED_FIELDS" c.file c.locs ([c.path ++ [2, jf.1]] ++ c.mapLoc.toList) c.file]
      else [])

def ruleReservedMessageNoDelete (cur prev : Schema) : List Ann :=
  msgPairs cur prev fun c p =>
    (p.info.reservedRanges.flatMap fun r =>
      if rangeMissing c.info.reservedRanges r then [msgLoc c "RESERVED_MESSAGE_NO_DELETE"] else []) ++
    (p.info.reservedNames.flatMap fun n =>
      if n ∈ c.info.reservedNames then [] else [msgLoc c "RESERVED_MESSAGE_NO_DELETE"])

/-! ### field rules -/

/-- cardinality.go getCardinality -/
def _root_.BufModel.Schema.Field.card (f : Field) : Card :=
  if f.label = .repeated ∧ ¬ f.isMap then .repeated
  else if f.isMap then .map
  else if f.reqCard then .required
  else if f.hasPresence then .explicit
  else .implicit

def lookupGroup (tbl : List (String × Nat)) (key : String) : Nat := (tbl.lookup key).getD 0

def _root_.BufModel.Schema.Kind.wireGroup (k : Kind) : Nat := lookupGroup kindWireGroup k.goName
def _root_.BufModel.Schema.Kind.wireJsonGroup (k : Kind) : Nat := lookupGroup kindWireJsonGroup k.goName
def _root_.BufModel.Schema.Card.wireGroup (c : Card) : Nat := lookupGroup cardWireGroup c.goName
def _root_.BufModel.Schema.Card.wireJsonGroup (c : Card) : Nat := lookupGroup cardWireJsonGroup c.goName

/-- `cands` are field Location / NameLocation / TypeLocation / TypeNameLocation candidates (or end
    with one): each of those falls back to the map-entry location -/
def fieldAnn (rule : String) (f : FlatField) (cands : List SPath) : Ann :=
  annAt rule f.file f.locs (cands ++ f.mapLoc.toList) f.file

def cardRule (rule : String) (grp : Card → Nat) (cur prev : Schema) : List Ann :=
  fieldPairs cur prev fun c p =>
    if p.field.inMapEntry && c.field.inMapEntry then [] else
    if grp p.field.card ≠ grp c.field.card then [fieldAnn rule c [c.path]] else []

def _root_.BufModel.Schema.Kind.named (k : Kind) : Bool := k = .message ∨ k = .enum ∨ k = .group

/-- addFieldChangedType: type-name location for message/enum/group kinds, else the type location;
    no fallback to the field -/
def changedTypeAnn (rule : String) (c : FlatField) : Ann :=
  fieldAnn rule c [if c.field.kind.named then c.path ++ [6] else c.path ++ [5]]

/-- addEnumGroupMessageFieldChangedTypeName -/
def changedTypeNameAnn (rule : String) (c : FlatField) : Ann :=
  fieldAnn rule c [c.path ++ [6]]

def ruleFieldSameType (cur prev : Schema) : List Ann :=
  fieldPairs cur prev fun c p =>
    if p.field.kind ≠ c.field.kind then [changedTypeAnn "FIELD_SAME_TYPE" c]
    else if c.field.ty.named ∧ p.field.typeName ≠ c.field.typeName then
      [changedTypeNameAnn "FIELD_SAME_TYPE" c]
    else []

/-- bufprotosource.EnumIsSubset(superset := cur, subset := prev) -/
def enumIsSubset (sup sub : Enum) : Bool :=
  sub.values.all fun sv =>
    match sup.values.find? (fun w => decide (w.name = sv.name)) with
    | some w => decide (w.number = sv.number)
    | none => false

/-- checkEnumWireCompatibleForField (a missing enum is an error in Go; cannot happen for an
    image, whose imports are part of it) -/
def enumWireCompatible (rule : String) (cur prev : Schema) (c p : FlatField) : List Ann :=
  match (allEnums prev).find? (fun e => decide (e.fullName = p.field.typeName)),
        (allEnums cur).find? (fun e => decide (e.fullName = c.field.typeName)) with
  | some pe, some ce =>
    if pe.enum.name ≠ ce.enum.name then [changedTypeNameAnn rule c]
    else if !enumIsSubset ce.enum pe.enum then [changedTypeNameAnn rule c]
    else []
  | _, _ => []

def ruleFieldWireCompatibleType (cur prev : Schema) : List Ann :=
  let rule := "FIELD_WIRE_COMPATIBLE_TYPE"
  fieldPairs cur prev fun c p =>
    if p.field.kind.wireGroup ≠ c.field.kind.wireGroup then
      if p.field.kind = .string ∧ c.field.kind = .bytes then [] else [changedTypeAnn rule c]
    else if c.field.ty = .enum then
      if p.field.typeName ≠ c.field.typeName then enumWireCompatible rule cur prev c p else []
    else if c.field.ty = .group ∨ c.field.ty = .message then
      if p.field.typeName ≠ c.field.typeName then [changedTypeNameAnn rule c] else []
    else []

def ruleFieldWireJsonCompatibleType (cur prev : Schema) : List Ann :=
  let rule := "FIELD_WIRE_JSON_COMPATIBLE_TYPE"
  fieldPairs cur prev fun c p =>
    if p.field.kind.wireJsonGroup ≠ c.field.kind.wireJsonGroup then [changedTypeAnn rule c]
    else if c.field.kind = .enum then
      if p.field.typeName ≠ c.field.typeName then enumWireCompatible rule cur prev c p else []
    else if c.field.kind = .group ∨ c.field.kind = .message then
      if p.field.typeName ≠ c.field.typeName then [changedTypeNameAnn rule c] else []
    else []

def _root_.BufModel.Schema.Kind.is64 (k : Kind) : Bool :=
  k = .int64 ∨ k = .sint64 ∨ k = .uint64 ∨ k = .fixed64 ∨ k = .sfixed64

def ruleFieldSameJstype (cur prev : Schema) : List Ann :=
  fieldPairs cur prev fun c p =>
    if !p.field.ty.is64 || !c.field.ty.is64 then [] else
    if p.field.jstype ≠ c.field.jstype then
      [fieldAnn "FIELD_SAME_JSTYPE" c [c.path ++ [8, 6], c.path]] else []

def ruleFieldSameUtf8Validation (cur prev : Schema) : List Ann :=
  fieldPairs cur prev fun c p =>
    if p.field.kind ≠ .string ∨ c.field.kind ≠ .string then [] else
    if p.field.utf8 ≠ c.field.utf8 then
      [annOpt "FIELD_SAME_UTF8_VALIDATION" c.file c.locs (optLoc c.locs (c.path ++ [8]) 21 [4]) ([c.path] ++ c.mapLoc.toList) c.file]
    else []

def ruleFieldSameJsonName (cur prev : Schema) : List Ann :=
  fieldPairs cur prev fun c p =>
    if p.field.extendee ≠ "" then [] else
    if p.field.jsonName ≠ c.field.jsonName then
      [fieldAnn "FIELD_SAME_JSON_NAME" c [c.path ++ [10], c.path]] else []

def ruleFieldSameName (cur prev : Schema) : List Ann :=
  fieldPairs cur prev fun c p =>
    let pn := if p.field.extendee ≠ "" then p.field.fullName else p.field.name
    let cn := if p.field.extendee ≠ "" then c.field.fullName else c.field.name
    if pn ≠ cn then [fieldAnn "FIELD_SAME_NAME" c [c.path ++ [1]]] else []

/-- field_default.go canHaveDefault -/
def _root_.BufModel.Schema.Field.canHaveDefault (f : Field) : Bool :=
  !(f.label = .repeated) && !(f.kind = .message) && !(f.kind = .group)

def _root_.BufModel.Schema.DefVal.isZero : DefVal → Bool
  | .str s => s = ""
  | .num _ z => z
  | .f32 _ z _ => z
  | .f64 _ _ z _ => z

def _root_.BufModel.Schema.DefVal.rat : DefVal → String
  | .str s => s | .num r _ => r | .f32 r _ _ => r | .f64 r _ _ _ => r

def _root_.BufModel.Schema.DefVal.nan : DefVal → Bool
  | .f32 _ _ n => n | .f64 _ _ _ n => n | _ => false

/-- field_default.go defaultsEqual -/
def defaultsEqual (p c : DefVal) : Bool :=
  match p, c with
  | .str a, .str b => a = b
  | .str _, _ => false
  | _, .str _ => false
  | .f32 r _ n, .f64 _ a' _ n' => (n && n') || (!n && !n' && r = a')
  | .f64 _ a _ n, .f32 r' _ n' => (n && n') || (!n && !n' && a = r')
  | p, c =>
    if p.nan && c.nan then true
    else if p.nan != c.nan then false
    else p.rat = c.rat

def ruleFieldSameDefault (cur prev : Schema) : List Ann :=
  fieldPairs cur prev fun c p =>
    if !p.field.canHaveDefault || !c.field.canHaveDefault then [] else
    if p.field.dflt.isZero && c.field.dflt.isZero then [] else
    if !defaultsEqual p.field.dflt c.field.dflt then
      [fieldAnn "FIELD_SAME_DEFAULT" c [c.path ++ [7], c.path]] else []

/-- the containing oneof unless synthetic -/
def _root_.BufModel.Schema.Field.realOneof (f : Field) : Option Name :=
  match f.oneof with
  | some (n, false) => some n
  | _ => none

def ruleFieldSameOneof (cur prev : Schema) : List Ann :=
  fieldPairs cur prev fun c p =>
    if p.field.extendee ≠ "" then [] else
    match p.field.realOneof, c.field.realOneof with
    | none, none => []
    | some a, some b => if a ≠ b then [fieldAnn "FIELD_SAME_ONEOF" c [c.path]] else []
    | _, _ => [fieldAnn "FIELD_SAME_ONEOF" c [c.path]]

/-! ### service / RPC rules -/

def svcLoc (s : FlatSvc) (rule : String) : Ann := annAt rule s.file s.locs [s.path] s.file

def ruleRpcNoDelete (cur prev : Schema) : List Ann :=
  svcPairs cur prev fun c p =>
    p.svc.methods.flatMap fun pm =>
      if pm.name ∈ c.svc.methods.map (·.name) then [] else [svcLoc c "RPC_NO_DELETE"]

def methodSame {β : Type} [DecidableEq β] (rule : String) (get : Method → β) (sub : List Nat) (cur prev : Schema) : List Ann :=
  methodPairs cur prev fun c p =>
    if get p.m ≠ get c.m then [annAt rule c.file c.locs [c.path ++ sub] c.file] else []

/-! ### rule dispatch and categories -/

/-- rule id ↦ handler -/
def ruleTable : List (String × (Schema → Schema → List Ann)) := [
  ("ENUM_NO_DELETE", ruleEnumNoDelete),
  ("EXTENSION_NO_DELETE", ruleExtensionNoDelete),
  ("FILE_NO_DELETE", ruleFileNoDelete),
  ("MESSAGE_NO_DELETE", ruleMessageNoDelete),
  ("SERVICE_NO_DELETE", ruleServiceNoDelete),
  ("ENUM_SAME_TYPE", ruleEnumSameType),
  ("ENUM_SAME_JSON_FORMAT", ruleEnumSameJsonFormat),
  ("ENUM_VALUE_NO_DELETE", enumValueNoDelete "ENUM_VALUE_NO_DELETE" false false),
  ("ENUM_VALUE_NO_DELETE_UNLESS_NAME_RESERVED", enumValueNoDelete "ENUM_VALUE_NO_DELETE_UNLESS_NAME_RESERVED" false true),
  ("ENUM_VALUE_NO_DELETE_UNLESS_NUMBER_RESERVED", enumValueNoDelete "ENUM_VALUE_NO_DELETE_UNLESS_NUMBER_RESERVED" true false),
  ("ENUM_VALUE_SAME_NAME", ruleEnumValueSameName),
  ("RESERVED_ENUM_NO_DELETE", ruleReservedEnumNoDelete),
  ("EXTENSION_MESSAGE_NO_DELETE", ruleExtensionMessageNoDelete),
  ("FIELD_NO_DELETE", fieldNoDelete "FIELD_NO_DELETE" false false),
  ("FIELD_NO_DELETE_UNLESS_NAME_RESERVED", fieldNoDelete "FIELD_NO_DELETE_UNLESS_NAME_RESERVED" false true),
  ("FIELD_NO_DELETE_UNLESS_NUMBER_RESERVED", fieldNoDelete "FIELD_NO_DELETE_UNLESS_NUMBER_RESERVED" true false),
  ("MESSAGE_NO_REMOVE_STANDARD_DESCRIPTOR_ACCESSOR", ruleMessageNoRemoveStdAccessor),
  ("ONEOF_NO_DELETE", ruleOneofNoDelete),
  ("MESSAGE_SAME_JSON_FORMAT", ruleMessageSameJsonFormat),
  ("MESSAGE_SAME_REQUIRED_FIELDS", ruleMessageSameRequiredFields),
  ("RESERVED_MESSAGE_NO_DELETE", ruleReservedMessageNoDelete),
  ("FIELD_SAME_CARDINALITY", cardRule "FIELD_SAME_CARDINALITY" (fun c => c.ctorIdx)),
  ("FIELD_WIRE_COMPATIBLE_CARDINALITY", cardRule "FIELD_WIRE_COMPATIBLE_CARDINALITY" Card.wireGroup),
  ("FIELD_WIRE_JSON_COMPATIBLE_CARDINALITY", cardRule "FIELD_WIRE_JSON_COMPATIBLE_CARDINALITY" Card.wireJsonGroup),
  ("FIELD_SAME_TYPE", ruleFieldSameType),
  ("FIELD_WIRE_COMPATIBLE_TYPE", ruleFieldWireCompatibleType),
  ("FIELD_WIRE_JSON_COMPATIBLE_TYPE", ruleFieldWireJsonCompatibleType),
  ("FIELD_SAME_JSTYPE", ruleFieldSameJstype),
  ("FIELD_SAME_UTF8_VALIDATION", ruleFieldSameUtf8Validation),
  ("FIELD_SAME_JSON_NAME", ruleFieldSameJsonName),
  ("FIELD_SAME_NAME", ruleFieldSameName),
  ("FIELD_SAME_DEFAULT", ruleFieldSameDefault),
  ("FIELD_SAME_ONEOF", ruleFieldSameOneof),
  ("RPC_NO_DELETE", ruleRpcNoDelete),
  ("RPC_SAME_CLIENT_STREAMING", methodSame "RPC_SAME_CLIENT_STREAMING" (·.clientStreaming) []),
  ("RPC_SAME_SERVER_STREAMING", methodSame "RPC_SAME_SERVER_STREAMING" (·.serverStreaming) []),
  ("RPC_SAME_IDEMPOTENCY_LEVEL", methodSame "RPC_SAME_IDEMPOTENCY_LEVEL" (·.idempotency) [4, 34]),
  ("RPC_SAME_REQUEST_TYPE", methodSame "RPC_SAME_REQUEST_TYPE" (·.input) [2]),
  ("RPC_SAME_RESPONSE_TYPE", methodSame "RPC_SAME_RESPONSE_TYPE" (·.output) [3]),
  ("PACKAGE_ENUM_NO_DELETE", rulePackageEnumNoDelete),
  ("PACKAGE_EXTENSION_NO_DELETE", rulePackageExtensionNoDelete),
  ("PACKAGE_MESSAGE_NO_DELETE", rulePackageMessageNoDelete),
  ("PACKAGE_SERVICE_NO_DELETE", rulePackageServiceNoDelete),
  ("PACKAGE_NO_DELETE", rulePackageNoDelete),
  ("FILE_SAME_SYNTAX", ruleFileSameSyntax),
  ("FILE_SAME_PACKAGE", ruleFileSamePackage)]

def runRule (id : String) (cur prev : Schema) : List Ann :=
  match ruleTable.lookup id with
  | some f => f cur prev
  | none =>
    match fileOptRules.lookup id with
    | some n => ruleFileSameOption id n cur prev
    | none => []

/-- rules of the specs that the model does NOT implement: excluded on both sides of the
    correspondence (they resolve C++ / Java custom features through a Go-internal package). -/
def unmodelled : List String := ["FIELD_SAME_CPP_STRING_TYPE", "FIELD_SAME_JAVA_UTF8_VALIDATION"]

inductive Ver | v1beta1 | v1 | v2
deriving DecidableEq, Repr, Inhabited

def Ver.table : Ver → List RuleRow
  | .v1beta1 => BufGen.BreakingTables.v1beta1
  | .v1 => BufGen.BreakingTables.v1
  | .v2 => BufGen.BreakingTables.v2

/-- ids of the breaking rules of category `cat` in config version `v` (regenerated table),
    minus the unmodelled ones -/
def rulesOf (v : Ver) (cat : String) : List String :=
  ((v.table.filter fun r => r.cats.contains cat).map (·.id)).filter fun id => !unmodelled.contains id

def check (v : Ver) (cat : String) (cur prev : Schema) : List Ann :=
  (rulesOf v cat).flatMap fun id => runRule id cur prev

/-! ### the tree BEFORE `C03-package-last-element.diff` (correspondence only; no theorem uses it
    except the counterexample in Props/C03.lean) -/

def rulePackageExtensionNoDeleteOld (cur prev : Schema) : List Ann :=
  (allExts prev).flatMap fun pe =>
    if pe.pkg ∈ (allExts cur).map (·.pkg) then
      match (allExts cur).find? (fun ce => decide (ce.pkg = pe.pkg ∧ ce.nested = pe.nested)) with
      | some _ => []
      | none =>
        match cur.find? (fun f => decide (f.path = pe.file)) with
        | some f => [deletedAnn "PACKAGE_EXTENSION_NO_DELETE" f pe.nested]
        | none => [⟨"PACKAGE_EXTENSION_NO_DELETE", "", []⟩]
    else []

def rulePackageMessageNoDeleteOld (cur prev : Schema) : List Ann :=
  (allMsgs prev).flatMap fun pm =>
    if pm.pkg ∈ (allMsgs cur).map (·.pkg) then
      let inPkg := (allMsgs cur).filter (fun cm => decide (cm.pkg = pm.pkg))
      match inPkg.find? (fun cm => decide (cm.nested = pm.nested)) with
      | some _ => []
      | none =>
        match cur.find? (fun f => decide (f.path = pm.file)) with
        | some f =>
          match enclosingIn inPkg pm.nested with
          | some m => [annAt "PACKAGE_MESSAGE_NO_DELETE" m.file m.locs ([m.path] ++ m.mapLoc.toList) m.file]
          | none => [⟨"PACKAGE_MESSAGE_NO_DELETE", f.path, []⟩]
        | none => [⟨"PACKAGE_MESSAGE_NO_DELETE", "", []⟩]
    else []

/-- rule dispatch of the unfixed tree: the three PACKAGE_*_NO_DELETE handlers whose "package still
    exists" test only saw packages that still have an element of that kind -/
def runRuleOld (id : String) (cur prev : Schema) : List Ann :=
  if id = "PACKAGE_ENUM_NO_DELETE" then rulePackageEnumNoDeleteOld cur prev
  else if id = "PACKAGE_EXTENSION_NO_DELETE" then rulePackageExtensionNoDeleteOld cur prev
  else if id = "PACKAGE_MESSAGE_NO_DELETE" then rulePackageMessageNoDeleteOld cur prev
  else runRule id cur prev

def checkOld (v : Ver) (cat : String) (cur prev : Schema) : List Ann :=
  (rulesOf v cat).flatMap fun id => runRuleOld id cur prev

/-! ### executable well-formedness checks (reported by the driver for every correspondence line) -/

/-- the uniqueness facts of a compiled image (Bool version of `BufProofs.Breaking.WF`) -/
def wfB (s : Schema) : Bool :=
  decide ((s.map File.path).Nodup) &&
  decide (((allMsgs s).map FlatMsg.fullName).Nodup) &&
  decide (((allEnums s).map FlatEnum.fullName).Nodup) &&
  decide (((allSvcs s).map FlatSvc.fullName).Nodup) &&
  decide (((extFields s).map fun x => (x.field.extendee, x.field.number)).Nodup) &&
  ((allMsgs s).all fun m => decide ((m.info.fields.map (·.number)).Nodup)) &&
  ((allSvcs s).all fun sv => decide ((sv.svc.methods.map (·.name)).Nodup))

/-- protoreflect fact used by the hierarchy theorem: Kind() = Type() except delimited messages -/
def kindsOkB (s : Schema) : Bool :=
  ((allMsgs s).all fun m => m.info.fields.all fun f =>
    decide (f.kind = f.ty ∨ (f.ty = .message ∧ f.kind = .group))) &&
  ((allExts s).all fun e => decide (e.field.kind = e.field.ty ∨ (e.field.ty = .message ∧ e.field.kind = .group)))

/-! ### images with import files and the client's exclude-imports option

  `bufcheckserverutil/breaking.go`: NO pair handler looks at `IsImport()` — every file of both
  images is compared, so `check` above is the result of `buf breaking` whatever the import flags
  are (`--path a.proto` where a.proto imports b.proto, a changed dependency module).
  `bufcheck/client.go` `filterAnnotations` / `ignoreAnnotation` / `ignoreFileLocation`: only with
  `BreakingWithExcludeImports` (`--exclude-imports`) an annotation is dropped when its FILE location
  is in an import file of the CURRENT image, or else when its AGAINST location is in an import file
  of the PREVIOUS image.  The against location is what each handler passes as `againstLocation`
  to `AddProtosourceAnnotation` (nil when the previous element has no such location), so the rules
  are restated here with that information attached (`…T`, "tagged"); `TagOK` ties them back to the
  untagged rules the theorems are about. -/

/-- an annotation with the file of its against location (`none`: no against location) -/
structure TAnn where
  ann : Ann
  against : Option String
deriving DecidableEq, Repr, Inhabited

/-- the against location exists iff one of the candidate paths has a location in the previous file
    (`withBackupLocation(cands…)` on the previous side) -/
def agAt (file : String) (locs : List SPath) (cands : List SPath) : Option String :=
  if cands.any (fun p => decide (p ∈ locs)) then some file else none

/-- an (optional) option location first, then exact candidates -/
def agOpt (file : String) (locs : List SPath) (o : Option SPath) (cands : List SPath) : Option String :=
  match o with
  | some _ => some file
  | none => agAt file locs cands

/-- attach the against location to the annotations of one handler call (`macro_inline`: the
    compiled driver computes `ag` only when there is an annotation) -/
@[macro_inline] def tag (ag : Option String) (as : List Ann) : List TAnn := as.map fun a => ⟨a, ag⟩

/-- `pairwise`, for any result type -/
def pairwiseG {α κ β : Type} [DecidableEq κ] (key : α → κ) (cur prev : List α)
    (onMissing : α → List β) (onPair : α → α → List β) : List β :=
  prev.flatMap fun p =>
    match cur.find? (fun c => decide (key c = key p)) with
    | none => onMissing p
    | some c => onPair c p

def filePairsG {β : Type} (cur prev : Schema) (f : File → File → List β) : List β :=
  pairwiseG File.path cur prev (fun _ => []) f
def enumPairsG {β : Type} (cur prev : Schema) (f : FlatEnum → FlatEnum → List β) : List β :=
  pairwiseG FlatEnum.fullName (allEnums cur) (allEnums prev) (fun _ => []) f
def msgPairsG {β : Type} (cur prev : Schema) (f : FlatMsg → FlatMsg → List β) : List β :=
  pairwiseG FlatMsg.fullName (allMsgs cur) (allMsgs prev) (fun _ => []) f
def svcPairsG {β : Type} (cur prev : Schema) (f : FlatSvc → FlatSvc → List β) : List β :=
  pairwiseG FlatSvc.fullName (allSvcs cur) (allSvcs prev) (fun _ => []) f
def fieldPairsG {β : Type} (cur prev : Schema) (f : FlatField → FlatField → List β) : List β :=
  msgPairsG cur prev (fun c p =>
    pairwiseG (fun x => x.field.number) (msgFields c) (msgFields p) (fun _ => []) f) ++
  pairwiseG (fun x => (x.field.extendee, x.field.number)) (extFields cur) (extFields prev) (fun _ => []) f
def methodPairsG {β : Type} (cur prev : Schema) (f : FlatMethod → FlatMethod → List β) : List β :=
  svcPairsG cur prev fun c p =>
    pairwiseG (fun x => x.m.name) (svcMethods c) (svcMethods p) (fun _ => []) f

/-! against locations of the previous element: `previousX.Location()` -/
def msgAg (p : FlatMsg) : Option String := agAt p.file p.locs ([p.path] ++ p.mapLoc.toList)
def enumAg (p : FlatEnum) : Option String := agAt p.file p.locs [p.path]
def extAg (p : FlatExt) : Option String := agAt p.file p.locs [p.path]
def svcAg (p : FlatSvc) : Option String := agAt p.file p.locs [p.path]
/-- field Location / NameLocation / TypeLocation / TypeNameLocation candidates, each falling back to
    the map-entry location (as `fieldAnn` on the current side) -/
def fieldAg (p : FlatField) (cands : List SPath) : Option String :=
  agAt p.file p.locs (cands ++ p.mapLoc.toList)

def ruleEnumNoDeleteT (cur prev : Schema) : List TAnn :=
  filePairsG cur prev fun c p =>
    pairwiseG FlatEnum.nested c.flatEnums p.flatEnums
      (fun pe => tag (enumAg pe) [deletedAnn "ENUM_NO_DELETE" c pe.nested]) (fun _ _ => [])

def ruleExtensionNoDeleteT (cur prev : Schema) : List TAnn :=
  filePairsG cur prev fun c p =>
    pairwiseG FlatExt.nested c.flatExts p.flatExts
      (fun pe => tag (extAg pe) [deletedAnn "EXTENSION_NO_DELETE" c pe.nested]) (fun _ _ => [])

def ruleMessageNoDeleteT (cur prev : Schema) : List TAnn :=
  filePairsG cur prev fun c p =>
    pairwiseG FlatMsg.nested c.flatMsgs p.flatMsgs
      (fun pm => tag (msgAg pm) [deletedAnn "MESSAGE_NO_DELETE" c pm.nested]) (fun _ _ => [])

def ruleServiceNoDeleteT (cur prev : Schema) : List TAnn :=
  filePairsG cur prev fun c p =>
    pairwiseG (fun s => s.svc.name) c.flatSvcs p.flatSvcs
      (fun ps => tag (svcAg ps) [⟨"SERVICE_NO_DELETE", c.path, []⟩]) (fun _ _ => [])

/-- `check.WithAgainstFileName(previousFilePath)`: a file-only against location, always present -/
def ruleFileNoDeleteT (cur prev : Schema) : List TAnn :=
  pairwiseG File.path cur prev (fun p => tag (some p.path) [⟨"FILE_NO_DELETE", "", []⟩]) (fun _ _ => [])

/-- checkFileSameValue: `previousLocation` is the statement / option location of the previous file -/
def fileSameT {β : Type} [DecidableEq β] (rule : String) (get : File → β) (locPath : SPath) (cur prev : Schema) : List TAnn :=
  filePairsG cur prev fun c p =>
    tag (agAt p.path p.locs [locPath]) (if get p ≠ get c then [annAt rule c.path c.locs [locPath] c.path] else [])

def ruleFileSameOptionT (rule : String) (n : Nat) (cur prev : Schema) : List TAnn :=
  fileSameT rule (fun f => f.opt n) [8, n] cur prev
def ruleFileSameSyntaxT (cur prev : Schema) : List TAnn :=
  fileSameT "FILE_SAME_SYNTAX" (fun f => f.syn.norm) [12] cur prev
def ruleFileSamePackageT (cur prev : Schema) : List TAnn :=
  fileSameT "FILE_SAME_PACKAGE" File.pkg [2] cur prev

def rulePackageEnumNoDeleteT (cur prev : Schema) : List TAnn :=
  (allEnums prev).flatMap fun pe => tag (enumAg pe) (
    if pe.pkg ∈ cur.map File.pkg then
      match (allEnums cur).find? (fun ce => decide (ce.pkg = pe.pkg ∧ ce.nested = pe.nested)) with
      | some _ => []
      | none =>
        match cur.find? (fun f => decide (f.path = pe.file)) with
        | some f => [deletedAnn "PACKAGE_ENUM_NO_DELETE" f pe.nested]
        | none => [⟨"PACKAGE_ENUM_NO_DELETE", "", []⟩]
    else [])

def rulePackageExtensionNoDeleteT (cur prev : Schema) : List TAnn :=
  (allExts prev).flatMap fun pe => tag (extAg pe) (
    if pe.pkg ∈ cur.map File.pkg then
      match (allExts cur).find? (fun ce => decide (ce.pkg = pe.pkg ∧ ce.nested = pe.nested)) with
      | some _ => []
      | none =>
        match cur.find? (fun f => decide (f.path = pe.file)) with
        | some f => [deletedAnn "PACKAGE_EXTENSION_NO_DELETE" f pe.nested]
        | none => [⟨"PACKAGE_EXTENSION_NO_DELETE", "", []⟩]
    else [])

def rulePackageMessageNoDeleteT (cur prev : Schema) : List TAnn :=
  (allMsgs prev).flatMap fun pm => tag (msgAg pm) (
    if pm.pkg ∈ cur.map File.pkg then
      let inPkg := (allMsgs cur).filter (fun cm => decide (cm.pkg = pm.pkg))
      match inPkg.find? (fun cm => decide (cm.nested = pm.nested)) with
      | some _ => []
      | none =>
        match cur.find? (fun f => decide (f.path = pm.file)) with
        | some f =>
          match enclosingIn inPkg pm.nested with
          | some m => [annAt "PACKAGE_MESSAGE_NO_DELETE" m.file m.locs ([m.path] ++ m.mapLoc.toList) m.file]
          | none => [⟨"PACKAGE_MESSAGE_NO_DELETE", f.path, []⟩]
        | none => [⟨"PACKAGE_MESSAGE_NO_DELETE", "", []⟩]
    else [])

def rulePackageServiceNoDeleteT (cur prev : Schema) : List TAnn :=
  (allSvcs prev).flatMap fun ps => tag (svcAg ps) (
    if ps.pkg ∈ cur.map File.pkg then
      match (allSvcs cur).find? (fun cs => decide (cs.pkg = ps.pkg ∧ cs.svc.name = ps.svc.name)) with
      | some _ => []
      | none =>
        match cur.find? (fun f => decide (f.path = ps.file)) with
        | some f => [⟨"PACKAGE_SERVICE_NO_DELETE", f.path, []⟩]
        | none => [⟨"PACKAGE_SERVICE_NO_DELETE", "", []⟩]
    else [])

/-- the least string of a non-empty list (`slices.Sort(previousDescriptorsFileNames)[0]`) -/
def leastStr : List String → String
  | [] => ""
  | x :: xs => xs.foldl (fun m y => if y < m then y else m) x

/-- handleBreakingPackageNoDelete: `check.WithAgainstFileName` of the alphabetically first previous
    file of the deleted package -/
def rulePackageNoDeleteT (cur prev : Schema) : List TAnn :=
  prev.flatMap fun pf =>
    tag (some (leastStr ((prev.filter fun g => decide (g.pkg = pf.pkg)).map File.path)))
      (if pf.pkg ∈ cur.map File.pkg then [] else [⟨"PACKAGE_NO_DELETE", "", []⟩])

def ruleEnumSameTypeT (cur prev : Schema) : List TAnn :=
  enumPairsG cur prev fun c p =>
    tag (agOpt p.file p.locs (optLoc p.locs (p.path ++ [3]) 7 [2]) [p.path]) (
      if p.enum.closed ≠ c.enum.closed then
        [annOpt "ENUM_SAME_TYPE" c.file c.locs (optLoc c.locs (c.path ++ [3]) 7 [2]) [c.path] c.file]
      else [])

def ruleEnumSameJsonFormatT (cur prev : Schema) : List TAnn :=
  enumPairsG cur prev fun c p =>
    tag (agOpt p.file p.locs (optLoc p.locs (p.path ++ [3]) 7 [6]) [p.path]) (
      if p.enum.jsonAllow ∧ ¬ c.enum.jsonAllow then
        [annOpt "ENUM_SAME_JSON_FORMAT" c.file c.locs (optLoc c.locs (c.path ++ [3]) 7 [6]) [c.path] c.file]
      else [])

def enumValueNoDeleteT (rule : String) (allowNumber allowName : Bool) (cur prev : Schema) : List TAnn :=
  enumPairsG cur prev fun c p => tag (enumAg p) (
    p.enum.values.flatMap fun pv =>
      if c.enum.hasNumber pv.number then [] else
      let allowed :=
        if allowNumber then numberReserved c.enum.reservedRanges pv.number
        else if allowName then
          (p.enum.values.filter fun w => decide (w.number = pv.number)).all fun w => decide (w.name ∈ c.enum.reservedNames)
        else false
      if allowed then [] else [enumLoc c rule p.file])

/-- the against location of each annotation is the NUMBER location of the previous value with the
    same name (and number), if there is one (`previousNameToEnumValue[enumName]`) -/
def ruleEnumValueSameNameT (cur prev : Schema) : List TAnn :=
  enumPairsG cur prev fun c p =>
    p.enum.values.flatMap fun pv =>
      let names := (c.enum.values.filter fun w => decide (w.number = pv.number)).map (·.name)
      let prevNames := (p.enum.values.filter fun w => decide (w.number = pv.number)).map (·.name)
      if prevNames.all (fun n => decide (n ∈ names)) then [] else
        ((indexed c.enum.values).filter fun iw => decide (iw.2.number = pv.number)).map fun iw =>
          ⟨annAt "ENUM_VALUE_SAME_NAME" c.file c.locs [c.path ++ [2, iw.1, 2]] c.file,
           match (indexed p.enum.values).find? (fun jw => decide (jw.2.number = pv.number ∧ jw.2.name = iw.2.name)) with
           | some jw => agAt p.file p.locs [p.path ++ [2, jw.1, 2]]
           | none => none⟩

def ruleReservedEnumNoDeleteT (cur prev : Schema) : List TAnn :=
  enumPairsG cur prev fun c p => tag (enumAg p) (
    (p.enum.reservedRanges.flatMap fun r =>
      if rangeMissing c.enum.reservedRanges r then [enumLoc c "RESERVED_ENUM_NO_DELETE"] else []) ++
    (p.enum.reservedNames.flatMap fun n =>
      if n ∈ c.enum.reservedNames then [] else [enumLoc c "RESERVED_ENUM_NO_DELETE"]))

def fieldNoDeleteT (rule : String) (allowNumber allowName : Bool) (cur prev : Schema) : List TAnn :=
  msgPairsG cur prev fun c p => tag (msgAg p) (
    p.info.fields.flatMap fun pf =>
      if c.info.hasNumber pf.number then [] else
      if (allowNumber && numberReserved c.info.reservedRanges pf.number) ||
         (allowName && decide (pf.name ∈ c.info.reservedNames)) then []
      else [msgLoc c rule])

def ruleExtensionMessageNoDeleteT (cur prev : Schema) : List TAnn :=
  msgPairsG cur prev fun c p => tag (msgAg p) (
    p.info.extRanges.flatMap fun r =>
      if rangeMissing c.info.extRanges r then [msgLoc c "EXTENSION_MESSAGE_NO_DELETE"] else [])

def ruleMessageNoRemoveStdAccessorT (cur prev : Schema) : List TAnn :=
  msgPairsG cur prev fun c p => tag (agAt p.file p.locs [p.path ++ [7, 2]]) (
    if !p.info.noStdAccessor && c.info.noStdAccessor then
      [annAt "MESSAGE_NO_REMOVE_STANDARD_DESCRIPTOR_ACCESSOR" c.file c.locs [c.path ++ [7, 2]] c.file]
    else [])

def ruleOneofNoDeleteT (cur prev : Schema) : List TAnn :=
  msgPairsG cur prev fun c p => tag (msgAg p) (
    p.info.oneofs.flatMap fun po =>
      if po.name ∈ c.info.oneofs.map (·.name) then [] else
      if po.synthetic then [] else [msgLoc c "ONEOF_NO_DELETE"])

def ruleMessageSameJsonFormatT (cur prev : Schema) : List TAnn :=
  msgPairsG cur prev fun c p =>
    tag (agOpt p.file p.locs (optLoc p.locs (p.path ++ [7]) 12 [6]) ([p.path] ++ p.mapLoc.toList)) (
      if p.info.jsonAllow ∧ ¬ c.info.jsonAllow then
        [annOpt "MESSAGE_SAME_JSON_FORMAT" c.file c.locs (optLoc c.locs (c.path ++ [7]) 12 [6]) ([c.path] ++ c.mapLoc.toList) c.file]
      else [])

/-- a deleted required field: against = the previous message; an added one: no against location -/
def ruleMessageSameRequiredFieldsT (cur prev : Schema) : List TAnn :=
  msgPairsG cur prev fun c p =>
    tag (msgAg p) (p.info.requiredNumbers.flatMap fun n =>
      if n ∈ c.info.requiredNumbers then [] else [msgLoc c "MESSAGE_SAME_REQUIRED_FIELDS"]) ++
    tag none ((indexed c.info.fields).flatMap fun jf =>
      if jf.2.label = .required ∧ jf.2.number ∉ p.info.requiredNumbers then
        [annAt "MESSAGE_SAME_REQUIRED_FIELDS" c.file c.locs ([c.path ++ [2, jf.1]] ++ c.mapLoc.toList) c.file]
      else [])

def ruleReservedMessageNoDeleteT (cur prev : Schema) : List TAnn :=
  msgPairsG cur prev fun c p => tag (msgAg p) (
    (p.info.reservedRanges.flatMap fun r =>
      if rangeMissing c.info.reservedRanges r then [msgLoc c "RESERVED_MESSAGE_NO_DELETE"] else []) ++
    (p.info.reservedNames.flatMap fun n =>
      if n ∈ c.info.reservedNames then [] else [msgLoc c "RESERVED_MESSAGE_NO_DELETE"]))

def cardRuleT (rule : String) (grp : Card → Nat) (cur prev : Schema) : List TAnn :=
  fieldPairsG cur prev fun c p => tag (fieldAg p [p.path]) (
    if p.field.inMapEntry && c.field.inMapEntry then [] else
    if grp p.field.card ≠ grp c.field.card then [fieldAnn rule c [c.path]] else [])

/-- addFieldChangedType: `previousFieldLocation` by the PREVIOUS kind -/
def changedTypeAg (p : FlatField) : Option String :=
  fieldAg p [if p.field.kind.named then p.path ++ [6] else p.path ++ [5]]
/-- addEnumGroupMessageFieldChangedTypeName: `previousField.TypeNameLocation()` -/
def changedTypeNameAg (p : FlatField) : Option String := fieldAg p [p.path ++ [6]]

def ruleFieldSameTypeT (cur prev : Schema) : List TAnn :=
  fieldPairsG cur prev fun c p =>
    if p.field.kind ≠ c.field.kind then tag (changedTypeAg p) [changedTypeAnn "FIELD_SAME_TYPE" c]
    else if c.field.ty.named ∧ p.field.typeName ≠ c.field.typeName then
      tag (changedTypeNameAg p) [changedTypeNameAnn "FIELD_SAME_TYPE" c]
    else []

def ruleFieldWireCompatibleTypeT (cur prev : Schema) : List TAnn :=
  let rule := "FIELD_WIRE_COMPATIBLE_TYPE"
  fieldPairsG cur prev fun c p =>
    if p.field.kind.wireGroup ≠ c.field.kind.wireGroup then
      if p.field.kind = .string ∧ c.field.kind = .bytes then [] else tag (changedTypeAg p) [changedTypeAnn rule c]
    else if c.field.ty = .enum then
      if p.field.typeName ≠ c.field.typeName then tag (changedTypeNameAg p) (enumWireCompatible rule cur prev c p) else []
    else if c.field.ty = .group ∨ c.field.ty = .message then
      if p.field.typeName ≠ c.field.typeName then tag (changedTypeNameAg p) [changedTypeNameAnn rule c] else []
    else []

def ruleFieldWireJsonCompatibleTypeT (cur prev : Schema) : List TAnn :=
  let rule := "FIELD_WIRE_JSON_COMPATIBLE_TYPE"
  fieldPairsG cur prev fun c p =>
    if p.field.kind.wireJsonGroup ≠ c.field.kind.wireJsonGroup then tag (changedTypeAg p) [changedTypeAnn rule c]
    else if c.field.kind = .enum then
      if p.field.typeName ≠ c.field.typeName then tag (changedTypeNameAg p) (enumWireCompatible rule cur prev c p) else []
    else if c.field.kind = .group ∨ c.field.kind = .message then
      if p.field.typeName ≠ c.field.typeName then tag (changedTypeNameAg p) [changedTypeNameAnn rule c] else []
    else []

def ruleFieldSameJstypeT (cur prev : Schema) : List TAnn :=
  fieldPairsG cur prev fun c p => tag (fieldAg p [p.path ++ [8, 6], p.path]) (
    if !p.field.ty.is64 || !c.field.ty.is64 then [] else
    if p.field.jstype ≠ c.field.jstype then
      [fieldAnn "FIELD_SAME_JSTYPE" c [c.path ++ [8, 6], c.path]] else [])

def ruleFieldSameUtf8ValidationT (cur prev : Schema) : List TAnn :=
  fieldPairsG cur prev fun c p =>
    tag (agOpt p.file p.locs (optLoc p.locs (p.path ++ [8]) 21 [4]) ([p.path] ++ p.mapLoc.toList)) (
      if p.field.kind ≠ .string ∨ c.field.kind ≠ .string then [] else
      if p.field.utf8 ≠ c.field.utf8 then
        [annOpt "FIELD_SAME_UTF8_VALIDATION" c.file c.locs (optLoc c.locs (c.path ++ [8]) 21 [4]) ([c.path] ++ c.mapLoc.toList) c.file]
      else [])

def ruleFieldSameJsonNameT (cur prev : Schema) : List TAnn :=
  fieldPairsG cur prev fun c p => tag (fieldAg p [p.path ++ [10], p.path]) (
    if p.field.extendee ≠ "" then [] else
    if p.field.jsonName ≠ c.field.jsonName then
      [fieldAnn "FIELD_SAME_JSON_NAME" c [c.path ++ [10], c.path]] else [])

def ruleFieldSameNameT (cur prev : Schema) : List TAnn :=
  fieldPairsG cur prev fun c p => tag (fieldAg p [p.path ++ [1]]) (
    let pn := if p.field.extendee ≠ "" then p.field.fullName else p.field.name
    let cn := if p.field.extendee ≠ "" then c.field.fullName else c.field.name
    if pn ≠ cn then [fieldAnn "FIELD_SAME_NAME" c [c.path ++ [1]]] else [])

def ruleFieldSameDefaultT (cur prev : Schema) : List TAnn :=
  fieldPairsG cur prev fun c p => tag (fieldAg p [p.path ++ [7], p.path]) (
    if !p.field.canHaveDefault || !c.field.canHaveDefault then [] else
    if p.field.dflt.isZero && c.field.dflt.isZero then [] else
    if !defaultsEqual p.field.dflt c.field.dflt then
      [fieldAnn "FIELD_SAME_DEFAULT" c [c.path ++ [7], c.path]] else [])

def ruleFieldSameOneofT (cur prev : Schema) : List TAnn :=
  fieldPairsG cur prev fun c p => tag (fieldAg p [p.path]) (
    if p.field.extendee ≠ "" then [] else
    match p.field.realOneof, c.field.realOneof with
    | none, none => []
    | some a, some b => if a ≠ b then [fieldAnn "FIELD_SAME_ONEOF" c [c.path]] else []
    | _, _ => [fieldAnn "FIELD_SAME_ONEOF" c [c.path]])

def ruleRpcNoDeleteT (cur prev : Schema) : List TAnn :=
  svcPairsG cur prev fun c p => tag (svcAg p) (
    p.svc.methods.flatMap fun pm =>
      if pm.name ∈ c.svc.methods.map (·.name) then [] else [svcLoc c "RPC_NO_DELETE"])

def methodSameT {β : Type} [DecidableEq β] (rule : String) (get : Method → β) (sub : List Nat) (cur prev : Schema) : List TAnn :=
  methodPairsG cur prev fun c p => tag (agAt p.file p.locs [p.path ++ sub]) (
    if get p.m ≠ get c.m then [annAt rule c.file c.locs [c.path ++ sub] c.file] else [])

/-- rule id ↦ tagged handler (same ids, same order as `ruleTable`) -/
def ruleTableT : List (String × (Schema → Schema → List TAnn)) := [
  ("ENUM_NO_DELETE", ruleEnumNoDeleteT),
  ("EXTENSION_NO_DELETE", ruleExtensionNoDeleteT),
  ("FILE_NO_DELETE", ruleFileNoDeleteT),
  ("MESSAGE_NO_DELETE", ruleMessageNoDeleteT),
  ("SERVICE_NO_DELETE", ruleServiceNoDeleteT),
  ("ENUM_SAME_TYPE", ruleEnumSameTypeT),
  ("ENUM_SAME_JSON_FORMAT", ruleEnumSameJsonFormatT),
  ("ENUM_VALUE_NO_DELETE", enumValueNoDeleteT "ENUM_VALUE_NO_DELETE" false false),
  ("ENUM_VALUE_NO_DELETE_UNLESS_NAME_RESERVED", enumValueNoDeleteT "ENUM_VALUE_NO_DELETE_UNLESS_NAME_RESERVED" false true),
  ("ENUM_VALUE_NO_DELETE_UNLESS_NUMBER_RESERVED", enumValueNoDeleteT "ENUM_VALUE_NO_DELETE_UNLESS_NUMBER_RESERVED" true false),
  ("ENUM_VALUE_SAME_NAME", ruleEnumValueSameNameT),
  ("RESERVED_ENUM_NO_DELETE", ruleReservedEnumNoDeleteT),
  ("EXTENSION_MESSAGE_NO_DELETE", ruleExtensionMessageNoDeleteT),
  ("FIELD_NO_DELETE", fieldNoDeleteT "FIELD_NO_DELETE" false false),
  ("FIELD_NO_DELETE_UNLESS_NAME_RESERVED", fieldNoDeleteT "FIELD_NO_DELETE_UNLESS_NAME_RESERVED" false true),
  ("FIELD_NO_DELETE_UNLESS_NUMBER_RESERVED", fieldNoDeleteT "FIELD_NO_DELETE_UNLESS_NUMBER_RESERVED" true false),
  ("MESSAGE_NO_REMOVE_STANDARD_DESCRIPTOR_ACCESSOR", ruleMessageNoRemoveStdAccessorT),
  ("ONEOF_NO_DELETE", ruleOneofNoDeleteT),
  ("MESSAGE_SAME_JSON_FORMAT", ruleMessageSameJsonFormatT),
  ("MESSAGE_SAME_REQUIRED_FIELDS", ruleMessageSameRequiredFieldsT),
  ("RESERVED_MESSAGE_NO_DELETE", ruleReservedMessageNoDeleteT),
  ("FIELD_SAME_CARDINALITY", cardRuleT "FIELD_SAME_CARDINALITY" (fun c => c.ctorIdx)),
  ("FIELD_WIRE_COMPATIBLE_CARDINALITY", cardRuleT "FIELD_WIRE_COMPATIBLE_CARDINALITY" Card.wireGroup),
  ("FIELD_WIRE_JSON_COMPATIBLE_CARDINALITY", cardRuleT "FIELD_WIRE_JSON_COMPATIBLE_CARDINALITY" Card.wireJsonGroup),
  ("FIELD_SAME_TYPE", ruleFieldSameTypeT),
  ("FIELD_WIRE_COMPATIBLE_TYPE", ruleFieldWireCompatibleTypeT),
  ("FIELD_WIRE_JSON_COMPATIBLE_TYPE", ruleFieldWireJsonCompatibleTypeT),
  ("FIELD_SAME_JSTYPE", ruleFieldSameJstypeT),
  ("FIELD_SAME_UTF8_VALIDATION", ruleFieldSameUtf8ValidationT),
  ("FIELD_SAME_JSON_NAME", ruleFieldSameJsonNameT),
  ("FIELD_SAME_NAME", ruleFieldSameNameT),
  ("FIELD_SAME_DEFAULT", ruleFieldSameDefaultT),
  ("FIELD_SAME_ONEOF", ruleFieldSameOneofT),
  ("RPC_NO_DELETE", ruleRpcNoDeleteT),
  ("RPC_SAME_CLIENT_STREAMING", methodSameT "RPC_SAME_CLIENT_STREAMING" (·.clientStreaming) []),
  ("RPC_SAME_SERVER_STREAMING", methodSameT "RPC_SAME_SERVER_STREAMING" (·.serverStreaming) []),
  ("RPC_SAME_IDEMPOTENCY_LEVEL", methodSameT "RPC_SAME_IDEMPOTENCY_LEVEL" (·.idempotency) [4, 34]),
  ("RPC_SAME_REQUEST_TYPE", methodSameT "RPC_SAME_REQUEST_TYPE" (·.input) [2]),
  ("RPC_SAME_RESPONSE_TYPE", methodSameT "RPC_SAME_RESPONSE_TYPE" (·.output) [3]),
  ("PACKAGE_ENUM_NO_DELETE", rulePackageEnumNoDeleteT),
  ("PACKAGE_EXTENSION_NO_DELETE", rulePackageExtensionNoDeleteT),
  ("PACKAGE_MESSAGE_NO_DELETE", rulePackageMessageNoDeleteT),
  ("PACKAGE_SERVICE_NO_DELETE", rulePackageServiceNoDeleteT),
  ("PACKAGE_NO_DELETE", rulePackageNoDeleteT),
  ("FILE_SAME_SYNTAX", ruleFileSameSyntaxT),
  ("FILE_SAME_PACKAGE", ruleFileSamePackageT)]

def runRuleT (id : String) (cur prev : Schema) : List TAnn :=
  match ruleTableT.lookup id with
  | some f => f cur prev
  | none =>
    match fileOptRules.lookup id with
    | some n => ruleFileSameOptionT id n cur prev
    | none => []

def checkT (v : Ver) (cat : String) (cur prev : Schema) : List TAnn :=
  (rulesOf v cat).flatMap fun id => runRuleT id cur prev

/-- `IsImport()` of the file with that path (`false` when there is no such file) -/
def impOf (s : Schema) (path : String) : Bool :=
  match s.find? (fun f => decide (f.path = path)) with
  | some f => f.isImport
  | none => false

/-- client.go ignoreAnnotation with config.ExcludeImports: the file location (if any) is in an
    import of the current image, or the against location (if any) is in an import of the previous -/
def dropped (cur prev : Schema) (t : TAnn) : Bool :=
  (t.ann.file != "" && impOf cur t.ann.file) ||
  (match t.against with
   | some g => impOf prev g
   | none => false)

def exclFilter (cur prev : Schema) (ts : List TAnn) : List Ann :=
  (ts.filter fun t => !dropped cur prev t).map (·.ann)

/-- one rule id alone, with / without `BreakingWithExcludeImports` -/
def runRuleX (excl : Bool) (id : String) (cur prev : Schema) : List Ann :=
  if excl then exclFilter cur prev (runRuleT id cur prev) else runRule id cur prev

/-- `bufcheck.Client.Breaking` for one category, with / without `BreakingWithExcludeImports` -/
def checkX (excl : Bool) (v : Ver) (cat : String) (cur prev : Schema) : List Ann :=
  if excl then exclFilter cur prev (checkT v cat cur prev) else check v cat cur prev

end BufModel.Breaking
