import BufModel.Digest
/-
  C08 — histories of digest computations inside one process.

  The model of `BufModel/Digest.lean` is a set of plain functions (`H c`, `moduleB5 H b deps`,
  `moduleB4 …`): there is no hasher object, no pool, no process state.  This file makes that
  explicit so that "a digest is a function of (path, content) pairs and dependency digests ONLY"
  can be stated over HISTORIES: a process performs a list of operations (healthy digest
  computations, and computations whose read fails after a prefix was absorbed); the answer of
  every operation is a function of that operation alone (`answer`), whatever the process state
  did meanwhile (`run` threads an arbitrary state `σ` with an arbitrary evolution `upd` along the
  history and never reads it).

  `Pooled` is NOT the model of the code: it is the documented counter-model of the regression
  Section H of the harness looks for (a reused hasher that is Reset only on the success path —
  `shake256.NewDigestForContent` over a `sync.Pool`, seed C08-m6).
-/
namespace BufModel.DigestHistory
open BufModel.Path BufModel.Manifest BufModel.Digest

/-- One operation of a process history. -/
inductive Op where
  /-- a healthy `shake256.NewDigestForContent` / `bufcas.NewDigestForContent` /
      `NewBlobForContent` over content `c` -/
  | content (c : Bytes)
  /-- such a computation whose reader failed after delivering (and the hasher absorbing) `absorbed` -/
  | contentFail (absorbed : Bytes)
  /-- a healthy `Module.Digest(b5)` over bucket `b` and dependency digests `deps` -/
  | b5 (b : Bucket) (deps : List MDigest)
  /-- a `Module.Digest(b5)` during which the read of file `path` failed after `k` bytes -/
  | b5Fail (b : Bucket) (deps : List MDigest) (path : Str) (k : Nat)

/-- What an operation answers. -/
inductive Ans where
  /-- the computation failed (a read error was reported): no digest -/
  | failed
  | digest (d : Digest)
  | mdigest (r : Except MErr MDigest)

/-- The answer of ONE operation: a function of the operation alone. -/
def answer (H : Bytes → Digest) : Op → Ans
  | .content c => .digest (H c)
  | .contentFail _ => .failed
  | .b5 b deps => .mdigest (moduleB5 H b deps)
  | .b5Fail _ _ _ _ => .failed

/-- Run a history from process state `s`.  `upd` is ANY evolution of ANY process state (pooled
    hashers, caches, counters, …): it is threaded along the history, and no answer reads it. -/
def run {σ : Type} (H : Bytes → Digest) (upd : σ → Op → σ) : σ → List Op → List Ans
  | _, [] => []
  | s, op :: rest => answer H op :: run H upd (upd s op) rest

/-- the stateless form the driver evaluates -/
def answers (H : Bytes → Digest) (ops : List Op) : List Ans := ops.map (answer H)

/-! ### Counter-model: a pooled hasher that is Reset on the success path only -/
namespace Pooled

/-- process state = what the pooled hasher has absorbed and not been reset from -/
abbrev State := Bytes

/-- `shakeHashPool.Get()`, absorb, squeeze, `Reset()` — but on an error return the hasher goes
    back into the pool as it is. -/
def step (H : Bytes → Digest) (left : State) : Op → State × Ans
  | .content c => ([], .digest (H (left ++ c)))
  | .contentFail absorbed => (left ++ absorbed, .failed)
  | .b5 b deps => (left, .mdigest (moduleB5 H b deps))   -- (file level not spelled out here)
  | .b5Fail _ _ _ _ => (left, .failed)

def run (H : Bytes → Digest) : State → List Op → List Ans
  | _, [] => []
  | s, op :: rest => (step H s op).2 :: run H (step H s op).1 rest

/-- the repaired shape (what HEAD does: a fresh / reset hasher at the START of every call) -/
def stepResetFirst (H : Bytes → Digest) (_left : State) : Op → State × Ans
  | .content c => ([], .digest (H ([] ++ c)))
  | .contentFail absorbed => ([] ++ absorbed, .failed)
  | .b5 b deps => ([], .mdigest (moduleB5 H b deps))
  | .b5Fail _ _ _ _ => ([], .failed)

def runResetFirst (H : Bytes → Digest) : State → List Op → List Ans
  | _, [] => []
  | s, op :: rest => (stepResetFirst H s op).2 :: runResetFirst H (stepResetFirst H s op).1 rest

end Pooled

end BufModel.DigestHistory
