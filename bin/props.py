# Per-property configuration of bin/check.  One entry per claimed property.
#   harness   : cmd under harness/cmd built from /repo's working tree (-tags verif)
#   protocol  : first argument of the Lean driver (lean/Driver/Main.lean)
#   gen       : table generators whose stdout is written to lean/<out> before `lake build`
#   stateful  : correspondence lines are operation histories (counted as traces validated)
COMMON_TB = [
    "hand-written Lean model in /verif/lean/BufModel (models the code; nothing in /repo is verified directly)",
    "correspondence harness /verif/harness (Go, built against /repo's working tree) + line diff in bin/check",
    "Lean compiler for the bufmodel executable (correspondence leg only)",
]

PROPS = {
    "C13": {
        "harness": "c13", "protocol": "c13", "level": "proof", "stateful": True,
        "rule": "Section A: every string over {a,b,.,/} up to length 6 (quick) / 8 (thorough) through clean/validate/dir/base/components, all pairs of strings of length<=3 and random long pairs (spaces, unicode, dotted names) through join/rel/equalsOrContains/stripComponents. Section B: random operation histories with hostile spellings through 0-3 nested prefix/filter views over a memory parent and a disk parent with sentinels outside every root. A line is non-trivial when the path is changed by normalisation / the history has at least one successful op; distinct = distinct protocol lines.",
        "trusted_base": COMMON_TB + ["Go's path/filepath.Clean/Rel/Split are re-modelled in Lean and tied by exhaustive correspondence",
                                     "symlink resolution (filepathext.RealClean/EvalSymlinks) and normalpath_windows.go are not modelled"],
        "assumptions": ["strings are valid UTF-8", "disk parent: stored path sets are kept prefix-free by the generator", "no symlinks inside bucket roots"],
    },
    "C14": {
        "harness": "c14", "protocol": "c14", "level": "proof", "stateful": True,
        "rule": "random operation histories (6-20 ops) over 1-3 base buckets (memory or disk) and one composite read bucket built from them by MapReadBucket/FilterReadBucket/MultiReadBucket/OverlayReadBucket (random nesting, depth<=3): put (empty, 64KiB, 1MiB, atomic or not), delete, delete-all and walk on file/dir/''/'.'/string-prefix-but-not-path-prefix arguments, get/stat aimed at visible objects 2/3 of the time, copy via storage.Copy / Tar+Untar / Zip+Unzip. Non-trivial: at least one get/walk/copy returned data; distinct = distinct protocol lines.",
        "trusted_base": COMMON_TB + ["disk bucket modelled by the same map under the prefix-free hypothesis (generator keeps disk path sets prefix-free; conflicting ops are skipped and counted)",
                                     "archive/tar and klauspost zip codecs are library parameters (round trip exercised, not proved)"],
        "assumptions": ["strings are valid UTF-8", "ExternalPath/LocalPath bookkeeping is not compared", "copying a bucket onto itself is excluded"],
    },
    "C15": {
        "harness": "c15", "protocol": "c15", "level": "proof", "stateful": True,
        "extra_cmds": ["c15facts"],
        "gen": [{"cmd": ["c15facts"], "out": "BufGen/AstFacts.lean"}],
        "rule": "Part A: for each generated operation (PutPath, CopyReader, CopyPath, Copy with parallelism 1/4/16 and atomic on/off, Untar, Unzip; memory or disk destination; small, empty and multi-chunk contents; hostile archive names) a fault-free traced run, then one run per primitive of the trace (Put / i-th Write / Close of each object) with that primitive failing, plus all pairs (bounded at 120 per op; unbounded in thorough for short traces). Breadth (oracle only): Tar/Zip into an io.Writer failing at each write, buf.yaml/buf.lock writers, ForWriteObject, CopyReadObject at each primitive. Part B: atomic puts on disk: a child process SIGKILLs itself after each step (before put, after temp creation, after each write, before rename, after rename) for generated old/new contents and paths; rename onto a non-empty directory. Every line is non-trivial (a fault or a kill point); distinct = distinct protocol lines.",
        "trusted_base": COMMON_TB + ["go/ast fact extractor harness/cmd/c15facts (defer/errors.Join shapes of 8 storage helpers -> lean/BufGen/AstFacts.lean, regenerated every run)",
                                     "fault-injecting WriteBucket wrapper in the harness (its semantics are the ones stated in BufModel/Faults.lean)",
                                     "OS rename(2) atomicity and page-cache visibility after SIGKILL are assumed, exercised by the kill campaign"],
        "assumptions": ["no fsync: power-loss durability is out of scope (neither code nor model syncs)", "faults are injected at the storage.WriteBucket interface, not inside the kernel"],
    },
    "C19": {
        "harness": "c19", "protocol": "c19", "level": "proof", "stateful": False,
        "rule": "Section A: every BUF_TOKEN string over {t,u,h,g,@,',',:} up to length 6 (quick) / 7 (thorough), plus every string of length 7 (quick) / 8 (thorough) over {t,h,@,',',:}, and random longer strings built from token/host atoms (empty parts, extra '@', ':' in tokens, repeated hosts, ports), through NewTokenProviderFromString / NewTokenProviderFromContainer; RemoteToken is asked for 6 fixed hosts plus every piece of the string. Section B: generated .netrc files (0-4 machines, optional default entry anywhere, optional login, either field order, one-line and multi-line layouts) written to disk and read through the real netrc token provider for every machine name plus 5 other hosts. Section K: 11 fixed .netrc files with a value spelled like a keyword. Section C: the real authorization interceptor with 1-4 providers (static + netrc) invoked on a connect request for 8 hosts. Section D: bufcli.NewConnectClientConfig (BUF_TOKEN, NETRC) -> connectclient.Make -> unary call against 3 loopback HTTP servers; the Authorization header each server received and the AuthError attribution are compared. A line is non-trivial when the token string has a separator (A), the file has an entry (B/K), or a header was sent (C/D); distinct = distinct protocol lines.",
        "trusted_base": COMMON_TB + ["jdx/go-netrc's LEXER is not modelled (the model starts from the token list; the harness builds files as alternating word/whitespace tokens without '#' comments, and the correspondence would show a disagreement if the lexer split them differently); its grouping parser, Machine() and Get() ARE modelled",
                                     "the error class of newTokenProviderFromString is read off the fixed part of the error message (the package has no sentinel errors)",
                                     "net/http, connect-go and otelconnect are exercised by section D but not modelled; the model's request 'host' is the address given to connectclient.Make"],
        "assumptions": ["strings are valid UTF-8", "the TLS/address-mapper part of connectclient_config.go only rewrites the URL scheme (checked in section D by the Host the loopback server sees, not proved)",
                        ".netrc theorems about file contents (netrc_plain_exact_or_default) cover the one-line spelling written by `buf registry login`; other layouts are covered at the machine-list level (netrc_exact_or_default) and by correspondence"],
    },
    "C09": {
        "harness": "c09", "protocol": "c09", "level": "proof", "stateful": True,
        "rule": "per generated module pair (dep + main importing it; 1-5 .proto files, optional LICENSE/buf.md, optional v1 buf.yaml/buf.lock side files): (1) every prefix of the real store's primitive trace materialised as a crash state, loaded by the real reader and judged by the model, then repaired by a further store; (2) every single failing Put/Write/Close of the store (pairs in thorough); (3) every single-file flip/truncate/delete/rename, 5 added files, 5 marker corruptions of a complete entry; (4) tar layout: absent, garbage, truncated at 3 offsets, flipped/removed inner files; (5) 2-4 goroutines x 3 rounds of store+load on a disk bucket with the real file locker and seeded yields at the verif hook points; (6) the cache provider over a sound and a write-dropping store. Non-trivial: the load is not a plain miss; distinct = distinct protocol lines.",
        "trusted_base": COMMON_TB + ["marker bytes are abstracted to canonical / other-deps / invalid by byte comparison in the harness",
                                     "archive/tar decoding of truncated archives is taken from the library (storagearchive.Untar probe)",
                                     "crash states are materialised with os.Create semantics for plain puts and all-or-nothing for atomic puts (the latter is C15's theorem + kill campaign)"],
        "assumptions": ["SHAKE256 collision resistance", "flock gives mutual exclusion between processes", "only b5 module keys", "read-then-hash of one ModuleData is treated as one snapshot"],
    },
    "C02": {
        "harness": "c02", "protocol": "c02", "level": "proof", "stateful": False,
        "timeout_quick": 600,
        "rule": "Part A: random job lists (0-8 jobs, each failing with probability 1/5) through the real thread.Parallelize with/without cancel-on-failure under parallelism 1/2/4/16 and seeded yields/delays at the verif hook points; verdict compared with the model. Part B (exploration): generated 1-4-module workspaces (cross-module imports, WKT imports, unsorted imports, lint violations, LICENSE/README) built in-process; image bytes, image file order/flags, lint, breaking-vs-self, format, ls-files, b5 digests and the dependency graph compared between the default run and 6 variations (12 in thorough) of GOMAXPROCS, parallelism, hook yields, storage walk order and module listing order. Part C: the real buf binary (build -o -, lint json, ls-files, format -d, json build, --path in both orders) under GOMAXPROCS unset/1/2/16. Non-trivial: a job fails (A); every B/C comparison counts as one evaluation; distinct = distinct (workspace, variation) pairs.",
        "trusted_base": COMMON_TB + ["real goroutine schedules are sampled (GOMAXPROCS, parallelism, hook yields), not enumerated; protocompile's internal parallelism is exercised, not modelled",
                                     "order-independence of the logic is proved per model (this file gathers the theorems); data-race freedom is not proved"],
        "assumptions": ["the Go scheduler can only reorder job completions and delay cancellation visibility", "byte equality of outputs across variations is the determinism observable"],
    },
    "C18": {
        "harness": "c18", "protocol": "c18", "level": "proof", "stateful": False,
        "rule": "One line = one image (1-3 generated .proto files compiled in-process with protocompile in buf's source-info mode plus the WKT files they import, or hand-built descriptors with arbitrary packages / pre-set options / unknown fields / malformed source-info lists, incl. files at WKT paths) x one managed config (enabled/disabled, 0-4 disable and 0-6 override rules over path/module/file option/field option/field; 50% through the exported constructors, 30% rendered as buf.gen.yaml v2 and 20% as v1 text parsed by bufconfig's reader) x preserve-existing flag, through bufimagemodify.Modify; descriptors diffed before/after by a proto reflection walk; the changed (file, option)=value pairs and the removed source-info location indices are compared with the Lean model. Helper lines tie datawkt.Exists, stringutil.ToPascalCase and protoversion.NewPackageVersionForPackage. A line is non-trivial when something changed or Modify returned an error; distinct = distinct protocol lines.",
        "trusted_base": COMMON_TB + ["protocompile (source -> descriptor + source info) is only a generator of inputs here",
                                     "the harness's own descriptor walk (field full names and SourceCodeInfo paths) and reflection diff",
                                     "casing helpers are modelled on ASCII; Go's path.Join/path.Dir are taken to equal the normalpath model of C13"],
        "assumptions": ["package names have no empty dot-separated component (objcClassPrefixValue indexes the first rune of each)",
                        "package and file names are ASCII where the casing helpers look at them",
                        "override rules are built by bufconfig's constructors (value type matches the option)"],
    },
    "C08": {
        "harness": "c08", "protocol": "c08", "level": "proof", "stateful": False,
        "gen": [{"cmd": ["c08", "gen-consts"], "out": "BufGen/ConstsC08.lean"}],
        "rule": "Section M: generated file-node sets (paths with spaces incl. double spaces, unicode, dots, hostile spellings, duplicates) through NewFileNode/NewManifest/String/ParseManifest, plus mutated manifest and file-node texts through the parsers. Section D: generated file sets (module files, doc/license variants, extra non-module files, arbitrary bytes, empty files; all subsets of a 6-path alphabet) with dependency digest sets through Module.Digest(b5/b4); each case is re-evaluated on memory / disk / tar round trip / shuffled-walk buckets, under name, commit, targeting and non-module-file changes (must be equal) and under single-byte, single-path and single-dependency perturbations (must differ), and compared with an independent SHAKE256 recomputation of the published construction. Section G: module sets of local modules importing each other and remote modules with pinned dependency keys. A line is non-trivial when the manifest has >= 2 nodes / the text is a parser input / the file set has a module file and also a non-module file or a dependency; distinct = distinct protocol lines.",
        "trusted_base": COMMON_TB + ["SHAKE256 (golang.org/x/crypto/sha3) is a parameter H of the model; the driver receives H as a table computed by the harness; collision resistance is a hypothesis of the sensitivity theorems, not proved",
                                     "Go string order = code point order on valid UTF-8 (paths are valid UTF-8; file contents are arbitrary bytes)",
                                     "translator `c08 gen-consts` (go/ast over bufmodule/paths.go) regenerates lean/BufGen/ConstsC08.lean",
                                     "import resolution of local modules (Module.ModuleDeps) is an input of the module-graph model (modelled under C10)"],
        "assumptions": ["paths are valid UTF-8", "H does not collide on the inputs compared (sensitivity theorems only)", "a bucket is a path -> bytes map (unique paths); no path contains U+000A (known finding otherwise)"],
    },
    "C06": {
        "harness": "c06", "protocol": "c06", "level": "proof", "stateful": False,
        "extra_cmds": ["c06gen"],
        "gen": [{"cmd": ["c06gen"], "out": "BufGen/RuleTables.lean"}],
        "rule": "Section A: Client.ConfiguredRules under generated check configurations (0-4 use / 0-3 except / 0-2 ignore_only entries drawn from the live rule ids of the type, the live categories, deprecated ids, ids of the other type, unknown and blank ids; good, string-prefix-trap, unnormalised and invalid ignore paths; v1beta1/v1/v2; through bufconfig.NewEnabledCheckConfig and raw) vs the Lean newRulesConfig over the regenerated tables. Sections B/C: Client.Lint / Client.Breaking on images compiled in-process from generated sources (two directories, import-only file, WKT import, unstable package, buf:lint:ignore comments in 10 spellings on every enclosing level) under generated configurations, vs the model fed with the single-rule annotation sets measured at the check.Client level. A line is non-trivial when the configuration is rejected, selects a non-default rule set, or reports at least one annotation; distinct = distinct protocol lines.",
        "trusted_base": COMMON_TB + ["rule HANDLERS are not modelled: the model is fed, per image, what each rule reports when run alone (measured on the implementation; the harness cross-checks the measurement against bufcheck.Client runs of use=[rule])",
                                     "translator harness/cmd/c06gen (prints check.NewClientForSpec(spec).ListRules/ListCategories as Lean literals)",
                                     "protoversion (stable / unstable package) and protobuf-go SourceLocations.ByPath are parameters of the model",
                                     "bufanalysis dedup: SHA-256 taken as injective on the concatenated key"],
        "assumptions": ["no check plugins configured (builtin rules only)", "lint options other than allow_comment_ignores at their defaults", "strings are valid UTF-8"],
    },
    "C17": {
        "harness": "c17", "protocol": "c17", "level": "proof", "stateful": False,
        "rule": "Section A: generated images (1-9 files over 1-4 directories, imports shared between directories, WKT imports, import-only and unreachable imports, sometimes unordered/cyclic/with a dependency outside the image) x 3 of the 8 plugin configs (strategy all/directory, include_imports, include_wkt) through the real ImageByDir + ImagesToCodeGeneratorRequests (and bufprotoplugin.Generator with a recording handler); file_to_generate / proto_file (+stripped flag) / source_file_descriptors per request compared with the model. Section B: 1-4 scripted plugin responses (hostile names, insertion points, duplicates, aliasing out directories) applied as bufgen.generateCode does (ValidatePluginResponses, bufprotopluginos.ResponseWriter) in a scratch tree with sentinels; error class / written files compared with the model. Section C: whole bufgen.Generator with the harness re-executed as plugin. A line is non-trivial when there are >=2 requests or include_imports is set (A) / at least one file is written or an error other than a plain path error occurs (B); distinct = distinct protocol lines.",
        "trusted_base": COMMON_TB + ["protoplugin (request validation, response merging), protobuf-go, protopluginutil.StripSourceRetentionOptions are libraries: only which descriptors are stripped is modelled",
                                     "image files are valid (ValidateProtoPath: normalised, .proto) with unique paths (NewImage); checked by the harness on every run",
                                     ".jar/.zip outs, type filters (C12), remote plugins, and disk-level failures of the final flush (C15) are not modelled"],
        "assumptions": ["strings are valid UTF-8", "response side: generated output names are prefix-free (no name is both a file and a directory)", "no symlinks inside out directories"],
    },
    "C12": {
        "harness": "c12", "protocol": "c12", "level": "proof", "stateful": False,
        "rule": "Witness workspaces of the recorded defects first, then generated workspaces (2-6 files: nested types, maps, oneofs, proto3 optional, proto2 groups/extension ranges/extensions, custom options with Any payloads, public imports, type-less files, services sharing request/response types, target + non-target module, a comment on every element) x 8 generated filters each (message/enum/service/method/extension/package names as include and/or exclude, missing names, option flags, in-place or copying).  One protocol line per (image, filter): the model must reproduce error classes or the link verdict, kept elements per file, dependency lists and every remapped source location with its comment tag.  A line is non-trivial when the filter succeeded with a non-empty image; distinct = distinct protocol lines.",
        "trusted_base": COMMON_TB + ["image -> abstract element graph translator in harness/cmd/c12/extract.go (names interned, references resolved, option uses and Any payloads read through protoreflect)",
                                     "protocompile / buf image builder produce the descriptors; protodesc.NewFiles is the reference for 'links'",
                                     "Go map iteration order is not modelled: includes are visited in sorted order and addExtensions over a snapshot; workspaces where that could matter are detected statically and left to the oracle"],
        "assumptions": ["images are well-formed (every reference resolves inside the image)", "no weak imports"],
    },
}
