#!/bin/sh
# setup_cmd: regenerate the BufGen tables from /repo, build the Lean project (models, proofs,
# driver) and warm the Go build cache.
cd "$(dirname "$0")/.."
export GOPROXY=off GOFLAGS=-mod=mod
mkdir -p build work evidence replay
cp /repo/go.sum harness/go.sum
bin/gen_all || echo "gen_all reported a problem (checks will report it again)"
( cd lean && lake build ) || echo "lake build reported a problem (checks will report it per property)"
( cd harness && for d in cmd/*/; do go build -tags verif -o ../build/$(basename $d) ./$d || echo "build of $d failed"; done )
echo setup-ok
