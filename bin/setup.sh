#!/bin/sh
# setup_cmd: build the Lean project (models, proofs, driver) and warm the Go build cache.
set -e
cd "$(dirname "$0")/.."
export GOPROXY=off GOFLAGS=-mod=mod
( cd lean && lake build )
cp /repo/go.sum harness/go.sum
mkdir -p build work evidence replay
( cd harness && for d in cmd/*/; do go build -tags verif -o ../build/$(basename $d) ./$d; done )
echo setup-ok
