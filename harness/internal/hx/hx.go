// Package hx holds what every property harness shares: the PRNG, the case/oracle
// writers for the line protocol, and the stats file that bin/check turns into evidence.
package hx

import (
	"bufio"
	"crypto/sha256"
	"encoding/hex"
	"encoding/json"
	"flag"
	"fmt"
	"os"
	"path/filepath"
	"sort"
	"strconv"
	"strings"
)

// Rand is splitmix64; every random choice of a run derives from one seed.
type Rand struct{ s uint64 }

func NewRand(seed uint64) *Rand { return &Rand{s: seed} }

func (r *Rand) Uint64() uint64 {
	r.s += 0x9e3779b97f4a7c15
	z := r.s
	z = (z ^ (z >> 30)) * 0xbf58476d1ce4e5b9
	z = (z ^ (z >> 27)) * 0x94d049bb133111eb
	return z ^ (z >> 31)
}

// Intn returns a value in [0,n).
func (r *Rand) Intn(n int) int {
	if n <= 0 {
		return 0
	}
	return int(r.Uint64() % uint64(n))
}

func (r *Rand) Bool() bool { return r.Uint64()&1 == 1 }

// Chance returns true with probability num/den.
func (r *Rand) Chance(num, den int) bool { return r.Intn(den) < num }

// Fork derives an independent generator (for case i, so a case can be regenerated alone).
func (r *Rand) Fork(i uint64) *Rand {
	return NewRand(r.s ^ (i+1)*0xd6e8feb86659fd93)
}

func Pick[T any](r *Rand, xs []T) T { return xs[r.Intn(len(xs))] }

func Shuffle[T any](r *Rand, xs []T) {
	for i := len(xs) - 1; i > 0; i-- {
		j := r.Intn(i + 1)
		xs[i], xs[j] = xs[j], xs[i]
	}
}

// Enc hex-encodes an arbitrary string for the line protocol ("-" = empty).
func Enc(s string) string {
	if s == "" {
		return "-"
	}
	return hex.EncodeToString([]byte(s))
}

func Dec(s string) string {
	if s == "-" {
		return ""
	}
	b, err := hex.DecodeString(s)
	if err != nil {
		panic(err)
	}
	return string(b)
}

// OracleFailure is a violation of the property's own statement observed on the implementation.
type OracleFailure struct {
	Class  string `json:"class"`  // stable class used to match known_findings.json
	What   string `json:"what"`   // human text
	Input  any    `json:"input"`  // the concrete failing input / history
	Replay string `json:"replay"` // how to re-run just this input
}

// Run is one harness run.
type Run struct {
	Prop   string
	Seed   uint64
	Tier   string
	OutDir string
	Only   int
	Args   []string

	in, impl  *bufio.Writer
	fin, fimp *os.File
	n         int
	distinct  map[[8]byte]struct{}
	counters  map[string]int
	samples   []any
	failures  []OracleFailure
	perClass  map[string]int
	extra     map[string]any
	maxSample int
}

// Start parses the common flags and opens the output files.
func Start(prop string) *Run {
	seed := flag.Uint64("seed", 1, "PRNG seed")
	tier := flag.String("tier", "quick", "quick|thorough")
	out := flag.String("out", "", "output directory")
	only := flag.Int("only", -1, "regenerate only this case index")
	flag.Parse()
	if *out == "" {
		fmt.Fprintln(os.Stderr, "need --out")
		os.Exit(2)
	}
	if err := os.MkdirAll(*out, 0o755); err != nil {
		panic(err)
	}
	r := &Run{Prop: prop, Seed: *seed, Tier: *tier, OutDir: *out, Only: *only, Args: flag.Args(),
		distinct: map[[8]byte]struct{}{}, counters: map[string]int{}, extra: map[string]any{}, maxSample: 6}
	var err error
	r.fin, err = os.Create(filepath.Join(*out, "in.txt"))
	if err != nil {
		panic(err)
	}
	r.fimp, err = os.Create(filepath.Join(*out, "impl.txt"))
	if err != nil {
		panic(err)
	}
	r.in = bufio.NewWriterSize(r.fin, 1<<20)
	r.impl = bufio.NewWriterSize(r.fimp, 1<<20)
	return r
}

func (r *Run) Thorough() bool { return r.Tier == "thorough" }

// N picks a size by tier.
func (r *Run) N(quick, thorough int) int {
	if r.Thorough() {
		return thorough
	}
	return quick
}

// Case records one line for the model (input) and the implementation's canonical answer.
// nontrivial marks the case as exercising a non-trivial branch (the per-property rule).
func (r *Run) Case(input string, implOut string, nontrivial bool) {
	if strings.ContainsAny(input, "\n\r") || strings.ContainsAny(implOut, "\n\r") {
		panic("newline in protocol line: " + strconv.Quote(input) + " / " + strconv.Quote(implOut))
	}
	r.in.WriteString(input)
	r.in.WriteByte('\n')
	r.impl.WriteString(implOut)
	r.impl.WriteByte('\n')
	r.n++
	if nontrivial {
		h := sha256.Sum256([]byte(input))
		var k [8]byte
		copy(k[:], h[:8])
		r.distinct[k] = struct{}{}
	}
}

// Count bumps a distribution counter (sizes, branches, error kinds, ...).
func (r *Run) Count(key string) { r.counters[key]++ }

func (r *Run) CountN(key string, n int) { r.counters[key] += n }

// Sample keeps a few concrete cases for the evidence file.
func (r *Run) Sample(v any) {
	if len(r.samples) < r.maxSample {
		r.samples = append(r.samples, v)
	}
}

// Distinct registers a distinct non-trivial case not tied to a protocol line.
func (r *Run) Distinct(key string) {
	h := sha256.Sum256([]byte(key))
	var k [8]byte
	copy(k[:], h[:8])
	r.distinct[k] = struct{}{}
}

// Eval counts an evaluation that has no protocol line (oracle-only case).
func (r *Run) Eval() { r.counters["_oracle_only_evaluations"]++ }

func (r *Run) Set(key string, v any) { r.extra[key] = v }

// Fail records an oracle failure.
func (r *Run) Fail(f OracleFailure) {
	// Keep at most 8 failures per class (and 400 in all): a recorded finding that fires on every
	// case must not crowd a NEW class raised late in the run out of oracle.json.
	if r.perClass == nil {
		r.perClass = map[string]int{}
	}
	r.perClass[f.Class]++
	if r.perClass[f.Class] <= 8 && len(r.failures) < 400 {
		r.failures = append(r.failures, f)
	}
	r.counters["_oracle_failures"]++
	r.counters["_oracle_failures:"+f.Class]++
}

// Finish flushes everything and writes stats.json and oracle.json.
func (r *Run) Finish() {
	r.in.Flush()
	r.impl.Flush()
	r.fin.Close()
	r.fimp.Close()
	keys := make([]string, 0, len(r.counters))
	for k := range r.counters {
		keys = append(keys, k)
	}
	sort.Strings(keys)
	dist := map[string]int{}
	for _, k := range keys {
		dist[k] = r.counters[k]
	}
	stats := map[string]any{
		"property":            r.Prop,
		"seed":                r.Seed,
		"tier":                r.Tier,
		"lines":               r.n,
		"evaluations":         r.n + r.counters["_oracle_only_evaluations"],
		"distinct_nontrivial": len(r.distinct),
		"distribution":        dist,
		"samples":             r.samples,
		"extra":               r.extra,
	}
	writeJSON(filepath.Join(r.OutDir, "stats.json"), stats)
	if r.failures == nil {
		r.failures = []OracleFailure{}
	}
	writeJSON(filepath.Join(r.OutDir, "oracle.json"), r.failures)
}

func writeJSON(path string, v any) {
	b, err := json.MarshalIndent(v, "", " ")
	if err != nil {
		panic(err)
	}
	if err := os.WriteFile(path, b, 0o644); err != nil {
		panic(err)
	}
}
