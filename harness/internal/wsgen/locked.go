package wsgen

// Locked workspaces: the part of bufworkspace that collects the REMOTE modules pinned in buf.lock
// files and decides which local modules are targets for a given input.
//
//   - v1: buf.work.yaml + one v1 buf.yaml AND one v1 buf.lock (B4 digests, some pins without a
//     digest) per module directory.  A module's lock pins the remote modules its own files import
//     (plus their remote closure), as `buf mod update` inside that module would: a remote module
//     needed by a local SIBLING is pinned only in the sibling's lock.  Two locks may pin different
//     commits of one remote module (newest create time wins), a lock may pin a name a local
//     module of the workspace has (local wins), carry unused pins, or miss a pin another lock has.
//   - v2: one buf.yaml + one top-level buf.lock (B5 digests).
//
// The workspace is read exactly as the CLI does: buffetch.RefParser.GetRef on the input string,
// buffetch.Reader.GetSourceReadBucketCloser (controlling-workspace search, sub-dir and path
// mapping) and bufworkspace.WorkspaceProvider.GetWorkspaceForBucket.  Inputs: the workspace
// root, one module directory, a directory holding several modules, a single .proto file
// (proto-file ref, with and without include_package_files), each optionally with --path /
// --exclude-path, and a directory strictly inside a module (which buf must refuse).
//
// WS.Added is the module set the workspace MEANS: for every module directory in buf.work.yaml
// order the pins of its buf.lock (never targets) followed by the local module, with the target
// flag / target paths the input selects.  The Lean model and the Go oracle both start from it, so
// an implementation that honours fewer locks, or targets other modules, disagrees.

import (
	"context"
	"fmt"
	"net/http"
	"os"
	"path/filepath"
	"sort"
	"strings"

	"github.com/bufbuild/buf/private/buf/buffetch"
	"github.com/bufbuild/buf/private/buf/bufworkspace"
	"github.com/bufbuild/buf/private/bufpkg/bufmodule"
	"github.com/bufbuild/buf/private/bufpkg/bufplugin"
	"github.com/bufbuild/buf/private/pkg/app"
	"github.com/bufbuild/buf/private/pkg/git"
	"github.com/bufbuild/buf/private/pkg/httpauth"
	"github.com/bufbuild/buf/private/pkg/slogext"
	"github.com/bufbuild/buf/private/pkg/storage/storageos"
	"github.com/bufbuild/buf/private/pkg/uuidutil"
	"github.com/bufbuild/verifharness/internal/hx"
)

// Input is what the user points buf at (locked workspaces).
type Input struct {
	Kind       string // "root" | "module" | "parent" | "protofile" | "subdir"
	Dir        string // directory inputs: relative to the workspace root ("." = the root)
	ProtoFile  string // protofile: the file, relative to the workspace root
	IncludePkg bool
	// WantErr: the input directory lies strictly inside a module; buf refuses such an input
	// ("… is contained by module at path …"), there is no module set to compare.
	WantErr bool
}

var lockedDirNames = []string{"api", "api-internal", "apiv2", "proto", "proto2", "d", "d1", "d10", "lib", "lib.old", "api_internal"}

func (in *Input) String() string {
	if in == nil {
		return "root"
	}
	return in.Kind
}

type lockedRemote struct {
	name    string
	commits []Added // commits[c].Commit == c+1
}

// GenLocked generates one locked workspace (o.Kind "v1" or "v2").
func GenLocked(r *hx.Rand, o Opts) *WS {
	ws := &WS{Kind: o.Kind, Locked: true, NoDigest: map[string]bool{}}
	v1 := o.Kind == "v1"
	if o.MaxMods <= 0 {
		o.MaxMods = 4
	}
	fileCounter := 0
	nextFile := func(prefix string) string {
		fileCounter++
		return fmt.Sprintf("%s%d.proto", prefix, fileCounter-1)
	}
	synOf := func() int {
		switch r.Intn(8) {
		case 0:
			return SynProto2
		case 1:
			return SynNone
		case 2:
			return SynEdition
		}
		return SynProto3
	}
	join := func(dir, name string) string {
		if dir == "" {
			return name
		}
		return dir + "/" + name
	}

	// ---- the remote pool: 0-3 names, 1-3 commits each, remote files import earlier remote files
	nRemote := 1 + r.Intn(3)
	if r.Chance(1, 10) {
		nRemote = 0
	}
	var pool []lockedRemote
	type rfile struct {
		k    int
		path string
	}
	var rfiles []rfile
	usedTimes := map[int64]bool{}
	newTime := func() int64 {
		for {
			t := 1700000000 + int64(r.Intn(2000))*10
			if !usedTimes[t] {
				usedTimes[t] = true
				return t
			}
		}
	}
	for k := 0; k < nRemote; k++ {
		base := Added{Name: fmt.Sprintf("buf.test/acme/r%d", (k*3+1)%7), Commit: 1, CTime: newTime()}
		nFiles := 1 + r.Intn(3)
		for j := 0; j < nFiles; j++ {
			dir := hx.Pick(r, []string{"a", "a/b", "x/y/z", "", fmt.Sprintf("r%d", k), fmt.Sprintf("r%d", k)})
			f := File{Path: join(dir, nextFile("g")), Syntax: synOf()}
			seen := map[string]bool{f.Path: true}
			for n := r.Intn(3); n > 0; n-- {
				var imp Imp
				switch {
				case r.Chance(1, 6):
					imp.Path = hx.Pick(r, wktPaths)
				case len(rfiles) > 0:
					imp.Path = hx.Pick(r, rfiles).path
				default:
					continue
				}
				if seen[imp.Path] {
					continue
				}
				seen[imp.Path] = true
				imp.Unused = r.Chance(1, 5)
				imp.Public = !imp.Unused && r.Chance(1, 8)
				f.Imports = append(f.Imports, imp)
			}
			base.Files = append(base.Files, f)
			rfiles = append(rfiles, rfile{k, f.Path})
		}
		rem := lockedRemote{name: base.Name, commits: []Added{base}}
		if r.Chance(3, 5) {
			for c, n := 2, 1+r.Intn(2); n > 0; c, n = c+1, n-1 {
				d := Added{Name: base.Name, Commit: c, CTime: newTime()}
				for _, f := range base.Files {
					cp := File{Path: f.Path, Syntax: f.Syntax}
					for _, imp := range f.Imports {
						if !r.Chance(1, 3) {
							cp.Imports = append(cp.Imports, imp)
						}
					}
					d.Files = append(d.Files, cp)
				}
				if len(d.Files) > 1 && r.Chance(1, 3) {
					d.Files = d.Files[:len(d.Files)-1]
				}
				rem.commits = append(rem.commits, d)
			}
		}
		pool = append(pool, rem)
	}

	// ---- the local modules
	nLocal := 1 + r.Intn(o.MaxMods)
	locals := make([]Added, nLocal)
	type lref struct {
		mod  int
		path string
	}
	var order []lref
	dirs := []string{"a", "a/b", "ab", "a/bc", "c", "x/y/z", ""}
	dirShift := r.Intn(len(lockedDirNames))
	for i := range locals {
		a := &locals[i]
		a.Local = true
		// directory names in which one is a STRING prefix of a sibling without being its parent
		// (api / api-internal, proto / proto2, d / d1 / d10): containment is by path component
		a.Dir = lockedDirNames[(i+dirShift)%len(lockedDirNames)]
		if r.Chance(1, 3) {
			a.Dir = "libs/" + a.Dir
		}
		if r.Chance(1, 2) {
			a.Name = fmt.Sprintf("buf.test/acme/n%d", (i*7+3)%10)
		}
		nFiles := 1 + r.Intn(4)
		if o.Faults && r.Chance(1, 40) {
			nFiles = 0
			ws.PlantedNoProto = true
		}
		for j := 0; j < nFiles; j++ {
			dir := hx.Pick(r, dirs)
			if r.Chance(1, 2) {
				dir = fmt.Sprintf("m%d", i)
			}
			f := File{Path: join(dir, nextFile("f")), Syntax: synOf()}
			a.Files = append(a.Files, f)
			order = append(order, lref{i, f.Path})
		}
	}
	hx.Shuffle(r, order)
	pos := map[lref]int{}
	for k, fr := range order {
		pos[fr] = k
	}
	for i := range locals {
		a := &locals[i]
		for j := range a.Files {
			f := &a.Files[j]
			me := pos[lref{i, f.Path}]
			seen := map[string]bool{f.Path: true}
			for n := r.Intn(4); n > 0; n-- {
				var imp Imp
				switch {
				case r.Chance(1, 8):
					imp.Path = hx.Pick(r, wktPaths)
				case len(rfiles) > 0 && r.Chance(2, 5):
					imp.Path = hx.Pick(r, rfiles).path
				case me > 0:
					imp.Path = order[r.Intn(me)].path
				default:
					continue
				}
				if o.Faults && r.Chance(1, 60) && len(order) > me+1 {
					imp.Path = order[me+1+r.Intn(len(order)-me-1)].path
					ws.PlantedFileCycle = true
				}
				if o.Faults && r.Chance(1, 80) {
					imp.Path = "missing/none.proto"
					ws.PlantedMissing = true
				}
				if seen[imp.Path] {
					continue
				}
				seen[imp.Path] = true
				if imp.Path == "missing/none.proto" {
					imp.Unused = true
				} else {
					imp.Unused = r.Chance(1, 5)
					imp.Public = !imp.Unused && r.Chance(1, 8)
				}
				f.Imports = append(f.Imports, imp)
			}
		}
	}
	// the shape the per-module locks exist for: T imports its sibling S, S imports the remote R;
	// R is pinned in S's buf.lock only, and T alone is the input
	chainT := -1
	if nLocal >= 2 && len(rfiles) > 0 && r.Chance(1, 2) {
		t := r.Intn(nLocal)
		s := (t + 1 + r.Intn(nLocal-1)) % nLocal
		if len(locals[t].Files) > 0 && len(locals[s].Files) > 0 {
			tf := &locals[t].Files[r.Intn(len(locals[t].Files))]
			sf := &locals[s].Files[r.Intn(len(locals[s].Files))]
			rf := hx.Pick(r, rfiles)
			addImp := func(f *File, path string) {
				for _, imp := range f.Imports {
					if imp.Path == path {
						return
					}
				}
				f.Imports = append(f.Imports, Imp{Path: path, Unused: r.Chance(1, 5)})
			}
			addImp(tf, sf.Path)
			addImp(sf, rf.path)
			if pos[lref{s, sf.Path}] > pos[lref{t, tf.Path}] {
				ws.PlantedFileCycle = true // a forward edge in the file order may close a file cycle
			}
			chainT = t
		}
	}
	if o.Faults && r.Chance(1, 14) {
		// a path provided by two modules (a local and another local, or a local and a remote)
		var src *Added
		if len(pool) > 0 && r.Bool() {
			src = &pool[r.Intn(len(pool))].commits[0]
		} else {
			src = &locals[r.Intn(nLocal)]
		}
		dst := &locals[r.Intn(nLocal)]
		if src != dst && len(src.Files) > 0 {
			f := hx.Pick(r, src.Files)
			if !hasFile(dst.Files, f.Path) {
				dst.Files = append(dst.Files, File{Path: f.Path, Syntax: f.Syntax})
				ws.PlantedDup = true
			}
		}
	}
	// a pinned remote module that has the name of a local module of the workspace: the local wins
	if len(pool) > 0 && r.Chance(1, 6) {
		var named []int
		for i := range locals {
			if locals[i].Name != "" {
				named = append(named, i)
			}
		}
		if len(named) > 0 {
			k := r.Intn(len(pool))
			pool[k].name = locals[hx.Pick(r, named)].Name
			for c := range pool[k].commits {
				pool[k].commits[c].Name = pool[k].name
			}
			ws.LocalShadowsPin = true
		}
	}

	// ---- the locks
	remoteOf := map[string]int{}
	for _, rf := range rfiles {
		remoteOf[rf.path] = rf.k
	}
	closure := func(need map[int]bool) {
		for changed := true; changed; {
			changed = false
			for k := range need {
				for _, f := range pool[k].commits[0].Files {
					for _, imp := range f.Imports {
						if d, ok := remoteOf[imp.Path]; ok && !need[d] {
							need[d] = true
							changed = true
						}
					}
				}
			}
		}
	}
	pref := make([]int, len(pool)) // the commit most locks pin
	for k := range pool {
		pref[k] = r.Intn(len(pool[k].commits))
	}
	needOf := func(a *Added) map[int]bool {
		need := map[int]bool{}
		for _, f := range a.Files {
			for _, imp := range f.Imports {
				if k, ok := remoteOf[imp.Path]; ok {
					need[k] = true
				}
			}
		}
		closure(need)
		return need
	}
	sortedKeys := func(m map[int]bool) []int {
		var ks []int
		for k := range m {
			ks = append(ks, k)
		}
		sort.Ints(ks)
		return ks
	}
	locks := make([][]Added, nLocal) // v1: per module; v2: locks[0] is the top-level lock
	pinnedCommit := map[int]map[int]bool{}
	pin := func(i, k, c int) {
		locks[i] = append(locks[i], pool[k].commits[c])
		if pinnedCommit[k] == nil {
			pinnedCommit[k] = map[int]bool{}
		}
		pinnedCommit[k][c] = true
	}
	if v1 {
		for i := range locals {
			need := needOf(&locals[i])
			if len(pool) > 0 && r.Chance(1, 5) {
				need[r.Intn(len(pool))] = true // an unused pin
			}
			for _, k := range sortedKeys(need) {
				if o.Faults && r.Chance(1, 12) {
					ws.BorrowedPin = true // the lock misses a pin: another lock may have it, or nobody
					continue
				}
				c := pref[k]
				if r.Chance(1, 3) {
					c = r.Intn(len(pool[k].commits))
				}
				pin(i, k, c)
			}
		}
	} else {
		need := map[int]bool{}
		for i := range locals {
			for k := range needOf(&locals[i]) {
				need[k] = true
			}
		}
		if len(pool) > 0 && r.Chance(1, 5) {
			need[r.Intn(len(pool))] = true
		}
		for _, k := range sortedKeys(need) {
			if o.Faults && r.Chance(1, 20) {
				ws.BorrowedPin = true
				continue
			}
			pin(0, k, pref[k])
		}
	}
	for _, cs := range pinnedCommit {
		if len(cs) > 1 {
			ws.PinConflict = true
		}
	}

	// ---- the input and what it selects
	genLockedInput(r, ws, locals, o, chainT)

	// ---- the module set the workspace means
	if v1 {
		for i := range locals {
			for _, p := range locks[i] {
				if r.Chance(1, 6) {
					ws.NoDigest[fmt.Sprintf("%s#%d", p.Name, p.Commit)] = true
				}
			}
			ws.Added = append(ws.Added, locks[i]...)
			ws.Added = append(ws.Added, locals[i])
		}
		// pins no TARGETED module's own lock has
		inTargetLock := map[string]bool{}
		for i := range locals {
			if locals[i].Target {
				for _, p := range locks[i] {
					inTargetLock[p.Name] = true
				}
			}
		}
		ws.NonTargetOnlyPins = map[string]bool{}
		for i := range locals {
			if !locals[i].Target {
				for _, p := range locks[i] {
					if !inTargetLock[p.Name] {
						ws.NonTargetOnlyPins[p.Name] = true
					}
				}
			}
		}
	} else {
		ws.Added = append(ws.Added, locks[0]...)
		ws.Added = append(ws.Added, locals...)
	}
	for i := range ws.Added {
		sort.Slice(ws.Added[i].Files, func(x, y int) bool { return ws.Added[i].Files[x].Path < ws.Added[i].Files[y].Path })
	}
	return ws
}

func genLockedInput(r *hx.Rand, ws *WS, locals []Added, o Opts, chainT int) {
	defer func() {
		for i := range locals {
			dropConflictingExcludes(&locals[i])
		}
	}()
	var underLibs, withFiles, withSubdir []int
	for i := range locals {
		if strings.HasPrefix(locals[i].Dir, "libs/") {
			underLibs = append(underLibs, i)
		}
		if len(locals[i].Files) > 0 {
			withFiles = append(withFiles, i)
			for _, f := range locals[i].Files {
				if len(parentDirs(f.Path)) > 0 {
					withSubdir = append(withSubdir, i)
					break
				}
			}
		}
	}
	in := &Input{Kind: "root", Dir: "."}
	ws.Input = in
	switch k := r.Intn(20); {
	case k < 5: // root
	case k < 12:
		in.Kind = "module"
	case k < 15:
		// a directory holding several modules is an input only a v2 workspace controls
		// (buftarget.terminateAtControllingWorkspace: "Only in v2 …")
		if len(underLibs) > 0 && ws.Kind == "v2" {
			in.Kind = "parent"
		} else {
			in.Kind = "module"
		}
	case k < 18:
		if len(withFiles) > 0 {
			in.Kind = "protofile"
		} else {
			in.Kind = "module"
		}
	default:
		if len(withSubdir) > 0 {
			in.Kind = "subdir"
		} else {
			in.Kind = "module"
		}
	}
	forced := false
	if chainT >= 0 && in.Kind != "module" && in.Kind != "protofile" && r.Chance(1, 2) {
		in.Kind = hx.Pick(r, []string{"module", "module", "protofile"})
		forced = true
	}
	var candidates []int // modules the input makes (tentative) targets
	switch in.Kind {
	case "root":
		for i := range locals {
			candidates = append(candidates, i)
		}
	case "module":
		i := r.Intn(len(locals))
		if chainT >= 0 && (forced || r.Chance(3, 4)) {
			i = chainT
		}
		in.Dir = locals[i].Dir
		candidates = []int{i}
	case "parent":
		in.Dir = "libs"
		candidates = underLibs
	case "protofile":
		i := hx.Pick(r, withFiles)
		if chainT >= 0 && (forced || r.Chance(3, 4)) {
			i = chainT // has files
		}
		a := &locals[i]
		f := hx.Pick(r, a.Files)
		in.ProtoFile = a.Dir + "/" + f.Path
		in.IncludePkg = r.Bool()
		a.Target = true
		a.ProtoFile = f.Path
		a.IncludePkg = in.IncludePkg
		return
	case "subdir":
		i := hx.Pick(r, withSubdir)
		a := &locals[i]
		var ds []string
		for _, f := range a.Files {
			ds = append(ds, parentDirs(f.Path)...)
		}
		in.Dir = a.Dir + "/" + hx.Pick(r, ds)
		in.WantErr = true
		a.Target = true // never built; keeps the line well-formed
		return
	}
	withPaths := r.Chance(3, 10)
	if !withPaths {
		for _, i := range candidates {
			locals[i].Target = true
		}
		if r.Chance(1, 5) {
			a := &locals[hx.Pick(r, candidates)]
			a.Excludes = appendUnique(a.Excludes, pickPathOf(r, a))
		}
		return
	}
	for n := 1 + r.Intn(2); n > 0; n-- {
		a := &locals[hx.Pick(r, candidates)]
		a.Target = true
		a.Paths = appendUnique(a.Paths, pickPathOf(r, a))
		if r.Chance(1, 3) {
			a.Excludes = appendUnique(a.Excludes, pickPathOf(r, a))
		}
	}
}

// ---------------------------------------------------------------------------------------------
// building

func splitName(name string) (remote, owner, repo string) {
	parts := strings.SplitN(name, "/", 3)
	return parts[0], parts[1], parts[2]
}

// BuildLocked writes the locked workspace below dir and reads it the way the CLI does.
func (ws *WS) BuildLocked(ctx context.Context, dir string) (*Built, error) {
	p, labels, err := ws.provider(ctx)
	if err != nil {
		return nil, err
	}
	dir, err = filepath.Abs(dir)
	if err != nil {
		return nil, err
	}
	if err := os.MkdirAll(dir, 0o755); err != nil {
		return nil, err
	}
	write := func(rel string, data string) error {
		full := filepath.Join(dir, filepath.FromSlash(rel))
		if err := os.MkdirAll(filepath.Dir(full), 0o755); err != nil {
			return err
		}
		return os.WriteFile(full, []byte(data), 0o644)
	}
	depsYAML := func(pins []*Added, indent string) string {
		if len(pins) == 0 {
			return ""
		}
		seen := map[string]bool{}
		s := indent + "deps:\n"
		for _, a := range pins {
			if !seen[a.Name] {
				seen[a.Name] = true
				s += indent + "  - " + a.Name + "\n"
			}
		}
		return s
	}
	var targetPaths, excludePaths []string
	var work strings.Builder
	var allPins []*Added
	var pending []*Added
	if ws.Kind == "v1" {
		work.WriteString("version: v1\ndirectories:\n")
	} else {
		work.WriteString("version: v2\nmodules:\n")
	}
	for i := range ws.Added {
		a := &ws.Added[i]
		if !a.Local {
			pending = append(pending, a)
			allPins = append(allPins, a)
			continue
		}
		if err := os.MkdirAll(filepath.Join(dir, filepath.FromSlash(a.Dir)), 0o755); err != nil {
			return nil, err
		}
		if ws.Kind == "v1" {
			fmt.Fprintf(&work, "  - %s\n", a.Dir)
			by := "version: v1\n"
			if a.Name != "" {
				by += "name: " + a.Name + "\n"
			}
			by += depsYAML(pending, "")
			if err := write(a.Dir+"/buf.yaml", by); err != nil {
				return nil, err
			}
			if len(pending) > 0 {
				var lock strings.Builder
				lock.WriteString("# Generated by buf. DO NOT EDIT.\nversion: v1\ndeps:\n")
				for _, pa := range pending {
					e := p.byCommit[commitUUID(pa.Name, pa.Commit)]
					remote, owner, repo := splitName(pa.Name)
					fmt.Fprintf(&lock, "  - remote: %s\n    owner: %s\n    repository: %s\n    commit: %s\n", remote, owner, repo, uuidutil.ToDashless(commitUUID(pa.Name, pa.Commit)))
					if !ws.NoDigest[fmt.Sprintf("%s#%d", pa.Name, pa.Commit)] {
						fmt.Fprintf(&lock, "    digest: %s\n", e.digestB4.String())
					}
				}
				if err := write(a.Dir+"/buf.lock", lock.String()); err != nil {
					return nil, err
				}
			}
			pending = nil
		} else {
			fmt.Fprintf(&work, "  - path: %s\n", a.Dir)
			if a.Name != "" {
				fmt.Fprintf(&work, "    name: %s\n", a.Name)
			}
		}
		for j := range a.Files {
			src, _, _ := a.Files[j].Source()
			if err := write(a.Dir+"/"+a.Files[j].Path, src); err != nil {
				return nil, err
			}
		}
		for _, tp := range a.Paths {
			targetPaths = append(targetPaths, filepath.Join(dir, filepath.FromSlash(a.Dir+"/"+tp)))
		}
		for _, ep := range a.Excludes {
			excludePaths = append(excludePaths, filepath.Join(dir, filepath.FromSlash(a.Dir+"/"+ep)))
		}
	}
	if ws.Kind == "v1" {
		if err := write("buf.work.yaml", work.String()); err != nil {
			return nil, err
		}
	} else {
		work.WriteString(depsYAML(allPins, ""))
		if err := write("buf.yaml", work.String()); err != nil {
			return nil, err
		}
		if len(allPins) > 0 {
			var lock strings.Builder
			lock.WriteString("# Generated by buf. DO NOT EDIT.\nversion: v2\ndeps:\n")
			for _, pa := range allPins {
				e := p.byCommit[commitUUID(pa.Name, pa.Commit)]
				fmt.Fprintf(&lock, "  - name: %s\n    commit: %s\n    digest: %s\n", pa.Name, uuidutil.ToDashless(commitUUID(pa.Name, pa.Commit)), e.digest.String())
			}
			if err := write("buf.lock", lock.String()); err != nil {
				return nil, err
			}
		}
	}

	// the input string, as typed on the command line
	in := ws.Input
	if in == nil {
		in = &Input{Kind: "root", Dir: "."}
	}
	value := dir
	switch {
	case in.ProtoFile != "":
		value = filepath.Join(dir, filepath.FromSlash(in.ProtoFile))
		if in.IncludePkg {
			value += "#include_package_files=true"
		}
	case in.Dir != "." && in.Dir != "":
		value = filepath.Join(dir, filepath.FromSlash(in.Dir))
	}
	logger := slogext.NopLogger
	storageosProvider := storageos.NewProvider(storageos.ProviderWithSymlinks())
	reader := buffetch.NewReader(logger, storageosProvider, http.DefaultClient, httpauth.NewNopAuthenticator(),
		git.NewCloner(logger, storageosProvider, git.ClonerOptions{}), p)
	ref, err := buffetch.NewRefParser(logger).GetRef(ctx, value)
	if err != nil {
		return nil, fmt.Errorf("ref parse: %w", err)
	}
	container := app.NewContainer(map[string]string{}, strings.NewReader(""), nil, nil)
	wsOptions := []bufworkspace.WorkspaceBucketOption{bufworkspace.WithConfigOverride("")}
	var sourceRef buffetch.SourceRef
	switch t := ref.(type) {
	case buffetch.ProtoFileRef:
		// controller.getWorkspaceForProtoFileRef
		sourceRef = t
		wsOptions = append(wsOptions, bufworkspace.WithProtoFileTargetPath(t.ProtoFilePath(), t.IncludePackageFiles()))
		if in.ProtoFile == "" {
			return nil, fmt.Errorf("input %q parsed as a proto file ref", value)
		}
	case buffetch.SourceRef:
		// controller.getWorkspaceForSourceRef
		sourceRef = t
		if in.ProtoFile != "" {
			return nil, fmt.Errorf("input %q did not parse as a proto file ref", value)
		}
	default:
		return nil, fmt.Errorf("input %q parsed as %T", value, ref)
	}
	bucket, bt, err := reader.GetSourceReadBucketCloser(ctx, container, sourceRef,
		buffetch.GetReadBucketCloserWithTargetPaths(targetPaths),
		buffetch.GetReadBucketCloserWithTargetExcludePaths(excludePaths))
	if err != nil {
		return nil, fmt.Errorf("bucket targeting: %w", err)
	}
	wp := bufworkspace.NewWorkspaceProvider(logger, bufmodule.NopGraphProvider, p, p, bufplugin.NopPluginKeyProvider)
	w, err := wp.GetWorkspaceForBucket(ctx, bucket, bt, wsOptions...)
	if err != nil {
		_ = bucket.Close()
		return nil, err
	}
	return &Built{ModuleSet: w, Provider: p, CommitLabel: labels, Root: dir, Close: bucket.Close}, nil
}
