// Package wsgen generates abstract workspaces (modules, files, import graphs, targeting) for the
// graph-family properties C10 and C01, renders them as .proto sources, builds them into real
// bufmodule.ModuleSets (in memory through ModuleSetBuilder with an in-process
// ModuleDataProvider/CommitProvider, or on disk through bufworkspace with a v2 buf.yaml or a
// buf.work.yaml + v1 buf.yaml files) and encodes them as a protocol line for the Lean model.
package wsgen

import (
	"context"
	"fmt"
	"os"
	"path/filepath"
	"sort"
	"strconv"
	"strings"
	"time"

	"github.com/bufbuild/buf/private/buf/buftarget"
	"github.com/bufbuild/buf/private/buf/bufworkspace"
	"github.com/bufbuild/buf/private/bufpkg/bufcas"
	"github.com/bufbuild/buf/private/bufpkg/bufimage"
	"github.com/bufbuild/buf/private/bufpkg/bufmodule"
	"github.com/bufbuild/buf/private/bufpkg/bufparse"
	"github.com/bufbuild/buf/private/bufpkg/bufplugin"
	"github.com/bufbuild/buf/private/gen/data/datawkt"
	"github.com/bufbuild/buf/private/pkg/slogext"
	"github.com/bufbuild/buf/private/pkg/storage"
	"github.com/bufbuild/buf/private/pkg/storage/storagemem"
	"github.com/bufbuild/buf/private/pkg/storage/storageos"
	"github.com/bufbuild/buf/private/pkg/uuidutil"
	"github.com/bufbuild/verifharness/internal/hx"
	"github.com/google/uuid"
)

// Imp is one import statement.
type Imp struct {
	Path   string
	Unused bool // no symbol of the imported file is referenced by the generated source
	Public bool
	// Weak renders `import weak "…";` (descriptor field weak_dependency; legal in every syntax).
	// Generated with Opts.RichImports (C01), Opts.ImportModifiers and by GenModifierFamily
	// (modifiers.go).
	Weak bool
	// EffUnused, when set, is what the compiler reported for this import in an independent run
	// (with public imports a referenced symbol may be found through an earlier import, so the
	// generator's intent is not always the compiler's verdict); used only for the model line.
	EffUnused *bool
}

// Fault kinds planted into a file's source.
const (
	FaultNone = iota
	FaultUnknownType
	FaultDupFieldNumber
	FaultSyntax
)

// Syntax kinds.
const (
	SynProto3 = iota
	SynProto2
	SynNone // no syntax statement (proto2 semantics + "syntax unspecified" warning)
	SynEdition
)

// File is one .proto file of a module.
type File struct {
	Path    string
	Syntax  int
	Imports []Imp
	Fault   int
}

// Added is one AddLocalModule / AddRemoteModule call.
type Added struct {
	Name       string // FullName or ""
	Dir        string // local: bucket id == directory
	Local      bool
	Target     bool
	Commit     int // remote: 1,2,...; local: 0
	CTime      int64
	Files      []File
	Paths      []string
	Excludes   []string
	ProtoFile  string
	IncludePkg bool
}

func (a *Added) OID() string {
	if a.Name != "" {
		return a.Name
	}
	return a.Dir
}

// WS is a generated workspace.
type WS struct {
	Kind  string // "mem" | "v2" | "v1"
	Added []Added
	// bookkeeping of the generator, for distribution counters
	PlantedDup, PlantedMissing, PlantedFileCycle, PlantedNoProto bool
	HasCommitTie                                                 bool
	// Locked workspaces (GenLocked / BuildLocked, see locked.go): a v1 workspace whose modules
	// each have their own buf.lock, or a v2 workspace with one top-level buf.lock, read through
	// the real buffetch reader for the given Input.  In Added the remote modules that directly
	// precede a local module are the pins of that module's buf.lock (v1); for v2 all remote
	// modules are the pins of the single buf.lock.
	Locked bool
	Input  *Input
	// NoDigest lists "name#commit" pins written WITHOUT a digest (pre-1.10 buf.lock: the digest
	// is resolved through CommitProvider.GetCommitsForCommitKeys).
	NoDigest map[string]bool
	// bookkeeping of the locked generator, for distribution counters
	PinConflict, LocalShadowsPin, BorrowedPin bool
	// NonTargetOnlyPins: names pinned in the buf.lock of some NON-target module and in no
	// target module's buf.lock (v1).
	NonTargetOnlyPins map[string]bool
	// Sel, when set, is a WORKSPACE-level selection (C01 sections E/F): BuildDisk hands the input
	// directory and the --path / --exclude-path values to buftarget / bufworkspace as the user gave
	// them (relative to the workspace root) instead of deriving them from Added[i].Paths/Excludes;
	// which module receives what is then decided by bufworkspace.newModuleTargeting.
	Sel *WsSel
}

// WsSel is a workspace-level selection: `buf build <Input> --path … --exclude-path …` run in the
// workspace root.  All values are normalized and relative to the workspace root.
type WsSel struct {
	Input    string
	Paths    []string
	Excludes []string
}

var wktMsg = map[string]string{
	"google/protobuf/any.proto":            "Any",
	"google/protobuf/api.proto":            "Api",
	"google/protobuf/descriptor.proto":     "FileOptions",
	"google/protobuf/duration.proto":       "Duration",
	"google/protobuf/empty.proto":          "Empty",
	"google/protobuf/field_mask.proto":     "FieldMask",
	"google/protobuf/source_context.proto": "SourceContext",
	"google/protobuf/struct.proto":         "Struct",
	"google/protobuf/timestamp.proto":      "Timestamp",
	"google/protobuf/type.proto":           "Type",
	"google/protobuf/wrappers.proto":       "StringValue",
}

var wktPaths []string

var wktOverridable = []string{
	"google/protobuf/duration.proto", "google/protobuf/empty.proto", "google/protobuf/timestamp.proto",
	"google/protobuf/struct.proto", "google/protobuf/wrappers.proto", "google/protobuf/field_mask.proto",
}

func init() {
	for p := range wktMsg {
		wktPaths = append(wktPaths, p)
	}
	sort.Strings(wktPaths)
}

func sanitize(s string) string {
	var b strings.Builder
	for _, c := range s {
		if (c >= 'a' && c <= 'z') || (c >= 'A' && c <= 'Z') || (c >= '0' && c <= '9') {
			b.WriteRune(c)
		} else {
			b.WriteByte('_')
		}
	}
	return b.String()
}

// PkgOf is the package of the file at path (a function of the path, so importers know it).
func PkgOf(path string) string {
	if _, ok := wktMsg[path]; ok {
		return "google.protobuf"
	}
	i := strings.LastIndexByte(path, '/')
	if i < 0 {
		return ""
	}
	return "p_" + sanitize(path[:i])
}

func msgOf(path string) string {
	if m, ok := wktMsg[path]; ok {
		return m
	}
	return "M_" + sanitize(path)
}

func fqn(path string) string {
	if p := PkgOf(path); p != "" {
		return "." + p + "." + msgOf(path)
	}
	return "." + msgOf(path)
}

// Source renders the file; for a planted fault it also returns the 1-based line and column at
// which the compiler must report it.
func (f *File) Source() (string, int, int) {
	var lines []string
	switch f.Syntax {
	case SynProto3:
		lines = append(lines, `syntax = "proto3";`)
	case SynProto2:
		lines = append(lines, `syntax = "proto2";`)
	case SynEdition:
		lines = append(lines, `edition = "2023";`)
	}
	if p := PkgOf(f.Path); p != "" {
		lines = append(lines, "// package of "+f.Path, "package "+p+";")
	}
	for _, imp := range f.Imports {
		if imp.Public {
			lines = append(lines, `import public "`+imp.Path+`";`)
		} else if imp.Weak {
			lines = append(lines, `import weak "`+imp.Path+`";`)
		} else {
			lines = append(lines, `import "`+imp.Path+`";`)
		}
	}
	label := ""
	if f.Syntax == SynProto2 || f.Syntax == SynNone {
		label = "optional "
	}
	lines = append(lines, "", "/* the message of this file */", "message "+msgOf(f.Path)+" {")
	n := 1
	for _, imp := range f.Imports {
		if imp.Unused {
			continue
		}
		lines = append(lines, fmt.Sprintf("  %s%s f%d = %d; // uses %s", label, fqn(imp.Path), n, n, imp.Path))
		n++
	}
	lines = append(lines, fmt.Sprintf("  %sstring name = %d;", label, n))
	n++
	fl, fc := 0, 0
	switch f.Fault {
	case FaultUnknownType:
		lines = append(lines, fmt.Sprintf("  %s.nope.Missing bad = %d;", label, n))
		fl, fc = len(lines), 3+len(label)
	case FaultDupFieldNumber:
		lines = append(lines, fmt.Sprintf("  %sstring again = %d;", label, n-1))
		fl, fc = len(lines), 3+len(label)+len("string again = ")
	case FaultSyntax:
		lines = append(lines, "  string = ;")
		fl, fc = len(lines), 10
	}
	lines = append(lines, "}")
	return strings.Join(lines, "\n") + "\n", fl, fc
}

// CommitUUID is the commit id of the remote module (name, commit number).
func CommitUUID(name string, commit int) uuid.UUID { return commitUUID(name, commit) }

func commitUUID(name string, commit int) uuid.UUID {
	return uuid.NewSHA1(uuid.NameSpaceURL, []byte(name+"#"+strconv.Itoa(commit)))
}

// ---------------------------------------------------------------------------------------------
// generation

// Opts steers the generator.
type Opts struct {
	Kind        string // "mem" | "v2" | "v1"
	Faults      bool   // allow duplicate paths / missing imports / file cycles / empty modules
	MoreTargets bool   // C01: more --path / --exclude-path / proto-file selections
	MaxMods     int
	CommitTies  bool // allow distinct commits of one module with equal create times (C10 only)
	// RichImports (C01): weak imports, unused public imports and longer import lists, so that
	// dependency / public_dependency / weak_dependency / unused_dependency all carry several
	// indexes in every relative order.  Draws extra random numbers only when set.
	RichImports bool
	// ImportModifiers re-draws the modifier (plain / public / weak) of EVERY import of the finished
	// workspace from a stream of its own (1/3 weak, 1/4 public), see modifiers.go.  Gen's own draws
	// are the same with and without it.
	ImportModifiers bool
}

// Gen generates one workspace.
func Gen(r *hx.Rand, o Opts) *WS {
	ws := &WS{Kind: o.Kind}
	if o.MaxMods <= 0 {
		o.MaxMods = 6
	}
	nMods := 1 + r.Intn(o.MaxMods)
	disk := o.Kind != "mem"
	type fileRef struct {
		mod  int
		path string
	}
	var order []fileRef // global file order: imports mostly go to earlier files
	fileCounter := 0
	dirs := []string{"a", "a/b", "ab", "a/bc", "c", "x/y/z", ""} // "ab" / "a/bc": string prefixes that are not path prefixes
	for i := 0; i < nMods; i++ {
		a := Added{Dir: fmt.Sprintf("d%d", i), Local: true}
		if !r.Chance(7, 10) && !(o.Kind == "v1") {
			a.Local = false
		}
		if !a.Local || r.Chance(1, 2) {
			a.Name = fmt.Sprintf("buf.test/acme/n%d", (i*7+3)%10)
			// names sort differently from dirs and from their index
		}
		if !a.Local {
			a.Commit = 1
			a.CTime = 1700000000 + int64(r.Intn(1000))*10
			a.Dir = ""
		}
		nFiles := 1 + r.Intn(4)
		if o.Faults && r.Chance(1, 40) {
			nFiles = 0
			ws.PlantedNoProto = true
		}
		for j := 0; j < nFiles; j++ {
			dir := hx.Pick(r, dirs)
			if r.Chance(1, 2) {
				dir = fmt.Sprintf("m%d", i)
			}
			name := fmt.Sprintf("f%d.proto", fileCounter)
			fileCounter++
			p := name
			if dir != "" {
				p = dir + "/" + name
			}
			if r.Chance(1, 25) {
				// the workspace supplies its own copy of a well-known type
				// (only leaf WKTs no built-in file imports, and never descriptor.proto: protocompile
				// needs the real one to interpret options and deadlocks if a substitute imports a
				// workspace file)
				p = hx.Pick(r, wktOverridable)
				if hasFile(a.Files, p) || anyHas(ws.Added, p) {
					p = "w" + name
					if dir != "" {
						p = dir + "/" + p
					}
				}
			}
			f := File{Path: p}
			switch r.Intn(8) {
			case 0:
				f.Syntax = SynProto2
			case 1:
				f.Syntax = SynNone
			case 2:
				f.Syntax = SynEdition
			}
			a.Files = append(a.Files, f)
		}
		ws.Added = append(ws.Added, a)
	}
	// interleave the files of all modules into one global order
	for i := range ws.Added {
		for _, f := range ws.Added[i].Files {
			order = append(order, fileRef{i, f.Path})
		}
	}
	hx.Shuffle(r, order)
	pos := map[fileRef]int{}
	for k, fr := range order {
		pos[fr] = k
	}
	for i := range ws.Added {
		a := &ws.Added[i]
		for j := range a.Files {
			f := &a.Files[j]
			me := pos[fileRef{i, f.Path}]
			nImp := r.Intn(4)
			if o.RichImports && r.Chance(1, 3) {
				nImp = 2 + r.Intn(5)
			}
			if _, isWkt := wktMsg[f.Path]; isWkt {
				nImp = 0 // a substitute WKT stays a leaf, like the original
			}
			seen := map[string]bool{f.Path: true}
			for k := 0; k < nImp; k++ {
				var imp Imp
				switch {
				case r.Chance(1, 6):
					imp.Path = hx.Pick(r, wktPaths)
				case me > 0:
					imp.Path = order[r.Intn(me)].path
				default:
					continue
				}
				if o.Faults && r.Chance(1, 60) && len(order) > me+1 {
					imp.Path = order[me+1+r.Intn(len(order)-me-1)].path // forward edge: may close a file cycle
					ws.PlantedFileCycle = true
				}
				if o.Faults && r.Chance(1, 80) {
					imp.Path = "missing/none.proto"
					imp.Unused = true
					ws.PlantedMissing = true
				}
				if seen[imp.Path] {
					continue
				}
				seen[imp.Path] = true
				if imp.Path != "missing/none.proto" {
					imp.Unused = r.Chance(1, 5)
					imp.Public = !imp.Unused && r.Chance(1, 8)
					if o.RichImports {
						switch {
						case imp.Public:
						case r.Chance(1, 5):
							imp.Weak = true
						case imp.Unused && r.Chance(1, 4):
							imp.Public = true // an unused public import: the compiler does not flag it
						}
					}
				}
				f.Imports = append(f.Imports, imp)
			}
		}
	}
	if o.Faults && nMods > 1 && r.Chance(1, 12) {
		// a path provided by two modules
		src := r.Intn(nMods)
		dst := r.Intn(nMods)
		if src != dst && len(ws.Added[src].Files) > 0 {
			f := hx.Pick(r, ws.Added[src].Files)
			if !hasFile(ws.Added[dst].Files, f.Path) {
				cp := File{Path: f.Path, Syntax: f.Syntax}
				ws.Added[dst].Files = append(ws.Added[dst].Files, cp)
				ws.PlantedDup = true
			}
		}
	}
	// targeting
	if disk {
		genDiskTargeting(r, ws, o)
	} else {
		any := false
		for i := range ws.Added {
			a := &ws.Added[i]
			if a.Local {
				a.Target = r.Chance(6, 10)
			} else {
				a.Target = r.Chance(1, 10)
			}
			any = any || a.Target
		}
		if !any {
			ws.Added[r.Intn(len(ws.Added))].Target = true
		}
		pTarget := 3
		if o.MoreTargets {
			pTarget = 6
		}
		for i := range ws.Added {
			a := &ws.Added[i]
			if a.Target && a.Local && r.Chance(pTarget, 10) {
				genModuleTargeting(r, a)
			}
		}
		// several added modules for one OpaqueID (mem only)
		if r.Chance(4, 10) {
			genDuplicates(r, ws, o.CommitTies)
		}
	}
	if o.ImportModifiers {
		applyModifiers(r.Fork(1<<42), ws)
	}
	for i := range ws.Added {
		sort.Slice(ws.Added[i].Files, func(x, y int) bool { return ws.Added[i].Files[x].Path < ws.Added[i].Files[y].Path })
	}
	return ws
}

func hasFile(fs []File, p string) bool {
	for _, f := range fs {
		if f.Path == p {
			return true
		}
	}
	return false
}

func anyHas(as []Added, p string) bool {
	for _, a := range as {
		if hasFile(a.Files, p) {
			return true
		}
	}
	return false
}

func parentDirs(p string) []string {
	var out []string
	for {
		i := strings.LastIndexByte(p, '/')
		if i < 0 {
			return out
		}
		p = p[:i]
		out = append(out, p)
	}
}

func pickPathOf(r *hx.Rand, a *Added) string {
	if len(a.Files) == 0 || r.Chance(1, 10) {
		return hx.Pick(r, []string{"nosuch", "a/nosuch.proto", "zz/yy"})
	}
	f := hx.Pick(r, a.Files)
	cands := append([]string{f.Path}, parentDirs(f.Path)...)
	return hx.Pick(r, cands)
}

func genModuleTargeting(r *hx.Rand, a *Added) {
	switch r.Intn(5) {
	case 0, 1:
		n := 1 + r.Intn(2)
		for k := 0; k < n; k++ {
			a.Paths = appendUnique(a.Paths, pickPathOf(r, a))
		}
	case 2:
		a.Excludes = appendUnique(a.Excludes, pickPathOf(r, a))
	case 3:
		a.Paths = appendUnique(a.Paths, pickPathOf(r, a))
		a.Excludes = appendUnique(a.Excludes, pickPathOf(r, a))
		if r.Bool() {
			a.Excludes = appendUnique(a.Excludes, pickPathOf(r, a))
		}
	case 4:
		if len(a.Files) > 0 {
			a.ProtoFile = hx.Pick(r, a.Files).Path
			if r.Chance(1, 8) {
				a.ProtoFile = "a/elsewhere.proto"
			}
			a.IncludePkg = r.Bool()
		}
	}
}

func appendUnique(xs []string, s string) []string {
	for _, x := range xs {
		if x == s {
			return xs
		}
	}
	return append(xs, s)
}

// dropConflictingExcludes removes excludes that equal or contain a target path (buftarget rejects
// such flag combinations before any module logic runs).
func dropConflictingExcludes(a *Added) {
	var keep []string
	for _, e := range a.Excludes {
		bad := false
		for _, p := range a.Paths {
			if e == p || strings.HasPrefix(p, e+"/") {
				bad = true
			}
		}
		if !bad {
			keep = append(keep, e)
		}
	}
	a.Excludes = keep
}

func genDiskTargeting(r *hx.Rand, ws *WS, o Opts) {
	defer func() {
		for i := range ws.Added {
			dropConflictingExcludes(&ws.Added[i])
		}
	}()
	// remote modules are never targets; locals: all targets unless --path selects some
	withPaths := r.Chance(4, 10)
	if o.MoreTargets {
		withPaths = r.Chance(6, 10)
	}
	var locals []int
	for i := range ws.Added {
		if ws.Added[i].Local {
			locals = append(locals, i)
		}
	}
	if len(locals) == 0 {
		ws.Added[0].Local = true
		ws.Added[0].Commit = 0
		ws.Added[0].Dir = "d0"
		locals = []int{0}
	}
	if !withPaths {
		for _, i := range locals {
			ws.Added[i].Target = true
		}
		// excludes alone are allowed without paths
		if r.Chance(1, 4) {
			a := &ws.Added[hx.Pick(r, locals)]
			a.Excludes = appendUnique(a.Excludes, pickPathOf(r, a))
		}
		return
	}
	n := 1 + r.Intn(2)
	for k := 0; k < n; k++ {
		a := &ws.Added[hx.Pick(r, locals)]
		a.Target = true
		a.Paths = appendUnique(a.Paths, pickPathOf(r, a))
		if r.Chance(1, 3) {
			a.Excludes = appendUnique(a.Excludes, pickPathOf(r, a))
		}
	}
}

func genDuplicates(r *hx.Rand, ws *WS, ties bool) {
	var named []int
	for i := range ws.Added {
		if ws.Added[i].Name != "" {
			named = append(named, i)
		}
	}
	if len(named) == 0 {
		return
	}
	base := ws.Added[hx.Pick(r, named)]
	n := 1 + r.Intn(3)
	usedTimes := map[int64]bool{base.CTime: true}
	for k := 0; k < n; k++ {
		d := Added{Name: base.Name, Local: false, Commit: 2 + k}
		for {
			d.CTime = 1700000000 + int64(r.Intn(1000))*10 + 5
			if !usedTimes[d.CTime] {
				usedTimes[d.CTime] = true
				break
			}
		}
		if ties && r.Chance(1, 6) {
			d.CTime = base.CTime // equal create times: resolved by commit id since the tie-break fix
			ws.HasCommitTie = true
		}
		// the other commit has the same paths with perturbed imports, sometimes one file less
		for _, f := range base.Files {
			cp := File{Path: f.Path, Syntax: f.Syntax}
			for _, imp := range f.Imports {
				if !r.Chance(1, 3) {
					cp.Imports = append(cp.Imports, imp)
				}
			}
			d.Files = append(d.Files, cp)
		}
		if len(d.Files) > 1 && r.Chance(1, 3) {
			d.Files = d.Files[:len(d.Files)-1]
		}
		switch r.Intn(6) {
		case 0:
			d.Local = true
			d.Commit = 0
			d.Dir = fmt.Sprintf("dup%d", k)
		case 1:
			d.Target = true
		case 2:
			d.Commit = base.Commit // straight duplicate of the same commit
			if base.Local {
				d.Commit = 2 + k
			}
			if d.Commit == base.Commit {
				d.CTime = base.CTime
				d.Files = base.Files
			}
		}
		at := r.Intn(len(ws.Added) + 1)
		ws.Added = append(ws.Added[:at], append([]Added{d}, ws.Added[at:]...)...)
	}
}

// ---------------------------------------------------------------------------------------------
// protocol line

// OIDRanks maps each OpaqueID to its rank in Go string order.
func (ws *WS) OIDRanks() map[string]int {
	set := map[string]bool{}
	for i := range ws.Added {
		set[ws.Added[i].OID()] = true
	}
	var ids []string
	for id := range set {
		ids = append(ids, id)
	}
	sort.Strings(ids)
	m := map[string]int{}
	for i, id := range ids {
		m[id] = i
	}
	return m
}

// CommitRanks maps (name, commit number) of every remote added module to the 1-based rank of
// its commit UUID in string order (an order-isomorphic label: the code only compares commit
// ids with == and, after the tie-break fix, <).
func (ws *WS) CommitRanks() map[string]int {
	set := map[string]string{}
	for i := range ws.Added {
		a := &ws.Added[i]
		if !a.Local {
			set[a.Name+"#"+strconv.Itoa(a.Commit)] = commitUUID(a.Name, a.Commit).String()
		}
	}
	var keys []string
	for k := range set {
		keys = append(keys, k)
	}
	sort.Slice(keys, func(i, j int) bool { return set[keys[i]] < set[keys[j]] })
	m := map[string]int{}
	for i, k := range keys {
		m[k] = i + 1
	}
	return m
}

// CommitRank is the label of a's commit (0 for a local module).
func (ws *WS) CommitRank(a *Added) int {
	if a.Local {
		return 0
	}
	return ws.CommitRanks()[a.Name+"#"+strconv.Itoa(a.Commit)]
}

// NameLabel maps a FullName to a stable numeric label.
func (ws *WS) NameLabels() map[string]int {
	set := map[string]bool{}
	for i := range ws.Added {
		if ws.Added[i].Name != "" {
			set[ws.Added[i].Name] = true
		}
	}
	var ns []string
	for n := range set {
		ns = append(ns, n)
	}
	sort.Strings(ns)
	m := map[string]int{}
	for i, n := range ns {
		m[n] = i + 1
	}
	return m
}

func encList(xs []string) string {
	if len(xs) == 0 {
		return "_"
	}
	out := make([]string, len(xs))
	for i, x := range xs {
		out[i] = hx.Enc(x)
	}
	return strings.Join(out, ",")
}

// Line encodes the added modules for the Lean driver (see lean/Driver/C10.lean).
func (ws *WS) Line() string {
	mods := ws.encAdded()
	return strings.Join(mods, ";")
}

// LockedLine encodes a locked workspace with its structure: `wsl <TAB> v1 <TAB> group#group…`
// (one group per buf.work.yaml directory: the pins of its buf.lock, then the local module) or
// `wsl <TAB> v2 <TAB> lock#locals`.  The model derives the add order itself (v1Adds / v2Adds).
func (ws *WS) LockedLine() string {
	mods := ws.encAdded()
	var groups []string
	var cur []string
	if ws.Kind == "v1" {
		for i := range ws.Added {
			cur = append(cur, mods[i])
			if ws.Added[i].Local {
				groups = append(groups, strings.Join(cur, ";"))
				cur = nil
			}
		}
	} else {
		var lock, locs []string
		for i := range ws.Added {
			if ws.Added[i].Local {
				locs = append(locs, mods[i])
			} else {
				lock = append(lock, mods[i])
			}
		}
		l := "_"
		if len(lock) > 0 {
			l = strings.Join(lock, ";")
		}
		groups = []string{l, strings.Join(locs, ";")}
	}
	return "wsl\t" + ws.Kind + "\t" + strings.Join(groups, "#")
}

func (ws *WS) encAdded() []string {
	ranks := ws.OIDRanks()
	names := ws.NameLabels()
	cranks := ws.CommitRanks()
	var mods []string
	for i := range ws.Added {
		a := &ws.Added[i]
		name := "_"
		if a.Name != "" {
			name = strconv.Itoa(names[a.Name])
		}
		pf := "_"
		if a.ProtoFile != "" {
			pf = hx.Enc(a.ProtoFile)
			if a.IncludePkg {
				pf += "+"
			}
		}
		files := "_"
		if len(a.Files) > 0 {
			var fs []string
			for _, f := range a.Files {
				parts := []string{hx.Enc(f.Path), hx.Enc(PkgOf(f.Path)), b01(f.Syntax == SynNone)}
				for _, imp := range f.Imports {
					e := hx.Enc(imp.Path)
					unused := imp.Unused
					if imp.EffUnused != nil {
						unused = *imp.EffUnused
					}
					// the modifier as fastscan reports it: ^ = public, ~ = weak (after the unused mark)
					switch imp.Mod() {
					case ModPublic:
						e = "^" + e
					case ModWeak:
						e = "~" + e
					}
					if unused {
						e = "!" + e
					}
					parts = append(parts, e)
				}
				fs = append(fs, strings.Join(parts, ">"))
			}
			files = strings.Join(fs, "|")
		}
		mods = append(mods, strings.Join([]string{
			strconv.Itoa(ranks[a.OID()]), b01(a.Local), b01(a.Target), strconv.Itoa(cranks[a.Name+"#"+strconv.Itoa(a.Commit)]),
			strconv.FormatInt(a.CTime, 10), name, encList(a.Paths), encList(a.Excludes), pf, files}, ":"))
	}
	return mods
}

func b01(b bool) string {
	if b {
		return "1"
	}
	return "0"
}

// ---------------------------------------------------------------------------------------------
// building real module sets

// Provider is an in-process ModuleDataProvider + CommitProvider serving several commits per name.
type Provider struct {
	byCommit map[uuid.UUID]*provEntry
	// Calls counts provider calls (the ModuleSetBuilder must not fetch modules it drops).
	DataCalls []string
	// CommitKeyCalls counts digest resolutions of digest-less v1 buf.lock pins.
	CommitKeyCalls int
}

type provEntry struct {
	name   string
	commit int
	ctime  int64
	bucket storage.ReadBucket
	digest bufmodule.Digest // B5 (v2 buf.lock)
	// digestB4 is the B4 digest (v1 buf.lock): the manifest digest of the files, no v1 buf.yaml /
	// buf.lock object data.
	digestB4 bufmodule.Digest
}

func bucketFor(files []File) (storage.ReadBucket, error) {
	m := map[string][]byte{}
	for i := range files {
		src, _, _ := files[i].Source()
		m[files[i].Path] = []byte(src)
	}
	return storagemem.NewReadBucket(m)
}

// b5Digest computes the B5 digest of a module without dependencies with exported bufcas calls.
func b5Digest(ctx context.Context, bucket storage.ReadBucket) (bufmodule.Digest, error) {
	var nodes []bufcas.FileNode
	if err := storage.WalkReadObjects(ctx, bucket, "", func(ro storage.ReadObject) error {
		d, err := bufcas.NewDigestForContent(ro)
		if err != nil {
			return err
		}
		n, err := bufcas.NewFileNode(ro.Path(), d)
		if err != nil {
			return err
		}
		nodes = append(nodes, n)
		return nil
	}); err != nil {
		return nil, err
	}
	manifest, err := bufcas.NewManifest(nodes)
	if err != nil {
		return nil, err
	}
	filesDigest, err := bufcas.ManifestToDigest(manifest)
	if err != nil {
		return nil, err
	}
	dd, err := bufcas.NewDigestForContent(strings.NewReader(filesDigest.String()))
	if err != nil {
		return nil, err
	}
	return bufmodule.NewDigest(bufmodule.DigestTypeB5, dd)
}

func (p *Provider) key(e *provEntry) (bufmodule.ModuleKey, error) {
	return p.keyFor(e, bufmodule.DigestTypeB5)
}

func (p *Provider) keyFor(e *provEntry, dt bufmodule.DigestType) (bufmodule.ModuleKey, error) {
	fn, err := bufparse.ParseFullName(e.name)
	if err != nil {
		return nil, err
	}
	d := e.digest
	if dt == bufmodule.DigestTypeB4 {
		d = e.digestB4
	}
	return bufmodule.NewModuleKey(fn, commitUUID(e.name, e.commit), func() (bufmodule.Digest, error) { return d, nil })
}

// b4Digest computes the B4 digest of a module without v1 buf.yaml / buf.lock object data.
func b4Digest(ctx context.Context, bucket storage.ReadBucket) (bufmodule.Digest, error) {
	var nodes []bufcas.FileNode
	if err := storage.WalkReadObjects(ctx, bucket, "", func(ro storage.ReadObject) error {
		d, err := bufcas.NewDigestForContent(ro)
		if err != nil {
			return err
		}
		n, err := bufcas.NewFileNode(ro.Path(), d)
		if err != nil {
			return err
		}
		nodes = append(nodes, n)
		return nil
	}); err != nil {
		return nil, err
	}
	manifest, err := bufcas.NewManifest(nodes)
	if err != nil {
		return nil, err
	}
	md, err := bufcas.ManifestToDigest(manifest)
	if err != nil {
		return nil, err
	}
	return bufmodule.NewDigest(bufmodule.DigestTypeB4, md)
}

func (p *Provider) GetModuleDatasForModuleKeys(ctx context.Context, keys []bufmodule.ModuleKey) ([]bufmodule.ModuleData, error) {
	out := make([]bufmodule.ModuleData, len(keys))
	for i, k := range keys {
		e, ok := p.byCommit[k.CommitID()]
		if !ok {
			return nil, &os.PathError{Op: "read", Path: k.String(), Err: os.ErrNotExist}
		}
		p.DataCalls = append(p.DataCalls, fmt.Sprintf("%s#%d", e.name, e.commit))
		out[i] = bufmodule.NewModuleData(ctx, k,
			func() (storage.ReadBucket, error) { return e.bucket, nil },
			func() ([]bufmodule.ModuleKey, error) { return nil, nil },
			func() (bufmodule.ObjectData, error) { return nil, nil },
			func() (bufmodule.ObjectData, error) { return nil, nil },
		)
	}
	return out, nil
}

func (p *Provider) GetCommitsForModuleKeys(ctx context.Context, keys []bufmodule.ModuleKey) ([]bufmodule.Commit, error) {
	out := make([]bufmodule.Commit, len(keys))
	for i, k := range keys {
		e, ok := p.byCommit[k.CommitID()]
		if !ok {
			return nil, &os.PathError{Op: "read", Path: k.String(), Err: os.ErrNotExist}
		}
		t := time.Unix(e.ctime, 0)
		out[i] = bufmodule.NewCommit(k, func() (time.Time, error) { return t, nil })
	}
	return out, nil
}

func (p *Provider) GetCommitsForCommitKeys(ctx context.Context, keys []bufmodule.CommitKey) ([]bufmodule.Commit, error) {
	out := make([]bufmodule.Commit, len(keys))
	for i, k := range keys {
		e, ok := p.byCommit[k.CommitID()]
		if !ok {
			return nil, &os.PathError{Op: "read", Path: uuidutil.ToDashless(k.CommitID()), Err: os.ErrNotExist}
		}
		mk, err := p.keyFor(e, k.DigestType())
		if err != nil {
			return nil, err
		}
		p.CommitKeyCalls++
		t := time.Unix(e.ctime, 0)
		out[i] = bufmodule.NewCommit(mk, func() (time.Time, error) { return t, nil })
	}
	return out, nil
}

func (p *Provider) GetModuleKeysForModuleRefs(ctx context.Context, refs []bufparse.Ref, dt bufmodule.DigestType) ([]bufmodule.ModuleKey, error) {
	return nil, fmt.Errorf("GetModuleKeysForModuleRefs: not served by the harness provider")
}

// Built is a real module set plus what is needed to read it back.
type Built struct {
	ModuleSet bufmodule.ModuleSet
	Provider  *Provider
	// CommitLabel maps a commit UUID back to the generator's commit number.
	CommitLabel map[uuid.UUID]int
	// Root is the directory as the user would give it (disk kinds).
	Root string
	// Close releases the source bucket (locked workspaces); may be nil.
	Close func() error
}

func (ws *WS) provider(ctx context.Context) (*Provider, map[uuid.UUID]int, error) {
	p := &Provider{byCommit: map[uuid.UUID]*provEntry{}}
	labels := map[uuid.UUID]int{}
	cranks := ws.CommitRanks()
	for i := range ws.Added {
		a := &ws.Added[i]
		if a.Local {
			continue
		}
		id := commitUUID(a.Name, a.Commit)
		labels[id] = cranks[a.Name+"#"+strconv.Itoa(a.Commit)]
		if _, ok := p.byCommit[id]; ok {
			continue
		}
		bucket, err := bucketFor(a.Files)
		if err != nil {
			return nil, nil, err
		}
		digest, err := b5Digest(ctx, bucket)
		if err != nil {
			return nil, nil, err
		}
		digestB4, err := b4Digest(ctx, bucket)
		if err != nil {
			return nil, nil, err
		}
		p.byCommit[id] = &provEntry{name: a.Name, commit: a.Commit, ctime: a.CTime, bucket: bucket, digest: digest, digestB4: digestB4}
	}
	return p, labels, nil
}

// BuildMem builds the module set with ModuleSetBuilder from in-memory buckets.
func (ws *WS) BuildMem(ctx context.Context) (*Built, error) {
	p, labels, err := ws.provider(ctx)
	if err != nil {
		return nil, err
	}
	b := bufmodule.NewModuleSetBuilder(ctx, slogext.NopLogger, p, p)
	for i := range ws.Added {
		a := &ws.Added[i]
		if a.Local {
			bucket, err := bucketFor(a.Files)
			if err != nil {
				return nil, err
			}
			var opts []bufmodule.LocalModuleOption
			if a.Name != "" {
				fn, err := bufparse.ParseFullName(a.Name)
				if err != nil {
					return nil, err
				}
				opts = append(opts, bufmodule.LocalModuleWithFullName(fn))
			}
			if len(a.Paths) > 0 || len(a.Excludes) > 0 {
				opts = append(opts, bufmodule.LocalModuleWithTargetPaths(a.Paths, a.Excludes))
			}
			if a.ProtoFile != "" {
				opts = append(opts, bufmodule.LocalModuleWithProtoFileTargetPath(a.ProtoFile, a.IncludePkg))
			}
			b.AddLocalModule(bucket, a.Dir, a.Target, opts...)
		} else {
			e := p.byCommit[commitUUID(a.Name, a.Commit)]
			k, err := p.key(e)
			if err != nil {
				return nil, err
			}
			b.AddRemoteModule(k, a.Target)
		}
	}
	ms, err := b.Build()
	if err != nil {
		return nil, err
	}
	return &Built{ModuleSet: ms, Provider: p, CommitLabel: labels}, nil
}

// BuildDisk writes the workspace below dir (v2 buf.yaml + buf.lock, or buf.work.yaml + v1
// buf.yaml files) and loads it through bufworkspace.
func (ws *WS) BuildDisk(ctx context.Context, dir string) (*Built, error) {
	p, labels, err := ws.provider(ctx)
	if err != nil {
		return nil, err
	}
	if err := os.MkdirAll(dir, 0o755); err != nil {
		return nil, err
	}
	write := func(rel string, data string) error {
		full := filepath.Join(dir, filepath.FromSlash(rel))
		if err := os.MkdirAll(filepath.Dir(full), 0o755); err != nil {
			return err
		}
		return os.WriteFile(full, []byte(data), 0o644)
	}
	var targetPaths, excludePaths []string
	var yaml strings.Builder
	switch ws.Kind {
	case "v2":
		yaml.WriteString("version: v2\nmodules:\n")
	case "v1":
		yaml.WriteString("version: v1\ndirectories:\n")
	}
	var lock strings.Builder
	lock.WriteString("version: v2\ndeps:\n")
	nLock := 0
	for i := range ws.Added {
		a := &ws.Added[i]
		if !a.Local {
			e := p.byCommit[commitUUID(a.Name, a.Commit)]
			fmt.Fprintf(&lock, "  - name: %s\n    commit: %s\n    digest: %s\n", a.Name, uuidutil.ToDashless(commitUUID(a.Name, a.Commit)), e.digest.String())
			nLock++
			continue
		}
		switch ws.Kind {
		case "v2":
			fmt.Fprintf(&yaml, "  - path: %s\n", a.Dir)
			if a.Name != "" {
				fmt.Fprintf(&yaml, "    name: %s\n", a.Name)
			}
		case "v1":
			fmt.Fprintf(&yaml, "  - %s\n", a.Dir)
			by := "version: v1\n"
			if a.Name != "" {
				by += "name: " + a.Name + "\n"
			}
			if err := write(a.Dir+"/buf.yaml", by); err != nil {
				return nil, err
			}
		}
		// a module directory must exist even if it has no files
		if err := os.MkdirAll(filepath.Join(dir, a.Dir), 0o755); err != nil {
			return nil, err
		}
		for j := range a.Files {
			src, _, _ := a.Files[j].Source()
			if err := write(a.Dir+"/"+a.Files[j].Path, src); err != nil {
				return nil, err
			}
		}
		for _, tp := range a.Paths {
			targetPaths = append(targetPaths, a.Dir+"/"+tp)
		}
		for _, ep := range a.Excludes {
			excludePaths = append(excludePaths, a.Dir+"/"+ep)
		}
	}
	switch ws.Kind {
	case "v2":
		if err := write("buf.yaml", yaml.String()); err != nil {
			return nil, err
		}
		if nLock > 0 {
			if err := write("buf.lock", lock.String()); err != nil {
				return nil, err
			}
		}
	case "v1":
		if err := write("buf.work.yaml", yaml.String()); err != nil {
			return nil, err
		}
	}
	bucket, err := storageos.NewProvider().NewReadWriteBucket(dir)
	if err != nil {
		return nil, err
	}
	input := "."
	if ws.Sel != nil {
		input = ws.Sel.Input
		targetPaths = append([]string(nil), ws.Sel.Paths...)
		excludePaths = append([]string(nil), ws.Sel.Excludes...)
	}
	bt, err := buftarget.NewBucketTargeting(ctx, slogext.NopLogger, bucket, input, targetPaths, excludePaths, buftarget.TerminateAtControllingWorkspace)
	if err != nil {
		return nil, fmt.Errorf("bucket targeting: %w", err)
	}
	wp := bufworkspace.NewWorkspaceProvider(slogext.NopLogger, bufmodule.NopGraphProvider, p, p, bufplugin.NopPluginKeyProvider)
	w, err := wp.GetWorkspaceForBucket(ctx, bucket, bt)
	if err != nil {
		return nil, err
	}
	return &Built{ModuleSet: w, Provider: p, CommitLabel: labels, Root: dir}, nil
}

// WktTableLean prints lean/BufGen/Wkt.lean from datawkt.
func WktTableLean() string {
	var b strings.Builder
	b.WriteString("-- REGENERATED by `build/c10 gen-wkt` from private/gen/data/datawkt on every run.\nnamespace BufGen\ndef wktTable : List (String × List String) := [\n")
	for i, p := range datawkt.AllFilePaths {
		imps, _ := datawkt.FileImports(p)
		q := make([]string, len(imps))
		for j, s := range imps {
			q[j] = strconv.Quote(s)
		}
		sep := ","
		if i == len(datawkt.AllFilePaths)-1 {
			sep = ""
		}
		fmt.Fprintf(&b, "  (%s, [%s])%s\n", strconv.Quote(p), strings.Join(q, ", "), sep)
	}
	b.WriteString("]\nend BufGen\n")
	return b.String()
}

// BuildImageWatchdog runs bufimage.BuildImage over the whole module set; hung reports that it
// did not return within 20 s (the goroutine is abandoned).
func BuildImageWatchdog(ctx context.Context, ms bufmodule.ModuleSet, opts ...bufimage.BuildImageOption) (img bufimage.Image, err error, hung bool) {
	type res struct {
		img bufimage.Image
		err error
	}
	ch := make(chan res, 1)
	go func() {
		defer func() {
			if p := recover(); p != nil {
				ch <- res{nil, fmt.Errorf("panic: %v", p)}
			}
		}()
		i, e := bufimage.BuildImage(ctx, slogext.NopLogger, bufmodule.ModuleSetToModuleReadBucketWithOnlyProtoFiles(ms), opts...)
		ch <- res{i, e}
	}()
	select {
	case r := <-ch:
		return r.img, r.err, false
	case <-time.After(20 * time.Second):
		return nil, nil, true
	}
}
