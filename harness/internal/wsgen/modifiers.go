package wsgen

// The IMPORT-MODIFIER family (strengthening round 6-E, seeds C10-m10 / C08-m9).
//
// `import "x";`, `import public "x";` and `import weak "x";` are three spellings of one thing as
// far as the module layer is concerned: fastscan reports every one of them (with IsPublic /
// IsWeak), getModuleDepsRec resolves every one of them to its module, FileInfo.Imports() lists
// every one of them.  A regression that treats one modifier differently is invisible unless the
// modifier is the ONLY link between two modules.  This file provides
//
//   - GenModifierFamily: stratified small workspaces ("members") in which each modifier is the only
//     link, sits in a chain, is mixed with other modifiers in one file / one module, points at a
//     well-known type (built-in or vendored), points at nothing, stays inside one module, or
//     closes a module cycle; every member carries the HAND-WRITTEN expectation of its shape
//     (dependencies with direct flags, or the error class, per module) which does not depend on
//     the modifiers chosen;
//   - Opts.ImportModifiers: a post-pass of Gen that re-draws the modifier of every import of a
//     random workspace from its own stream (Gen's own draws are unchanged).

import (
	"fmt"
	"sort"

	"github.com/bufbuild/verifharness/internal/hx"
)

// Import modifiers.
const (
	ModPlain = iota
	ModPublic
	ModWeak
)

// ModName is the keyword of a modifier ("plain" for none).
func ModName(m int) string {
	switch m {
	case ModPublic:
		return "public"
	case ModWeak:
		return "weak"
	}
	return "plain"
}

// Mod is the modifier of an import.
func (i Imp) Mod() int {
	switch {
	case i.Public:
		return ModPublic
	case i.Weak:
		return ModWeak
	}
	return ModPlain
}

func setMod(i *Imp, m int) {
	i.Public, i.Weak = m == ModPublic, m == ModWeak
}

// applyModifiers re-draws the modifier of every import of the workspace (1/3 weak, 1/4 public).
func applyModifiers(r *hx.Rand, ws *WS) {
	for i := range ws.Added {
		for j := range ws.Added[i].Files {
			f := &ws.Added[i].Files[j]
			for k := range f.Imports {
				switch x := r.Intn(12); {
				case x < 4:
					setMod(&f.Imports[k], ModWeak)
				case x < 7:
					setMod(&f.Imports[k], ModPublic)
				default:
					setMod(&f.Imports[k], ModPlain)
				}
			}
		}
	}
}

// ModMember is one member of the family.
type ModMember struct {
	WS    *WS
	Shape string // stratum, e.g. "chain"
	Label string // stratum + modifiers, e.g. "chain:weak-public"
	// Tags are distribution keys ("only-link:weak", "unprovided:weak", "cycle-closed-by:weak" ...).
	Tags []string
	// OID of the module called A, B, ... in the shape.
	Letters map[string]string
	// The expectation of the SHAPE, written by hand per stratum: what ModuleDeps() of each module
	// must return (dep OpaqueID -> direct flag) or the error class ("cycle" | "noimport").
	ExpDeps map[string]map[string]bool
	ExpErr  map[string]string
	// AllLocal: every module is a local module (the workspace can be given to the buf binary).
	AllLocal bool
}

type mImport struct {
	from     string // module letter
	fromFile int
	to       string // module letter, or "" when path is given
	toFile   int
	path     string // explicit import path (well-known type / nobody's file)
	mod      int
}

type mShape struct {
	shape, label string
	tags         []string
	mods         []string       // letters, the importer first
	nFiles       map[string]int // default 1
	vendor       map[string]string
	imports      []mImport
	deps         map[string]map[string]bool // letter -> letter -> direct
	errs         map[string]string
	missing      bool
}

var allMods = []int{ModPlain, ModPublic, ModWeak}

func mm(a, b int) string { return ModName(a) + "-" + ModName(b) }

const (
	wktFree     = "google/protobuf/timestamp.proto"
	wktOther    = "google/protobuf/any.proto"
	nobodysFile = "missing/none.proto"
)

// modShapes lists every member of the family (the same list for every seed).
func modShapes() []mShape {
	var out []mShape
	none := map[string]bool{}
	// 1. one import with each modifier as the ONLY link between two modules
	for _, m := range allMods {
		out = append(out, mShape{shape: "only-link", label: "only-link:" + ModName(m), tags: []string{"only-link:" + ModName(m)},
			mods: []string{"A", "B"}, imports: []mImport{{from: "A", to: "B", mod: m}},
			deps: map[string]map[string]bool{"A": {"B": true}, "B": none}})
	}
	// 2. chains A -> B -> C with every pair of modifiers
	for _, m1 := range allMods {
		for _, m2 := range allMods {
			out = append(out, mShape{shape: "chain", label: "chain:" + mm(m1, m2), tags: []string{"chain-first:" + ModName(m1), "chain-second:" + ModName(m2)},
				mods: []string{"A", "B", "C"}, imports: []mImport{{from: "A", to: "B", mod: m1}, {from: "B", to: "C", mod: m2}},
				deps: map[string]map[string]bool{"A": {"B": true, "C": false}, "B": {"C": true}, "C": none}})
		}
	}
	// 3. the same dependency imported from two files of one module with different modifiers
	for _, p := range [][2]int{{ModWeak, ModPlain}, {ModPlain, ModWeak}, {ModWeak, ModPublic}, {ModPublic, ModWeak}, {ModWeak, ModWeak}} {
		out = append(out, mShape{shape: "two-files", label: "two-files:" + mm(p[0], p[1]), tags: []string{"same-dep-two-files:" + mm(p[0], p[1])},
			mods: []string{"A", "B"}, nFiles: map[string]int{"A": 2},
			imports: []mImport{{from: "A", fromFile: 0, to: "B", mod: p[0]}, {from: "A", fromFile: 1, to: "B", mod: p[1]}},
			deps:    map[string]map[string]bool{"A": {"B": true}, "B": none}})
	}
	// 4. several modifiers in one import list (each of B, C, D reached through a different one),
	//    a weak well-known type among them
	for _, p := range [][3]int{{ModWeak, ModPublic, ModPlain}, {ModWeak, ModPlain, ModPublic}, {ModPublic, ModWeak, ModPlain},
		{ModPlain, ModWeak, ModPublic}, {ModPublic, ModPlain, ModWeak}, {ModPlain, ModPublic, ModWeak}} {
		out = append(out, mShape{shape: "one-list", label: fmt.Sprintf("one-list:%s-%s-%s", ModName(p[0]), ModName(p[1]), ModName(p[2])),
			tags: []string{"one-list-mixed"}, mods: []string{"A", "B", "C", "D"},
			imports: []mImport{{from: "A", to: "B", mod: p[0]}, {from: "A", path: wktOther, mod: ModWeak}, {from: "A", to: "C", mod: p[1]}, {from: "A", to: "D", mod: p[2]}},
			deps:    map[string]map[string]bool{"A": {"B": true, "C": true, "D": true}, "B": none, "C": none, "D": none}})
	}
	// 5. a well-known type nobody vendors: no dependency, no error
	for _, m := range allMods {
		out = append(out, mShape{shape: "wkt", label: "wkt:" + ModName(m), tags: []string{"wkt-builtin:" + ModName(m)},
			mods: []string{"A", "B"}, imports: []mImport{{from: "A", path: wktFree, mod: m}},
			deps: map[string]map[string]bool{"A": none, "B": none}})
	}
	// 6. a well-known type vendored by a module of the workspace: that module is a dependency
	for _, m := range allMods {
		out = append(out, mShape{shape: "wkt-vendored", label: "wkt-vendored:" + ModName(m), tags: []string{"wkt-vendored:" + ModName(m)},
			mods: []string{"A", "B"}, vendor: map[string]string{"B": wktFree}, imports: []mImport{{from: "A", path: wktFree, mod: m}},
			deps: map[string]map[string]bool{"A": {"B": true}, "B": none}})
	}
	// 7. an import nobody provides: import-not-exist whatever the modifier
	for _, m := range allMods {
		out = append(out, mShape{shape: "unprovided", label: "unprovided:" + ModName(m), tags: []string{"unprovided:" + ModName(m)}, missing: true,
			mods: []string{"A", "B"}, imports: []mImport{{from: "A", path: nobodysFile, mod: m}},
			deps: map[string]map[string]bool{"B": none}, errs: map[string]string{"A": "noimport"}})
	}
	// 8. ... also when the unprovided import sits in a dependency
	for _, p := range [][2]int{{ModPlain, ModWeak}, {ModWeak, ModWeak}, {ModWeak, ModPlain}, {ModPublic, ModWeak}} {
		out = append(out, mShape{shape: "unprovided-in-dep", label: "unprovided-in-dep:" + mm(p[0], p[1]), tags: []string{"unprovided-in-dep:" + ModName(p[1])}, missing: true,
			mods: []string{"A", "B"}, imports: []mImport{{from: "A", to: "B", mod: p[0]}, {from: "B", path: nobodysFile, mod: p[1]}},
			errs: map[string]string{"A": "noimport", "B": "noimport"}})
	}
	// 9. an import inside one module: no inter-module edge
	for _, m := range allMods {
		out = append(out, mShape{shape: "intra-module", label: "intra-module:" + ModName(m), tags: []string{"intra-module:" + ModName(m)},
			mods: []string{"A", "B"}, nFiles: map[string]int{"A": 2}, imports: []mImport{{from: "A", fromFile: 0, to: "A", toFile: 1, mod: m}},
			deps: map[string]map[string]bool{"A": none, "B": none}})
	}
	// 10. a module cycle (no file cycle: A.f0 -> B.f0, B.f1 -> A.f1) closed by each modifier
	for _, p := range [][2]int{{ModPlain, ModWeak}, {ModWeak, ModPlain}, {ModWeak, ModWeak}, {ModPublic, ModWeak}, {ModWeak, ModPublic}, {ModPlain, ModPlain}} {
		out = append(out, mShape{shape: "cycle", label: "cycle:" + mm(p[0], p[1]), tags: []string{"cycle-closed-by:" + ModName(p[1])},
			mods: []string{"A", "B"}, nFiles: map[string]int{"A": 2, "B": 2},
			imports: []mImport{{from: "A", fromFile: 0, to: "B", toFile: 0, mod: p[0]}, {from: "B", fromFile: 1, to: "A", toFile: 1, mod: p[1]}},
			errs:    map[string]string{"A": "cycle", "B": "cycle"}})
	}
	for _, m := range []int{ModWeak, ModPublic} {
		out = append(out, mShape{shape: "cycle3", label: "cycle3:" + ModName(m), tags: []string{"cycle-closed-by:" + ModName(m)},
			mods: []string{"A", "B", "C"}, nFiles: map[string]int{"A": 2},
			imports: []mImport{{from: "A", fromFile: 0, to: "B", mod: ModPlain}, {from: "B", to: "C", mod: ModPlain}, {from: "C", to: "A", toFile: 1, mod: m}},
			errs:    map[string]string{"A": "cycle", "B": "cycle", "C": "cycle"}})
	}
	// 11. a diamond whose edges are weak / public
	for _, p := range [][4]int{{ModWeak, ModWeak, ModWeak, ModPublic}, {ModWeak, ModWeak, ModWeak, ModWeak}} {
		out = append(out, mShape{shape: "diamond", label: fmt.Sprintf("diamond:%s-%s-%s-%s", ModName(p[0]), ModName(p[1]), ModName(p[2]), ModName(p[3])),
			tags: []string{"diamond"}, mods: []string{"A", "B", "C", "D"},
			imports: []mImport{{from: "A", to: "B", mod: p[0]}, {from: "A", to: "C", mod: p[1]}, {from: "B", to: "D", mod: p[2]}, {from: "C", to: "D", mod: p[3]}},
			deps:    map[string]map[string]bool{"A": {"B": true, "C": true, "D": false}, "B": {"D": true}, "C": {"D": true}, "D": none}})
	}
	// 12. a dependency that is direct through one modifier AND transitive through plain imports
	for _, m := range []int{ModWeak, ModPublic} {
		out = append(out, mShape{shape: "direct-and-transitive", label: "direct-and-transitive:" + ModName(m), tags: []string{"direct-flag-through:" + ModName(m)},
			mods: []string{"A", "B", "C"}, imports: []mImport{{from: "A", to: "C", mod: m}, {from: "A", to: "B", mod: ModPlain}, {from: "B", to: "C", mod: ModPlain}},
			deps: map[string]map[string]bool{"A": {"B": true, "C": true}, "B": {"C": true}, "C": none}})
	}
	// 13. a weak edge into a cycle the importer is not part of: the importer's own ModuleDeps()
	//     succeeds (with the cycle members as dependencies), the members report the cycle
	out = append(out, mShape{shape: "reaches-cycle", label: "reaches-cycle:weak", tags: []string{"reaches-cycle:weak"},
		mods: []string{"A", "B", "C"}, nFiles: map[string]int{"B": 2, "C": 2},
		imports: []mImport{{from: "A", to: "B", mod: ModWeak}, {from: "B", fromFile: 0, to: "C", toFile: 0, mod: ModPlain}, {from: "C", fromFile: 1, to: "B", toFile: 1, mod: ModPlain}},
		deps:    map[string]map[string]bool{"A": {"B": true, "C": false}}, errs: map[string]string{"B": "cycle", "C": "cycle"}})
	return out
}

// ModifierFamilySize is the number of members of the family.
func ModifierFamilySize() int { return len(modShapes()) }

// GenModifierFamily builds member k (0 <= k < ModifierFamilySize()) as a workspace of the given kind
// ("mem" | "v2" | "v1").  The shape and its modifiers are fixed by k; directory names, module
// names, file syntaxes, unused flags, add order, extra files / an extra module and (kind "mem"
// only) which dependencies are remote modules are drawn from r.
func GenModifierFamily(r *hx.Rand, k int, kind string) *ModMember {
	shapes := modShapes()
	sh := shapes[k%len(shapes)]
	ws := &WS{Kind: kind, PlantedMissing: sh.missing}
	m := &ModMember{WS: ws, Shape: sh.shape, Label: sh.label, Tags: sh.tags, Letters: map[string]string{},
		ExpDeps: map[string]map[string]bool{}, ExpErr: map[string]string{}, AllLocal: true}
	letters := append([]string{}, sh.mods...)
	if r.Chance(1, 3) {
		letters = append(letters, "Z") // an unrelated module
	}
	// module numbers are shuffled so that OpaqueID order and import direction are unrelated
	nums := make([]int, len(letters))
	for i := range nums {
		nums[i] = i
	}
	hx.Shuffle(r, nums)
	subdirs := []string{"", "", "sub/", "a/b/"}
	filePath := map[string][]string{}
	byLetter := map[string]*Added{}
	var added []Added
	for li, l := range letters {
		i := nums[li]
		a := Added{Dir: fmt.Sprintf("d%d", i), Local: true, Target: true}
		if kind == "mem" && l != "A" && r.Chance(1, 3) {
			a.Local = false
			m.AllLocal = false
		}
		if !a.Local || r.Chance(1, 2) {
			a.Name = fmt.Sprintf("buf.test/acme/n%d", (i*7+3)%10)
		}
		if !a.Local {
			a.Commit = 1
			a.CTime = 1700000000 + int64(r.Intn(1000))*10
			a.Dir = ""
			a.Target = false
		} else if kind == "mem" && l != "A" {
			a.Target = r.Bool()
		}
		n := 1
		if sh.nFiles[l] > 0 {
			n = sh.nFiles[l]
		}
		base := fmt.Sprintf("m%s/%s", string(rune('a'+int(l[0]-'A'))), hx.Pick(r, subdirs))
		for j := 0; j < n; j++ {
			f := File{Path: fmt.Sprintf("%sf%d.proto", base, j)}
			filePath[l] = append(filePath[l], f.Path)
			a.Files = append(a.Files, f)
		}
		if r.Chance(1, 3) {
			a.Files = append(a.Files, File{Path: base + "extra.proto"}) // a file nobody imports
		}
		if p := sh.vendor[l]; p != "" {
			a.Files = append(a.Files, File{Path: p})
		}
		for j := range a.Files {
			if _, isWkt := wktMsg[a.Files[j].Path]; isWkt {
				continue
			}
			switch r.Intn(6) {
			case 0:
				a.Files[j].Syntax = SynProto2
			case 1:
				a.Files[j].Syntax = SynNone
			case 2:
				a.Files[j].Syntax = SynEdition
			}
		}
		added = append(added, a)
	}
	for i := range added {
		byLetter[letters[i]] = &added[i]
	}
	for _, im := range sh.imports {
		imp := Imp{Path: im.path}
		if im.to != "" {
			imp.Path = filePath[im.to][im.toFile]
		}
		setMod(&imp, im.mod)
		// an import of nobody's file cannot be used; a weak / plain one is sometimes unused, a public
		// one is used (the compiler does not flag an unused public import, but C01 relies on the
		// generator's intent only through EffUnused, which C10 does not set)
		imp.Unused = imp.Path == nobodysFile || (im.mod != ModPublic && r.Chance(1, 3))
		f := &byLetter[im.from].Files[im.fromFile]
		f.Imports = append(f.Imports, imp)
	}
	for i := range added {
		sort.Slice(added[i].Files, func(x, y int) bool { return added[i].Files[x].Path < added[i].Files[y].Path })
	}
	for _, l := range letters {
		m.Letters[l] = byLetter[l].OID()
	}
	for l, ds := range sh.deps {
		e := map[string]bool{}
		for d, direct := range ds {
			e[m.Letters[d]] = direct
		}
		m.ExpDeps[m.Letters[l]] = e
	}
	for l, c := range sh.errs {
		m.ExpErr[m.Letters[l]] = c
	}
	if _, ok := m.Letters["Z"]; ok {
		m.ExpDeps[m.Letters["Z"]] = map[string]bool{}
	}
	// the add order is unrelated to the shape
	hx.Shuffle(r, added)
	ws.Added = added
	return m
}
