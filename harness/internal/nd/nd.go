// Package nd is the tiny structured-value format the C16 harness and the Lean driver share.
//
// A Node is an atom (arbitrary string) or a list of Nodes.  On a protocol line a Node is a
// sequence of space-separated tokens: "(" and ")" delimit a list, every other token is an atom,
// hex-encoded with hx.Enc ("-" is the empty string).  Records are positional lists.
package nd

import (
	"sort"
	"strings"

	"github.com/bufbuild/verifharness/internal/hx"
)

type Node struct {
	Atom   string
	List   []Node
	IsList bool
}

func A(s string) Node { return Node{Atom: s} }

func B(b bool) Node {
	if b {
		return A("1")
	}
	return A("0")
}

func L(xs ...Node) Node {
	if xs == nil {
		xs = []Node{}
	}
	return Node{List: xs, IsList: true}
}

// Strs is a list of atoms.
func Strs(ss []string) Node {
	xs := make([]Node, len(ss))
	for i, s := range ss {
		xs[i] = A(s)
	}
	return L(xs...)
}

// Map renders a map[string][]string as a key-sorted list of (key (values...)).
func Map(m map[string][]string) Node {
	keys := make([]string, 0, len(m))
	for k := range m {
		keys = append(keys, k)
	}
	sort.Strings(keys)
	xs := make([]Node, len(keys))
	for i, k := range keys {
		xs[i] = L(A(k), Strs(m[k]))
	}
	return L(xs...)
}

// StrMap renders a map[string]string as a key-sorted list of (key value).
func StrMap(m map[string]string) Node {
	keys := make([]string, 0, len(m))
	for k := range m {
		keys = append(keys, k)
	}
	sort.Strings(keys)
	xs := make([]Node, len(keys))
	for i, k := range keys {
		xs[i] = L(A(k), A(m[k]))
	}
	return L(xs...)
}

func (n Node) write(sb *strings.Builder) {
	if !n.IsList {
		sb.WriteString(hx.Enc(n.Atom))
		return
	}
	sb.WriteString("(")
	for _, x := range n.List {
		sb.WriteString(" ")
		x.write(sb)
	}
	sb.WriteString(" )")
}

// String is the protocol form.
func (n Node) String() string {
	var sb strings.Builder
	n.write(&sb)
	return sb.String()
}
