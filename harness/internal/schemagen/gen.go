package schemagen

// gen.go: a small schema AST, a random generator of compilable multi-file schemas and a
// renderer to .proto text with "cosmetic" knobs (comments, whitespace, layout, declaration
// order).  Everything is deterministic from an *hx.Rand.

import (
	"encoding/json"
	"sort"
	"strconv"
	"strings"

	"github.com/bufbuild/verifharness/internal/hx"
)

// ---------------------------------------------------------------------------------------------
// AST

// Opt is a rendered option: Name = Val (Val is the literal text, strings include the quotes).
type Opt struct{ Name, Val string }

// Range is an inclusive number range; Max renders the upper bound as `max`.
type Range struct {
	Lo, Hi int
	Max    bool
}

// RefKind says what Field.Type names.
const (
	RefScalar = 0
	RefMsg    = 1
	RefEnum   = 2
)

type Schema struct {
	Files []*File
	Ctr   int // fresh-name counter; names are unique over the whole schema history
}

type File struct {
	Name     string
	Package  string
	Syntax   string // "proto2" | "proto3" | "2023" (edition) | "" (no syntax line: proto2)
	Options  []*Opt
	Features []*Opt // editions: file-level `option features.<Name> = Val;`
	Messages []*Message
	Enums    []*Enum
	Services []*Service
	Extends  []*Extend
}

type Message struct {
	Name          string
	Fields        []*Field
	Nested        []*Message
	Enums         []*Enum
	Extends       []*Extend
	Reserved      []Range
	ReservedNames []string
	ExtRanges     []Range
	NoStdAccessor string // "", "true", "false": option no_standard_descriptor_accessor
	JSONFormat    string // editions: option features.json_format
	HiNum         int    // high-water mark of every number ever used in this message
}

type Field struct {
	Name     string
	Num      int
	Label    string // "", "optional", "required", "repeated"
	Type     string // scalar name or full name (no leading dot) of a message / enum
	Ref      int
	MapKey   string   // non-empty: map<MapKey, Type>
	Group    *Message // non-nil: proto2 group, Type/Ref unused
	Oneof    string
	JSONName string
	Default  string
	JSType   string
	CType    string
	Features []*Opt // editions: features.<Name> = Val
	Packed   string // proto2 / proto3: "", "true", "false" ([packed = ...])
}

type EnumValue struct {
	Name string
	Num  int
}

type Enum struct {
	Name          string
	Values        []*EnumValue
	AllowAlias    bool
	Reserved      []Range
	ReservedNames []string
	EnumType      string // editions: features.enum_type ("CLOSED"/"OPEN"/"")
	JSONFormat    string // editions: features.json_format
	HiNum, LoNum  int
}

type Method struct {
	Name    string
	In, Out string
	CS, SS  bool
	Idem    string // "", "IDEMPOTENT", "NO_SIDE_EFFECTS", "IDEMPOTENCY_UNKNOWN"
}

type Service struct {
	Name    string
	Methods []*Method
}

type Extend struct {
	Extendee string
	Fields   []*Field
}

func (f *File) IsProto3() bool   { return f.Syntax == "proto3" }
func (f *File) IsEditions() bool { return f.Syntax == "2023" }
func (f *File) IsProto2() bool   { return f.Syntax == "proto2" || f.Syntax == "" }

// Clone is a deep copy.
func (s *Schema) Clone() *Schema {
	b, err := json.Marshal(s)
	if err != nil {
		panic(err)
	}
	out := &Schema{}
	if err := json.Unmarshal(b, out); err != nil {
		panic(err)
	}
	return out
}

func (s *Schema) fresh(prefix string) string {
	s.Ctr++
	return prefix + strconv.Itoa(s.Ctr)
}

func (f *File) prefix() string {
	if f.Package == "" {
		return ""
	}
	return f.Package + "."
}

func (f *File) Opt(name string) *Opt {
	for _, o := range f.Options {
		if o.Name == name {
			return o
		}
	}
	return nil
}

// Feature is the file-level value of an editions feature ("" = edition default).
func (f *File) Feature(name string) string {
	for _, o := range f.Features {
		if o.Name == name {
			return o.Val
		}
	}
	return ""
}

func (f *File) SetFeature(name, val string) {
	for i, o := range f.Features {
		if o.Name == name {
			if val == "" {
				f.Features = append(f.Features[:i:i], f.Features[i+1:]...)
			} else {
				o.Val = val
			}
			return
		}
	}
	if val != "" {
		f.Features = append(f.Features, &Opt{name, val})
	}
}

// Delimited: is the field group-encoded by an editions feature (set on the field, or inherited
// from the file)?  Map fields are never delimited (protobuf-go keeps MessageKind for them).
func Delimited(f *File, fl *Field) bool {
	if !f.IsEditions() || fl.Ref != RefMsg || fl.MapKey != "" || fl.Group != nil {
		return false
	}
	switch fl.Feature("message_encoding") {
	case "DELIMITED":
		return true
	case "LENGTH_PREFIXED":
		return false
	}
	return f.Feature("message_encoding") == "DELIMITED"
}

// DelimitedInherited: delimited only because the file says so.
func DelimitedInherited(f *File, fl *Field) bool {
	return Delimited(f, fl) && fl.Feature("message_encoding") == ""
}

func (f *Field) Feature(name string) string {
	for _, o := range f.Features {
		if o.Name == name {
			return o.Val
		}
	}
	return ""
}

func (f *Field) SetFeature(name, val string) {
	for i, o := range f.Features {
		if o.Name == name {
			if val == "" {
				f.Features = append(f.Features[:i:i], f.Features[i+1:]...)
			} else {
				o.Val = val
			}
			return
		}
	}
	if val != "" {
		f.Features = append(f.Features, &Opt{name, val})
	}
}

// nextNum returns a field number never used before in this message.
func (m *Message) nextNum(r *hx.Rand) int {
	n := m.HiNum + 1
	if r != nil && r.Chance(1, 6) {
		n += r.Intn(4)
	}
	if n >= 19000 && n <= 19999 {
		n = 20000
	}
	m.HiNum = n
	return n
}

func (e *Enum) nextNum(r *hx.Rand) int {
	if r != nil && r.Chance(1, 8) {
		e.LoNum--
		return e.LoNum
	}
	e.HiNum++
	if r != nil && r.Chance(1, 6) {
		e.HiNum += r.Intn(3)
	}
	return e.HiNum
}

// ---------------------------------------------------------------------------------------------
// Walking

// MsgLoc locates a message (also group messages) in the schema.
type MsgLoc struct {
	F      *File
	Parent *Message // nil for top-level
	M      *Message
	Full   string // full name
	Nested string // name within the file ("A.B")
	Depth  int
	Group  *Field // the group field that declares M, if any
	// Ext != nil: not a message at all but the pseudo location of an extension field, so that
	// the field operators can be applied to extensions (M is an empty dummy, Full is "").
	Ext *extSite
}

func (s *Schema) Msgs() []MsgLoc {
	var out []MsgLoc
	var rec func(f *File, parent *Message, m *Message, nestedPrefix string, depth int, g *Field)
	rec = func(f *File, parent *Message, m *Message, nestedPrefix string, depth int, g *Field) {
		nested := nestedPrefix + m.Name
		out = append(out, MsgLoc{F: f, Parent: parent, M: m, Full: f.prefix() + nested, Nested: nested, Depth: depth, Group: g})
		for _, fl := range m.Fields {
			if fl.Group != nil {
				rec(f, m, fl.Group, nested+".", depth+1, fl)
			}
		}
		for _, n := range m.Nested {
			rec(f, m, n, nested+".", depth+1, nil)
		}
	}
	for _, f := range s.Files {
		for _, m := range f.Messages {
			rec(f, nil, m, "", 1, nil)
		}
	}
	return out
}

func (s *Schema) Msg(full string) *MsgLoc {
	for _, ml := range s.Msgs() {
		if ml.Full == full {
			ml := ml
			return &ml
		}
	}
	return nil
}

// EnumLoc locates an enum.
type EnumLoc struct {
	F          *File
	Parent     *Message
	ParentFull string
	E          *Enum
	Full       string
	Nested     string
}

func (s *Schema) EnumsAll() []EnumLoc {
	var out []EnumLoc
	for _, f := range s.Files {
		for _, e := range f.Enums {
			out = append(out, EnumLoc{F: f, E: e, Full: f.prefix() + e.Name, Nested: e.Name})
		}
	}
	for _, ml := range s.Msgs() {
		for _, e := range ml.M.Enums {
			out = append(out, EnumLoc{F: ml.F, Parent: ml.M, ParentFull: ml.Full, E: e, Full: ml.Full + "." + e.Name, Nested: ml.Nested + "." + e.Name})
		}
	}
	return out
}

func (s *Schema) EnumByName(full string) *EnumLoc {
	for _, el := range s.EnumsAll() {
		if el.Full == full {
			el := el
			return &el
		}
	}
	return nil
}

// ExtLoc locates an extend block.
type ExtLoc struct {
	F          *File
	Parent     *Message // nil: top-level
	ParentFull string
	ParentNest string
	X          *Extend
}

func (s *Schema) ExtendsAll() []ExtLoc {
	var out []ExtLoc
	for _, f := range s.Files {
		for _, x := range f.Extends {
			out = append(out, ExtLoc{F: f, X: x})
		}
	}
	for _, ml := range s.Msgs() {
		for _, x := range ml.M.Extends {
			out = append(out, ExtLoc{F: ml.F, Parent: ml.M, ParentFull: ml.Full, ParentNest: ml.Nested, X: x})
		}
	}
	return out
}

// RefSite is one place that names a type.
type RefSite struct {
	Ref   *string
	Kind  int    // RefMsg / RefEnum
	F     *File  // file containing the reference
	Scope string // full name of the enclosing message ("" for top-level extends, methods)
	Fld   *Field // the field (nil for extendee / rpc types)
}

func (s *Schema) Refs() []RefSite {
	var out []RefSite
	addField := func(f *File, scope string, fl *Field) {
		if fl.Group == nil && fl.Ref != RefScalar {
			out = append(out, RefSite{Ref: &fl.Type, Kind: fl.Ref, F: f, Scope: scope, Fld: fl})
		}
	}
	for _, ml := range s.Msgs() {
		for _, fl := range ml.M.Fields {
			addField(ml.F, ml.Full, fl)
		}
	}
	for _, xl := range s.ExtendsAll() {
		out = append(out, RefSite{Ref: &xl.X.Extendee, Kind: RefMsg, F: xl.F, Scope: xl.ParentFull})
		for _, fl := range xl.X.Fields {
			addField(xl.F, xl.ParentFull, fl)
		}
	}
	for _, f := range s.Files {
		for _, sv := range f.Services {
			for _, m := range sv.Methods {
				out = append(out, RefSite{Ref: &m.In, Kind: RefMsg, F: f}, RefSite{Ref: &m.Out, Kind: RefMsg, F: f})
			}
		}
	}
	return out
}

func within(name, root string) bool {
	return name == root || strings.HasPrefix(name, root+".")
}

// ExternalRefs counts references to `full` (or anything nested in it) from outside its subtree.
func (s *Schema) ExternalRefs(full string) int {
	n := 0
	for _, rs := range s.Refs() {
		if within(*rs.Ref, full) && !(rs.Scope != "" && within(rs.Scope, full)) {
			n++
		}
	}
	return n
}

// TypeIndex maps every message / enum full name to its file.
func (s *Schema) TypeIndex() map[string]*File {
	idx := map[string]*File{}
	for _, ml := range s.Msgs() {
		idx[ml.Full] = ml.F
	}
	for _, el := range s.EnumsAll() {
		idx[el.Full] = el.F
	}
	return idx
}

// Imports computes the import list of every file.
func (s *Schema) Imports() map[string][]string {
	idx := s.TypeIndex()
	set := map[string]map[string]bool{}
	for _, rs := range s.Refs() {
		df := idx[*rs.Ref]
		if df == nil || df == rs.F {
			continue
		}
		if set[rs.F.Name] == nil {
			set[rs.F.Name] = map[string]bool{}
		}
		set[rs.F.Name][df.Name] = true
	}
	out := map[string][]string{}
	for f, m := range set {
		for k := range m {
			out[f] = append(out[f], k)
		}
		sort.Strings(out[f])
	}
	return out
}

// WellFormed checks the invariants the operators may break: every reference resolves, the
// import graph is acyclic, proto3 files only use open enums.
func (s *Schema) WellFormed() bool {
	idx := s.TypeIndex()
	for _, rs := range s.Refs() {
		if idx[*rs.Ref] == nil {
			return false
		}
	}
	enumOpen := map[string]bool{}
	for _, el := range s.EnumsAll() {
		enumOpen[el.Full] = el.IsOpen()
	}
	for _, rs := range s.Refs() {
		if rs.Kind == RefEnum && rs.F.IsProto3() && !enumOpen[*rs.Ref] {
			return false
		}
	}
	imp := s.Imports()
	state := map[string]int{}
	var visit func(string) bool
	visit = func(f string) bool {
		switch state[f] {
		case 1:
			return false
		case 2:
			return true
		}
		state[f] = 1
		for _, d := range imp[f] {
			if !visit(d) {
				return false
			}
		}
		state[f] = 2
		return true
	}
	for _, f := range s.Files {
		if !visit(f.Name) {
			return false
		}
	}
	return true
}

// IsOpen reports whether the enum is open (proto3, or editions without enum_type = CLOSED).
func (el EnumLoc) IsOpen() bool {
	switch {
	case el.F.IsProto3():
		return true
	case el.F.IsEditions():
		if el.E.EnumType != "" {
			return el.E.EnumType != "CLOSED"
		}
		return el.F.Feature("enum_type") != "CLOSED"
	}
	return false
}

// ---------------------------------------------------------------------------------------------
// Generator

var (
	scalarTypes = []string{"double", "float", "int32", "int64", "uint32", "uint64", "sint32", "sint64",
		"fixed32", "fixed64", "sfixed32", "sfixed64", "bool", "string", "bytes"}
	mapKeyTypes = []string{"int32", "int64", "uint32", "uint64", "sint32", "sint64", "fixed32", "fixed64",
		"sfixed32", "sfixed64", "bool", "string", "string", "string"}
	msgWords   = []string{"User", "Order", "Item", "Event", "Config", "Address", "Invoice", "Batch", "Node"}
	fieldWords = []string{"id", "name", "count", "flag", "payload", "total", "ratio", "tags", "owner", "state", "created_at", "x"}
	enumWords  = []string{"Status", "Kind", "Color", "Mode", "Level"}
	valueWords = []string{"UNKNOWN", "ACTIVE", "DELETED", "RED", "LOW", "HIGH", "PENDING", "DONE", "A", "B"}
	svcWords   = []string{"Api", "Store", "Admin"}
	rpcWords   = []string{"Get", "List", "Watch", "Put", "Delete", "Sync"}
)

// TrackedFileOptions: option name -> field number in FileOptions and kind (s string, b bool, e enum).
var TrackedFileOptions = []struct {
	Name string
	Num  int
	Kind byte
	Rule string
}{
	{"go_package", 11, 's', "FILE_SAME_GO_PACKAGE"},
	{"java_package", 1, 's', "FILE_SAME_JAVA_PACKAGE"},
	{"java_multiple_files", 10, 'b', "FILE_SAME_JAVA_MULTIPLE_FILES"},
	{"java_outer_classname", 8, 's', "FILE_SAME_JAVA_OUTER_CLASSNAME"},
	{"csharp_namespace", 37, 's', "FILE_SAME_CSHARP_NAMESPACE"},
	{"objc_class_prefix", 36, 's', "FILE_SAME_OBJC_CLASS_PREFIX"},
	{"php_namespace", 41, 's', "FILE_SAME_PHP_NAMESPACE"},
	{"php_class_prefix", 40, 's', "FILE_SAME_PHP_CLASS_PREFIX"},
	{"php_metadata_namespace", 44, 's', "FILE_SAME_PHP_METADATA_NAMESPACE"},
	{"ruby_package", 45, 's', "FILE_SAME_RUBY_PACKAGE"},
	{"swift_prefix", 39, 's', "FILE_SAME_SWIFT_PREFIX"},
	{"optimize_for", 9, 'e', "FILE_SAME_OPTIMIZE_FOR"},
	{"cc_enable_arenas", 31, 'b', "FILE_SAME_CC_ENABLE_ARENAS"},
	{"cc_generic_services", 16, 'b', "FILE_SAME_CC_GENERIC_SERVICES"},
	{"java_generic_services", 17, 'b', "FILE_SAME_JAVA_GENERIC_SERVICES"},
	{"py_generic_services", 18, 'b', "FILE_SAME_PY_GENERIC_SERVICES"},
}

// fileOptDefault is the effective value of an unset option, in rendered form.
func fileOptDefault(name string, kind byte) string {
	switch {
	case name == "cc_enable_arenas":
		return "true"
	case kind == 'b':
		return "false"
	case kind == 'e':
		return "SPEED"
	}
	return `""`
}

func randFileOptVal(r *hx.Rand, s *Schema, name string, kind byte) string {
	switch kind {
	case 'b':
		if r.Bool() {
			return "true"
		}
		return "false"
	case 'e':
		return hx.Pick(r, []string{"SPEED", "CODE_SIZE"})
	}
	words := []string{"example.com/gen/v", "com.example.v", "Acme", "XY", `Acme\\V`, "acme_v"}
	return `"` + hx.Pick(r, words) + strconv.Itoa(r.Intn(9)) + `"`
}

type tinfo struct {
	Full string
	F    *File
	Open bool // enums: usable from proto3
	Zero bool // enums: first value is 0
	E    *Enum
	M    *Message
}

type gen struct {
	r     *hx.Rand
	s     *Schema
	msgs  []tinfo
	enums []tinfo
	nMsgs int
}

func upper(s string) string { return strings.ToUpper(s) }

func (g *gen) genEnum(f *File, scope string) *Enum {
	r := g.r
	e := &Enum{Name: hx.Pick(r, enumWords) + g.s.fresh("")}
	n := 1 + r.Intn(4)
	first := 0
	closed := f.IsProto2()
	if f.IsEditions() {
		switch {
		case f.Feature("enum_type") == "CLOSED":
			closed = true
			if r.Chance(1, 3) {
				e.EnumType, closed = "OPEN", false
			}
		case r.Chance(1, 3):
			e.EnumType, closed = "CLOSED", true
		}
	}
	if closed && r.Chance(1, 3) {
		first = 1 + r.Intn(3)
	}
	e.HiNum = first - 1
	used := map[string]bool{}
	for i := 0; i < n; i++ {
		w := hx.Pick(r, valueWords)
		for used[w] {
			w = hx.Pick(r, valueWords) + g.s.fresh("")
		}
		used[w] = true
		num := first
		if i > 0 {
			num = e.nextNum(r)
		} else {
			e.HiNum = first
		}
		e.Values = append(e.Values, &EnumValue{Name: upper(e.Name) + "_" + w, Num: num})
	}
	if n >= 2 && r.Chance(1, 4) {
		// 1-3 further names, for one or two of the numbers (so numbers with 1, 2, 3 and 4 names
		// occur, also for the first value); the aliases are declared anywhere after the first value
		e.AllowAlias = true
		v := hx.Pick(r, e.Values)
		for k := 1 + r.Intn(3); k > 0; k-- {
			if r.Chance(1, 3) {
				v = hx.Pick(r, e.Values)
			}
			a := &EnumValue{Name: upper(e.Name) + "_ALIAS" + g.s.fresh(""), Num: v.Num}
			pos := 1 + r.Intn(len(e.Values))
			e.Values = append(e.Values, nil)
			copy(e.Values[pos+1:], e.Values[pos:])
			e.Values[pos] = a
		}
	}
	if r.Chance(1, 4) {
		lo := e.nextNum(nil) + r.Intn(3)
		hi := lo + r.Intn(3)
		e.HiNum = hi
		e.Reserved = append(e.Reserved, Range{Lo: lo, Hi: hi})
		if r.Chance(1, 3) {
			e.LoNum -= 2
			e.Reserved = append(e.Reserved, Range{Lo: e.LoNum - 3, Hi: e.LoNum})
			e.LoNum -= 3
		}
		if r.Chance(1, 3) {
			e.Reserved = append(e.Reserved, Range{Lo: 1000000 + r.Intn(5), Hi: 2147483647, Max: true})
		}
	}
	if r.Chance(1, 5) {
		e.ReservedNames = append(e.ReservedNames, upper(e.Name)+"_OLD"+g.s.fresh(""))
		if r.Bool() {
			e.ReservedNames = append(e.ReservedNames, upper(e.Name)+"_GONE"+g.s.fresh(""))
		}
	}
	if f.IsEditions() && r.Chance(1, 6) {
		e.JSONFormat = "ALLOW"
	}
	full := scope + e.Name
	g.enums = append(g.enums, tinfo{Full: full, F: f, Open: !closed, Zero: e.Values[0].Num == 0, E: e})
	return e
}

// genAliasEnum builds an `allow_alias` enum whose numbers have 1, 2 or 3 names: zero, a dense block
// 1..3, isolated numbers with free neighbours (so that ranges next to / around them can be
// reserved) and negative numbers.  The names of one number are NOT adjacent in declaration order;
// in a closed enum a non-zero value may be declared first.  No field uses the enum (no default /
// map-value restrictions apply to it).
func (g *gen) genAliasEnum(f *File, base string) *Enum {
	r := g.r
	e := &Enum{Name: base + g.s.fresh(""), AllowAlias: true}
	u := upper(e.Name)
	closed := f.IsProto2()
	if f.IsEditions() {
		closed = f.Feature("enum_type") == "CLOSED"
		switch r.Intn(3) {
		case 0:
			e.EnumType, closed = "CLOSED", true
		case 1:
			e.EnumType, closed = "OPEN", false
		}
	}
	type grp struct{ num, k int }
	groups := []grp{
		{0, 1 + r.Intn(3)}, {1, 1}, {2, 2}, {3, 3},
		{10, 1 + r.Intn(3)}, {20, 2 + r.Intn(2)}, {-2, 1 + r.Intn(3)},
	}
	var first *EnumValue
	var rest []*EnumValue
	for _, gp := range groups {
		for j := 0; j < gp.k; j++ {
			tag := "V" + strconv.Itoa(gp.num)
			if gp.num < 0 {
				tag = "M" + strconv.Itoa(-gp.num)
			}
			v := &EnumValue{Name: u + "_" + tag + "_" + string(rune('A'+j)), Num: gp.num}
			if gp.num == 0 && j == 0 {
				first = v
			} else {
				rest = append(rest, v)
			}
		}
	}
	hx.Shuffle(r, rest)
	if closed && r.Chance(1, 3) {
		// a closed enum may declare a non-zero value first
		at := r.Intn(len(rest))
		first, rest[at] = rest[at], first
	}
	e.Values = append([]*EnumValue{first}, rest...)
	e.HiNum, e.LoNum = 20, -2
	if r.Bool() {
		e.Reserved = append(e.Reserved, Range{Lo: 100, Hi: 100 + r.Intn(4)})
		e.HiNum = 110
	}
	if r.Bool() {
		e.ReservedNames = append(e.ReservedNames, u+"_OLD"+g.s.fresh(""))
	}
	return e
}

// defaultLit draws a non-zero default literal of a scalar type: an everyday value or a boundary /
// near-boundary one (defaults.go defaultPools; all literals of a type are distinct values).
func defaultLit(r *hx.Rand, typ string) string {
	if typ == "bool" {
		return "true"
	}
	return poolLit(r, typ)
}

func is64(typ string) bool {
	switch typ {
	case "int64", "uint64", "sint64", "fixed64", "sfixed64":
		return true
	}
	return false
}

// pickEnum chooses an enum usable from file f.
func (g *gen) pickEnum(f *File, needZero bool) *tinfo {
	var c []int
	for i, e := range g.enums {
		if f.IsProto3() && !e.Open {
			continue
		}
		if needZero && !e.Zero {
			continue
		}
		c = append(c, i)
	}
	if len(c) == 0 {
		return nil
	}
	return &g.enums[hx.Pick(g.r, c)]
}

// genType fills Type/Ref of a singular element type.
func (g *gen) genType(f *File, fl *Field, allowMsg bool) {
	r := g.r
	k := r.Intn(10)
	switch {
	case k < 2 && allowMsg && len(g.msgs) > 0:
		fl.Type, fl.Ref = hx.Pick(r, g.msgs).Full, RefMsg
	case k < 4:
		if e := g.pickEnum(f, fl.MapKey != ""); e != nil {
			fl.Type, fl.Ref = e.Full, RefEnum
			return
		}
		fallthrough
	default:
		fl.Type, fl.Ref = hx.Pick(r, scalarTypes), RefScalar
	}
}

func (g *gen) fieldName() string { return hx.Pick(g.r, fieldWords) + "_" + g.s.fresh("") }

func (g *gen) genFieldOptions(f *File, fl *Field) {
	r := g.r
	if r.Chance(1, 8) {
		fl.JSONName = "jn" + g.s.fresh("")
	}
	if fl.Ref == RefScalar && is64(fl.Type) && fl.MapKey == "" && r.Chance(1, 3) {
		fl.JSType = hx.Pick(r, []string{"JS_STRING", "JS_NUMBER", "JS_NORMAL"})
	}
	canDefault := !f.IsProto3() && fl.Label != "repeated" && fl.MapKey == "" && fl.Group == nil && fl.Ref != RefMsg &&
		fl.Feature("field_presence") != "IMPLICIT"
	if canDefault && r.Chance(1, 4) {
		if fl.Ref == RefEnum {
			for _, e := range g.enums {
				if e.Full == fl.Type {
					fl.Default = hx.Pick(r, e.E.Values).Name
				}
			}
		} else {
			fl.Default = defaultLit(r, fl.Type)
		}
	}
}

func (g *gen) genField(f *File, m *Message, scope string, depth int, inOneof bool) *Field {
	r := g.r
	fl := &Field{Name: g.fieldName(), Num: m.nextNum(r)}
	k := r.Intn(20)
	switch {
	case k < 2 && !inOneof: // map
		fl.MapKey = hx.Pick(r, mapKeyTypes)
		g.genType(f, fl, true)
	case k < 3 && f.Syntax == "proto2" && depth < 3: // group (also as a oneof member)
		gm := &Message{Name: "Grp" + g.s.fresh("")}
		fl.Name = strings.ToLower(gm.Name)
		fl.Group = gm
		n := 1 + r.Intn(2)
		for i := 0; i < n; i++ {
			gm.Fields = append(gm.Fields, g.genField(f, gm, scope+gm.Name+".", depth+1, false))
		}
		fl.Label = hx.Pick(r, []string{"optional", "optional", "repeated"})
		if inOneof {
			fl.Label = ""
		}
		g.msgs = append(g.msgs, tinfo{Full: scope + gm.Name, F: f, M: gm})
		return fl
	default:
		g.genType(f, fl, true)
	}
	if f.IsEditions() && fl.Ref == RefMsg && fl.MapKey == "" {
		// delimited by a feature on the field, or an explicit override of the file default
		switch x := r.Intn(8); {
		case x < 2:
			fl.SetFeature("message_encoding", "DELIMITED")
		case x < 3:
			fl.SetFeature("message_encoding", "LENGTH_PREFIXED")
		}
	}
	if inOneof || fl.MapKey != "" {
		g.genFieldOptions(f, fl)
		return fl
	}
	defer g.genPacked(f, fl)
	switch {
	case f.IsProto3():
		switch x := r.Intn(10); {
		case x < 2:
			fl.Label = "repeated"
		case x < 4:
			fl.Label = "optional"
		}
	case f.IsEditions():
		switch x := r.Intn(12); {
		case x < 3:
			fl.Label = "repeated"
		case x < 5 && fl.Ref == RefScalar:
			fl.SetFeature("field_presence", "IMPLICIT")
		case x < 6:
			fl.SetFeature("field_presence", "LEGACY_REQUIRED")
		}
	default:
		switch x := r.Intn(10); {
		case x < 3:
			fl.Label = "repeated"
		case x < 4:
			fl.Label = "required"
		default:
			fl.Label = "optional"
		}
	}
	g.genFieldOptions(f, fl)
	return fl
}

// packable: repeated scalar numeric / bool / enum fields
func packable(fl *Field) bool {
	if fl.Label != "repeated" || fl.MapKey != "" || fl.Group != nil || fl.Ref == RefMsg {
		return false
	}
	return fl.Ref == RefEnum || (fl.Type != "string" && fl.Type != "bytes")
}

// genPacked chooses the packed / expanded encoding of a repeated field explicitly now and then.
func (g *gen) genPacked(f *File, fl *Field) {
	if !packable(fl) || !g.r.Chance(1, 2) {
		return
	}
	switch {
	case f.IsEditions():
		fl.SetFeature("repeated_field_encoding", hx.Pick(g.r, []string{"EXPANDED", "EXPANDED", "PACKED"}))
	case f.IsProto3():
		fl.Packed = hx.Pick(g.r, []string{"false", "false", "true"})
	default:
		fl.Packed = hx.Pick(g.r, []string{"true", "true", "false"})
	}
}

// genFileFeatures: file-level defaults of an editions file (inherited by every element).
func (g *gen) genFileFeatures(f *File) {
	if !f.IsEditions() {
		return
	}
	r := g.r
	if r.Chance(1, 3) {
		f.SetFeature("message_encoding", "DELIMITED")
	}
	if r.Chance(1, 4) {
		f.SetFeature("enum_type", "CLOSED")
	}
	if r.Chance(1, 4) {
		f.SetFeature("utf8_validation", "NONE")
	}
	if r.Chance(1, 4) {
		f.SetFeature("json_format", "LEGACY_BEST_EFFORT")
	}
	if r.Chance(1, 4) {
		f.SetFeature("repeated_field_encoding", "EXPANDED")
	}
}

func roundUp(n, to int) int { return ((n + to - 1) / to) * to }

func (g *gen) genMessage(f *File, scope string, depth int) *Message {
	r := g.r
	g.nMsgs++
	m := &Message{Name: hx.Pick(r, msgWords) + g.s.fresh("")}
	full := scope + m.Name
	inner := full + "."
	if r.Chance(1, 4) {
		m.Enums = append(m.Enums, g.genEnum(f, inner))
	}
	if depth < 3 && g.nMsgs < 6 && r.Chance(1, 3) {
		m.Nested = append(m.Nested, g.genMessage(f, inner, depth+1))
	}
	// self reference is possible: register before the fields
	g.msgs = append(g.msgs, tinfo{Full: full, F: f, M: m})
	nf := r.Intn(6)
	if r.Chance(1, 12) {
		m.HiNum = hx.Pick(r, []int{99, 18990, 65535, 20000000})
	}
	for i := 0; i < nf; i++ {
		m.Fields = append(m.Fields, g.genField(f, m, inner, depth, false))
	}
	if r.Chance(1, 3) && len(m.Fields) < 6 {
		oo := "choice_" + g.s.fresh("")
		n := 1 + r.Intn(3)
		for i := 0; i < n; i++ {
			fl := g.genField(f, m, inner, depth, true)
			fl.Oneof = oo
			m.Fields = append(m.Fields, fl)
		}
		if r.Chance(1, 3) {
			// one trailing ordinary field after the oneof
			m.Fields = append(m.Fields, g.genField(f, m, inner, depth, false))
		}
	}
	if r.Chance(1, 4) {
		lo := m.nextNum(nil) + r.Intn(3)
		hi := lo + r.Intn(4)
		if lo < 19000 && hi >= 19000 {
			hi = lo
		}
		m.HiNum = hi
		m.Reserved = append(m.Reserved, Range{Lo: lo, Hi: hi})
		if r.Chance(1, 3) {
			n := m.nextNum(nil)
			m.Reserved = append(m.Reserved, Range{Lo: n, Hi: n})
		}
	}
	if r.Chance(1, 5) {
		m.ReservedNames = append(m.ReservedNames, "old_"+g.s.fresh(""))
		if r.Bool() {
			m.ReservedNames = append(m.ReservedNames, "gone_"+g.s.fresh(""))
		}
	}
	maxTaken := false
	if !f.IsProto3() && r.Chance(1, 3) {
		lo := roundUp(m.HiNum+1, 100)
		if lo >= 19000 && lo <= 19999 {
			lo = 20000
		}
		m.ExtRanges = append(m.ExtRanges, Range{Lo: lo, Hi: lo + 99})
		m.HiNum = lo + 99
		if r.Chance(1, 4) {
			lo2 := roundUp(m.HiNum+1000, 1000)
			if lo2 >= 19000 && lo2 <= 19999 {
				lo2 = 20000
			}
			if r.Bool() {
				m.ExtRanges = append(m.ExtRanges, Range{Lo: 100000000, Hi: 536870911, Max: true})
				maxTaken = true
			} else {
				m.ExtRanges = append(m.ExtRanges, Range{Lo: lo2, Hi: lo2 + 9})
				m.HiNum = lo2 + 9
			}
		}
	}
	if !maxTaken && r.Chance(1, 10) {
		m.Reserved = append(m.Reserved, Range{Lo: 200000000, Hi: 536870911, Max: true})
	}
	if r.Chance(1, 12) {
		m.NoStdAccessor = hx.Pick(r, []string{"true", "false", "false"})
	}
	if f.IsEditions() && r.Chance(1, 6) {
		m.JSONFormat = "ALLOW"
	}
	return m
}

// extendable lists messages with extension ranges visible so far.
func (g *gen) extendable() []tinfo {
	var out []tinfo
	for _, t := range g.msgs {
		if t.M != nil && len(t.M.ExtRanges) > 0 {
			out = append(out, t)
		}
	}
	return out
}

// FreeExtNum returns an unused extension number of the message `full`, or 0.
func (s *Schema) FreeExtNum(full string) int { return s.freeExtNumExcept(full, nil) }

func (s *Schema) freeExtNumExcept(full string, taken map[int]bool) int {
	ml := s.Msg(full)
	if ml == nil {
		return 0
	}
	used := map[int]bool{}
	for n := range taken {
		used[n] = true
	}
	for _, xl := range s.ExtendsAll() {
		if xl.X.Extendee == full {
			for _, fl := range xl.X.Fields {
				used[fl.Num] = true
			}
		}
	}
	for _, rg := range ml.M.ExtRanges {
		for n := rg.Lo; n <= rg.Hi && n < rg.Lo+60; n++ {
			if !used[n] {
				return n
			}
		}
	}
	return 0
}

func (g *gen) genExtend(f *File, target tinfo) *Extend {
	r := g.r
	x := &Extend{Extendee: target.Full}
	n := 1 + r.Intn(2)
	for i := 0; i < n; i++ {
		// numbers already handed out in this block are not yet visible to FreeExtNum
		taken := map[int]bool{}
		for _, prev := range x.Fields {
			taken[prev.Num] = true
		}
		num := g.s.freeExtNumExcept(target.Full, taken)
		if num == 0 || !inRanges(target.M.ExtRanges, num) {
			break
		}
		fl := &Field{Name: "ext_" + g.s.fresh(""), Num: num}
		g.genType(f, fl, true)
		if f.IsProto2() {
			fl.Label = hx.Pick(r, []string{"optional", "optional", "repeated"})
		} else if r.Chance(1, 3) {
			fl.Label = "repeated"
		}
		if fl.Label != "repeated" && fl.Ref == RefScalar && r.Chance(1, 4) {
			fl.Default = defaultLit(r, fl.Type)
		}
		x.Fields = append(x.Fields, fl)
	}
	if len(x.Fields) == 0 {
		return nil
	}
	return x
}

func inRanges(rs []Range, n int) bool {
	for _, r := range rs {
		if n >= r.Lo && n <= r.Hi {
			return true
		}
	}
	return false
}

func (g *gen) genService(f *File) *Service {
	r := g.r
	sv := &Service{Name: hx.Pick(r, svcWords) + g.s.fresh("")}
	n := 1 + r.Intn(3)
	for i := 0; i < n; i++ {
		sv.Methods = append(sv.Methods, g.genMethod())
	}
	return sv
}

func (g *gen) genMethod() *Method {
	r := g.r
	m := &Method{Name: hx.Pick(r, rpcWords) + g.s.fresh(""), In: hx.Pick(r, g.msgs).Full, Out: hx.Pick(r, g.msgs).Full,
		CS: r.Chance(1, 4), SS: r.Chance(1, 4)}
	if r.Chance(1, 3) {
		m.Idem = hx.Pick(r, []string{"IDEMPOTENT", "NO_SIDE_EFFECTS", "IDEMPOTENCY_UNKNOWN"})
	}
	return m
}

func (g *gen) genFileOptions(f *File) {
	r := g.r
	if !r.Chance(2, 3) {
		return
	}
	for _, o := range TrackedFileOptions {
		if r.Chance(1, 5) {
			f.Options = append(f.Options, &Opt{o.Name, randFileOptVal(r, g.s, o.Name, o.Kind)})
		}
	}
}

func pickSyntax(r *hx.Rand) string {
	switch x := r.Intn(20); {
	case x < 9:
		return "proto3"
	case x < 16:
		return "proto2"
	case x < 19:
		return "2023"
	}
	return ""
}

// Zoo flavours: a "zoo" file holds one field of every (shape, type) combination its syntax allows
// (see genZoo), so that every planting operator finds every kind of field.
const (
	ZooNone              = -1
	ZooProto2            = 0
	ZooProto3            = 1
	ZooEditions          = 2
	ZooEditionsInherited = 3 // file-level features.message_encoding = DELIMITED (+ other file defaults)
	NumZoo               = 4
)

// Generate builds a random schema: 1-3 files (+ sometimes a "solo" file whose package holds a
// single enum / message / extension, + in half of the cases a zoo file) in 1-3 packages.
func Generate(r *hx.Rand) *Schema {
	zoo := ZooNone
	if r.Bool() {
		zoo = r.Intn(NumZoo)
	}
	return GenerateZoo(r, zoo)
}

// GenerateZoo is Generate with a chosen zoo flavour.
func GenerateZoo(r *hx.Rand, zoo int) *Schema {
	s := &Schema{}
	g := &gen{r: r, s: s}
	nFiles := 1 + r.Intn(3)
	if zoo >= 0 && nFiles == 3 {
		nFiles = 2 // the zoo file is big
	}
	names := []string{"a.proto", "b.proto", "c.proto"}
	if r.Chance(1, 4) {
		names[1] = "sub/b.proto"
	}
	if r.Chance(1, 4) {
		names[2] = "pkg/deep/c.proto"
	}
	budget := 2 + r.Intn(5) // messages
	for i := 0; i < nFiles; i++ {
		f := &File{Name: names[i], Syntax: pickSyntax(r)}
		switch {
		case i == 0 || r.Chance(1, 2):
			f.Package = "pkg.a"
		default:
			f.Package = "pkg.b"
		}
		if r.Chance(1, 15) {
			noPkgAlready := false
			for _, o := range s.Files {
				if o.Package == "" {
					noPkgAlready = true
				}
			}
			if !noPkgAlready {
				f.Package = ""
			}
		}
		s.Files = append(s.Files, f)
		g.genFileOptions(f)
		g.genFileFeatures(f)
		ne := r.Intn(3)
		for j := 0; j < ne; j++ {
			f.Enums = append(f.Enums, g.genEnum(f, f.prefix()))
		}
		nm := 1
		if rest := nFiles - 1 - i; budget-g.nMsgs-rest > 1 {
			nm = 1 + r.Intn(budget-g.nMsgs-rest)
		}
		if nm > 3 {
			nm = 3
		}
		for j := 0; j < nm; j++ {
			f.Messages = append(f.Messages, g.genMessage(f, f.prefix(), 1))
		}
		if !f.IsProto3() {
			if ex := g.extendable(); len(ex) > 0 && r.Chance(1, 2) {
				if x := g.genExtend(f, hx.Pick(r, ex)); x != nil {
					if r.Chance(1, 3) {
						host := hx.Pick(r, f.Messages)
						host.Extends = append(host.Extends, x)
					} else {
						f.Extends = append(f.Extends, x)
					}
				}
			}
		}
		if r.Chance(1, 2) {
			f.Services = append(f.Services, g.genService(f))
			if r.Chance(1, 4) {
				f.Services = append(f.Services, g.genService(f))
			}
		}
	}
	if r.Chance(1, 3) {
		// a small file in its own package: the only enum / message / extension of that package
		f := &File{Name: "solo.proto", Package: "pkg.solo", Syntax: hx.Pick(r, []string{"proto2", "proto2", "proto3", "2023"})}
		s.Files = append(s.Files, f)
		mask := 1 + r.Intn(7)
		if mask&1 != 0 {
			f.Enums = append(f.Enums, g.genEnum(f, f.prefix()))
		}
		if mask&2 != 0 {
			m := &Message{Name: "Solo" + s.fresh("")}
			nf := r.Intn(3)
			for j := 0; j < nf; j++ {
				fl := &Field{Name: g.fieldName(), Num: m.nextNum(r), Type: hx.Pick(r, scalarTypes)}
				if f.IsProto2() {
					fl.Label = "optional"
				}
				m.Fields = append(m.Fields, fl)
			}
			g.msgs = append(g.msgs, tinfo{Full: f.prefix() + m.Name, F: f, M: m})
			f.Messages = append(f.Messages, m)
		}
		if mask&4 != 0 && !f.IsProto3() {
			if ex := g.extendable(); len(ex) > 0 {
				x := &Extend{Extendee: hx.Pick(r, ex).Full}
				if num := s.FreeExtNum(x.Extendee); num != 0 {
					fl := &Field{Name: "ext_" + s.fresh(""), Num: num, Type: hx.Pick(r, scalarTypes)}
					if f.IsProto2() {
						fl.Label = "optional"
					}
					x.Fields = append(x.Fields, fl)
					f.Extends = append(f.Extends, x)
				}
			}
		}
	}
	if zoo >= 0 {
		g.genZoo(zoo)
	}
	return s
}

// GenerateBig builds a schema of n small files (one message, sometimes an enum / a service, in
// mixed syntaxes) spread over several directories and packages; later files may use the types of
// earlier ones.  Large enough images make bufprotosource.NewFiles convert the files in parallel
// chunks (>= 8 files per worker of thread.Parallelism()).
func GenerateBig(r *hx.Rand, n int) *Schema {
	s := &Schema{}
	g := &gen{r: r, s: s, nMsgs: 100} // no nested messages: files stay small
	pkgs := []string{"big.a", "big.b", "big.c", "big.a.v1"}
	dirs := []string{"", "", "a/", "m/x/", "zz/"}
	for i := 0; i < n; i++ {
		f := &File{Name: hx.Pick(r, dirs) + hx.Pick(r, []string{"f", "k", "q"}) + s.fresh("") + ".proto",
			Package: hx.Pick(r, pkgs), Syntax: pickSyntax(r)}
		s.Files = append(s.Files, f)
		if r.Chance(1, 4) {
			g.genFileOptions(f)
		}
		g.genFileFeatures(f)
		if r.Chance(1, 3) {
			f.Enums = append(f.Enums, g.genEnum(f, f.prefix()))
		}
		f.Messages = append(f.Messages, g.genMessage(f, f.prefix(), 3))
		if r.Chance(1, 5) {
			f.Services = append(f.Services, g.genService(f))
		}
	}
	return s
}

// zooCombos lists the (shape, type) combinations of a flavour.  Shapes: singular, implicit
// (editions IMPLICIT presence), optional3 (proto3 `optional`), required, repeated (default
// encoding), packed / expanded (the non-default encoding said explicitly), map, oneof, ext.
// Types: scalar, message, enum, group (proto2), delimited (feature on the field), inherited (the
// file default makes it delimited), lenprefixed (explicit override of a DELIMITED file default).
func zooCombos(zoo int) [][2]string {
	switch zoo {
	case ZooProto2:
		return [][2]string{{"singular", "scalar"}, {"singular", "message"}, {"singular", "enum"}, {"singular", "group"},
			{"required", "scalar"}, {"required", "message"},
			{"repeated", "scalar"}, {"repeated", "message"}, {"repeated", "enum"}, {"repeated", "group"},
			{"packed", "scalar"}, {"packed", "enum"},
			{"map", "scalar"}, {"map", "message"}, {"map", "enum"},
			{"oneof", "scalar"}, {"oneof", "message"}, {"oneof", "enum"}, {"oneof", "group"},
			{"ext", "scalar"}, {"ext", "message"}, {"ext", "enum"}, {"extrepeated", "scalar"}}
	case ZooProto3:
		return [][2]string{{"singular", "scalar"}, {"singular", "message"}, {"singular", "enum"},
			{"optional3", "scalar"}, {"optional3", "message"}, {"optional3", "enum"},
			{"repeated", "scalar"}, {"repeated", "message"}, {"repeated", "enum"}, {"expanded", "scalar"}, {"expanded", "enum"},
			{"map", "scalar"}, {"map", "message"}, {"map", "enum"},
			{"oneof", "scalar"}, {"oneof", "message"}, {"oneof", "enum"}}
	case ZooEditions:
		return [][2]string{{"singular", "scalar"}, {"singular", "message"}, {"singular", "enum"}, {"singular", "delimited"},
			{"implicit", "scalar"}, {"required", "scalar"}, {"required", "delimited"},
			{"repeated", "scalar"}, {"repeated", "message"}, {"repeated", "enum"}, {"repeated", "delimited"},
			{"expanded", "scalar"}, {"expanded", "enum"},
			{"map", "scalar"}, {"map", "message"}, {"map", "enum"},
			{"oneof", "scalar"}, {"oneof", "message"}, {"oneof", "enum"}, {"oneof", "delimited"},
			{"ext", "scalar"}, {"ext", "message"}, {"ext", "delimited"}, {"extrepeated", "delimited"}}
	}
	return [][2]string{{"singular", "scalar"}, {"singular", "inherited"}, {"singular", "enum"}, {"singular", "lenprefixed"},
		{"required", "inherited"}, {"repeated", "inherited"}, {"repeated", "scalar"}, {"map", "message"}, {"map", "scalar"},
		{"oneof", "inherited"}, {"oneof", "scalar"}, {"oneof", "lenprefixed"}, {"ext", "inherited"}, {"ext", "scalar"}, {"extrepeated", "inherited"}}
}

// kindField builds a field of message m (full name `full`) of the given shape and type (see
// zooCombos); `leafs` are message types and `enumFull` an enum (first value 0) usable from f.
// Extension shapes get Num 0 (the caller numbers them).
func (g *gen) kindField(f *File, m *Message, full, shape, typ string, leafs []string, enumFull string) *Field {
	r, s := g.r, g.s
	label := func(l string) string {
		if f.IsProto2() {
			return l
		}
		return ""
	}
	fl := &Field{Name: g.fieldName()}
	isExt := shape == "ext" || shape == "extrepeated"
	if isExt {
		fl.Name = "ext_" + s.fresh("")
	} else {
		fl.Num = m.nextNum(r)
	}
	switch typ {
	case "scalar":
		fl.Type, fl.Ref = hx.Pick(r, scalarTypes), RefScalar
		if shape == "packed" || shape == "expanded" {
			fl.Type = hx.Pick(r, []string{"int32", "sint64", "fixed32", "double", "bool", "uint64"})
		}
	case "enum":
		fl.Type, fl.Ref = enumFull, RefEnum
	case "group":
		gm := &Message{Name: "Grp" + s.fresh("")}
		gm.Fields = append(gm.Fields, &Field{Name: g.fieldName(), Num: gm.nextNum(nil), Type: hx.Pick(r, scalarTypes), Label: "optional"})
		fl.Name, fl.Group = strings.ToLower(gm.Name), gm
		g.msgs = append(g.msgs, tinfo{Full: full + "." + gm.Name, F: f, M: gm})
	default: // message, delimited, inherited, lenprefixed
		fl.Type, fl.Ref = hx.Pick(r, leafs), RefMsg
		switch typ {
		case "delimited":
			fl.SetFeature("message_encoding", "DELIMITED")
		case "lenprefixed":
			fl.SetFeature("message_encoding", "LENGTH_PREFIXED")
		}
	}
	switch shape {
	case "singular", "ext":
		fl.Label = label("optional")
	case "implicit":
		fl.SetFeature("field_presence", "IMPLICIT")
	case "optional3":
		fl.Label = "optional"
	case "required":
		if f.IsEditions() {
			fl.SetFeature("field_presence", "LEGACY_REQUIRED")
		} else {
			fl.Label = "required"
		}
	case "repeated", "extrepeated":
		fl.Label = "repeated"
	case "packed":
		fl.Label, fl.Packed = "repeated", "true"
	case "expanded":
		fl.Label = "repeated"
		if f.IsEditions() {
			fl.SetFeature("repeated_field_encoding", "EXPANDED")
		} else {
			fl.Packed = "false"
		}
	case "map":
		fl.MapKey = hx.Pick(r, mapKeyTypes)
	case "oneof":
		fl.Oneof = "zoo_choice"
	}
	if isExt {
		if fl.Ref == RefScalar && fl.Label != "repeated" && r.Chance(1, 3) {
			fl.Default = defaultLit(r, fl.Type)
		}
	} else if fl.Group == nil && typ != "enum" {
		g.genFieldOptions(f, fl)
	}
	return fl
}

// FlavourOf: the zoo flavour whose combinations are valid in file f.
func FlavourOf(f *File) int {
	switch {
	case f.IsProto3():
		return ZooProto3
	case f.IsEditions() && f.Feature("message_encoding") == "DELIMITED":
		return ZooEditionsInherited
	case f.IsEditions():
		return ZooEditions
	}
	return ZooProto2
}

// genZoo appends the zoo file: two leaf messages, an enum whose first value is 0, the Zoo message
// with one field per combination (in random order; oneof members contiguous), its extensions, and
// sometimes a chain of nested messages five levels deep.
func (g *gen) genZoo(zoo int) {
	r, s := g.r, g.s
	f := &File{Name: "zoo/zoo.proto", Package: hx.Pick(r, []string{"pkg.zoo", "pkg.zoo", "pkg.a", "pkg.a.sub"})}
	switch zoo {
	case ZooProto2:
		f.Syntax = hx.Pick(r, []string{"proto2", "proto2", "proto2", ""})
	case ZooProto3:
		f.Syntax = "proto3"
	default:
		f.Syntax = "2023"
	}
	s.Files = append(s.Files, f)
	g.genFileOptions(f)
	if zoo == ZooEditionsInherited {
		f.SetFeature("message_encoding", "DELIMITED")
		if r.Bool() {
			f.SetFeature("enum_type", "CLOSED")
		}
		if r.Bool() {
			f.SetFeature("utf8_validation", "NONE")
		}
		if r.Bool() {
			f.SetFeature("json_format", "LEGACY_BEST_EFFORT")
		}
		if r.Bool() {
			f.SetFeature("repeated_field_encoding", "EXPANDED")
		}
	}
	pre := f.prefix()
	label := func(l string) string {
		if f.IsProto2() {
			return l
		}
		return ""
	}
	var leafs []string
	for i := 0; i < 2; i++ {
		lm := &Message{Name: "Leaf" + s.fresh("")}
		lm.Fields = append(lm.Fields, &Field{Name: g.fieldName(), Num: lm.nextNum(nil), Type: hx.Pick(r, scalarTypes), Label: label("optional")})
		f.Messages = append(f.Messages, lm)
		g.msgs = append(g.msgs, tinfo{Full: pre + lm.Name, F: f, M: lm})
		leafs = append(leafs, pre+lm.Name)
	}
	ze := &Enum{Name: "ZooEnum" + s.fresh("")}
	for i, w := range []string{"ZERO", "ONE", "TWO"} {
		ze.Values = append(ze.Values, &EnumValue{Name: upper(ze.Name) + "_" + w, Num: i})
	}
	ze.HiNum = 2
	if f.IsEditions() && f.Feature("enum_type") == "CLOSED" {
		ze.EnumType = "OPEN"
	}
	f.Enums = append(f.Enums, ze)
	g.enums = append(g.enums, tinfo{Full: pre + ze.Name, F: f, Open: !f.IsProto2(), Zero: true, E: ze})

	m := &Message{Name: "Zoo" + s.fresh("")}
	full := pre + m.Name
	g.msgs = append(g.msgs, tinfo{Full: full, F: f, M: m})
	// the alias family: an allow_alias enum with numbers of 1, 2 and 3 names, at the top level of
	// the file or nested in the Zoo message
	if r.Bool() {
		f.Enums = append(f.Enums, g.genAliasEnum(f, "ZooAlias"))
	} else {
		m.Enums = append(m.Enums, g.genAliasEnum(f, "Alias"))
	}
	var plain, members []*Field
	x := &Extend{Extendee: full}
	extNum := 1000
	for _, c := range zooCombos(zoo) {
		shape, typ := c[0], c[1]
		isExt := shape == "ext" || shape == "extrepeated"
		fl := g.kindField(f, m, full, shape, typ, leafs, pre+ze.Name)
		if isExt {
			fl.Num = extNum
			extNum++
		}
		switch {
		case isExt:
			x.Fields = append(x.Fields, fl)
		case shape == "oneof":
			members = append(members, fl)
		default:
			plain = append(plain, fl)
		}
	}
	hx.Shuffle(r, plain)
	hx.Shuffle(r, members)
	at := r.Intn(len(plain) + 1)
	m.Fields = append(append(append([]*Field(nil), plain[:at]...), members...), plain[at:]...)
	if len(x.Fields) > 0 {
		m.ExtRanges = append(m.ExtRanges, Range{Lo: 1000, Hi: 1099})
		if m.HiNum < 1099 {
			m.HiNum = 1099
		}
		hx.Shuffle(r, x.Fields)
		if r.Chance(1, 3) {
			// declared inside a leaf message of the file
			f.Messages[0].Extends = append(f.Messages[0].Extends, x)
		} else {
			f.Extends = append(f.Extends, x)
		}
	}
	if r.Bool() {
		// D1 { D2 { D3 { D4 { field; enum } } } } below Zoo: depth 5
		scope := full + "."
		host := m
		for d := 1; d <= 4; d++ {
			dm := &Message{Name: "D" + strconv.Itoa(d) + "x" + s.fresh("")}
			dm.Fields = append(dm.Fields, &Field{Name: g.fieldName(), Num: dm.nextNum(r), Type: hx.Pick(r, scalarTypes), Label: label("optional")})
			host.Nested = append(host.Nested, dm)
			g.msgs = append(g.msgs, tinfo{Full: scope + dm.Name, F: f, M: dm})
			scope += dm.Name + "."
			host = dm
		}
		host.Enums = append(host.Enums, g.genEnum(f, scope))
		host.Reserved = append(host.Reserved, Range{Lo: 50, Hi: 55})
		host.ReservedNames = append(host.ReservedNames, "deep_old_"+s.fresh(""))
	}
	f.Messages = append(f.Messages, m)
	if r.Chance(1, 2) {
		f.Services = append(f.Services, g.genService(f))
	}
}

// ---------------------------------------------------------------------------------------------
// Field kinds (what the planting operators are stratified over)

// SyntaxTag: "p2" | "p3" | "ed".
func SyntaxTag(f *File) string {
	switch {
	case f.IsProto3():
		return "p3"
	case f.IsEditions():
		return "ed"
	}
	return "p2"
}

// EffPacked: is a packable repeated field packed?
func EffPacked(f *File, fl *Field) bool {
	switch {
	case f.IsEditions():
		v := fl.Feature("repeated_field_encoding")
		if v == "" {
			v = f.Feature("repeated_field_encoding")
		}
		return v != "EXPANDED"
	case f.IsProto3():
		return fl.Packed != "false"
	}
	return fl.Packed == "true"
}

// FieldShape classifies cardinality / container of a field.
func FieldShape(f *File, fl *Field, ext bool) string {
	switch {
	case ext && fl.Label == "repeated":
		return "ext-repeated"
	case ext:
		return "ext"
	case fl.MapKey != "":
		return "map"
	case fl.Oneof != "":
		return "oneof"
	case isRequired(fl):
		return "required"
	case fl.Label == "repeated":
		if packable(fl) {
			if EffPacked(f, fl) {
				return "repeated-packed"
			}
			return "repeated-expanded"
		}
		return "repeated"
	case f.IsProto3() && fl.Label == "optional":
		return "optional3"
	case f.IsProto3() && fl.Ref != RefMsg, fl.Feature("field_presence") == "IMPLICIT":
		return "implicit"
	}
	return "singular"
}

// FieldType classifies the element type of a field.
func FieldType(f *File, fl *Field) string {
	switch {
	case fl.Group != nil:
		return "group"
	case Delimited(f, fl):
		if fl.Feature("message_encoding") == "" {
			return "delim-inherited"
		}
		return "delim-field"
	case fl.Ref == RefMsg:
		return "message"
	case fl.Ref == RefEnum:
		return "enum"
	}
	return "scalar"
}

// FieldKind = shape/type (the syntax of the file is a stratum of its own: Op.SiteSyntax).
func FieldKind(f *File, fl *Field, ext bool) string {
	return FieldShape(f, fl, ext) + "/" + FieldType(f, fl)
}

// MsgJSONAllow / EnumJSONAllow: the resolved features.json_format of an element is ALLOW.
func MsgJSONAllow(f *File, m *Message) bool {
	switch {
	case f.IsProto3():
		return true
	case !f.IsEditions():
		return false
	case m.JSONFormat != "":
		return m.JSONFormat == "ALLOW"
	}
	return f.Feature("json_format") != "LEGACY_BEST_EFFORT"
}

func EnumJSONAllow(f *File, e *Enum) bool {
	switch {
	case f.IsProto3():
		return true
	case !f.IsEditions():
		return false
	case e.JSONFormat != "":
		return e.JSONFormat == "ALLOW"
	}
	return f.Feature("json_format") != "LEGACY_BEST_EFFORT"
}

// ---------------------------------------------------------------------------------------------
// Renderer

// Knobs are the cosmetic choices of one rendering; two renderings of the same Schema with
// different knobs are the same schema for the breaking-change detector.
type Knobs struct {
	Seed     uint64
	Comments int    // chance (out of 8) of a comment at each opportunity
	Indent   string // one indentation level
	OneLine  int    // chance (out of 8) to lay a small body out on one line
	Blank    int    // chance (out of 8) of a blank line between declarations
	Shuffle  bool   // interleave / permute declarations (never fields, enum values)
	Split    bool   // one reserved / extensions statement per range instead of a list
}

var PlainKnobs = Knobs{Indent: "  "}

func RandKnobs(r *hx.Rand) Knobs {
	return Knobs{Seed: r.Uint64(), Comments: r.Intn(5), Indent: hx.Pick(r, []string{"  ", "    ", "\t", ""}),
		OneLine: r.Intn(4), Blank: r.Intn(6), Shuffle: r.Chance(1, 2), Split: r.Bool()}
}

var commentTexts = []string{"TODO: remove; see {link}", "deprecated \"soon\"", "field = 7;", "ünïcode ✓", "message X { }",
	"reserved 1 to max;", "", "keep in sync with the server", "syntax = \"proto2\";"}

type pr struct {
	sb   strings.Builder
	k    Knobs
	r    *hx.Rand
	ind  int
	flat int // >0: inside a one-line body
	ed   bool
}

func (p *pr) comment(block bool) string {
	t := hx.Pick(p.r, commentTexts)
	if block || p.r.Chance(1, 4) {
		return "/* " + t + " */"
	}
	return "// " + t
}

func (p *pr) indent() {
	for i := 0; i < p.ind; i++ {
		p.sb.WriteString(p.k.Indent)
	}
}

// stmt writes one statement or block opener / closer.
func (p *pr) stmt(s string) {
	if p.flat > 0 {
		if p.r.Chance(p.k.Comments, 16) {
			p.sb.WriteString(p.comment(true) + " ")
		}
		p.sb.WriteString(s + " ")
		return
	}
	if p.r.Chance(p.k.Blank, 8) {
		p.sb.WriteString("\n")
	}
	if p.r.Chance(p.k.Comments, 8) {
		if p.r.Chance(1, 3) { // detached
			p.indent()
			p.sb.WriteString(p.comment(false) + "\n\n")
		}
		n := 1 + p.r.Intn(2)
		for i := 0; i < n; i++ {
			p.indent()
			p.sb.WriteString(p.comment(false) + "\n")
		}
	}
	p.indent()
	p.sb.WriteString(s)
	if p.r.Chance(p.k.Comments, 8) {
		p.sb.WriteString(" " + p.comment(false))
	}
	p.sb.WriteString("\n")
}

// block renders `head { items }`; small bodies may go on one line.
func (p *pr) block(head string, small bool, body func()) {
	if p.flat == 0 && small && p.r.Chance(p.k.OneLine, 8) {
		p.indent()
		p.flat++
		p.sb.WriteString(head + " { ")
		body()
		p.flat--
		p.sb.WriteString("}\n")
		return
	}
	if p.flat > 0 {
		p.flat++
		p.sb.WriteString(head + " { ")
		body()
		p.sb.WriteString("} ")
		p.flat--
		return
	}
	p.stmt(head + " {")
	p.ind++
	body()
	p.ind--
	// the closer takes no trailing comment / blank so that it stays simple
	p.indent()
	p.sb.WriteString("}\n")
}

type item struct {
	fixed bool // keeps its relative order (fields, enum values)
	f     func()
}

func (p *pr) items(its []item) {
	if p.k.Shuffle {
		var fixed []item
		for _, it := range its {
			if it.fixed {
				fixed = append(fixed, it)
			}
		}
		sh := append([]item(nil), its...)
		hx.Shuffle(p.r, sh)
		j := 0
		for i := range sh {
			if sh[i].fixed {
				sh[i] = fixed[j]
				j++
			}
		}
		its = sh
	}
	for _, it := range its {
		it.f()
	}
}

func rangeText(rg Range) string {
	switch {
	case rg.Max:
		return strconv.Itoa(rg.Lo) + " to max"
	case rg.Lo == rg.Hi:
		return strconv.Itoa(rg.Lo)
	}
	return strconv.Itoa(rg.Lo) + " to " + strconv.Itoa(rg.Hi)
}

func (p *pr) ranges(kw string, rs []Range) []item {
	if len(rs) == 0 {
		return nil
	}
	if p.k.Split {
		var out []item
		for _, rg := range rs {
			rg := rg
			out = append(out, item{f: func() { p.stmt(kw + " " + rangeText(rg) + ";") }})
		}
		return out
	}
	return []item{{f: func() {
		parts := make([]string, len(rs))
		for i, rg := range rs {
			parts[i] = rangeText(rg)
		}
		p.stmt(kw + " " + strings.Join(parts, ", ") + ";")
	}}}
}

func (p *pr) reservedNames(names []string) []item {
	if len(names) == 0 {
		return nil
	}
	q := func(s string) string {
		if p.ed {
			return s // editions: identifiers
		}
		return strconv.Quote(s)
	}
	if p.k.Split {
		var out []item
		for _, n := range names {
			n := n
			out = append(out, item{f: func() { p.stmt("reserved " + q(n) + ";") }})
		}
		return out
	}
	return []item{{f: func() {
		parts := make([]string, len(names))
		for i, n := range names {
			parts[i] = q(n)
		}
		p.stmt("reserved " + strings.Join(parts, ", ") + ";")
	}}}
}

func typeText(fl *Field) string {
	if fl.Ref == RefScalar {
		return fl.Type
	}
	return "." + fl.Type
}

func fieldOpts(fl *Field) string {
	var o []string
	if fl.JSONName != "" {
		o = append(o, "json_name = "+strconv.Quote(fl.JSONName))
	}
	if fl.Default != "" {
		o = append(o, "default = "+fl.Default)
	}
	if fl.JSType != "" {
		o = append(o, "jstype = "+fl.JSType)
	}
	if fl.CType != "" {
		o = append(o, "ctype = "+fl.CType)
	}
	if fl.Packed != "" {
		o = append(o, "packed = "+fl.Packed)
	}
	for _, ft := range fl.Features {
		o = append(o, "features."+ft.Name+" = "+ft.Val)
	}
	if len(o) == 0 {
		return ""
	}
	return " [" + strings.Join(o, ", ") + "]"
}

func (p *pr) field(fl *Field, inOneof bool) {
	label := fl.Label
	if inOneof {
		label = ""
	}
	if label != "" {
		label += " "
	}
	switch {
	case fl.Group != nil:
		p.block(label+"group "+fl.Group.Name+" = "+strconv.Itoa(fl.Num), false, func() { p.msgBody(fl.Group) })
	case fl.MapKey != "":
		p.stmt("map<" + fl.MapKey + ", " + typeText(fl) + "> " + fl.Name + " = " + strconv.Itoa(fl.Num) + fieldOpts(fl) + ";")
	default:
		p.stmt(label + typeText(fl) + " " + fl.Name + " = " + strconv.Itoa(fl.Num) + fieldOpts(fl) + ";")
	}
}

func (p *pr) extend(x *Extend) {
	p.block("extend ."+x.Extendee, len(x.Fields) <= 2, func() {
		for _, fl := range x.Fields {
			p.field(fl, false)
		}
	})
}

func (p *pr) msgBody(m *Message) {
	var its []item
	if m.NoStdAccessor != "" {
		its = append(its, item{f: func() { p.stmt("option no_standard_descriptor_accessor = " + m.NoStdAccessor + ";") }})
	}
	if m.JSONFormat != "" {
		its = append(its, item{f: func() { p.stmt("option features.json_format = " + m.JSONFormat + ";") }})
	}
	done := map[string]bool{}
	for _, fl := range m.Fields {
		fl := fl
		if fl.Oneof == "" {
			its = append(its, item{fixed: true, f: func() { p.field(fl, false) }})
			continue
		}
		if done[fl.Oneof] {
			continue
		}
		done[fl.Oneof] = true
		name := fl.Oneof
		var members []*Field
		for _, o := range m.Fields {
			if o.Oneof == name {
				members = append(members, o)
			}
		}
		its = append(its, item{fixed: true, f: func() {
			p.block("oneof "+name, len(members) <= 2, func() {
				for _, o := range members {
					p.field(o, true)
				}
			})
		}})
	}
	for _, n := range m.Nested {
		n := n
		its = append(its, item{f: func() { p.message(n) }})
	}
	for _, e := range m.Enums {
		e := e
		its = append(its, item{f: func() { p.enum(e) }})
	}
	for _, x := range m.Extends {
		x := x
		its = append(its, item{f: func() { p.extend(x) }})
	}
	its = append(its, p.ranges("reserved", m.Reserved)...)
	its = append(its, p.reservedNames(m.ReservedNames)...)
	its = append(its, p.ranges("extensions", m.ExtRanges)...)
	p.items(its)
}

func (p *pr) message(m *Message) {
	small := len(m.Fields) <= 3 && len(m.Nested) == 0 && len(m.Enums) == 0 && len(m.Extends) == 0
	for _, fl := range m.Fields {
		if fl.Group != nil {
			small = false
		}
	}
	p.block("message "+m.Name, small, func() { p.msgBody(m) })
}

func (p *pr) enum(e *Enum) {
	p.block("enum "+e.Name, len(e.Values) <= 3, func() {
		var its []item
		if e.AllowAlias {
			its = append(its, item{f: func() { p.stmt("option allow_alias = true;") }})
		}
		if e.EnumType != "" {
			its = append(its, item{f: func() { p.stmt("option features.enum_type = " + e.EnumType + ";") }})
		}
		if e.JSONFormat != "" {
			its = append(its, item{f: func() { p.stmt("option features.json_format = " + e.JSONFormat + ";") }})
		}
		for _, v := range e.Values {
			v := v
			its = append(its, item{fixed: true, f: func() { p.stmt(v.Name + " = " + strconv.Itoa(v.Num) + ";") }})
		}
		its = append(its, p.ranges("reserved", e.Reserved)...)
		its = append(its, p.reservedNames(e.ReservedNames)...)
		p.items(its)
	})
}

func (p *pr) service(sv *Service) {
	p.block("service "+sv.Name, false, func() {
		for _, m := range sv.Methods {
			in, out := "."+m.In, "."+m.Out
			if m.CS {
				in = "stream " + in
			}
			if m.SS {
				out = "stream " + out
			}
			head := "rpc " + m.Name + "(" + in + ") returns (" + out + ")"
			switch {
			case m.Idem != "":
				idem := m.Idem
				p.block(head, true, func() { p.stmt("option idempotency_level = " + idem + ";") })
			case p.r.Chance(1, 4):
				p.block(head, true, func() {})
			default:
				p.stmt(head + ";")
			}
		}
	})
}

func fnv(s string) uint64 {
	h := uint64(14695981039346656037)
	for i := 0; i < len(s); i++ {
		h ^= uint64(s[i])
		h *= 1099511628211
	}
	return h
}

// Render renders every file of the schema.
func Render(s *Schema, k Knobs) map[string]string {
	imports := s.Imports()
	out := map[string]string{}
	for _, f := range s.Files {
		p := &pr{k: k, r: hx.NewRand(k.Seed ^ fnv(f.Name)), ed: f.IsEditions()}
		switch f.Syntax {
		case "proto2", "proto3":
			p.stmt(`syntax = "` + f.Syntax + `";`)
		case "2023":
			p.stmt(`edition = "2023";`)
		}
		if f.Package != "" {
			p.stmt("package " + f.Package + ";")
		}
		imps := append([]string(nil), imports[f.Name]...)
		if k.Shuffle {
			hx.Shuffle(p.r, imps)
		}
		for _, im := range imps {
			p.stmt("import " + strconv.Quote(im) + ";")
		}
		var its []item
		for _, o := range f.Options {
			o := o
			its = append(its, item{f: func() { p.stmt("option " + o.Name + " = " + o.Val + ";") }})
		}
		for _, o := range f.Features {
			o := o
			its = append(its, item{f: func() { p.stmt("option features." + o.Name + " = " + o.Val + ";") }})
		}
		for _, m := range f.Messages {
			m := m
			its = append(its, item{f: func() { p.message(m) }})
		}
		for _, e := range f.Enums {
			e := e
			its = append(its, item{f: func() { p.enum(e) }})
		}
		for _, sv := range f.Services {
			sv := sv
			its = append(its, item{f: func() { p.service(sv) }})
		}
		for _, x := range f.Extends {
			x := x
			its = append(its, item{f: func() { p.extend(x) }})
		}
		p.items(its)
		out[f.Name] = p.sb.String()
	}
	return out
}
