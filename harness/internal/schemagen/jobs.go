package schemagen

// jobs.go: what the C03 and C04 harness mains share: the per-pair evaluation against the real
// detector (12 category runs, the `pair` / `rules` protocol lines), a per-job compile cache and
// a deterministic parallel job runner (results are emitted in job order whatever the
// scheduling; every job derives its randomness from its own index).

import (
	"crypto/sha256"
	"errors"
	"fmt"
	"os"
	"path/filepath"
	"runtime"
	"sort"
	"strings"
	"sync"

	"github.com/bufbuild/verifharness/internal/hx"
)

// Case is one protocol line.
type Case struct {
	In, Out    string
	Nontrivial bool
	Note       string            // free text for jobs.txt (which job / edit produced the line)
	Cur, Prev  map[string]string // sources, dumped to OUT/case<N>/ when replaying with --only
}

// Result is what one job hands back to the main goroutine (hx.Run is not goroutine-safe).
type Result struct {
	Cases   []Case
	Counts  map[string]int
	Fails   []hx.OracleFailure
	Samples []any
	Evals   int
	Sets    map[string][]string // run.Set keys -> values to union
}

func NewResult() *Result { return &Result{Counts: map[string]int{}, Sets: map[string][]string{}} }

func (r *Result) Count(k string)         { r.Counts[k]++ }
func (r *Result) CountN(k string, n int) { r.Counts[k] += n }
func (r *Result) Fail(f hx.OracleFailure) {
	r.Fails = append(r.Fails, f)
}

// Phase is a group of jobs that run under one process-global setting (Enter / Leave are called
// on the main goroutine with no job running).
type Phase struct {
	N            int
	Enter, Leave func()
}

// RunJobs runs jobs 0..n-1 (only job `only` when only >= 0) on a worker pool and folds the
// results into run in job order.  Each worker owns a Runner.
func RunJobs(run *hx.Run, n int, job func(i int, rn *Runner) *Result) map[string][]string {
	return RunJobsPhases(run, []Phase{{N: n}}, job)
}

// RunJobsPhases: job indices run through the phases consecutively; the phases run one after the
// other (a phase changes process-global state such as thread.SetParallelism).
func RunJobsPhases(run *hx.Run, phases []Phase, job func(i int, rn *Runner) *Result) map[string][]string {
	workers := runtime.NumCPU()
	if workers > 10 {
		workers = 10
	}
	if workers < 1 {
		workers = 1
	}
	n := 0
	for _, ph := range phases {
		n += ph.N
	}
	results := make([]*Result, n)
	runners := make([]*Runner, workers)
	for w := range runners {
		rn, err := NewRunner()
		if err != nil {
			panic(err)
		}
		runners[w] = rn
	}
	start := 0
	for _, ph := range phases {
		next := make(chan int, ph.N)
		queued := 0
		for i := start; i < start+ph.N; i++ {
			if run.Only >= 0 && i != run.Only {
				continue
			}
			next <- i
			queued++
		}
		close(next)
		start += ph.N
		if queued == 0 {
			continue
		}
		if ph.Enter != nil {
			ph.Enter()
		}
		var wg sync.WaitGroup
		for w := 0; w < workers; w++ {
			wg.Add(1)
			go func(rn *Runner) {
				defer wg.Done()
				for i := range next {
					results[i] = safeJob(i, rn, job)
				}
			}(runners[w])
		}
		wg.Wait()
		if ph.Leave != nil {
			ph.Leave()
		}
	}
	sets := map[string]map[string]bool{}
	// jobs.txt: protocol line number (0-based) -> job index and note, to replay a disagreement
	var jobsTxt strings.Builder
	line := 0
	defer func() {
		_ = os.WriteFile(filepath.Join(run.OutDir, "jobs.txt"), []byte(jobsTxt.String()), 0o644)
	}()
	for ji, res := range results {
		if res == nil {
			continue
		}
		for _, c := range res.Cases {
			run.Case(c.In, c.Out, c.Nontrivial)
			fmt.Fprintf(&jobsTxt, "%d\t%d\t%s\n", line, ji, c.Note)
			if run.Only >= 0 {
				dumpSources(filepath.Join(run.OutDir, fmt.Sprintf("case%d", line)), c)
			}
			line++
		}
		keys := make([]string, 0, len(res.Counts))
		for k := range res.Counts {
			keys = append(keys, k)
		}
		sort.Strings(keys)
		for _, k := range keys {
			run.CountN(k, res.Counts[k])
		}
		for _, f := range res.Fails {
			run.Fail(f)
		}
		for _, s := range res.Samples {
			run.Sample(s)
		}
		for i := 0; i < res.Evals; i++ {
			run.Eval()
		}
		for k, vs := range res.Sets {
			if sets[k] == nil {
				sets[k] = map[string]bool{}
			}
			for _, v := range vs {
				sets[k][v] = true
			}
		}
	}
	out := map[string][]string{}
	for k, m := range sets {
		for v := range m {
			out[k] = append(out[k], v)
		}
		sort.Strings(out[k])
	}
	return out
}

func safeJob(i int, rn *Runner, job func(i int, rn *Runner) *Result) (res *Result) {
	defer func() {
		if rec := recover(); rec != nil {
			res = NewResult()
			res.Fail(hx.OracleFailure{Class: "harness-panic", What: fmt.Sprintf("job %d: %v", i, rec), Replay: fmt.Sprintf("--only %d", i)})
		}
	}()
	return job(i, rn)
}

// Cache memoises Compile per source set (one per job: not goroutine-safe).
type Cache struct {
	m map[[32]byte]*cacheEntry
}

type cacheEntry struct {
	c   *Compiled
	err error
}

func NewCache() *Cache { return &Cache{m: map[[32]byte]*cacheEntry{}} }

func (c *Cache) Compile(src map[string]string) (*Compiled, error) {
	keys := make([]string, 0, len(src))
	for k := range src {
		keys = append(keys, k)
	}
	sort.Strings(keys)
	h := sha256.New()
	for _, k := range keys {
		fmt.Fprintf(h, "%d:%s%d:%s", len(k), k, len(src[k]), src[k])
	}
	var key [32]byte
	copy(key[:], h.Sum(nil))
	if e, ok := c.m[key]; ok {
		return e.c, e.err
	}
	comp, err := Compile(src)
	if err == nil {
		comp.Encode()
	}
	c.m[key] = &cacheEntry{comp, err}
	return comp, err
}

var unmodelled = func() map[string]bool {
	m := map[string]bool{}
	for _, u := range Unmodelled {
		m[u] = true
	}
	return m
}()

func IsUnmodelled(rule string) bool { return unmodelled[rule] }

// PairEval is the outcome of the 12 category runs on one (cur, prev) pair.
type PairEval struct {
	In, Out  string           // the `pair` protocol line and the implementation's answer
	Sets     map[string][]Ann // "v2/FILE" -> annotations of the run WITHOUT except (all rules)
	Err      error            // non-annotation error / panic of Client.Breaking
	ErrAt    string           // which run failed
	Idx      PathIndex
	Mismatch string // non-empty: except-run differs from the filtered no-except run
	Total    int
}

func setKey(ver, cat string) string { return ver + "/" + cat }

func filterModelled(as []Ann) []Ann {
	var out []Ann
	for _, a := range as {
		if !unmodelled[a.Rule] {
			out = append(out, a)
		}
	}
	return out
}

// EvalPair runs every version x category on the pair.  Each category is run once with NO
// except (this is what the oracles look at); the correspondence answer "run with
// except=Unmodelled" is that result minus the unmodelled rule ids, and for checkExcept pairs
// the real except-run is made as well and compared (rules are independent of each other, so
// the two must agree; a difference is reported in Mismatch).
func EvalPair(rn *Runner, cur, prev *Compiled, checkExcept bool) *PairEval {
	return evalPairVersions(rn, cur, prev, checkExcept, nil)
}

// EvalPairOneReal is the economy form of EvalPair for oracle-only pairs (no protocol line,
// In == ""): the four categories are REAL single-category runs under buf.yaml version `real`;
// for each of the other two versions ONE real run with all four categories configured is made and
// split into the per-category sets by the category lists of that version's rule spec (a rule
// reports independently of the other configured rules - what EvalPair's except-check and the C03
// harness, which makes all 12 runs on the same pairs, keep testing).  Derived lists which keys
// of Sets were obtained by splitting.
func EvalPairOneReal(rn *Runner, cur, prev *Compiled, real string) (*PairEval, map[string]bool) {
	pe := evalPairVersions(rn, cur, prev, false, map[string]bool{real: true})
	derived := map[string]bool{}
	if pe.Err != nil {
		return pe, derived
	}
	for _, v := range Versions {
		if v.Name == real {
			continue
		}
		anns, err := rn.Run(v.V, Categories, nil, cur, prev, pe.Idx)
		if err != nil {
			pe.Err, pe.ErrAt = err, setKey(v.Name, "ALL")
			return pe, derived
		}
		for _, cat := range Categories {
			var as []Ann
			for _, a := range anns {
				if ActiveIn(v.Name, a.Rule, cat) {
					as = append(as, a)
				}
			}
			pe.Sets[setKey(v.Name, cat)] = as
			derived[setKey(v.Name, cat)] = true
			pe.Total += len(as)
		}
	}
	return pe, derived
}

func evalPairVersions(rn *Runner, cur, prev *Compiled, checkExcept bool, only map[string]bool) *PairEval {
	pe := &PairEval{Sets: map[string][]Ann{}}
	if only == nil {
		pe.In = PairOp() + "\t" + cur.Encode() + "\t" + prev.Encode()
	}
	idx, err := rn.Paths(cur, prev)
	if err != nil {
		pe.Err, pe.ErrAt = err, "paths"
		return pe
	}
	pe.Idx = idx
	var parts []string
	for _, v := range Versions {
		if only != nil && !only[v.Name] {
			continue
		}
		for _, cat := range Categories {
			anns, err := rn.Run(v.V, []string{cat}, nil, cur, prev, idx)
			if err != nil {
				pe.Err, pe.ErrAt = err, setKey(v.Name, cat)
				return pe
			}
			pe.Sets[setKey(v.Name, cat)] = anns
			pe.Total += len(anns)
			set := RenderSet(filterModelled(anns))
			if checkExcept {
				ex, err := rn.Run(v.V, []string{cat}, Unmodelled, cur, prev, idx)
				if err != nil {
					pe.Err, pe.ErrAt = err, setKey(v.Name, cat)+"(except)"
					return pe
				}
				if got := RenderSet(ex); got != set {
					pe.Mismatch = fmt.Sprintf("%s: except-run %q, filtered %q", setKey(v.Name, cat), got, set)
				}
			}
			parts = append(parts, setKey(v.Name, cat)+"="+set)
		}
	}
	// constant prefix: the model's well-formedness / kind-consistency checks (a compiled image
	// always passes them)
	if only == nil {
		pe.Out = "wf=1|kinds=1|" + strings.Join(parts, "|")
	}
	return pe
}

// EvalPairExcl runs every version x category on the pair WITH the client's exclude-imports option
// (all rules, no except); the `pairx` protocol line asks the model for the same 12 sets after its
// exclude-imports filter.  On a tree without C03-package-last-element.diff no protocol line is
// produced (In == ""): the import-aware model exists for the fixed dispatch only.
func EvalPairExcl(rn *Runner, cur, prev *Compiled, idx PathIndex) *PairEval {
	pe := &PairEval{Sets: map[string][]Ann{}, Idx: idx}
	if TreeHasPackageFix() {
		pe.In = "pairx\t" + cur.Encode() + "\t" + prev.Encode()
	}
	var parts []string
	for _, v := range Versions {
		for _, cat := range Categories {
			anns, err := rn.RunX(v.V, []string{cat}, nil, cur, prev, idx, true)
			if err != nil {
				pe.Err, pe.ErrAt = err, "exclude-imports "+setKey(v.Name, cat)
				return pe
			}
			pe.Sets[setKey(v.Name, cat)] = anns
			pe.Total += len(anns)
			parts = append(parts, "x:"+setKey(v.Name, cat)+"="+RenderSet(filterModelled(anns)))
		}
	}
	// constant prefix: the tagged rules of the model, projected, give the untagged ones
	pe.Out = "tag=1|" + strings.Join(parts, "|")
	return pe
}

// RulesLine runs each rule id alone (v2 config) and returns the `rules` protocol line, the
// answer and the annotations per rule.
func RulesLine(rn *Runner, ids []string, cur, prev *Compiled, idx PathIndex) (in, out string, sets map[string][]Ann, err error) {
	sets = map[string][]Ann{}
	var parts []string
	for _, id := range ids {
		anns, e := rn.Run(Versions[2].V, []string{id}, nil, cur, prev, idx)
		if e != nil {
			return "", "", nil, e
		}
		sets[id] = anns
		parts = append(parts, id+"="+RenderSet(anns))
	}
	return RulesOp() + "\t" + strings.Join(ids, ",") + "\t" + cur.Encode() + "\t" + prev.Encode(), strings.Join(parts, "|"), sets, nil
}

// RulesLineExcl is RulesLine with the exclude-imports option (`rulesx`; in == "" on a tree
// without the package fix, see EvalPairExcl).
func RulesLineExcl(rn *Runner, ids []string, cur, prev *Compiled, idx PathIndex) (in, out string, sets map[string][]Ann, err error) {
	sets = map[string][]Ann{}
	var parts []string
	for _, id := range ids {
		anns, e := rn.RunX(Versions[2].V, []string{id}, nil, cur, prev, idx, true)
		if e != nil {
			return "", "", nil, e
		}
		sets[id] = anns
		parts = append(parts, "x:"+id+"="+RenderSet(anns))
	}
	if TreeHasPackageFix() {
		in = "rulesx\t" + strings.Join(ids, ",") + "\t" + cur.Encode() + "\t" + prev.Encode()
	}
	return in, strings.Join(parts, "|"), sets, nil
}

// PickImportSpecs draws how the two sides of a comparison get their import files.  flavour:
// "both" (the same targets on both sides: what `buf breaking --path` does), "cur-only" (every
// previous file is a target), "prev-only", "differ" (independent target sets; only with the
// importer file, so that no file goes missing on either side).  `must` lists files that should
// be IMPORTS where the flavour allows (the edited file), never targets.  importers: files with
// >= 1 import of their own (candidates of the "natural" flavour, which adds no importer file).
func PickImportSpecs(r *hx.Rand, files []string, must []string, importers []string) (cur, prev ImportSpec, flavour string) {
	mode := r.Intn(NumTargetModes)
	if len(importers) > 0 && r.Chance(1, 3) {
		// no importer file: the targets are files that import others (`--path a.proto`, a.proto
		// imports b.proto); unreachable files are not in the image on either side
		var t []string
		for _, f := range importers {
			if r.Bool() {
				t = append(t, f)
			}
		}
		if len(t) == 0 {
			t = []string{hx.Pick(r, importers)}
		}
		spec := ImportSpec{Mode: mode, Targets: t}
		return spec, spec, "natural"
	}
	isMust := map[string]bool{}
	for _, m := range must {
		isMust[m] = true
	}
	pick := func() []string {
		var out []string
		for _, f := range files {
			if !isMust[f] && r.Chance(1, 3) {
				out = append(out, f)
			}
		}
		return out
	}
	t := pick()
	cur = ImportSpec{Mode: mode, Targets: t, Importer: true}
	prev = ImportSpec{Mode: mode, Targets: t, Importer: true}
	all := append([]string(nil), files...)
	switch r.Intn(6) {
	case 0, 1, 2:
		flavour = "both"
	case 3:
		flavour = "cur-only"
		prev.Targets = all
	case 4:
		flavour = "prev-only"
		cur.Targets = all
	default:
		flavour = "differ"
		prev.Targets = pick()
		if r.Bool() {
			prev.Mode = r.Intn(NumTargetModes)
		}
	}
	return cur, prev, flavour
}

// RuleCats caches BreakingRuleIDs per version name.
var RuleCats = func() map[string]map[string][]string {
	m := map[string]map[string][]string{}
	for _, v := range Versions {
		m[v.Name] = BreakingRuleIDs(v.Spec)
	}
	return m
}()

func ActiveIn(ver, rule, cat string) bool {
	for _, c := range RuleCats[ver][rule] {
		if c == cat {
			return true
		}
	}
	return false
}

// IsBreakingErr tells a Client.Breaking failure from other errors.
func IsBreakingErr(err error) bool {
	var e *ErrBreaking
	return errors.As(err, &e)
}

func ErrClass(prop string, err error) string {
	if strings.Contains(err.Error(), "panic:") {
		return prop + "-panic"
	}
	return prop + "-error"
}

// AnnStrings renders annotations for a failure report.
func AnnStrings(as []Ann) []string {
	out := make([]string, 0, len(as))
	for _, a := range as {
		out = append(out, fmt.Sprintf("%s file=%q path=%s: %s", a.Rule, a.File, a.Path, a.Message))
	}
	sort.Strings(out)
	return out
}

// AnnBucket is the histogram bucket of an annotation count.
func AnnBucket(n int) string {
	switch {
	case n == 0:
		return "0"
	case n <= 2:
		return "1-2"
	case n <= 5:
		return "3-5"
	case n <= 10:
		return "6-10"
	}
	return "11+"
}

// CountSchema records the shape of a schema in the distribution.
func CountSchema(res *Result, s *Schema) {
	res.Count(fmt.Sprintf("files:%d", len(s.Files)))
	for _, f := range s.Files {
		syn := f.Syntax
		if syn == "" {
			syn = "unspecified"
		}
		res.Count("syntax:" + syn)
		if f.Package == "" {
			res.Count("file:no-package")
		}
	}
	res.Count(fmt.Sprintf("messages:%s", AnnBucket(len(s.Msgs()))))
}

func dumpSources(dir string, c Case) {
	for sub, src := range map[string]map[string]string{"cur": c.Cur, "prev": c.Prev} {
		for name, text := range src {
			p := filepath.Join(dir, sub, name)
			_ = os.MkdirAll(filepath.Dir(p), 0o755)
			_ = os.WriteFile(p, []byte(text), 0o644)
		}
	}
}
